"""C09, non-primitive ops: the bus audit oracle on the real AIRs (harness `busaudit`, harness/src/c09n*.rs) and the
correspondence of the extended Lean role model (Model/Roles.lean `genPrepN`, driver p3r_driver_c09n) with the
audit's per-slot creator / sent / read counts. Called by checks.roles_run; returns (violations, coverage-part)."""
import json, os


def _lines(p):
    with open(p) as fh:
        return [l.rstrip() for l in fh]


def _blocks(lines):
    out, cur = [], []
    for l in lines:
        if l.startswith("circ ") and cur:
            out.append(cur); cur = []
        cur.append(l)
    if cur:
        out.append(cur)
    return out


def run(ctx, replay_obj=None):
    tier, seed, work, root = ctx["tier"], ctx["seed"], ctx["work"], ctx["root"]
    out = f"{work}/busaudit"
    if replay_obj is not None:
        os.makedirs(f"{work}/busaudit_replay", exist_ok=True)
        json.dump(replay_obj, open(f"{work}/busaudit_replay/r.json", "w"))
        # the pinned programs still run (they are part of the binary); the replayed circuit is proved as well
        cmd = [ctx["harness"], "busaudit", "--seed", str(seed), "--programs", "0", "--prove", "1000",
               "--corpus", f"{work}/busaudit_replay", "--out", out]
    elif tier == "quick":
        cmd = [ctx["harness"], "busaudit", "--seed", str(seed), "--programs", "6000", "--prove", "60", "--max-calls", "24",
               "--corpus", f"{root}/corpus/c09n", "--out", out]
    else:
        cmd = [ctx["harness"], "busaudit", "--seed", str(seed), "--programs", "60000", "--prove", "300", "--max-calls", "40",
               "--corpus", f"{root}/corpus/c09n", "--out", out]
    rc, o = ctx["sh"](cmd, timeout=7200)
    if rc != 0:
        return ([{"class": "harness-crash", "what": f"harness busaudit exited {rc}: {o[-300:]}", "replay": {"cmd": cmd}, "no_input": True}], {})
    rep = json.load(open(f"{out}/busaudit.report.json"))
    violations = []
    for v in rep["violations"]:
        violations.append({"class": v["class"],
                           "what": f"{v['kind']} {json.dumps(v.get('detail', {}))[:220]}",
                           "replay": v["replay"]})
    # correspondence: the Lean role model on the compiled op list vs the audit's per-slot counts
    blocks = disagreements = 0
    driver = os.path.join(ctx["driver_dir"], "p3r_driver_c09n")
    if os.path.exists(driver):
        with open(f"{out}/busaudit.cases") as fin:
            rc, mo = ctx["sh"]([driver], stdin=fin, timeout=3600)
        with open(f"{out}/busaudit.model", "w") as fh:
            fh.write(mo)
        ib, mb, cb = _blocks(_lines(f"{out}/busaudit.impl")), _blocks(_lines(f"{out}/busaudit.model")), _blocks(_lines(f"{out}/busaudit.cases"))
        blocks = len(ib)
        shown = 0
        for k in range(max(len(ib), len(mb))):
            a = ib[k] if k < len(ib) else []
            b = mb[k] if k < len(mb) else []
            if a != b:
                disagreements += 1
                if shown < 3:
                    shown += 1
                    first = next(((x, y) for x, y in zip(a + [None] * len(b), b + [None] * len(a)) if x != y), None)
                    violations.append({"class": "model-disagreement",
                                       "what": f"correspondence role model with non-primitive rows (Model/Roles genPrepN) vs bus audit of the real AIRs no longer checks: impl={first[0]!r} model={first[1]!r}",
                                       "replay": {"correspondence": "per-slot creators / sent multiplicity / reads: real AIR interactions vs lean/P3R/Model/Roles.lean genPrepN",
                                                  "case_block": cb[k][:80] if k < len(cb) else [], "first_difference": first},
                                       "no_input": True})
    cov = {"busaudit_programs": rep["programs"], "busaudit_distinct": rep["distinct_programs"], "busaudit_proved": rep["proved"],
           "busaudit_hist": rep["hist"], "busaudit_class_counts": rep["class_counts"], "busaudit_samples": rep["samples"][:2],
           "busaudit_prove_notes": rep.get("prove_notes", [])[:6],
           "busaudit_blocks_compared_with_model": blocks, "busaudit_model_disagreements": disagreements}
    return violations, cov
