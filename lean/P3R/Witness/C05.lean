/-
C05 — non-vacuity of the hypotheses of `P3R.C05.challenger_sim` / `transcript_eq`, and a
concrete run showing that the antecedent "`Duplex.run … = some …`" is satisfiable for every
kind of operation. (The property holds on the current tree, so there is no negation witness.)
-/
import P3R.Props.C05
import Mathlib.Data.ZMod.Basic

namespace P3R.C05W
open P3R.Duplex P3R.CC P3R.C05

/-- A width-16 / rate-8 / degree-4 extension-path configuration over `ZMod 5`. -/
def cfgExt (alu : Bool) : Cfg (ZMod 5) :=
  { width := 16, rate := 8, D := 4, base := false, alu := alu, W := 2, bfBits := 3 }

/-- A width-16 / rate-8 compact base-path configuration over `ZMod 5`. -/
def cfgBase : Cfg (ZMod 5) :=
  { width := 16, rate := 8, D := 1, base := true, alu := false, W := 0, bfBits := 3 }

/-- `Hyp` is satisfiable: a length-preserving "permutation" (rotation) on both paths. -/
example (alu : Bool) : Hyp (cfgExt alu) List.reverse :=
  { D_pos := by simp [cfgExt], rate_pos := by simp [cfgExt], rate_lt := by simp [cfgExt]
    dvd := fun _ => ⟨4, rfl⟩, perm_len := fun l h => by simpa using h }

example : Hyp cfgBase List.reverse :=
  { D_pos := by decide, rate_pos := by decide, rate_lt := by decide
    dvd := fun h => by simp [cfgBase] at h, perm_len := fun l h => by simpa using h }

/-- `CanonHyp` is satisfiable: `ZMod.val` with `5 ≤ 2^3`. -/
example (alu : Bool) : CanonHyp (cfgExt alu) (ZMod.val : ZMod 5 → Nat) 5 :=
  { cast := fun x => ZMod.natCast_zmod_val x
    lt := fun x => Nat.lt_of_lt_of_le (ZMod.val_lt x) (by simp [cfgExt])
    order_le := by simp [cfgExt] }

/-- The antecedent of `transcript_eq` is satisfiable on a history that uses every operation. -/
def hist : List (Op (ZMod 5)) :=
  [.observe 3, .observeExt [1, 2, 3, 4], .sample, .sampleExt, .sampleBits 2, .checkPow 0 1,
   .checkPow 1 2, .clear, .sample]

example : (Duplex.run List.reverse 16 8 4 (ZMod.val : ZMod 5 → Nat) 5 hist (Duplex.St.init 16)).isSome = true := by
  decide

example : ∀ op ∈ hist, OpWF 4 op := by
  intro op h
  simp [hist] at h
  rcases h with rfl | rfl | rfl | rfl | rfl | rfl | rfl | rfl | rfl <;> simp [OpWF]

end P3R.C05W
