/-
C09 — the optimiser and the def-before-use certificate.

`P3R.C09C.lower_defuse` is total; what was left per program was `optKeeps` (the optimised list keeps
the certificate of the lowered list), which is false for the plain certificate
(`Witness.C09Compile.tbl_dedup_breaks`: a removed commutative duplicate was the only row that had a
slot in its `b` column; the kept row has it in `a`).  This file carries a *hint-aware* strengthening
of the strong certificate through `dedup`:

* `hduFrom P H` — `sduFrom` (the `b` slot or the `out` slot of every ALU row is the `out` / `b` of an
  earlier row or a private input) plus: the `a` operand of every `Add` / `Mul` row (the two kinds
  whose de-duplication key is commutative) is touched earlier, a private input, or a member of the
  set `H` (slots that an `a` request creates: hint outputs) — and such an `a` counts as touched;
* `hdu_defUse` — it implies the scan-level certificate `defUseFrom` for every hint set that contains `H`;
* `dedup_preserves_hdu`, `dedup_preserves_defuse` — TOTAL at the list level: for every op list,
  if the list carries `hduFrom P H` then the de-duplicated list (after the final rewrite `ρ`) carries
  `hduFrom (ρ P) (ρ H)`.  The `b` of a removed duplicate becomes the `a` or `b` of the kept row
  (`key_eq`), and the `a` of a kept `Add` / `Mul` row is touched, private or in `H` (`hdu_a_touched`).
  The invariant is carried through the fold in the style of `C03.step_claim` (`ClaimH`: whatever the
  final map turns out to be).
* `lower_hdu`, `compile_defuse_of_fuseKeeps`, `compiled_bus_balanced_of_fuseKeeps` — see the sections.
-/
import P3R.Props.C09Compile
import P3R.Lemmas.Resolve

namespace P3R.C09O
open P3R P3R.C09C

variable {K : Type}

/-! ### The hint-aware strong certificate -/

/-- Kinds with a commutative de-duplication key. -/
def isAM : AluKind → Bool
  | .add | .mul => true
  | _ => false

/-- Slots a row certainly creates: `out`, the ALU `b`, and an `Add` / `Mul` `a` operand in `H`. -/
def touchH (H : List Nat) : Op K → List Nat
  | .const out _ => [out]
  | .pub out _ => [out]
  | .alu k a b _ out _ => out :: b :: (if isAM k && H.contains a then [a] else [])
  | _ => []

def rowH (P H T : List Nat) : Op K → Bool
  | .alu k a b _ out _ =>
    (T.contains b || P.contains b || T.contains out || P.contains out) &&
    (!isAM k || T.contains a || P.contains a || H.contains a)
  | _ => true

def hduFrom (P H : List Nat) : List Nat → List (Op K) → Bool
  | _, [] => true
  | T, op :: ops => rowH P H T op && hduFrom P H (touchH H op ++ T) ops

def accH (H T : List Nat) (l : List (Op K)) : List Nat := l.foldl (fun T op => touchH H op ++ T) T

theorem mem_accH (H : List Nat) (l : List (Op K)) (T : List Nat) (x : Nat) :
    x ∈ accH H T l ↔ x ∈ T ∨ ∃ op ∈ l, x ∈ touchH H op := by
  induction l generalizing T with
  | nil => simp [accH]
  | cons op l ih =>
    simp only [accH, List.foldl_cons] at ih ⊢
    rw [ih]
    simp only [List.mem_append, List.mem_cons, exists_eq_or_imp]
    tauto

theorem accH_append (H T : List Nat) (l1 l2 : List (Op K)) :
    accH H T (l1 ++ l2) = accH H (accH H T l1) l2 := by
  simp [accH, List.foldl_append]

theorem hduFrom_append (P H : List Nat) (l1 l2 : List (Op K)) (T : List Nat) :
    hduFrom P H T (l1 ++ l2) = (hduFrom P H T l1 && hduFrom P H (accH H T l1) l2) := by
  induction l1 generalizing T with
  | nil => simp [hduFrom, accH]
  | cons op l1 ih =>
    simp only [List.cons_append, hduFrom, ih, accH, List.foldl_cons, Bool.and_assoc]

theorem rowH_mono (P H T T2 : List Nat) (op : Op K) (hT : ∀ x ∈ T, x ∈ T2 ∨ x ∈ P)
    (h : rowH P H T op = true) : rowH P H T2 op = true := by
  cases op with
  | alu k a b c out io =>
    simp only [rowH, Bool.and_eq_true, Bool.or_eq_true, List.contains_iff_mem, Bool.not_eq_true'] at h ⊢
    obtain ⟨h1, h2⟩ := h
    constructor
    · rcases h1 with ((h1 | h1) | h1) | h1
      · rcases hT _ h1 with h | h
        · exact Or.inl (Or.inl (Or.inl h))
        · exact Or.inl (Or.inl (Or.inr h))
      · exact Or.inl (Or.inl (Or.inr h1))
      · rcases hT _ h1 with h | h
        · exact Or.inl (Or.inr h)
        · exact Or.inr h
      · exact Or.inr h1
    · rcases h2 with ((h2 | h2) | h2) | h2
      · exact Or.inl (Or.inl (Or.inl h2))
      · rcases hT _ h2 with h | h
        · exact Or.inl (Or.inl (Or.inr h))
        · exact Or.inl (Or.inr h)
      · exact Or.inl (Or.inr h2)
      · exact Or.inr h2
  | _ => rfl

/-- The strengthened certificate implies the scan-level one for every hint set containing `H`
(up to private inputs). -/
theorem hdu_defUse (P H hints : List Nat) (hH : ∀ x ∈ H, x ∈ hints ∨ x ∈ P) (l : List (Op K))
    (T T2 : List Nat) (hT : ∀ x ∈ T, x ∈ T2 ∨ x ∈ P) (h : hduFrom P H T l = true) :
    defUseFrom P hints T2 l = true := by
  induction l generalizing T T2 with
  | nil => rfl
  | cons op l ih =>
    simp only [hduFrom, Bool.and_eq_true] at h
    simp only [defUseFrom, Bool.and_eq_true]
    refine ⟨?_, ih _ _ ?_ h.2⟩
    · cases op with
      | alu k a b c out io =>
        have h1 := h.1
        simp only [rowH, Bool.and_eq_true, Bool.or_eq_true, List.contains_iff_mem] at h1
        simp only [rowOk, Bool.or_eq_true, List.contains_iff_mem]
        rcases h1.1 with ((h1 | h1) | h1) | h1
        · rcases hT _ h1 with h | h
          · exact Or.inl (Or.inl (Or.inl (Or.inl (Or.inl (Or.inl (Or.inl h))))))
          · exact Or.inl (Or.inl (Or.inl (Or.inl (Or.inl (Or.inl (Or.inr h))))))
        · exact Or.inl (Or.inl (Or.inl (Or.inl (Or.inl (Or.inl (Or.inr h1))))))
        · rcases hT _ h1 with h | h
          · exact Or.inl (Or.inl (Or.inr h))
          · exact Or.inr h
        · exact Or.inr h1
      | _ => rfl
    · intro x hx
      cases op with
      | const out v =>
        simp only [touchH, List.cons_append, List.nil_append, List.mem_cons] at hx
        simp only [touch, List.mem_cons]
        rcases hx with hx | hx
        · exact Or.inl (Or.inl hx)
        · exact (hT x hx).imp Or.inr id
      | pub out v =>
        simp only [touchH, List.cons_append, List.nil_append, List.mem_cons] at hx
        simp only [touch, List.mem_cons]
        rcases hx with hx | hx
        · exact Or.inl (Or.inl hx)
        · exact (hT x hx).imp Or.inr id
      | alu k a b c out io =>
        simp only [touchH, List.cons_append, List.mem_cons, List.mem_append] at hx
        simp only [touch, List.mem_cons, List.mem_append, List.mem_filter, Bool.or_eq_true,
          List.contains_iff_mem]
        rcases hx with hx | hx | hx | hx
        · exact Or.inl (Or.inl hx)
        · exact Or.inl (Or.inr (Or.inl hx))
        · split at hx
          · rename_i hc
            simp only [Bool.and_eq_true, List.contains_iff_mem] at hc
            have hxa : x = a := by simpa using hx
            subst hxa
            rcases hH x hc.2 with h' | h'
            · exact Or.inl (Or.inr (Or.inr (Or.inl ⟨Or.inl rfl, Or.inr h'⟩)))
            · exact Or.inr h'
          · cases hx
        · rcases hT x hx with h' | h'
          · exact Or.inl (Or.inr (Or.inr (Or.inr h')))
          · exact Or.inr h'
      | hint ins outs k => simpa [touchH, touch] using hT x (by simpa [touchH] using hx)
      | npo ins outs id k => simpa [touchH, touch] using hT x (by simpa [touchH] using hx)

/-- The `a` operand of an `Add` / `Mul` row of a certified list is touched somewhere in the list
(before the row, or by the row itself when it is in `H`) or a private input. -/
theorem hdu_a_touched (P H : List Nat) (l : List (Op K)) (T : List Nat) (h : hduFrom P H T l = true)
    {k : AluKind} {a b : Nat} {c : Option Nat} {out : Nat} {io : Option Nat}
    (hm : (.alu k a b c out io : Op K) ∈ l) (hk : isAM k = true) : a ∈ accH H T l ∨ a ∈ P := by
  induction l generalizing T with
  | nil => cases hm
  | cons op l ih =>
    simp only [hduFrom, Bool.and_eq_true] at h
    rcases List.mem_cons.mp hm with rfl | hm
    · have h1 := h.1
      simp only [rowH, hk, Bool.not_true, Bool.false_or, Bool.and_eq_true, Bool.or_eq_true,
        List.contains_iff_mem] at h1
      rcases h1.2 with (h2 | h2) | h2
      · exact Or.inl ((mem_accH H _ T a).mpr (Or.inl h2))
      · exact Or.inr h2
      · refine Or.inl ((mem_accH H _ T a).mpr (Or.inr ⟨_, List.mem_cons_self, ?_⟩))
        simp [touchH, hk, h2]
    · have := ih _ h.2 hm
      simpa [accH] using this

/-! ### Rewriting -/

theorem rewrite_comp {a b : Rewrite} (ha : Terminates a) (hext : Ext a b) (op : Op K) :
    (op.rewrite a).rewrite b = op.rewrite b := by
  have e : ∀ x, resolve b (resolve a x) = resolve b x := hext.resolve_comp ha
  have eo : ∀ c : Option Nat, (c.map (resolve a)).map (resolve b) = c.map (resolve b) := by
    intro c; cases c <;> simp [e]
  have el : ∀ c : List Nat, (c.map (resolve a)).map (resolve b) = c.map (resolve b) := by
    intro c; simp [e]
  cases op with
  | const out v => simp [P3R.Op.rewrite, e]
  | pub out v => simp [P3R.Op.rewrite, e]
  | alu k x y c out io => simp only [P3R.Op.rewrite, e, eo]
  | hint ins outs k => simp only [P3R.Op.rewrite, el]
  | npo ins outs id k =>
    simp only [P3R.Op.rewrite, List.map_map]
    congr 1
    · apply List.map_congr_left; intro g _; simp [e]
    · apply List.map_congr_left; intro g _; simp [e]

theorem touchH_map (rw : Rewrite) (H : List Nat) (op : Op K) (x : Nat) (hx : x ∈ touchH H op) :
    resolve rw x ∈ touchH (H.map (resolve rw)) (op.rewrite rw) := by
  cases op with
  | const out v => simp only [touchH, List.mem_singleton] at hx; subst hx; simp [P3R.Op.rewrite, touchH]
  | pub out v => simp only [touchH, List.mem_singleton] at hx; subst hx; simp [P3R.Op.rewrite, touchH]
  | alu k a b c out io =>
    simp only [touchH, List.mem_cons] at hx
    simp only [P3R.Op.rewrite, touchH, List.mem_cons]
    rcases hx with hx | hx | hx
    · exact Or.inl (congrArg _ hx)
    · exact Or.inr (Or.inl (congrArg _ hx))
    · split at hx
      · rename_i hc
        simp only [Bool.and_eq_true, List.contains_iff_mem] at hc
        have hxa : x = a := by simpa using hx
        subst hxa
        have : (isAM k && (H.map (resolve rw)).contains (resolve rw x)) = true := by
          simp only [Bool.and_eq_true, List.contains_iff_mem]
          exact ⟨hc.1, List.mem_map.mpr ⟨x, hc.2, rfl⟩⟩
        rw [if_pos this]
        exact Or.inr (Or.inr (by simp))
      · cases hx
  | hint ins outs k => simp [touchH] at hx
  | npo ins outs id k => simp [touchH] at hx

theorem rowH_map (rw : Rewrite) (P H T T' : List Nat) (op : Op K)
    (hT : ∀ x ∈ T, resolve rw x ∈ T' ∨ resolve rw x ∈ P.map (resolve rw))
    (h : rowH P H T op = true) :
    rowH (P.map (resolve rw)) (H.map (resolve rw)) T' (op.rewrite rw) = true := by
  cases op with
  | alu k a b c out io =>
    simp only [rowH, Bool.and_eq_true, Bool.or_eq_true, List.contains_iff_mem, Bool.not_eq_true'] at h
    simp only [P3R.Op.rewrite, rowH, Bool.and_eq_true, Bool.or_eq_true, List.contains_iff_mem,
      Bool.not_eq_true']
    have mp : ∀ {x}, x ∈ P → resolve rw x ∈ P.map (resolve rw) := fun hx => List.mem_map.mpr ⟨_, hx, rfl⟩
    have mh : ∀ {x}, x ∈ H → resolve rw x ∈ H.map (resolve rw) := fun hx => List.mem_map.mpr ⟨_, hx, rfl⟩
    obtain ⟨h1, h2⟩ := h
    constructor
    · rcases h1 with ((h1 | h1) | h1) | h1
      · rcases hT _ h1 with h | h
        · exact Or.inl (Or.inl (Or.inl h))
        · exact Or.inl (Or.inl (Or.inr h))
      · exact Or.inl (Or.inl (Or.inr (mp h1)))
      · rcases hT _ h1 with h | h
        · exact Or.inl (Or.inr h)
        · exact Or.inr h
      · exact Or.inr (mp h1)
    · rcases h2 with ((h2 | h2) | h2) | h2
      · exact Or.inl (Or.inl (Or.inl h2))
      · rcases hT _ h2 with h | h
        · exact Or.inl (Or.inl (Or.inr h))
        · exact Or.inl (Or.inr h)
      · exact Or.inl (Or.inr (mp h2))
      · exact Or.inr (mh h2)
  | const out v => rfl
  | pub out v => rfl
  | hint ins outs k => rfl
  | npo ins outs id k => rfl

/-! ### The de-duplication key -/

theorem minmax_eq {a b a' b' : Nat} (h1 : min a b = min a' b') (h2 : max a b = max a' b') :
    (a = a' ∧ b = b') ∨ (a = b' ∧ b = a') := by omega

theorem key_eq {k k' : AluKind} {a b a' b' : Nat} {c io c' io' : Option Nat}
    (h : aluKey k a b c io = aluKey k' a' b' c' io') :
    k = k' ∧ ((a = a' ∧ b = b') ∨ (isAM k = true ∧ a = b' ∧ b = a')) := by
  cases k <;> cases k' <;> simp only [aluKey, Prod.mk.injEq, reduceCtorEq, false_and] at h
  · exact ⟨rfl, (minmax_eq h.2.1 h.2.2.1).imp id (fun h => ⟨rfl, h⟩)⟩
  · exact ⟨rfl, (minmax_eq h.2.1 h.2.2.1).imp id (fun h => ⟨rfl, h⟩)⟩
  · exact ⟨rfl, Or.inl ⟨h.2.1, h.2.2.1⟩⟩
  · exact ⟨rfl, Or.inl ⟨h.2.1, h.2.2.1⟩⟩
  · exact ⟨rfl, Or.inl ⟨h.2.1, h.2.2.1⟩⟩

theorem rewrite_alu_inv {rw : Rewrite} {op : Op K} {k a b c out io}
    (h : op.rewrite rw = .alu k a b c out io) :
    ∃ a0 b0 c0 out0 io0, op = .alu k a0 b0 c0 out0 io0 ∧ a = resolve rw a0 ∧ b = resolve rw b0 ∧
      c = c0.map (resolve rw) ∧ out = resolve rw out0 ∧ io = io0.map (resolve rw) := by
  cases op <;> simp [P3R.Op.rewrite] at h
  case alu k' a' b' c' out' io' =>
    obtain ⟨rfl, rfl, rfl, rfl, rfl, rfl⟩ := h
    exact ⟨a', b', c', out', io', rfl, rfl, rfl, rfl, rfl, rfl⟩

theorem map_resolve_idem {rw : Rewrite} (h : Terminates rw) (c : Option Nat) :
    (c.map (resolve rw)).map (resolve rw) = c.map (resolve rw) := by
  cases c <;> simp [resolve_idem h]

/-! ### The invariant of `dedup`'s fold -/

/-- Every key in `seen` belongs to a kept ALU op with exactly that key and that output
(`C03.SeenInv` without the well-formedness part; no ring structure needed). -/
def SeenH (s : DedupState K) : Prop :=
  ∀ key cano, s.seen.lookup key = some cano →
    ∃ k a b c io, (Op.alu k a b c cano io : Op K) ∈ s.out.toList ∧ aluKey k a b c io = key

/-- What has been established after processing the prefix `Pfx`, whatever the final map `rwF`
turns out to be: the kept ops, rewritten by it, are certified, and every slot the prefix touches
is, after the rewrite, touched by the kept ops or a private input. -/
def ClaimH (P H : List Nat) (s : DedupState K) (Pfx : List (Op K)) : Prop :=
  ∀ rwF, Ext s.rw rwF →
    hduFrom (P.map (resolve rwF)) (H.map (resolve rwF)) [] (s.out.toList.map (Op.rewrite rwF)) = true ∧
    ∀ x ∈ accH H [] Pfx,
      resolve rwF x ∈ accH (H.map (resolve rwF)) [] (s.out.toList.map (Op.rewrite rwF)) ∨
      resolve rwF x ∈ P.map (resolve rwF)

theorem kept_claim (P H : List Nat) (s s' : DedupState K) (Pfx : List (Op K)) (op : Op K)
    (ht : Terminates s.rw) (hc : ClaimH P H s Pfx) (hrow : rowH P H (accH H [] Pfx) op = true)
    (hrw : s'.rw = s.rw) (hout : s'.out = s.out.push (op.rewrite s.rw)) :
    ClaimH P H s' (Pfx ++ [op]) := by
  intro rwF hext
  rw [hrw] at hext
  obtain ⟨h1, h2⟩ := hc rwF hext
  have hl : s'.out.toList.map (Op.rewrite rwF) =
      s.out.toList.map (Op.rewrite rwF) ++ [op.rewrite rwF] := by
    rw [hout, Array.toList_push, List.map_append, List.map_singleton, rewrite_comp ht hext]
  rw [hl]
  refine ⟨?_, ?_⟩
  · rw [hduFrom_append, h1]
    simp only [Bool.true_and, hduFrom, Bool.and_true]
    exact rowH_map rwF P H _ _ op h2 hrow
  · intro x hx
    rw [accH_append] at hx ⊢
    rcases (mem_accH H [op] _ x).mp hx with hx1 | ⟨o, ho, hx2⟩
    · rcases h2 x hx1 with h | h
      · exact Or.inl ((mem_accH _ _ _ _).mpr (Or.inl h))
      · exact Or.inr h
    · have ho' : o = op := by simpa using ho
      rw [ho'] at hx2
      exact Or.inl ((mem_accH _ _ _ _).mpr (Or.inr ⟨_, List.mem_singleton.mpr rfl, touchH_map rwF H op x hx2⟩))

theorem seen_push (s : DedupState K) (op : Op K) (hs : SeenH s) :
    SeenH { s with out := s.out.push op } := by
  intro key cano hl
  obtain ⟨k, a, b, c, io, hm, hk⟩ := hs key cano hl
  exact ⟨k, a, b, c, io, by simp [hm], hk⟩

theorem step_claimH (P H : List Nat) (s : DedupState K) (Pfx : List (Op K)) (op : Op K)
    (ht : Terminates s.rw) (hs : SeenH s) (hc : ClaimH P H s Pfx)
    (hrow : rowH P H (accH H [] Pfx) op = true) :
    Terminates (s.step op).rw ∧ SeenH (s.step op) ∧ ClaimH P H (s.step op) (Pfx ++ [op]) := by
  unfold DedupState.step
  cases hop : op.rewrite s.rw with
  | const out v =>
    exact ⟨ht, seen_push s _ hs, kept_claim P H s _ Pfx op ht hc hrow rfl (by rw [hop])⟩
  | pub out pos =>
    exact ⟨ht, seen_push s _ hs, kept_claim P H s _ Pfx op ht hc hrow rfl (by rw [hop])⟩
  | hint ins outs kd =>
    exact ⟨ht, seen_push s _ hs, kept_claim P H s _ Pfx op ht hc hrow rfl (by rw [hop])⟩
  | npo ins outs id kd =>
    exact ⟨ht, seen_push s _ hs, kept_claim P H s _ Pfx op ht hc hrow rfl (by rw [hop])⟩
  | alu k a b c out io =>
    obtain ⟨a0, b0, c0, out0, io0, rfl, rfl, rfl, rfl, rfl, rfl⟩ := rewrite_alu_inv hop
    have hkey : aluKey k (resolve s.rw (resolve s.rw a0)) (resolve s.rw (resolve s.rw b0))
        ((c0.map (resolve s.rw)).map (resolve s.rw)) ((io0.map (resolve s.rw)).map (resolve s.rw)) =
        aluKey k (resolve s.rw a0) (resolve s.rw b0) (c0.map (resolve s.rw)) (io0.map (resolve s.rw)) := by
      rw [resolve_idem ht, resolve_idem ht, map_resolve_idem ht, map_resolve_idem ht]
    simp only []
    rw [hkey]
    split
    · -- duplicate: dropped
      rename_i cano hl
      obtain ⟨k', a', b', c', io', hm, hk⟩ := hs _ cano hl
      obtain ⟨hkk, hab⟩ := key_eq hk
      subst hkk
      refine ⟨?_, ?_, ?_⟩
      · split
        · rename_i hne
          exact terminates_cons ht (resolve_terminal ht out0) (resolve_terminal ht cano) hne
        · exact ht
      · split <;> exact hs
      · intro rwF hext
        have hext' : Ext s.rw rwF := by
          split at hext
          · rename_i hne
            exact (Ext.step (Ext.refl _) (resolve_terminal ht out0) (resolve_terminal ht cano) hne).trans hext
          · exact hext
        have hOut : (if resolve s.rw out0 ≠ resolve s.rw cano then
            ({ s with rw := (resolve s.rw out0, resolve s.rw cano) :: s.rw } : DedupState K) else s).out = s.out := by
          split <;> rfl
        rw [hOut]
        obtain ⟨h1, h2⟩ := hc rwF hext'
        refine ⟨h1, ?_⟩
        -- the duplicate's output resolves to the kept output
        have hout : resolve rwF out0 = resolve rwF cano := by
          by_cases hne : resolve s.rw out0 ≠ resolve s.rw cano
          · rw [if_pos hne] at hext
            have hS : Terminates ((resolve s.rw out0, resolve s.rw cano) :: s.rw) :=
              terminates_cons ht (resolve_terminal ht out0) (resolve_terminal ht cano) hne
            have e1 := hext.resolve_comp hS (resolve s.rw out0)
            have e2 := hext.resolve_comp hS cano
            rw [resolve_cons_eq ht (resolve_terminal ht out0) (resolve_terminal ht cano) hne,
              resolve_idem ht] at e1
            rw [resolve_cons_eq ht (resolve_terminal ht out0) (resolve_terminal ht cano) hne] at e2
            simp only [if_true] at e1
            have hne' : ¬ resolve s.rw cano = resolve s.rw out0 := fun h => hne h.symm
            simp only [hne', if_false] at e2
            rw [← hext'.resolve_comp ht out0, ← e1, e2]
          · have heq : resolve s.rw out0 = resolve s.rw cano := not_not.mp hne
            rw [← hext'.resolve_comp ht out0, heq, hext'.resolve_comp ht]
        -- the kept row, after the final rewrite
        have hmF : (Op.alu k' (resolve rwF a') (resolve rwF b') (c'.map (resolve rwF)) (resolve rwF cano)
            (io'.map (resolve rwF)) : Op K) ∈ s.out.toList.map (Op.rewrite rwF) :=
          List.mem_map.mpr ⟨_, hm, rfl⟩
        have tOut : resolve rwF cano ∈ accH (H.map (resolve rwF)) [] (s.out.toList.map (Op.rewrite rwF)) :=
          (mem_accH _ _ _ _).mpr (Or.inr ⟨_, hmF, by simp [touchH]⟩)
        have tB : resolve rwF b' ∈ accH (H.map (resolve rwF)) [] (s.out.toList.map (Op.rewrite rwF)) :=
          (mem_accH _ _ _ _).mpr (Or.inr ⟨_, hmF, by simp [touchH]⟩)
        have tA : isAM k' = true →
            resolve rwF a' ∈ accH (H.map (resolve rwF)) [] (s.out.toList.map (Op.rewrite rwF)) ∨
            resolve rwF a' ∈ P.map (resolve rwF) :=
          fun hk' => hdu_a_touched _ _ _ [] h1 hmF hk'
        intro x hx
        rw [accH_append] at hx
        rcases (mem_accH H [_] _ x).mp hx with hx1 | ⟨o, ho, hx2⟩
        · exact h2 x hx1
        · have ho' : o = Op.alu k' a0 b0 c0 out0 io0 := by simpa using ho
          rw [ho'] at hx2
          clear hx
          simp only [touchH, List.mem_cons] at hx2
          rcases hx2 with hx | hx | hx
          · subst hx; rw [hout]; exact Or.inl tOut
          · subst hx
            rw [← hext'.resolve_comp ht x]
            rcases hab with ⟨_, hb⟩ | ⟨hk', hb, _⟩
            · rw [← hb]; exact Or.inl tB
            · rw [← hb]; exact tA hk'
          · split at hx
            · rename_i hcnd
              simp only [Bool.and_eq_true] at hcnd
              have hxa : x = a0 := by simpa using hx
              subst hxa
              rw [← hext'.resolve_comp ht x]
              rcases hab with ⟨ha, _⟩ | ⟨_, _, ha⟩
              · rw [← ha]; exact tA hcnd.1
              · rw [← ha]; exact Or.inl tB
            · cases hx
    · -- new key: kept
      rename_i hl
      refine ⟨ht, ?_, ?_⟩
      · intro key cano hlk
        simp only [List.lookup] at hlk
        split at hlk
        · cases hlk
          rename_i heq
          have : key = aluKey k (resolve s.rw a0) (resolve s.rw b0) (c0.map (resolve s.rw)) (io0.map (resolve s.rw)) := by
            simpa using heq
          exact ⟨k, _, _, _, _, by simp, this.symm⟩
        · obtain ⟨k2, a2, b2, c2, io2, hm, hk⟩ := hs key cano hlk
          exact ⟨k2, a2, b2, c2, io2, by simp [hm], hk⟩
      · exact kept_claim P H s _ Pfx _ ht hc hrow rfl (by simp [P3R.Op.rewrite])

theorem fold_claimH (P H : List Nat) (ops : List (Op K)) :
    ∀ (s : DedupState K) (Pfx : List (Op K)), Terminates s.rw → SeenH s → ClaimH P H s Pfx →
      hduFrom P H (accH H [] Pfx) ops = true →
      Terminates (ops.foldl DedupState.step s).rw ∧ ClaimH P H (ops.foldl DedupState.step s) (Pfx ++ ops) := by
  induction ops with
  | nil => intro s Pfx ht _ hc _; simpa using ⟨ht, hc⟩
  | cons op ops ih =>
    intro s Pfx ht hs hc hh
    simp only [hduFrom, Bool.and_eq_true] at hh
    obtain ⟨ht', hs', hc'⟩ := step_claimH P H s Pfx op ht hs hc hh.1
    have hacc : accH H [] (Pfx ++ [op]) = touchH H op ++ accH H [] Pfx := by
      simp [accH, List.foldl_append]
    have := ih (s.step op) (Pfx ++ [op]) ht' hs' hc' (by rw [hacc]; exact hh.2)
    simpa [List.append_assoc] using this

/-- **C09 / de-duplication keeps the hint-aware certificate — total, list level.** For every op
list and every `P`, `H`: if the list is certified then the de-duplicated list (kept ops under the
final rewrite `ρ`) is certified with respect to `ρ P`, `ρ H`. -/
theorem dedup_preserves_hdu (P H : List Nat) (ops : Array (Op K))
    (h : hduFrom P H [] ops.toList = true) :
    hduFrom (P.map (resolve (dedup ops).2)) (H.map (resolve (dedup ops).2)) [] (dedup ops).1.toList = true := by
  unfold dedup
  simp only
  rw [← Array.foldl_toList]
  have hinit : ClaimH P H ({ rw := [], seen := [], out := #[] } : DedupState K) [] := by
    intro rwF _
    refine ⟨rfl, ?_⟩
    intro x hx
    simp [accH] at hx
  have hseen : SeenH ({ rw := [], seen := [], out := #[] } : DedupState K) := by
    intro key cano hl; simp [List.lookup] at hl
  obtain ⟨_, hc⟩ := fold_claimH P H ops.toList _ [] terminates_nil hseen hinit (by simpa [accH] using h)
  have := (hc _ (Ext.refl _)).1
  simpa [Array.toList_map] using this

/-- **C09 / `dedup_preserves_defuse`.** A list that carries the hint-aware certificate for a set `H`
of slots which are hint outputs of the de-duplicated list (or private) is still def-before-use
certified after de-duplication. With `H = []` (no `a` operand relies on a hint) no side condition is left. -/
theorem dedup_preserves_defuse (P H : List Nat) (ops : Array (Op K))
    (h : hduFrom P H [] ops.toList = true)
    (hH : ∀ x ∈ H.map (resolve (dedup ops).2),
      x ∈ hintSlots (dedup ops).1.toList ∨ x ∈ P.map (resolve (dedup ops).2)) :
    defUse (P.map (resolve (dedup ops).2)) (dedup ops).1.toList = true :=
  hdu_defUse _ _ _ hH _ [] [] (fun _ h => Or.inl h) (dedup_preserves_hdu P H ops h)

/-! ### The hint-free instance (`H = []`) and the lowering

With `H = []` the certificate says: `sduFrom`, and the `a` operand of every `Add` / `Mul` row is the
`out` / `b` of an earlier row or a private input. The lowering establishes it for every builder state
with `hintsGuarded` and `operandsGuarded` (the same argument as `C09C.lower_sdu`, with `guard_slot`
applied to the `a` position too). -/

theorem touchH_nil (op : Op K) : touchH [] op = outB op := by
  cases op <;> simp [touchH, outB]

theorem accH_nil (T : List Nat) (l : List (Op K)) : accH [] T l = accT T l := by
  induction l generalizing T with
  | nil => rfl
  | cons op l ih => simp only [accH, accT, List.foldl_cons, touchH_nil] at ih ⊢

/-- The `a` operand of an `Add` / `Mul` row is in `T` or private. -/
def aCond (P T : List Nat) (op : Op K) : Prop :=
  ∀ k a b c out io, op = .alu k a b c out io → isAM k = true → a ∈ T ∨ a ∈ P

theorem hdu_nil_of (P : List Nat) (l : List (Op K)) (T : List Nat) (hs : sduFrom P T l = true)
    (hA : ∀ op ∈ l, aCond P T op) : hduFrom P [] T l = true := by
  induction l generalizing T with
  | nil => rfl
  | cons op l ih =>
    simp only [sduFrom, Bool.and_eq_true] at hs
    simp only [hduFrom, Bool.and_eq_true]
    refine ⟨?_, ?_⟩
    · cases op with
      | alu k a b c out io =>
        have h1 := hs.1
        simp only [rowS] at h1
        simp only [rowH, h1, Bool.true_and, Bool.or_eq_true, Bool.not_eq_true', List.contains_iff_mem]
        by_cases hk : isAM k = true
        · rcases hA _ List.mem_cons_self k a b c out io rfl hk with h | h
          · exact Or.inl (Or.inl (Or.inr h))
          · exact Or.inl (Or.inr h)
        · exact Or.inl (Or.inl (Or.inl (by simpa using hk)))
      | _ => rfl
    · rw [touchH_nil]
      refine ih _ hs.2 (fun o ho k a b c out io he hk => ?_)
      rcases hA o (List.mem_cons_of_mem _ ho) k a b c out io he hk with h | h
      · exact Or.inl (List.mem_append.mpr (Or.inr h))
      · exact Or.inr h

theorem aCond_alu {P T : List Nat} (k : AluKind) (a b : Nat) (c : Option Nat) (out : Nat)
    (io : Option Nat) (h : isAM k = true → a ∈ T ∨ a ∈ P) :
    aCond P T (.alu k a b c out io : Op K) := by
  intro k' a' b' c' out' io' heq hk
  cases heq
  exact h hk

theorem aCond_noAlu {P T : List Nat} {op : Op K} (h : isAluOp op = false) : aCond P T op := by
  intro k a b c out io heq _
  subst heq
  simp [isAluOp] at h

section lowering
open P3R.C02T
variable [Neg K]

omit [Neg K] in
theorem fin1 {P T : List Nat} {s s1 s' : LState K} (ho : s1.ops = s.ops) (rows : List (Op K))
    (hs' : s'.ops.toList = s1.ops.toList ++ rows) (hrows : ∀ op ∈ rows, aCond P T op) :
    ∀ added, s'.ops.toList = s.ops.toList ++ added → ∀ op ∈ added, aCond P T op := by
  intro added hadd
  rw [hs', ho] at hadd
  have := List.append_cancel_left hadd
  subst this
  exact hrows

/-- One step of `emit_operations`: the `a` operand of every appended `Add` / `Mul` row is the slot of
the node's `aPos` operand. -/
theorem emit_shapeA {nodes : Array (Expr K)} (npOps : Array NpData) {s s' : LState K} {i : Nat}
    {e : Expr K} (P : List Nat)
    (hres : ∀ l wl, e.aPos nodes = some l → s.e2w.getD l none = some wl →
      wl ∈ accT [] s.ops.toList ∨ wl ∈ P)
    (h : s.emitNode nodes npOps i e = .ok s') :
    ∀ added, s'.ops.toList = s.ops.toList ++ added →
      ∀ op ∈ added, aCond P (accT [] s.ops.toList) op := by
  have same : ∀ {st : LState K}, st = s → ∀ added, st.ops.toList = s.ops.toList ++ added →
      ∀ op ∈ added, aCond P (accT [] s.ops.toList) op := by
    intro st hst added hadd op hop
    subst hst
    have : added = [] := by simpa using hadd
    subst this
    cases hop
  have one : ∀ {s1 : LState K} (r : Op K), s1.ops = s.ops → aCond P (accT [] s.ops.toList) r →
      ∀ (st : LState K), st.ops.toList = s1.ops.toList ++ [r] →
      ∀ added, st.ops.toList = s.ops.toList ++ added →
        ∀ op ∈ added, aCond P (accT [] s.ops.toList) op := by
    intro s1 r ho hr st hst
    refine fin1 ho [r] hst ?_
    intro op hop
    have : op = r := by simpa using hop
    subst this
    exact hr
  have notAM : ∀ {k : AluKind} {a : Nat}, isAM k = false →
      (isAM k = true → a ∈ accT [] s.ops.toList ∨ a ∈ P) := by
    intro k a hk hk'
    rw [hk] at hk'
    cases hk'
  cases e with
  | const _ => simp only [LState.emitNode, Except.ok.injEq] at h; exact same h.symm
  | pub _ => simp only [LState.emitNode, Except.ok.injEq] at h; exact same h.symm
  | priv _ => simp only [LState.emitNode, Except.ok.injEq] at h; exact same h.symm
  | add l r =>
    simp only [LState.emitNode] at h
    cases hal : s.allocWitness i with
    | mk s1 out =>
      rw [hal] at h
      obtain ⟨he, ho, hp⟩ := alloc_fields' hal
      cases hl : s1.resolve l with
      | error _ => simp [hl] at h
      | ok a =>
        cases hr : s1.resolve r with
        | error _ => simp [hl, hr] at h
        | ok bw =>
          simp only [hl, hr, Except.ok.injEq] at h
          subst h
          have ha := hres l a rfl (he ▸ resolve_ok.mp hl)
          exact one (Op.add a bw out) ho (aCond_alu _ _ _ _ _ _ (fun _ => ha)) _
            (by simp [LState.setW, LState.pushOp])
  | mul l r =>
    simp only [LState.emitNode] at h
    cases hal : s.allocWitness i with
    | mk s1 out =>
      rw [hal] at h
      obtain ⟨he, ho, hp⟩ := alloc_fields' hal
      cases hl : s1.resolve l with
      | error _ => simp [hl] at h
      | ok a =>
        cases hr : s1.resolve r with
        | error _ => simp [hl, hr] at h
        | ok bw =>
          simp only [hl, hr, Except.ok.injEq] at h
          subst h
          have ha := hres l a rfl (he ▸ resolve_ok.mp hl)
          exact one (Op.mul a bw out) ho (aCond_alu _ _ _ _ _ _ (fun _ => ha)) _
            (by simp [LState.setW, LState.pushOp])
  | div l r =>
    simp only [LState.emitNode] at h
    cases hal : s.allocWitness i with
    | mk s1 q =>
      rw [hal] at h
      obtain ⟨he, ho, hp⟩ := alloc_fields' hal
      cases hl : s1.resolve l with
      | error _ => simp [hl] at h
      | ok a =>
        cases hr : s1.resolve r with
        | error _ => simp [hl, hr] at h
        | ok bw =>
          simp only [hl, hr, Except.ok.injEq] at h
          subst h
          have ha := hres r bw rfl (he ▸ resolve_ok.mp hr)
          exact one (Op.mul bw q a) ho (aCond_alu _ _ _ _ _ _ (fun _ => ha)) _
            (by simp [LState.setW, LState.pushOp])
  | mulAdd a b c =>
    simp only [LState.emitNode] at h
    cases hal : s.allocWitness i with
    | mk s1 out =>
      rw [hal] at h
      obtain ⟨he, ho, hp⟩ := alloc_fields' hal
      cases h1 : s1.resolve a with
      | error _ => simp [h1] at h
      | ok wa =>
        cases h2 : s1.resolve b with
        | error _ => simp [h1, h2] at h
        | ok wb =>
          cases h3 : s1.resolve c with
          | error _ => simp [h1, h2, h3] at h
          | ok wc =>
            simp only [h1, h2, h3, Except.ok.injEq] at h
            subst h
            exact one (Op.mulAdd wa wb wc out) ho (aCond_alu _ _ _ _ _ _ (notAM rfl)) _
              (by simp [LState.setW, LState.pushOp])
  | horner acc al pz px =>
    simp only [LState.emitNode] at h
    cases hal : s.allocWitness i with
    | mk s1 out =>
      rw [hal] at h
      obtain ⟨he, ho, hp⟩ := alloc_fields' hal
      cases h1 : s1.resolve acc with
      | error _ => simp [h1] at h
      | ok w1 =>
        cases h2 : s1.resolve al with
        | error _ => simp [h1, h2] at h
        | ok w2 =>
          cases h3 : s1.resolve pz with
          | error _ => simp [h1, h2, h3] at h
          | ok w3 =>
            cases h4 : s1.resolve px with
            | error _ => simp [h1, h2, h3, h4] at h
            | ok w4 =>
              simp only [h1, h2, h3, h4, Except.ok.injEq] at h
              subst h
              exact one (Op.horner w4 w2 w3 out w1) ho (aCond_alu _ _ _ _ _ _ (notAM rfl)) _
                (by simp [LState.setW, LState.pushOp])
  | boolCheck v =>
    simp only [LState.emitNode] at h
    cases hal : s.allocWitness i with
    | mk s1 out =>
      rw [hal] at h
      obtain ⟨he, ho, hp⟩ := alloc_fields' hal
      cases h1 : s1.resolve v with
      | error _ => simp [h1] at h
      | ok vw =>
        cases h2 : s1.resolve 0 with
        | error _ => simp [h1, h2] at h
        | ok zw =>
          simp only [h1, h2, Except.ok.injEq] at h
          subst h
          exact one (.alu .boolCheck vw zw (some vw) out none) ho
            (aCond_alu _ _ _ _ _ _ (notAM rfl)) _ (by simp [LState.setW, LState.pushOp])
  | sub l r =>
    simp only [LState.emitNode] at h
    cases hal : s.allocWitness i with
    | mk s1 res =>
      rw [hal] at h
      obtain ⟨he, ho, hp⟩ := alloc_fields' hal
      cases h1 : s1.resolve l with
      | error _ => simp [h1] at h
      | ok lw =>
        simp only [h1] at h
        split at h
        · rename_i x1 x2 c hnl hnr
          cases hal2 : s1.allocWitness nodes.size with
          | mk s2 nw =>
            rw [hal2] at h
            simp only [Except.ok.injEq] at h
            subst h
            obtain ⟨he2, ho2, hp2⟩ := alloc_fields' hal2
            have hap : (Expr.sub l r : Expr K).aPos nodes = some l := by
              simp only [Expr.aPos, hnl, hnr]
            have ha := hres l lw hap (he ▸ resolve_ok.mp h1)
            refine fin1 (ho2.trans ho) [.const nw (-c), Op.add lw nw res]
              (by simp [LState.setW, LState.pushOp]) ?_
            intro op hop
            simp only [List.mem_cons, List.not_mem_nil, or_false] at hop
            rcases hop with rfl | rfl
            · exact aCond_noAlu rfl
            · exact aCond_alu _ _ _ _ _ _ (fun _ => ha)
        · rename_i hnot
          cases h2 : s1.resolve r with
          | error _ => simp [h2] at h
          | ok rw' =>
            simp only [h2, Except.ok.injEq] at h
            subst h
            have hap : (Expr.sub l r : Expr K).aPos nodes = some r := by
              simp only [Expr.aPos]
            have ha := hres r rw' hap (he ▸ resolve_ok.mp h2)
            exact one (Op.add rw' res lw) ho (aCond_alu _ _ _ _ _ _ (fun _ => ha)) _
              (by simp [LState.setW, LState.pushOp])
  | npCall op ins =>
    simp only [LState.emitNode] at h
    obtain ⟨_, added', ho', hna⟩ := emitNpCall_fields nodes npOps op h
    intro added hadd o hop
    rw [ho'] at hadd
    have := List.append_cancel_left hadd
    subst this
    exact aCond_noAlu (hna o hop)
  | npOut call idx =>
    simp only [LState.emitNode] at h
    split at h
    · rename_i op ins hcall
      split at h
      · cases h
      · rename_i s1 hs1
        obtain ⟨_, added', ho', hna⟩ := emitNpCall_fields nodes npOps op hs1
        have hops : s'.ops = s1.ops := by
          split at h
          · cases h; rfl
          · cases hal : s1.allocWitness i with
            | mk s2 w =>
              rw [hal] at h
              simp only [Except.ok.injEq] at h
              subst h
              exact (alloc_fields' hal).2.1
        intro added hadd o hop
        rw [hops, ho'] at hadd
        have := List.append_cancel_left hadd
        subst this
        exact aCond_noAlu (hna o hop)
    · cases h

omit [Neg K] in
theorem operandsGuarded_spec {b : BState K} (h : operandsGuarded b = true) {i l : Nat}
    (hi : i < b.nodes.size) (hb : (b.nodes[i]).aPos b.nodes = some l) :
    creatorFor b.nodes (Dsu.ofConnects (b.nodes.size + 1) b.connects) (inCOf b) i l = true := by
  unfold operandsGuarded at h
  rw [List.all_eq_true] at h
  have := h i (List.mem_range.mpr hi)
  rw [Array.getElem?_eq_getElem hi] at this
  simp only [hb] at this
  exact this

/-- **C09 / the lowering emits a list with the strengthened certificate — total.** For every builder
state with `BState.Ok`, `privOk`, `hintsGuarded` and `operandsGuarded`, whenever the lowering
succeeds its op list carries `hduFrom` with `H = []`. -/
theorem lower_hdu (b : BState K) (hok : b.Ok) (hpo : privOk b = true) (hg : hintsGuarded b = true)
    (hag : operandsGuarded b = true) :
    ∀ l, lower b = .ok l → hduFrom l.privRows.toList [] [] l.ops.toList = true := by
  intro l h
  rw [lower_eq] at h
  have hc := hok.connectsOk
  have hcs : ∀ ab ∈ b.connects, ab.1 < b.nodes.size ∧ ab.2 < b.nodes.size ∧
      (proper b.nodes ab.1 = true ∨ proper b.nodes ab.2 = true) := by
    intro ab hab
    have := List.all_eq_true.mp hc ab hab
    simpa [and_assoc] using this
  obtain ⟨hCsz, hCmono, hCmem⟩ := inC_spec b.connects (Array.replicate (b.nodes.size + 1) false)
  simp only [Array.size_replicate] at hCsz hCmem
  obtain ⟨hDsu, hRsame, _⟩ := ofConnects_spec (N := b.nodes.size + 1) b.connects
    (fun ab hab => ⟨by have := (hcs ab hab).1; omega, by have := (hcs ab hab).2.1; omega⟩)
    (Array.range (b.nodes.size + 1)) (range_dsuInv _)
  have hRC : RCok (b.nodes.size + 1) (Dsu.ofConnects (b.nodes.size + 1) b.connects) (inCOf b) := by
    intro x hx
    have : x < b.nodes.size + 1 := by
      have := getD_true_lt _ x hx
      unfold inCOf at this
      rw [hCsz] at this; exact this
    exact hDsu.lt x this
  have h0 : PassInv b.nodes (b.nodes.size + 1) (Dsu.ofConnects (b.nodes.size + 1) b.connects)
      (inCOf b) 0 0 (lowerInit b) := by
    refine ⟨⟨rfl, rfl, by simp [lowerInit], by simp [lowerInit], ?_, ?_⟩, ?_, ?_⟩
    · intro x w _ hw
      simp only [lowerInit, getD_replicate] at hw
      cases hw
    · intro op hop
      simp [lowerInit] at hop
    · intro x w hw
      simp only [lowerInit, getD_replicate] at hw
      cases hw
    · intro x e _ hcase
      rcases hcase with h1 | ⟨_, h2⟩ <;> omega
  have next : ∀ p s, PassInv b.nodes (b.nodes.size + 1)
      (Dsu.ofConnects (b.nodes.size + 1) b.connects) (inCOf b) p b.nodes.size s →
      PassInv b.nodes (b.nodes.size + 1) (Dsu.ofConnects (b.nodes.size + 1) b.connects)
        (inCOf b) (p + 1) 0 s := by
    intro p s I
    refine ⟨I.good, fun x w hw => ?_, fun x e he hcase => ?_⟩
    · obtain ⟨e, he, hcase⟩ := I.only x w hw
      refine ⟨e, he, ?_⟩
      rcases hcase with h1 | ⟨h2, _⟩ | h3
      · exact Or.inl (by omega)
      · exact Or.inl (by omega)
      · exact Or.inr (Or.inr h3)
    · have hx : x < b.nodes.size := by
        by_contra hge
        rw [Array.getElem?_eq_none (by omega)] at he
        cases he
      apply I.claims x e he
      rcases hcase with h1 | ⟨_, h2⟩
      · by_cases hlt : cat e < p
        · exact Or.inl hlt
        · exact Or.inr ⟨by omega, hx⟩
      · omega
  have Q0 : Q b (lowerInit b) := by
    refine ⟨by simp [lowerInit], ?_⟩
    intro x pos w _ hw
    simp only [lowerInit, getD_replicate] at hw
    cases hw
  have A0 : ∀ op ∈ (lowerInit b).ops.toList, isAluOp op = false := by
    intro op hop
    simp [lowerInit] at hop
  simp only [bind, Except.bind, forNodes] at h
  split at h
  · cases h
  · rename_i s1 hs1
    have I1 := pass_fold b.nodes _ _ _ 0 fConst
      (by intro s i e hne; cases e <;> simp [cat] at hne <;> rfl) (step_const hRC) _ h0 _
      (Nat.le_refl _) s1 hs1
    have J1 := fold_inv b.nodes fConst (lowerInit b)
      (fun _ s => Q b s ∧ ∀ op ∈ s.ops.toList, isAluOp op = false) ⟨Q0, A0⟩
      (fun k s s' hk _ hI hf => fConst_Q (Array.getElem?_eq_getElem hk) hI.1 hI.2 hf)
      _ (Nat.le_refl _) s1 hs1
    split at h
    · cases h
    · rename_i s2 hs2
      have I2 := pass_fold b.nodes _ _ _ 1 fPub
        (by intro s i e hne; cases e <;> simp [cat] at hne <;> rfl) (step_pub hRC) _ (next _ _ I1) _
        (Nat.le_refl _) s2 hs2
      have J2 := fold_inv b.nodes fPub s1
        (fun _ s => Q b s ∧ ∀ op ∈ s.ops.toList, isAluOp op = false) J1
        (fun k s s' hk _ hI hf => fPub_Q (Array.getElem?_eq_getElem hk) hI.1 hI.2 hf)
        _ (Nat.le_refl _) s2 hs2
      split at h
      · cases h
      · rename_i s3 hs3
        have I3 := pass_fold b.nodes _ _ _ 2 fPriv
          (by intro s i e hne; cases e <;> simp [cat] at hne <;> rfl) (step_priv hRC) _
          (next _ _ I2) _ (Nat.le_refl _) s3 hs3
        have J3 := fold_inv b.nodes fPriv s2
          (fun _ s => Q b s ∧ ∀ op ∈ s.ops.toList, isAluOp op = false) J2
          (fun k s s' hk hpre hI hf => by
            have PI := pass_fold b.nodes _ _ _ 2 fPriv
              (by intro s i e hne; cases e <;> simp [cat] at hne <;> rfl) (step_priv hRC) _
              (next _ _ I2) k (Nat.le_of_lt hk) s hpre
            exact fPriv_Q hpo (Array.getElem?_eq_getElem hk)
              (by rw [PI.good.e2wSz]; omega) hI.1 hI.2 hf)
          _ (Nat.le_refl _) s3 hs3
        split at h
        · cases h
        · rename_i s4 hs4
          have hd0 : hduFrom s3.privRows.toList [] [] s3.ops.toList = true :=
            hdu_nil_of _ _ _ (sdu_of_noAlu _ _ _ J3.2) (fun op hop => aCond_noAlu (J3.2 op hop))
          have J4 := fold_inv b.nodes (fun st i e => st.emitNode b.nodes b.npOps i e) s3
            (fun _ s => Q b s ∧ hduFrom s.privRows.toList [] [] s.ops.toList = true)
            ⟨J3.1, hd0⟩
            (fun k s s' hk hpre hI hf => by
              have PI := pass_fold b.nodes _ _ _ 3 (fun st i e => st.emitNode b.nodes b.npOps i e)
                (by intro s i e hne; cases e <;> simp [cat] at hne <;> rfl) (step_emit hRC b.npOps) _
                (next _ _ I3) k (Nat.le_of_lt hk) s hpre
              have hke : b.nodes[k]? = some b.nodes[k] := Array.getElem?_eq_getElem hk
              obtain ⟨hp, ⟨added, ho, hs⟩, honly⟩ := emit_shape hRC b.npOps PI.good s.privRows.toList
                (fun l wl hb hl => guard_slot PI hI.1 (hintsGuarded_spec hg hk hb) hl) hf
              have hA := emit_shapeA b.npOps s.privRows.toList
                (fun l wl hb hl => guard_slot PI hI.1 (operandsGuarded_spec hag hk hb) hl) hf added ho
              refine ⟨⟨by rw [hp]; exact hI.1.sz, ?_⟩, ?_⟩
              · intro x pos w hx hw
                rw [hp]
                rcases honly x w hw with h1 | h2 | ⟨e', he', ho'⟩
                · exact hI.1.pr x pos w hx h1
                · subst h2
                  rw [hke] at hx
                  have hx' := Option.some.inj hx
                  rw [hx'] at hf
                  simp only [LState.emitNode, Except.ok.injEq] at hf
                  subst hf
                  exact hI.1.pr x pos w (hke.trans (congrArg some hx')) hw
                · rw [hx] at he'
                  cases he'
                  cases ho'
              · rw [hp, ho, hduFrom_append, hI.2, accH_nil]
                exact hdu_nil_of _ _ _ hs hA)
            _ (Nat.le_refl _) s4 hs4
          split at h
          · cases h
          · simp only [Except.ok.injEq] at h
            obtain ⟨hbo, hbp⟩ := backfill_fields (List.range (b.nodes.size + 1)) s4
            subst h
            simp only []
            rw [hbo, hbp]
            exact J4.2

end lowering

/-! ### From the lowering to the compiled circuit

What is left per program is the fusion step alone: `fuseKeeps l` (Model/DefUse.lean; decidable) — the
fused list keeps the certificate of the de-duplicated list. See the header of the report
(`AGENT_REPORT.md`, C09v) for what a proof of it needs. -/

section compile
variable [Neg K]

/-- **C09 / the de-duplicated list of every guarded builder state is certified** (no per-program
hypothesis). -/
theorem lower_dedup_defuse (b : BState K) (hok : b.Ok) (hpo : privOk b = true)
    (hg : hintsGuarded b = true) (hag : operandsGuarded b = true) (l : Lowered K)
    (hl : lower b = .ok l) :
    defUse (l.privRows.toList.map (resolve (dedup l.ops).2)) (dedup l.ops).1.toList = true :=
  dedup_preserves_defuse l.privRows.toList [] l.ops (lower_hdu b hok hpo hg hag l hl)
    (by intro x hx; simp at hx)

/-- `optKeeps` follows from `fuseKeeps` for guarded builder states. -/
theorem optKeeps_of_fuseKeeps (b : BState K) (hok : b.Ok) (hpo : privOk b = true)
    (hg : hintsGuarded b = true) (hag : operandsGuarded b = true) (l : Lowered K)
    (hl : lower b = .ok l) (hf : fuseKeeps l = true) : optKeeps l = true := by
  have hd := lower_dedup_defuse b hok hpo hg hag l hl
  unfold fuseKeeps at hf
  simp only [hd, Bool.not_true, Bool.false_or] at hf
  unfold optKeeps
  simp only [Bool.or_eq_true, Bool.not_eq_true']
  right
  simpa [optimize, Array.toList_map] using hf

variable [Zero K] [DecidableEq K]

/-- **C09 / `compile_defuse`, fusion step as hypothesis.** -/
theorem compile_defuse_of_fuseKeeps (b : BState K) (hok : b.Ok) (hpo : privOk b = true)
    (hg : hintsGuarded b = true) (hag : operandsGuarded b = true) (c : Circuit K)
    (hc : compile b = .ok c) (hf : ∀ l, lower b = .ok l → fuseKeeps l = true) : c.defUse = true :=
  compile_defuse_of_optKeeps b hok hpo hg c hc
    (fun l hl => optKeeps_of_fuseKeeps b hok hpo hg hag l hl (hf l hl))

/-- **C09 / the honest bus of a compiled circuit balances** — from the builder state: `BState.Ok`,
`privOk`, `hintsGuarded`, `operandsGuarded` and the fusion implication `fuseKeeps`. -/
theorem compiled_bus_balanced_of_fuseKeeps (b : BState K) (hok : b.Ok) (hpo : privOk b = true)
    (hg : hintsGuarded b = true) (hag : operandsGuarded b = true) (c : Circuit K)
    (hc : compile b = .ok c) (hf : ∀ l, lower b = .ok l → fuseKeeps l = true) (p : Prep)
    (hp : genPrep c = some p) (s : Nat) : p.net s = 0 :=
  C09T.compiled_bus_balanced_of_defuse c p hp
    (compile_defuse_of_fuseKeeps b hok hpo hg hag c hc hf) s

end compile

end P3R.C09O
