/-
C04 — soundness of the SCHEDULED ALU table as the prover commits it (every extension degree `D`).

`C04.accepted_sat_gen` speaks about the unscheduled abstract trace (one cell list per operand
occurrence, one selector value). Here the acceptance conditions are stated on the concrete scheduled
matrix:

* the preprocessed matrix is the one of `Model/AluSchedule` (`prepRow` = the row function of
  `scheduledPrepRows`, zero rows beyond the schedule), for the schedule `computeSchedule preps lanes kmax`;
* the main trace is an arbitrary (prover-chosen) row function; hypothesis (a): every value of the
  model's `aluConstraints D lanes kmax kind` vanishes on every window `(r, r+1 mod H)`;
* hypothesis (b): the WitnessChecks bus balances as a signed multiset of `(slot, v_0 … v_{D−1})`
  tuples, where the scheduled table contributes, per schedule entry, what `aluInteractions` declares
  on the entry's row (`entryBus`: a single op's four operand tuples; a packed row's first `a`/`c`, ONE `b`
  tuple with the summed multiplicity, the last step's `out`, the later steps' `(a, c)` pairs), with the
  cells read from the main trace at the entry's lane.

Conclusion (`scheduled_accepted_sat`): coefficient cells `cv s` per witness slot such that
`w s = ev φ α D (cv s)` satisfies EVERY op of the circuit (`Op.holds`).

Because a packed row has no cells for its intermediate accumulators, the composition is done at ring
level (`C11.packed_window_sound_gen`), not through `rowsOkGen` (which is cell-level; cell-level
equations for the last step of a packed row would need associativity of the model's `extMul` on cells,
i.e. `CoeffIndep`). The bus part reuses `bus_single_valued_gen` on the *unpacked* cell list, with
`packed_tuple_net_gen` for every packed entry.
-/
import P3R.Props.C04Gen
import P3R.Props.C11Sched

set_option linter.unusedSectionVars false
set_option linter.unusedVariables false

namespace P3R.C04
open P3R P3R.C09 P3R.C11

/-! ## 1. Reading the scheduled preprocessed matrix -/
section Read
variable {K : Type} [Field K] [DecidableEq K]

/-- Entry at schedule position `p`; beyond the end the matrix holds zero (= separator) columns. -/
def entryAt (sched : List SchedEntry) (p : ℕ) : SchedEntry := sched.getD p .sep

/-- Row `r` of the scheduled preprocessed matrix (the row function of `scheduledPrepRows`). -/
def prepRow (preps : List (List K)) (lanes kmax : ℕ) (sched : List SchedEntry) (r : ℕ) : List K :=
  let cells := (List.range lanes).map fun lane =>
    match sched[r * lanes + lane]? with
    | some e => entryCols preps kmax lane e
    | none => (List.replicate prepLaneWidth 0, List.replicate (extraPrepWidth kmax) 0)
  let extra := match cells.head? with
    | some c => c.2
    | none => List.replicate (extraPrepWidth kmax) 0
  cells.flatMap (·.1) ++ extra

theorem scheduledPrepRows_eq (preps : List (List K)) (lanes kmax : ℕ) (sched : List SchedEntry) :
    scheduledPrepRows preps lanes kmax sched =
      (List.range ((sched.length + lanes - 1) / lanes)).map (prepRow preps lanes kmax sched) := rfl

theorem scheduledPrepRows_getD (preps : List (List K)) (lanes kmax : ℕ) (sched : List SchedEntry)
    (r : ℕ) (hr : r < (sched.length + lanes - 1) / lanes) :
    (scheduledPrepRows preps lanes kmax sched).getD r [] = prepRow preps lanes kmax sched r := by
  rw [scheduledPrepRows_eq, List.getD_eq_getElem?_getD]
  simp [hr]

theorem vget_set (l : List K) (i j : ℕ) (v : K) :
    vget (l.set i v) j = if i = j ∧ i < l.length then v else vget l j := by
  unfold vget
  rw [List.getD_eq_getElem?_getD, List.getD_eq_getElem?_getD, List.getElem?_set]
  by_cases h : i = j
  · subst h
    by_cases h2 : i < l.length
    · simp [h2]
    · simp [h2]
  · simp [h]

theorem entryCols_match (preps : List (List K)) (kmax lane : ℕ) (sched : List SchedEntry) (p : ℕ) :
    (match sched[p]? with
      | some e => entryCols preps kmax lane e
      | none => (List.replicate prepLaneWidth 0, List.replicate (extraPrepWidth kmax) 0)) =
      entryCols preps kmax lane (entryAt sched p) := by
  unfold entryAt
  rw [List.getD_eq_getElem?_getD]
  cases sched[p]? with
  | none => rfl
  | some e => rfl

theorem entryCols_fst_length (preps : List (List K)) (kmax lane : ℕ) (e : SchedEntry) :
    (entryCols preps kmax lane e).1.length = prepLaneWidth := by
  cases e with
  | sep => simp [entryCols]
  | op i => simp [entryCols, prepLaneWidth]
  | packed f k =>
    unfold entryCols
    by_cases h : lane = 0
    · simp [h, setAt, prepLaneWidth]
    · simp [h]

theorem vget_append_left (a b : List K) (i : ℕ) (h : i < a.length) : vget (a ++ b) i = vget a i := by
  unfold vget
  rw [List.getD_eq_getElem?_getD, List.getD_eq_getElem?_getD, List.getElem?_append_left h]

theorem vget_append_right (a b : List K) (i : ℕ) : vget (a ++ b) (a.length + i) = vget b i := by
  unfold vget
  rw [List.getD_eq_getElem?_getD, List.getD_eq_getElem?_getD,
    List.getElem?_append_right (Nat.le_add_right _ _), Nat.add_sub_cancel_left]

theorem flatMap_range_length (f : ℕ → List K) (w n : ℕ) (hw : ∀ i, (f i).length = w) :
    ((List.range n).flatMap f).length = n * w := by
  induction n with
  | zero => simp
  | succ n ih =>
    rw [List.range_succ, List.flatMap_append, List.length_append, ih]
    simp [hw, Nat.succ_mul]

theorem vget_flatMap_range (f : ℕ → List K) (w n : ℕ) (hw : ∀ i, (f i).length = w) (i c : ℕ)
    (hi : i < n) (hc : c < w) :
    vget ((List.range n).flatMap f) (i * w + c) = vget (f i) c := by
  induction n with
  | zero => omega
  | succ n ih =>
    rw [List.range_succ, List.flatMap_append]
    by_cases h : i < n
    · rw [vget_append_left _ _ _ (by
        rw [flatMap_range_length f w n hw]
        calc i * w + c < i * w + w := by omega
          _ = (i + 1) * w := by rw [Nat.succ_mul]
          _ ≤ n * w := Nat.mul_le_mul_right _ h)]
      exact ih h
    · have : i = n := by omega
      subst this
      have hl := flatMap_range_length f w i hw
      rw [← hl, vget_append_right]
      simp only [List.flatMap_cons, List.flatMap_nil, List.append_nil]

/-- **Lane columns of the scheduled matrix**: column `c` of lane `lane` of row `r` is column `c` of
the lane columns `entryCols` gives the entry at schedule position `r·lanes + lane`. -/
theorem prepRow_lane (preps : List (List K)) (lanes kmax : ℕ) (sched : List SchedEntry) (r lane c : ℕ)
    (hl : lane < lanes) (hc : c < prepLaneWidth) :
    vget (prepRow preps lanes kmax sched r) (lane * prepLaneWidth + c) =
      vget (entryCols preps kmax lane (entryAt sched (r * lanes + lane))).1 c := by
  unfold prepRow
  simp only [entryCols_match, List.flatMap_map]
  have hw : ∀ i, ((entryCols preps kmax i (entryAt sched (r * lanes + i))).1).length = prepLaneWidth :=
    fun i => entryCols_fst_length preps kmax i _
  rw [vget_append_left _ _ _ (by
    rw [flatMap_range_length _ prepLaneWidth lanes hw]
    calc lane * prepLaneWidth + c < lane * prepLaneWidth + prepLaneWidth := by omega
      _ = (lane + 1) * prepLaneWidth := by rw [Nat.succ_mul]
      _ ≤ lanes * prepLaneWidth := Nat.mul_le_mul_right _ hl)]
  exact vget_flatMap_range _ prepLaneWidth lanes hw lane c hl hc

/-- **Extra (packed-Horner) columns of the scheduled matrix**: those of lane 0's entry. -/
theorem prepRow_extra (preps : List (List K)) (lanes kmax : ℕ) (sched : List SchedEntry) (r x : ℕ)
    (hl : 0 < lanes) :
    vget (prepRow preps lanes kmax sched r) (lanes * prepLaneWidth + x) =
      vget (entryCols preps kmax 0 (entryAt sched (r * lanes))).2 x := by
  unfold prepRow
  simp only [entryCols_match, List.flatMap_map]
  have hw : ∀ i, ((entryCols preps kmax i (entryAt sched (r * lanes + i))).1).length = prepLaneWidth :=
    fun i => entryCols_fst_length preps kmax i _
  have hl' := flatMap_range_length
    (fun i => (entryCols preps kmax i (entryAt sched (r * lanes + i))).1) prepLaneWidth lanes hw
  rw [← hl', vget_append_right]
  obtain ⟨n, rfl⟩ : ∃ n, lanes = n + 1 := ⟨lanes - 1, by omega⟩
  rw [List.range_succ_eq_map]
  simp

end Read

/-! ## 2. Columns of one scheduled entry -/
section Cols
variable {K : Type} [Field K] [DecidableEq K]

theorem vget_replicate_zero (n i : ℕ) : vget (List.replicate n (0 : K)) i = 0 := by
  unfold vget
  rw [List.getD_eq_getElem?_getD]
  by_cases h : i < n <;> simp [h]

theorem vget_take (l : List K) (n i : ℕ) (h : i < n) : vget (l.take n) i = vget l i := by
  unfold vget
  rw [List.getD_eq_getElem?_getD, List.getD_eq_getElem?_getD, List.getElem?_take]
  simp [h]

theorem vget_pad (l : List K) (n i : ℕ) : vget (l ++ List.replicate n 0) i = vget l i := by
  by_cases h : i < l.length
  · exact vget_append_left _ _ _ h
  · obtain ⟨j, rfl⟩ : ∃ j, i = l.length + j := ⟨i - l.length, by omega⟩
    rw [vget_append_right, vget_replicate_zero]
    unfold vget
    rw [List.getD_eq_getElem?_getD, List.getElem?_eq_none (by omega)]
    rfl

theorem entryCols_op (preps : List (List K)) (kmax lane i c : ℕ) (hc : c < prepLaneWidth) :
    vget (entryCols preps kmax lane (.op i)).1 c = vget (prepOf preps i) c := by
  simp only [entryCols]
  rw [vget_take _ _ _ hc, vget_pad]

theorem entryCols_op_extra (preps : List (List K)) (kmax lane i x : ℕ) :
    vget (entryCols preps kmax lane (.op i)).2 x = 0 := by
  simp only [entryCols]
  exact vget_replicate_zero _ _

theorem entryCols_sep (preps : List (List K)) (kmax lane c : ℕ) :
    vget (entryCols preps kmax lane .sep).1 c = 0 := by
  simp only [entryCols]
  exact vget_replicate_zero _ _

theorem entryCols_sep_extra (preps : List (List K)) (kmax lane x : ℕ) :
    vget (entryCols preps kmax lane .sep).2 x = 0 := by
  simp only [entryCols]
  exact vget_replicate_zero _ _

/-- A packed row keeps the first step's `mult_a` and selector columns. -/
theorem entryCols_packed_sel (preps : List (List K)) (kmax f k c : ℕ) (hc : c < 5) :
    vget (entryCols preps kmax 0 (.packed f k)).1 c = vget (prepOf preps f) c := by
  simp only [entryCols, bne_self_eq_false, Bool.false_eq_true, if_false, setAt]
  rw [vget_set, vget_set, vget_set, if_neg (by omega), if_neg (by omega), if_neg (by omega),
    vget_take _ _ _ (by unfold prepLaneWidth; omega), vget_pad]

theorem foldl_vget_inv {β : Type} (F : List K → β → List K) (x : ℕ)
    (h : ∀ ex t, vget (F ex t) x = vget ex x) (l : List β) (ex : List K) :
    vget (l.foldl F ex) x = vget ex x := by
  induction l generalizing ex with
  | nil => rfl
  | cons a l ih => rw [List.foldl_cons, ih, h]

/-- A packed row of arity `k` carries the one-hot arity selector `sel_k`. -/
theorem entryCols_packed_selK (preps : List (List K)) (kmax f k kk : ℕ) (hk : 2 ≤ k) (hkm : k ≤ kmax)
    (h2 : 2 ≤ kk) (hkk : kk ≤ kmax) :
    vget (entryCols preps kmax 0 (.packed f k)).2 (selKIdx kk) = if kk = k then 1 else 0 := by
  simp only [entryCols, bne_self_eq_false, Bool.false_eq_true, if_false]
  rw [foldl_vget_inv _ (selKIdx kk)]
  · simp only [setAt, vget_set, List.length_replicate, vget_replicate_zero, selKIdx, extraPrepWidth,
      stepPrepWidth]
    by_cases h : kk = k
    · subst h
      rw [if_pos ⟨rfl, by omega⟩, if_pos rfl]
    · rw [if_neg (by omega), if_neg h]
  · intro ex t0
    simp only [setAt, vget_set, stepIdx, stepPrepWidth, selKIdx]
    rw [if_neg (by omega), if_neg (by omega), if_neg (by omega), if_neg (by omega),
      if_neg (by omega), if_neg (by omega)]

end Cols

/-! ## 3. Windows of the scheduled matrix: the relation every entry's cells satisfy -/
section Rows
variable {K L : Type} [Field K] [DecidableEq K] [CommRing L] (φ : K →+* L) (α : L)
  (D lanes kmax : ℕ) (kind : ExtKind K) (preps : List (List K)) (sched : List SchedEntry)
  (Mr : ℕ → List K) (H : ℕ)

/-- **Hypothesis (a).** Every value of the model's `aluConstraints` vanishes on every window
`(r, r+1 mod H)` of the trace of height `H`: main rows `Mr` (prover-chosen), preprocessed rows the
scheduled matrix `prepRow` (zero rows beyond the schedule). -/
def WinOk : Prop :=
  ∀ r, r < H → ∀ x ∈ aluConstraints D lanes kmax kind (Mr r) (Mr ((r + 1) % H))
    (prepRow preps lanes kmax sched r) (prepRow preps lanes kmax sched ((r + 1) % H)), x = 0

/-- Value of selector column `c ∈ 1..4` (`sel_add, sel_bool, sel_mul_add, sel_horner`) for an op kind
(`circuit.rs`: MUL has none). -/
def selOf : AluKind → ℕ → K
  | .add, 1 => 1
  | .boolCheck, 2 => 1
  | .mulAdd, 3 => 1
  | .horner, 4 => 1
  | _, _ => 0

/-- The preprocessed columns of ALU op `j` say "active (`mult_a = −1`), kind `k`". -/
def PrepSel (j : ℕ) (k : AluKind) : Prop :=
  vget (prepOf preps j) 0 = -1 ∧ ∀ c, 1 ≤ c → c ≤ 4 → vget (prepOf preps j) c = selOf k c

theorem lsum_map_zero (l : List ℕ) (f : ℕ → K) (h : ∀ x ∈ l, f x = 0) : lsum (l.map f) = 0 := by
  rw [lsum_eq_sum]
  apply List.sum_eq_zero
  intro y hy
  obtain ⟨x, hx, rfl⟩ := List.mem_map.mp hy
  exact h x hx

theorem prepRow_lane0 (r c : ℕ) (hl : 0 < lanes) (hc : c < prepLaneWidth) :
    vget (prepRow preps lanes kmax sched r) c =
      vget (entryCols preps kmax 0 (entryAt sched (r * lanes))).1 c := by
  have := prepRow_lane preps lanes kmax sched r 0 c hl hc
  simpa using this

/-- Selector columns of the lane holding a single op. -/
theorem op_row_sels (r lane j : ℕ) (k : AluKind) (hl : lane < lanes)
    (he : entryAt sched (r * lanes + lane) = .op j) (hp : PrepSel preps j k) :
    vget (prepRow preps lanes kmax sched r) (lane * prepLaneWidth) = -1 ∧
    ∀ c, 1 ≤ c → c ≤ 4 →
      vget (prepRow preps lanes kmax sched r) (lane * prepLaneWidth + c) = selOf k c := by
  constructor
  · have := prepRow_lane preps lanes kmax sched r lane 0 hl (by unfold prepLaneWidth; omega)
    rw [Nat.add_zero] at this
    rw [this, he, entryCols_op _ _ _ _ _ (by unfold prepLaneWidth; omega)]
    exact hp.1
  · intro c h1 h4
    rw [prepRow_lane preps lanes kmax sched r lane c hl (by unfold prepLaneWidth; omega), he,
      entryCols_op _ _ _ _ _ (by unfold prepLaneWidth; omega)]
    exact hp.2 c h1 h4


/-- ADD op in any lane. -/
theorem sched_add (hw : WinOk D lanes kmax kind preps sched Mr H) (r lane j : ℕ) (hr : r < H)
    (hl : lane < lanes) (he : entryAt sched (r * lanes + lane) = .op j) (hp : PrepSel preps j .add) :
    ev φ α D (seg (Mr r) (lane * 4 * D + 3 * D) D) =
      ev φ α D (seg (Mr r) (lane * 4 * D) D) + ev φ α D (seg (Mr r) (lane * 4 * D + D) D) := by
  obtain ⟨_, hs⟩ := op_row_sels lanes kmax preps sched r lane j .add hl he hp
  exact window_add_ring D lanes kmax kind φ α _ _ _ _ (hw r hr) lane hl
    (by rw [hs 1 (by omega) (by omega)]; simp [selOf])

/-- MUL op in any lane. -/
theorem sched_mul (hk : KindRoot φ D kind α) (hw : WinOk D lanes kmax kind preps sched Mr H) (r lane j : ℕ) (hr : r < H)
    (hl : lane < lanes) (he : entryAt sched (r * lanes + lane) = .op j) (hp : PrepSel preps j .mul) :
    ev φ α D (seg (Mr r) (lane * 4 * D + 3 * D) D) =
      ev φ α D (seg (Mr r) (lane * 4 * D) D) * ev φ α D (seg (Mr r) (lane * 4 * D + D) D) := by
  obtain ⟨h0, hs⟩ := op_row_sels lanes kmax preps sched r lane j .mul hl he hp
  exact window_mul_ring D lanes kmax kind φ α hk _ _ _ _ (hw r hr) lane hl
    (by rw [h0, hs 1 (by omega) (by omega), hs 2 (by omega) (by omega), hs 3 (by omega) (by omega),
      hs 4 (by omega) (by omega)]; simp [selOf])

/-- MUL_ADD op in any lane. -/
theorem sched_mulAdd (hk : KindRoot φ D kind α) (hw : WinOk D lanes kmax kind preps sched Mr H) (r lane j : ℕ) (hr : r < H)
    (hl : lane < lanes) (he : entryAt sched (r * lanes + lane) = .op j)
    (hp : PrepSel preps j .mulAdd) :
    ev φ α D (seg (Mr r) (lane * 4 * D + 3 * D) D) =
      ev φ α D (seg (Mr r) (lane * 4 * D) D) * ev φ α D (seg (Mr r) (lane * 4 * D + D) D) +
        ev φ α D (seg (Mr r) (lane * 4 * D + 2 * D) D) := by
  obtain ⟨_, hs⟩ := op_row_sels lanes kmax preps sched r lane j .mulAdd hl he hp
  exact window_mulAdd_ring D lanes kmax kind φ α hk _ _ _ _ (hw r hr) lane hl
    (by rw [hs 3 (by omega) (by omega)]; simp [selOf])

/-- BOOL_CHECK op in any lane: the `a` element is 0 or 1. -/
theorem sched_bool (hD : 0 < D) (hw : WinOk D lanes kmax kind preps sched Mr H) (r lane j : ℕ)
    (hr : r < H) (hl : lane < lanes) (he : entryAt sched (r * lanes + lane) = .op j)
    (hp : PrepSel preps j .boolCheck) :
    ev φ α D (seg (Mr r) (lane * 4 * D) D) = 0 ∨ ev φ α D (seg (Mr r) (lane * 4 * D) D) = 1 := by
  obtain ⟨_, hs⟩ := op_row_sels lanes kmax preps sched r lane j .boolCheck hl he hp
  refine laneBool_ring φ α D hD (vget (prepRow preps lanes kmax sched r) (lane * prepLaneWidth + 2))
    (by rw [hs 2 (by omega) (by omega)]; simp [selOf]) _ ?_
  exact fun x hx => hw r hr x (laneBool_sub D lanes kmax kind lane hl _ _ _ _ x hx)

/-- Separator (or padding) entry on lane 0: the lane's `out` element is 0 (fix F22). -/
theorem sched_sep_zero (hl : 0 < lanes) (hw : WinOk D lanes kmax kind preps sched Mr H) (r : ℕ)
    (hr : r < H) (he : entryAt sched (r * lanes) = .sep) :
    ev φ α D (seg (Mr r) (3 * D) D) = 0 := by
  have h0 : vget (prepRow preps lanes kmax sched r) 0 = 0 := by
    rw [prepRow_lane0 lanes kmax preps sched r 0 hl (by unfold prepLaneWidth; omega), he, entryCols_sep]
  exact sep_out_zero_ring φ α D ((0 : K) - vget (prepRow preps lanes kmax sched r) 0)
    (seg (Mr r) (3 * D) D) (by rw [h0, sub_zero])
    (fun c hc => hw r hr c (laneSep_sub D lanes kmax kind hl _ _ _ _ c hc))

/-- Single HORNER op on lane 0 of row `r+1`: one step from row `r`'s lane-0 `out`. -/
theorem sched_horner_single (hk : KindRoot φ D kind α) (hl : 0 < lanes) (hw : WinOk D lanes kmax kind preps sched Mr H)
    (r j : ℕ) (hr : r + 1 < H) (he : entryAt sched ((r + 1) * lanes) = .op j)
    (hp : PrepSel preps j .horner) :
    ev φ α D (seg (Mr (r + 1)) (3 * D) D) =
      ev φ α D (seg (Mr r) (3 * D) D) * ev φ α D (seg (Mr (r + 1)) D D) +
        ev φ α D (seg (Mr (r + 1)) (2 * D) D) - ev φ α D (seg (Mr (r + 1)) 0 D) := by
  have hwr := hw r (by omega)
  rw [Nat.mod_eq_of_lt hr] at hwr
  refine window_hornerSingle_ring D lanes kmax kind φ α hk hl _ _ _ _ hwr ?_
  have h4 : vget (prepRow preps lanes kmax sched (r + 1)) 4 = 1 := by
    rw [prepRow_lane0 lanes kmax preps sched (r + 1) 4 hl (by unfold prepLaneWidth; omega), he,
      entryCols_op _ _ _ _ _ (by unfold prepLaneWidth; omega), hp.2 4 (by omega) (by omega)]
    rfl
  rw [h4, lsum_map_zero _ _ (fun kk _ => by
    unfold wEP
    rw [prepRow_extra preps lanes kmax sched (r + 1) _ hl, he, entryCols_op_extra]), sub_zero]
  exact one_ne_zero

/-- Packed HORNER entry of arity `k` on lane 0 of row `r+1`: `k` chained steps from row `r`'s `out`. -/
theorem sched_packed (hk : KindRoot φ D kind α) (hl : 0 < lanes) (hw : WinOk D lanes kmax kind preps sched Mr H)
    (r f k : ℕ) (hr : r + 1 < H) (he : entryAt sched ((r + 1) * lanes) = .packed f k)
    (h2 : 2 ≤ k) (hkm : k ≤ kmax) :
    ev φ α D (seg (Mr (r + 1)) (3 * D) D) =
      hchainR (ev φ α D (seg (Mr (r + 1)) D D))
        (rowAg φ α D (ev φ α D (seg (Mr (r + 1)) 0 D)) (Mr (r + 1)) (wAc D lanes kmax))
        (rowCg φ α D (ev φ α D (seg (Mr (r + 1)) (2 * D) D)) (Mr (r + 1)) (wAc D lanes kmax)) k 0
        (ev φ α D (seg (Mr r) (3 * D) D)) := by
  have hwr := hw r (by omega)
  rw [Nat.mod_eq_of_lt hr] at hwr
  have hsel : ∀ kk, 2 ≤ kk → kk ≤ kmax →
      vget (prepRow preps lanes kmax sched (r + 1)) (wEP lanes + selKIdx kk) =
        if kk = k then 1 else 0 := by
    intro kk h2' hk'
    unfold wEP
    rw [prepRow_extra preps lanes kmax sched (r + 1) _ hl, he,
      entryCols_packed_selK preps kmax f k kk h2 hkm h2' hk']
  refine packed_window_sound_gen D lanes kmax kind φ α hk hl _ _ _ _ _ _ hwr (hw (r + 1) hr) k h2 hkm
    ?_ ?_
  · rw [hsel k h2 hkm, if_pos rfl]; exact one_ne_zero
  · intro k' a b c
    rw [hsel k' a b, if_neg c]

end Rows

/-! ## 4. The op list seen from the ALU table -/
section AluOps
variable {L : Type}

def isAlu : Op L → Bool
  | .alu _ _ _ _ _ _ => true
  | _ => false

/-- The ALU ops of the circuit, in order: op `j` of this list owns row `j` of `preps`. -/
def aluOps (ops : List (Op L)) : List (Op L) := ops.filter isAlu

def hornerOut : Op L → Option ℕ
  | .alu .horner _ _ _ out _ => some out
  | _ => none

theorem aluOps_cons_alu (k : AluKind) (a b : ℕ) (c : Option ℕ) (out : ℕ) (io : Option ℕ)
    (ops : List (Op L)) :
    aluOps (.alu k a b c out io :: ops) = .alu k a b c out io :: aluOps ops := by
  unfold aluOps
  rw [List.filter_cons_of_pos (by rfl)]

/-- `hornerChained` in terms of ALU indices: a Horner step's `acc` is the output of the ALU op just
before it when that op is a Horner step, a zero constant's slot otherwise. -/
theorem chained_alu (zs : List ℕ) (ops : List (Op L)) (prev0 : Option ℕ)
    (h : hornerChainedFrom zs ops prev0 = true) (j : ℕ) (a b : ℕ) (c : Option ℕ) (out : ℕ)
    (io : Option ℕ) (hj : (aluOps ops)[j]? = some (.alu .horner a b c out io)) :
    ∃ acc, io = some acc ∧
      match (if j = 0 then prev0 else ((aluOps ops)[j - 1]?).bind hornerOut) with
      | some p => acc = p
      | none => acc ∈ zs := by
  induction ops generalizing prev0 j with
  | nil => simp [aluOps] at hj
  | cons op ops ih =>
    cases op with
    | const o v =>
      have e : aluOps (Op.const o v :: ops) = aluOps ops := by
        unfold aluOps; rw [List.filter_cons_of_neg (by simp [isAlu])]
      rw [e] at hj ⊢
      exact ih prev0 (by simpa [hornerChainedFrom] using h) j hj
    | pub o v =>
      have e : aluOps (Op.pub o v :: ops) = aluOps ops := by
        unfold aluOps; rw [List.filter_cons_of_neg (by simp [isAlu])]
      rw [e] at hj ⊢
      exact ih prev0 (by simpa [hornerChainedFrom] using h) j hj
    | hint i o kd =>
      have e : aluOps (Op.hint i o kd :: ops) = aluOps ops := by
        unfold aluOps; rw [List.filter_cons_of_neg (by simp [isAlu])]
      rw [e] at hj ⊢
      exact ih prev0 (by simpa [hornerChainedFrom] using h) j hj
    | npo i o id kd =>
      have e : aluOps (Op.npo i o id kd :: ops) = aluOps ops := by
        unfold aluOps; rw [List.filter_cons_of_neg (by simp [isAlu])]
      rw [e] at hj ⊢
      exact ih prev0 (by simpa [hornerChainedFrom] using h) j hj
    | alu k' a' b' c' out' io' =>
      rw [aluOps_cons_alu] at hj ⊢
      cases j with
      | zero =>
        simp only [List.getElem?_cons_zero, Option.some.injEq] at hj
        cases hj
        cases io with
        | none => simp [hornerChainedFrom] at h
        | some acc =>
          simp only [hornerChainedFrom, Bool.and_eq_true] at h
          refine ⟨acc, rfl, ?_⟩
          simp only [if_true]
          cases prev0 with
          | none => simpa using h.1
          | some p => simpa using h.1
      | succ j =>
        simp only [List.getElem?_cons_succ] at hj
        have htail : hornerChainedFrom zs ops (hornerOut (.alu k' a' b' c' out' io' : Op L)) = true := by
          cases k' with
          | horner =>
            cases io' with
            | none => simp [hornerChainedFrom] at h
            | some acc' =>
              simp only [hornerChainedFrom, Bool.and_eq_true] at h
              exact h.2
          | add => simpa [hornerChainedFrom, hornerOut] using h
          | mul => simpa [hornerChainedFrom, hornerOut] using h
          | boolCheck => simpa [hornerChainedFrom, hornerOut] using h
          | mulAdd => simpa [hornerChainedFrom, hornerOut] using h
        obtain ⟨acc, hio, hm⟩ := ih _ htail j hj
        refine ⟨acc, hio, ?_⟩
        cases j with
        | zero => simpa using hm
        | succ j' => simpa using hm

end AluOps

/-! ## 5. Cells of a packed row's silent intermediate accumulators -/
section Chain
variable {K L : Type} [Field K] [CommRing L] (φ : K →+* L) (α : L) (D : ℕ) (kind : ExtKind K)

/-- Coefficient cells of the accumulator after `t` single Horner steps from `prev` (step `t` reads
`A t`, `C t` and the shared `b`): what a packed row's bus-silent intermediate outputs stand for. -/
def chainCells (b : List K) (A C : ℕ → List K) (prev : List K) : ℕ → List K
  | 0 => prev
  | t + 1 => (List.range D).map fun i =>
      vget (extMul D kind (chainCells b A C prev t) b) i + vget (C t) i - vget (A t) i

theorem hchainR_succ_end (b : L) (A C : ℕ → L) (t : ℕ) (x : L) :
    hchainR b A C (t + 1) 0 x = hchainR b A C t 0 x * b + C t - A t := by
  rw [hchainR_add]
  simp [hchainR]

theorem ev_chainCells (hk : KindRoot φ D kind α) (b : List K) (A C : ℕ → List K) (prev : List K)
    (t : ℕ) :
    ev φ α D (chainCells D kind b A C prev t) =
      hchainR (ev φ α D b) (fun t => ev φ α D (A t)) (fun t => ev φ α D (C t)) t 0
        (ev φ α D prev) := by
  induction t with
  | zero => rfl
  | succ t ih =>
    rw [hchainR_succ_end, ← ih]
    simp only [chainCells]
    rw [ev_map_range,
      evF_sub φ α D (fun i => vget (extMul D kind (chainCells D kind b A C prev t) b) i + vget (C t) i),
      evF_add]
    have e1 := extMul_eval φ α D kind hk (chainCells D kind b A C prev t) b
    unfold ev at e1 ⊢
    rw [e1]

end Chain

/-! ## 6. Composition: cells of the scheduled matrix, structure of the schedule, soundness -/
section Compose
variable {K L : Type} [Field K] [DecidableEq K] [CommRing L] [DecidableEq L]
  (φ : K →+* L) (α : L) (D lanes kmax : ℕ) (kind : ExtKind K) (Mr : ℕ → List K)

/-- Bus roles of an ALU op's operands `out, a, c, b` (from the role scan, `Model/Roles`). -/
abbrev Roles4 := Role × Role × Role × Role

def opA : Op L → ℕ
  | .alu _ a _ _ _ _ => a
  | _ => 0
def opB : Op L → ℕ
  | .alu _ _ b _ _ _ => b
  | _ => 0
def opC : Op L → Option ℕ
  | .alu _ _ _ c _ _ => c
  | _ => none
def opOut : Op L → ℕ
  | .alu _ _ _ _ out _ => out
  | _ => 0

/-- The operand occurrences of one ALU op (order of the role scan: `out, a, [c,] b`) with given cells. -/
def opCells (o : Op L) (r : Roles4) (vo va vc vb : List K) : List (Cell (List K)) :=
  [⟨opOut o, r.1, vo⟩, ⟨opA o, r.2.1, va⟩] ++
    (match opC o with
     | some c => [⟨c, r.2.2.1, vc⟩]
     | none => []) ++ [⟨opB o, r.2.2.2, vb⟩]

theorem mem_opCells_out (o : Op L) (r : Roles4) (vo va vc vb : List K) :
    (⟨opOut o, r.1, vo⟩ : Cell (List K)) ∈ opCells o r vo va vc vb := by simp [opCells]
theorem mem_opCells_a (o : Op L) (r : Roles4) (vo va vc vb : List K) :
    (⟨opA o, r.2.1, va⟩ : Cell (List K)) ∈ opCells o r vo va vc vb := by simp [opCells]
theorem mem_opCells_b (o : Op L) (r : Roles4) (vo va vc vb : List K) :
    (⟨opB o, r.2.2.2, vb⟩ : Cell (List K)) ∈ opCells o r vo va vc vb := by simp [opCells]
theorem mem_opCells_c (o : Op L) (r : Roles4) (vo va vc vb : List K) (c : ℕ) (h : opC o = some c) :
    (⟨c, r.2.2.1, vc⟩ : Cell (List K)) ∈ opCells o r vo va vc vb := by simp [opCells, h]

/-- Main-trace cells of the lane at schedule position `p` (row `p / lanes`, lane `p % lanes`). -/
def cA (p : ℕ) : List K := seg (Mr (p / lanes)) (p % lanes * 4 * D) D
def cB (p : ℕ) : List K := seg (Mr (p / lanes)) (p % lanes * 4 * D + D) D
def cC (p : ℕ) : List K := seg (Mr (p / lanes)) (p % lanes * 4 * D + 2 * D) D
def cO (p : ℕ) : List K := seg (Mr (p / lanes)) (p % lanes * 4 * D + 3 * D) D

/-- `a` / `c` cells of step `t` of a packed row `r`: the lane's own cells for step 0, the extra
main columns (`alu_columns.rs`) for the later steps. -/
def pA (r : ℕ) : ℕ → List K
  | 0 => seg (Mr r) 0 D
  | t + 1 => seg (Mr r) (wAc D lanes kmax + 2 * t * D) D
def pC (r : ℕ) : ℕ → List K
  | 0 => seg (Mr r) (2 * D) D
  | t + 1 => seg (Mr r) (wAc D lanes kmax + 2 * t * D + D) D

def dOp : Op L := .alu .add 0 0 none 0 none

/-- **Unpacked cells of one schedule entry** at position `p`: a single op's four operand cells; for a
packed row of arity `k` the cells of its `k` steps — shared `b` cell, per-step `a`/`c` cells, the row's
`out` cell for the last step and, for the bus-silent intermediate outputs (which have no cell), the
coefficient vector of the partial chain from the previous row's accumulator (`chainCells`). -/
def entryCells (ops : List (Op L)) (rl : ℕ → Roles4) (p : ℕ) : SchedEntry → List (Cell (List K))
  | .sep => []
  | .op j => opCells ((aluOps ops).getD j dOp) (rl j) (cO D lanes Mr p) (cA D lanes Mr p)
      (cC D lanes Mr p) (cB D lanes Mr p)
  | .packed f k =>
    (List.range k).flatMap fun t =>
      opCells ((aluOps ops).getD (f + t) dOp) (rl (f + t))
        (if t + 1 = k then seg (Mr (p / lanes)) (3 * D) D
         else chainCells D kind (seg (Mr (p / lanes)) D D) (pA D lanes kmax Mr (p / lanes))
          (pC D lanes kmax Mr (p / lanes)) (seg (Mr (p / lanes - 1)) (3 * D) D) (t + 1))
        (pA D lanes kmax Mr (p / lanes) t) (pC D lanes kmax Mr (p / lanes) t)
        (seg (Mr (p / lanes)) D D)

/-- What must precede, one row up on lane 0, an entry whose first Horner step is op `j`: the entry
ending with op `j − 1` when that op is a Horner step (same chain), a separator otherwise. -/
def predOK (isH : ℕ → Bool) (j : ℕ) (prev : SchedEntry) : Prop :=
  if 1 ≤ j ∧ isH (j - 1) = true then
    (prev = .op (j - 1) ∨ ∃ f k, prev = .packed f k ∧ f + k = j)
  else prev = .sep

/-- **Lane-0 discipline of a schedule** (what `compute_schedule` produces: chains on lane 0 of
consecutive rows, a separator row before each chain): Horner steps only on lane 0, never in row 0,
packed arities in `2..K_max`, packed ops are Horner steps, and the lane-0 predecessor is `predOK`. -/
structure SchedWF (isH : ℕ → Bool) (sched : List SchedEntry) : Prop where
  opH : ∀ p j, p < sched.length → entryAt sched p = .op j → isH j = true →
    p % lanes = 0 ∧ lanes ≤ p ∧ predOK isH j (entryAt sched (p - lanes))
  packed : ∀ p f k, p < sched.length → entryAt sched p = .packed f k →
    p % lanes = 0 ∧ lanes ≤ p ∧ 2 ≤ k ∧ k ≤ kmax ∧ (∀ t, t < k → isH (f + t) = true) ∧
      predOK isH f (entryAt sched (p - lanes))

theorem isH_iff (preps : List (List K)) (j : ℕ) (k : AluKind) (hp : PrepSel preps j k) :
    isHorner preps j = true ↔ k = .horner := by
  unfold isHorner
  rw [hp.2 4 (by omega) (by omega)]
  cases k <;> simp [selOf]

theorem cells_lane0 (hl : 0 < lanes) (r : ℕ) :
    cO D lanes Mr (r * lanes) = seg (Mr r) (3 * D) D ∧ cA D lanes Mr (r * lanes) = seg (Mr r) 0 D ∧
    cB D lanes Mr (r * lanes) = seg (Mr r) D D ∧ cC D lanes Mr (r * lanes) = seg (Mr r) (2 * D) D := by
  unfold cO cA cB cC
  rw [Nat.mul_mod_left, Nat.mul_div_cancel _ hl]
  simp

theorem rowAg_eq (r : ℕ) :
    rowAg φ α D (ev φ α D (seg (Mr r) 0 D)) (Mr r) (wAc D lanes kmax) =
      fun t => ev φ α D (pA D lanes kmax Mr r t) := by
  funext t
  cases t with
  | zero => rfl
  | succ t => simp only [rowAg, pA]; rw [gA_succ]

theorem rowCg_eq (r : ℕ) :
    rowCg φ α D (ev φ α D (seg (Mr r) (2 * D) D)) (Mr r) (wAc D lanes kmax) =
      fun t => ev φ α D (pC D lanes kmax Mr r t) := by
  funext t
  cases t with
  | zero => rfl
  | succ t => simp only [rowCg, pC]; rw [gC_succ]

theorem aluOps_get_alu (ops : List (Op L)) (i : ℕ) (hi : i < (aluOps ops).length) :
    ∃ k a b c out io, (aluOps ops)[i]? = some (.alu k a b c out io) := by
  have hm : (aluOps ops)[i] ∈ aluOps ops := List.getElem_mem hi
  have := (List.mem_filter.mp hm).2
  rw [List.getElem?_eq_getElem hi]
  cases h : (aluOps ops)[i] with
  | alu k a b c out io => exact ⟨k, a, b, c, out, io, rfl⟩
  | const _ _ => rw [h] at this; simp [isAlu] at this
  | pub _ _ => rw [h] at this; simp [isAlu] at this
  | hint _ _ _ => rw [h] at this; simp [isAlu] at this
  | npo _ _ _ _ => rw [h] at this; simp [isAlu] at this

theorem getD_of_getElem? (l : List (Op L)) (j : ℕ) (x : Op L) (h : l[j]? = some x) :
    l.getD j dOp = x := by
  rw [List.getD_eq_getElem?_getD, h]; rfl

variable (preps : List (List K)) (sched : List SchedEntry) (H : ℕ)

/-- **The accumulator a lane-0 Horner entry starts from.** The lane-0 `out` element of the row above
is the value of the first step's `acc` slot: the output of the previous step of the chain (single or
last of a packed row), or 0 = the zero constant after a separator. -/
theorem prev_out_acc (hl : 0 < lanes) (ops : List (Op L)) (rl : ℕ → Roles4)
    (hH : sched.length ≤ H * lanes)
    (hsel : ∀ j k a b c out io, (aluOps ops)[j]? = some (.alu k a b c out io) → PrepSel preps j k)
    (hwf : SchedWF lanes kmax (isHorner preps) sched)
    (hw : WinOk D lanes kmax kind preps sched Mr H)
    (hchain : hornerChained ops = true)
    (hnoskip : ∀ j, (rl j).1 ≠ .skip)
    (cv : ℕ → List K)
    (hcv : ∀ p, p < sched.length → ∀ c ∈ entryCells D lanes kmax kind Mr ops rl p (entryAt sched p),
      c.role ≠ .skip → c.val = cv c.slot)
    (hz : ∀ x ∈ zeroConsts ops, ev φ α D (cv x) = 0)
    (r : ℕ) (hp : (r + 1) * lanes < sched.length)
    (j a b : ℕ) (c : Option ℕ) (out acc : ℕ)
    (hj : (aluOps ops)[j]? = some (.alu .horner a b c out (some acc)))
    (hpred : predOK (isHorner preps) j (entryAt sched (r * lanes))) :
    ev φ α D (seg (Mr r) (3 * D) D) = ev φ α D (cv acc) := by
  obtain ⟨acc', hio, hm⟩ := chained_alu (zeroConsts ops) ops none (by simpa [hornerChained] using hchain)
    j a b c out (some acc) hj
  cases hio
  have hrl : r * lanes < sched.length := by
    have : r * lanes ≤ (r + 1) * lanes := Nat.mul_le_mul_right _ (Nat.le_succ r)
    omega
  have hrH : r < H := by
    by_contra hge
    have : H * lanes ≤ r * lanes := Nat.mul_le_mul_right _ (by omega)
    omega
  have hjlt : j < (aluOps ops).length := by
    by_contra hge
    rw [List.getElem?_eq_none (by omega)] at hj
    cases hj
  unfold predOK at hpred
  by_cases hc : 1 ≤ j ∧ isHorner preps (j - 1) = true
  · rw [if_pos hc] at hpred
    obtain ⟨k', a', b', c', out', io', hprev⟩ := aluOps_get_alu ops (j - 1) (by omega)
    have hk' : k' = .horner := (isH_iff preps (j - 1) k' (hsel _ _ _ _ _ _ _ hprev)).mp hc.2
    subst hk'
    have hacc : acc = out' := by
      rw [if_neg (by omega), hprev] at hm
      simpa [hornerOut] using hm
    subst hacc
    have hcells := hcv (r * lanes) hrl
    rcases hpred with hpo | ⟨f, k, hpk, hfk⟩
    · rw [hpo] at hcells
      simp only [entryCells, getD_of_getElem? _ _ _ hprev] at hcells
      have := hcells ⟨acc, (rl (j - 1)).1, cO D lanes Mr (r * lanes)⟩ (by simp [opCells, opOut])
        (hnoskip _)
      simp only at this
      rw [← this, (cells_lane0 D lanes Mr hl r).1]
    · obtain ⟨_, _, hk2, _, _, _⟩ := hwf.packed (r * lanes) f k hrl hpk
      rw [hpk] at hcells
      have hidx : f + (k - 1) = j - 1 := by omega
      have := hcells ⟨acc, (rl (j - 1)).1, seg (Mr r) (3 * D) D⟩ (by
        simp only [entryCells]
        refine List.mem_flatMap.mpr ⟨k - 1, List.mem_range.mpr (by omega), ?_⟩
        rw [hidx, getD_of_getElem? _ _ _ hprev, if_pos (by omega), Nat.mul_div_cancel _ hl]
        simp [opCells, opOut]) (hnoskip _)
      simp only at this
      rw [← this]
  · rw [if_neg hc] at hpred
    have h0 := sched_sep_zero φ α D lanes kmax kind preps sched Mr H hl hw r hrH hpred
    rw [h0]
    have hnone : (if j = 0 then (none : Option ℕ) else ((aluOps ops)[j - 1]?).bind hornerOut) = none := by
      by_cases hj0 : j = 0
      · rw [if_pos hj0]
      · rw [if_neg hj0]
        obtain ⟨k', a', b', c', out', io', hprev⟩ := aluOps_get_alu ops (j - 1) (by omega)
        have hk' : k' ≠ .horner := fun h =>
          hc ⟨by omega, (isH_iff preps (j - 1) k' (hsel _ _ _ _ _ _ _ hprev)).mpr h⟩
        rw [hprev]
        cases k' <;> first | exact absurd rfl hk' | rfl
    rw [hnone] at hm
    exact (hz acc hm).symm

/-- **Rows of the scheduled ALU table, composed.** Hypotheses: (a) `WinOk` — all constraints of
`aluConstraints` vanish on every window of the concrete scheduled matrix; the schedule covers every ALU
op once (`C11.computeSchedule_cover`) and has the lane-0 discipline `SchedWF`; the preprocessed selector
columns of op `j` encode its kind (`PrepSel`); Horner steps are chained; no operand off the bus; and the
cells of the scheduled matrix are single-valued per slot (`hcv`, the conclusion of the bus argument —
`sched_bus_cells`). Then `w s = ev (cv s)` satisfies every op. Const / Public clauses are hypotheses
(finding F4), as in `accepted_sat_gen`. -/
theorem sched_rows_sat (hD : 0 < D) (hk : KindRoot φ D kind α) (hl : 0 < lanes)
    (pub : ℕ → L) (ops : List (Op L)) (rl : ℕ → Roles4)
    (hH : sched.length ≤ H * lanes)
    (hcover : (flatOps sched).Perm (List.range preps.length))
    (hn : preps.length = (aluOps ops).length)
    (hsel : ∀ j k a b c out io, (aluOps ops)[j]? = some (.alu k a b c out io) → PrepSel preps j k)
    (hshape : ∀ k a b out io, Op.alu k a b none out io ∈ ops → k ≠ .mulAdd ∧ k ≠ .horner)
    (hwf : SchedWF lanes kmax (isHorner preps) sched)
    (hw : WinOk D lanes kmax kind preps sched Mr H)
    (hchain : hornerChained ops = true)
    (hnoskip : ∀ j, (rl j).1 ≠ .skip ∧ (rl j).2.1 ≠ .skip ∧ (rl j).2.2.1 ≠ .skip ∧
      (rl j).2.2.2 ≠ .skip)
    (cv : ℕ → List K)
    (hcv : ∀ p, p < sched.length → ∀ c ∈ entryCells D lanes kmax kind Mr ops rl p (entryAt sched p),
      c.role ≠ .skip → c.val = cv c.slot)
    (hconst : ∀ out v, Op.const out v ∈ ops → ev φ α D (cv out) = v)
    (hpub : ∀ out pos, Op.pub out pos ∈ ops → ev φ α D (cv out) = pub pos) :
    Sat (fun s => ev φ α D (cv s)) pub ops := by
  have hz : ∀ x ∈ zeroConsts ops, ev φ α D (cv x) = 0 :=
    zeroConsts_zero_gen (fun s => ev φ α D (cv s)) ops hconst
  intro op hop
  cases op with
  | const out v => exact hconst out v hop
  | pub out pos => exact hpub out pos hop
  | hint _ _ _ => trivial
  | npo _ _ _ _ => trivial
  | alu k a b c out io =>
    have hmem : Op.alu k a b c out io ∈ aluOps ops := List.mem_filter.mpr ⟨hop, rfl⟩
    obtain ⟨j, hjlt, hjg⟩ := List.getElem_of_mem hmem
    have hj : (aluOps ops)[j]? = some (.alu k a b c out io) := by
      rw [List.getElem?_eq_getElem hjlt, hjg]
    have hgetD := getD_of_getElem? _ _ _ hj
    have hps := hsel j k a b c out io hj
    have hjin : j ∈ flatOps sched := hcover.mem_iff.mpr (List.mem_range.mpr (by omega))
    obtain ⟨e, hes, hje⟩ := List.mem_flatMap.mp hjin
    obtain ⟨p, hplt, hpe⟩ := List.getElem_of_mem hes
    have hat : entryAt sched p = e := by
      unfold entryAt
      rw [List.getD_eq_getElem?_getD, List.getElem?_eq_getElem hplt, hpe]; rfl
    have hrH : p / lanes < H := by
      apply Nat.div_lt_of_lt_mul
      rw [Nat.mul_comm]; omega
    have hpdec : p / lanes * lanes + p % lanes = p := by
      rw [Nat.mul_comm]; exact Nat.div_add_mod p lanes
    have hlane : p % lanes < lanes := Nat.mod_lt _ hl
    have hcells := hcv p hplt
    rw [hat] at hcells
    cases e with
    | sep => simp [entryOps] at hje
    | op j' =>
      have hjj : j = j' := by simpa [entryOps] using hje
      subst hjj
      simp only [entryCells, hgetD] at hcells
      have hO : cO D lanes Mr p = cv out :=
        hcells _ (mem_opCells_out (Op.alu _ a b _ out _) (rl j) _ _ _ _) (hnoskip j).1
      have hA : cA D lanes Mr p = cv a :=
        hcells _ (mem_opCells_a (Op.alu _ a b _ out _) (rl j) _ _ _ _) (hnoskip j).2.1
      have hB : cB D lanes Mr p = cv b :=
        hcells _ (mem_opCells_b (Op.alu _ a b _ out _) (rl j) _ _ _ _) (hnoskip j).2.2.2
      have he' : entryAt sched (p / lanes * lanes + p % lanes) = .op j := by rw [hpdec]; exact hat
      cases k with
      | add =>
        have := sched_add φ α D lanes kmax kind preps sched Mr H hw (p / lanes) (p % lanes) j hrH
          hlane he' hps
        show ev φ α D (cv a) + ev φ α D (cv b) = ev φ α D (cv out)
        rw [← hO, ← hA, ← hB]; exact this.symm
      | mul =>
        have := sched_mul φ α D lanes kmax kind preps sched Mr H hk hw (p / lanes) (p % lanes) j hrH
          hlane he' hps
        show ev φ α D (cv a) * ev φ α D (cv b) = ev φ α D (cv out)
        rw [← hO, ← hA, ← hB]; exact this.symm
      | boolCheck =>
        have := sched_bool φ α D lanes kmax kind preps sched Mr H hD hw (p / lanes) (p % lanes) j hrH
          hlane he' hps
        show ev φ α D (cv a) * (ev φ α D (cv a) - 1) = 0
        rw [← hA]
        rcases this with h0 | h1
        · unfold cA; rw [h0]; ring
        · unfold cA; rw [h1]; ring
      | mulAdd =>
        cases c with
        | none => exact absurd rfl (hshape _ _ _ _ _ hop).1
        | some cw =>
          have hC : cC D lanes Mr p = cv cw :=
            hcells _ (mem_opCells_c (Op.alu _ a b _ out _) (rl j) _ _ _ _ cw rfl) (hnoskip j).2.2.1
          have := sched_mulAdd φ α D lanes kmax kind preps sched Mr H hk hw (p / lanes) (p % lanes) j
            hrH hlane he' hps
          show ev φ α D (cv a) * ev φ α D (cv b) + ev φ α D (cv cw) = ev φ α D (cv out)
          rw [← hO, ← hA, ← hB, ← hC]; exact this.symm
      | horner =>
        cases c with
        | none => exact absurd rfl (hshape _ _ _ _ _ hop).2
        | some cw =>
          obtain ⟨acc, hio, _⟩ := chained_alu (zeroConsts ops) ops none
            (by simpa [hornerChained] using hchain) j a b (some cw) out io hj
          subst hio
          have hC : cC D lanes Mr p = cv cw :=
            hcells _ (mem_opCells_c (Op.alu _ a b _ out _) (rl j) _ _ _ _ cw rfl) (hnoskip j).2.2.1
          obtain ⟨hl0, hge, hpred⟩ := hwf.opH p j hplt hat ((isH_iff preps j _ hps).mpr rfl)
          obtain ⟨r, hr⟩ : ∃ r, p / lanes = r + 1 :=
            ⟨p / lanes - 1, by have := Nat.div_pos hge hl; omega⟩
          have hpe : p = (r + 1) * lanes := by rw [← hr]; omega
          subst hpe
          have hsub : (r + 1) * lanes - lanes = r * lanes := by
            rw [Nat.succ_mul]; omega
          rw [hsub] at hpred
          have hstep := sched_horner_single φ α D lanes kmax kind preps sched Mr H hk hl hw r j
            (by omega) hat hps
          have hprev := prev_out_acc φ α D lanes kmax kind Mr preps sched H hl ops rl hH hsel hwf hw
            hchain (fun j => (hnoskip j).1) cv hcv hz r hplt j a b (some cw) out acc hj hpred
          obtain ⟨e1, e2, e3, e4⟩ := cells_lane0 D lanes Mr hl (r + 1)
          rw [e1] at hO; rw [e2] at hA; rw [e3] at hB; rw [e4] at hC
          show ev φ α D (cv acc) * ev φ α D (cv b) + ev φ α D (cv cw) - ev φ α D (cv a) =
            ev φ α D (cv out)
          rw [← hO, ← hA, ← hB, ← hC, ← hprev]; exact hstep.symm
    | packed f kk =>
      obtain ⟨t, htk, hjt⟩ : ∃ t, t < kk ∧ j = f + t := by
        simp only [entryOps, List.mem_map, List.mem_range] at hje
        obtain ⟨t, ht, rfl⟩ := hje
        exact ⟨t, ht, rfl⟩
      obtain ⟨hl0, hge, hk2, hkm, hallH, hpred⟩ := hwf.packed p f kk hplt hat
      have hkh : k = .horner := (isH_iff preps j k hps).mp (by rw [hjt]; exact hallH t htk)
      subst hkh
      cases c with
      | none => exact absurd rfl (hshape _ _ _ _ _ hop).2
      | some cw =>
        obtain ⟨acc, hio, hm⟩ := chained_alu (zeroConsts ops) ops none
          (by simpa [hornerChained] using hchain) j a b (some cw) out io hj
        subst hio
        obtain ⟨r, hr⟩ : ∃ r, p / lanes = r + 1 :=
          ⟨p / lanes - 1, by have := Nat.div_pos hge hl; omega⟩
        have hpe : p = (r + 1) * lanes := by rw [← hr]; omega
        subst hpe
        have hsub : (r + 1) * lanes - lanes = r * lanes := by
          rw [Nat.succ_mul]; omega
        rw [hsub] at hpred
        simp only [entryCells, Nat.mul_div_cancel _ hl, Nat.add_sub_cancel] at hcells
        -- the chain of ring elements
        set bR := ev φ α D (seg (Mr (r + 1)) D D) with hbR
        set X : ℕ → L := fun n => hchainR bR (fun t => ev φ α D (pA D lanes kmax Mr (r + 1) t))
          (fun t => ev φ α D (pC D lanes kmax Mr (r + 1) t)) n 0 (ev φ α D (seg (Mr r) (3 * D) D))
          with hX
        have hXchain : ∀ n, ev φ α D (chainCells D kind (seg (Mr (r + 1)) D D)
            (pA D lanes kmax Mr (r + 1)) (pC D lanes kmax Mr (r + 1)) (seg (Mr r) (3 * D) D) n) = X n :=
          fun n => ev_chainCells φ α D kind hk _ _ _ _ n
        have hXk : ev φ α D (seg (Mr (r + 1)) (3 * D) D) = X kk := by
          have := sched_packed φ α D lanes kmax kind preps sched Mr H hk hl hw r f kk (by omega) hat
            hk2 hkm
          rw [rowAg_eq, rowCg_eq] at this
          exact this
        -- cells of step t
        have hstepcells : ∀ c ∈ opCells (Op.alu .horner a b (some cw) out (some acc) : Op L) (rl j)
            (if t + 1 = kk then seg (Mr (r + 1)) (3 * D) D
             else chainCells D kind (seg (Mr (r + 1)) D D) (pA D lanes kmax Mr (r + 1))
              (pC D lanes kmax Mr (r + 1)) (seg (Mr r) (3 * D) D) (t + 1))
            (pA D lanes kmax Mr (r + 1) t) (pC D lanes kmax Mr (r + 1) t) (seg (Mr (r + 1)) D D),
            c.role ≠ .skip → c.val = cv c.slot := by
          intro c hc
          refine hcells c (List.mem_flatMap.mpr ⟨t, List.mem_range.mpr htk, ?_⟩)
          rw [← hjt, hgetD]
          exact hc
        have hO := hstepcells _ (mem_opCells_out _ _ _ _ _ _) (hnoskip j).1
        have hA := hstepcells _ (mem_opCells_a _ _ _ _ _ _) (hnoskip j).2.1
        have hB := hstepcells _ (mem_opCells_b _ _ _ _ _ _) (hnoskip j).2.2.2
        have hC := hstepcells _ (mem_opCells_c _ _ _ _ _ _ cw rfl) (hnoskip j).2.2.1
        simp only [opOut, opA, opB] at hO hA hB hC
        have hwout : ev φ α D (cv out) = X (t + 1) := by
          rw [← hO]
          by_cases hlast : t + 1 = kk
          · rw [if_pos hlast, hlast]; exact hXk
          · rw [if_neg hlast]; exact hXchain (t + 1)
        -- the accumulator
        have hwacc : ev φ α D (cv acc) = X t := by
          cases t with
          | zero =>
            have hj0 : j = f := by omega
            subst hj0
            exact (prev_out_acc φ α D lanes kmax kind Mr preps sched H hl ops rl hH hsel hwf hw
              hchain (fun j => (hnoskip j).1) cv hcv hz r hplt j a b (some cw) out acc hj hpred).symm
          | succ t' =>
            obtain ⟨k', a', b', c', out', io', hprev⟩ := aluOps_get_alu ops (j - 1) (by omega)
            have hjp : j - 1 = f + t' := by omega
            have hk' : k' = .horner :=
              (isH_iff preps (j - 1) k' (hsel _ _ _ _ _ _ _ hprev)).mp
                (by rw [hjp]; exact hallH t' (by omega))
            subst hk'
            have hacc : acc = out' := by
              rw [if_neg (by omega), hprev] at hm
              simpa [hornerOut] using hm
            subst hacc
            have := hcells ⟨acc, (rl (f + t')).1, chainCells D kind (seg (Mr (r + 1)) D D)
                (pA D lanes kmax Mr (r + 1)) (pC D lanes kmax Mr (r + 1)) (seg (Mr r) (3 * D) D)
                (t' + 1)⟩ (by
              refine List.mem_flatMap.mpr ⟨t', List.mem_range.mpr (by omega), ?_⟩
              rw [← hjp, getD_of_getElem? _ _ _ hprev, if_neg (by omega)]
              simp [opCells, opOut]) (hnoskip _).1
            simp only at this
            rw [← this]
            exact hXchain (t' + 1)
        show ev φ α D (cv acc) * ev φ α D (cv b) + ev φ α D (cv cw) - ev φ α D (cv a) =
          ev φ α D (cv out)
        rw [hwout, hwacc, ← hA, ← hB, ← hC, hX]
        simp only
        rw [hchainR_succ_end]

/-- All unpacked operand cells of the scheduled ALU table, entry by entry. -/
def schedCells (ops : List (Op L)) (rl : ℕ → Roles4) : List (Cell (List K)) :=
  (List.range sched.length).flatMap fun p =>
    entryCells D lanes kmax kind Mr ops rl p (entryAt sched p)

/-- **C04 — soundness of the scheduled ALU table (every `D`, lanes ≥ 1, `K_max`).**
`sched = computeSchedule preps lanes kmax` (the model of `AluAir::compute_schedule`), preprocessed
matrix `prepRow preps lanes kmax sched` (`scheduledPrepRows`, zero rows up to height `H`), main trace
`Mr` arbitrary. If (a) every constraint of `aluConstraints` vanishes on every window (`WinOk`) and
(b) the WitnessChecks bus `B` balances as a signed multiset of `(slot, v_0 … v_{D−1})` tuples — `B`
being tuple-equivalent to the interactions of the other tables' cells `others` (Const, Public, …)
and of the scheduled table's cells (`schedBus_equiv`: the packed form `schedBus`, in which a packed row
sends ONE `b` tuple with the summed multiplicity and no tuple for the silent outputs, is such a `B`) —
then there are coefficient cells `cv s` per slot, equal to every on-bus cell of the scheduled matrix,
such that `w s = ev φ α D (cv s)` satisfies EVERY op of the circuit. Explicit hypotheses: matrix
height covers the schedule (`hH`), one `preps` row per ALU op with the kind's selectors (`hn`, `hsel`),
MUL_ADD / HORNER ops have a `c` operand (`hshape`), lane-0 discipline of the schedule (`hwf`),
`hornerChained`, no ALU operand off the bus (`hnoskip`), at most one creator per slot (`hcre`, C09),
Const / Public rows carry the circuit's constants / public values (`hconstC`, `hpubC`: finding F4). -/
theorem scheduled_accepted_sat (hD : 0 < D) (hk : KindRoot φ D kind α) (hl : 0 < lanes)
    (pub : ℕ → L) (ops : List (Op L)) (rl : ℕ → Roles4) (reads : List (ℕ × ℕ))
    (hsched : computeSchedule preps lanes kmax = some sched)
    (hH : sched.length ≤ H * lanes)
    (hn : preps.length = (aluOps ops).length)
    (hsel : ∀ j k a b c out io, (aluOps ops)[j]? = some (.alu k a b c out io) → PrepSel preps j k)
    (hshape : ∀ k a b out io, Op.alu k a b none out io ∈ ops → k ≠ .mulAdd ∧ k ≠ .horner)
    (hwf : SchedWF lanes kmax (isHorner preps) sched)
    (hw : WinOk D lanes kmax kind preps sched Mr H)
    (hchain : hornerChained ops = true)
    (hnoskip : ∀ j, (rl j).1 ≠ .skip ∧ (rl j).2.1 ≠ .skip ∧ (rl j).2.2.1 ≠ .skip ∧
      (rl j).2.2.2 ≠ .skip)
    (others : List (Cell (List K)))
    (hcre : ∀ s, nCreators ((others ++ schedCells D lanes kmax kind Mr sched ops rl).map evOf) s ≤ 1)
    (B : List (Inter (List K)))
    (hequiv : ∀ s v, tupleNet B s v =
      tupleNet (busOf reads (others ++ schedCells D lanes kmax kind Mr sched ops rl)) s v)
    (hbal : ∀ s v, tupleNet B s v = 0)
    (hconstC : ∀ out v, Op.const out v ∈ ops →
      ∃ c ∈ others, c.slot = out ∧ c.role ≠ .skip ∧ ev φ α D c.val = v)
    (hpubC : ∀ out pos, Op.pub out pos ∈ ops →
      ∃ c ∈ others, c.slot = out ∧ c.role ≠ .skip ∧ ev φ α D c.val = pub pos) :
    ∃ cv : ℕ → List K,
      (∀ c ∈ others ++ schedCells D lanes kmax kind Mr sched ops rl, c.role ≠ .skip →
        c.val = cv c.slot) ∧
      Sat (fun s => ev φ α D (cv s)) pub ops := by
  obtain ⟨cv, hcvAll⟩ := bus_single_valued_gen ([] : List K) reads
    (others ++ schedCells D lanes kmax kind Mr sched ops rl) hcre
    (fun s v => by rw [← hequiv s v]; exact hbal s v)
  refine ⟨cv, hcvAll, ?_⟩
  refine sched_rows_sat φ α D lanes kmax kind Mr preps sched H hD hk hl pub ops rl hH
    (computeSchedule_cover preps lanes kmax sched hsched) hn hsel hshape hwf hw hchain hnoskip cv
    ?_ ?_ ?_
  · intro p hp c hc hne
    refine hcvAll c (List.mem_append_right _ ?_) hne
    exact List.mem_flatMap.mpr ⟨p, List.mem_range.mpr hp, hc⟩
  · intro out v hm
    obtain ⟨c, hc, hs, hr, hv⟩ := hconstC out v hm
    rw [← hs, ← hcvAll c (List.mem_append_left _ hc) hr]; exact hv
  · intro out pos hm
    obtain ⟨c, hc, hs, hr, hv⟩ := hpubC out pos hm
    rw [← hs, ← hcvAll c (List.mem_append_left _ hc) hr]; exact hv

end Compose

end P3R.C04
