"""C12 — bit and coefficient decompositions admit only the canonical witness.
Plug-in for bin/check (see bin/checks.py, AGENT_BRIEF.md)."""
import json, os, itertools

PROPERTY = "C12"


def _lines(p):
    with open(p) as fh:
        return [l.rstrip("\n") for l in fh]


def run(ctx):
    tier, seed, work = ctx["tier"], ctx["seed"], ctx["work"]
    root = ctx["root"]
    if ctx.get("replay"):
        rp = json.load(open(ctx["replay"]))
        os.makedirs(f"{work}/replay_corpus", exist_ok=True)
        json.dump(rp.get("replay", rp), open(f"{work}/replay_corpus/r.json", "w"))
        runs = [dict(value=0, run=0, prove=0, chal=0, corpus=f"{work}/replay_corpus")]
    elif tier == "quick":
        runs = [dict(value=1500, run=3000, prove=2000, chal=12, corpus=f"{root}/corpus/c12")]
    else:
        runs = [dict(value=20000, run=40000, prove=15000, chal=150, corpus=f"{root}/corpus/c12"),
                dict(value=20000, run=40000, prove=15000, chal=150, corpus=None)]
    driver = ctx["driver_dir"] + "/p3r_driver_c12"
    violations, hist, samples = [], {}, []
    evaluations = distinct = nontrivial = disagreements = compared = proofs = 0
    gadget_cost = None
    for n, r in enumerate(runs):
        out = f"{work}/run{n}"
        cmd = [ctx["harness"], "decomp", "--seed", str(seed + 1000 * n), "--value-cases", str(r["value"]),
               "--run-cases", str(r["run"]), "--prove-cases", str(r["prove"]), "--chal-cases", str(r["chal"]), "--out", out]
        if r["corpus"]:
            cmd += ["--corpus", r["corpus"]]
        rc, o = ctx["sh"](cmd, timeout=7200)
        if rc != 0:
            violations.append({"class": "harness-crash", "what": f"harness decomp exited {rc}: {o[-300:]}",
                               "replay": {"cmd": cmd}, "no_input": True})
            continue
        rep = json.load(open(f"{out}/decomp.report.json"))
        evaluations += rep["evaluations"]; distinct += rep["distinct"]; nontrivial += rep["distinct_nontrivial"]
        proofs += rep["proofs"]
        gadget_cost = rep.get("gadget_cost_alu_rows_and_slots")
        for k, v in rep["hist"].items():
            hist[k] = hist.get(k, 0) + v
        samples += rep["samples"][:4]
        for v in rep["violations"]:
            violations.append({"class": v["class"],
                               "what": f"{v['kind']} {json.dumps(v.get('detail', {}))[:260]}",
                               "replay": v["replay"]})
        with open(f"{out}/decomp.cases") as fin:
            rc, mo = ctx["sh"]([driver], stdin=fin, timeout=3600)
        with open(f"{out}/decomp.model", "w") as fh:
            fh.write(mo)
        il, ml, cl = _lines(f"{out}/decomp.impl"), _lines(f"{out}/decomp.model"), _lines(f"{out}/decomp.cases")
        bad = [(k, a, b) for k, (a, b) in enumerate(itertools.zip_longest(il, ml)) if a != b]
        compared += len(il)
        disagreements += len(bad)
        for (k, a, b) in bad[:3]:
            violations.append({"class": "model-disagreement",
                               "what": f"correspondence decomp-model (decompose_to_bits / decompose_ext_to_base_coeffs / recompose tables vs lean/P3R/Model/Decomp) no longer checks: impl={a!r} model={b!r}",
                               "replay": {"correspondence": "decompose_to_bits, reconstruct_index_from_bits, decompose_ext_to_base_coeffs, recompose* (builder + runner + prove/verify verdict) vs lean/P3R/Model/Decomp",
                                          "case": cl[k] if k < len(cl) else None, "impl": a, "model": b},
                               "no_input": True})
    cov = {"evaluations": evaluations, "distinct_nontrivial": nontrivial, "distinct": distinct, "real_proofs": proofs,
           "rule": "cases = (field bb/kb/gl, bit width n, value x, contents of the hinted bit slots) and (field, D, W, lowering "
                   "alu/npo/npoc, consumer shape, x, contents of the D hinted coefficient slots), generated from VERIF_SEED: honest, "
                   "bits of x+p / x+2p (must be rejected since the canonicity repair), one flipped bit, recomposition-preserving non-boolean, random boolean; moved mass, tail junk, "
                   "head change, random; plus hint-output and recomposition-value cases, and in-situ cases on the real CircuitChallenger::sample_bits "
                   "(BabyBear D=4, Poseidon2 w16; observed values ground until sample < 2^31-p, hint replaced by bits of sample+p). Each case is executed on the real builder + "
                   "runner with the hint executor replaced, 'prove' cases also through prove_all_tables + verify_all_tables; every "
                   "result line is compared with the Lean model. distinct_nontrivial = distinct case lines whose slot contents are "
                   "not the honest hint output",
           "samples": samples[:6], "input_distribution": hist,
           "traces_validated_against_impl": compared, "disagreements_checked": disagreements,
           "known_not_reproduced": [],
           "decompose_to_bits_cost_(alu_rows,witness_slots)": gadget_cost}
    return violations, cov


CHECK = {
    "lean_modules": ["P3R.Props.C12", "P3R.Witness.C12"],
    "lean_exes": ["p3r_driver_c12"],
    "theorems": ["P3R.C12.accept_iff", "P3R.C12.bits_unique", "P3R.C12.bits_not_unique", "P3R.C12.unique_iff",
                 "P3R.C12.lowbit_changes", "P3R.C12.babybear_31_not_unique", "P3R.C12.koalabear_31_not_unique",
                 "P3R.C12.goldilocks_64_not_unique",
                 "P3R.C12.accept_fixed_iff", "P3R.C12.bits_canonical_fixed", "P3R.C12.fixed_canon_accept",
                 "P3R.C12.babybear_31_unique_fixed", "P3R.C12.koalabear_31_unique_fixed",
                 "P3R.C12.goldilocks_64_unique_fixed",
                 "P3R.C12.recompose_embed", "P3R.C12.alu_base_unique", "P3R.C12.alu_canon_accept",
                 "P3R.C12.alu_not_unique", "P3R.C12.npo_accept_iff", "P3R.C12.npo_cells_unique",
                 "P3R.C12.npo_not_unique", "P3R.C12.npoc_bound_unique", "P3R.C12.npoc_unbound_eq_npo",
                 "P3R.C12.Witness.forged_rejected", "P3R.C12.Witness.forged_run_conflict",
                 "P3R.C12.Witness.honest_accepted", "P3R.C12.Witness.forged_index_differs",
                 "P3R.C12.Witness.full_statement_bits_false_before_repair", "P3R.C12.Witness.full_statement_coeffs_alu_false",
                 "P3R.C12.Witness.junk_accepted_npo", "P3R.C12.Witness.junk_rejected_npoc_read"],
    "run": run,
    "trusted_base": [
        "executable prime-field instances PF p of the driver (validated against p3-field by the hint / recon / erecon value cases)",
        "batch-STARK + LogUp assumed ideal: 'accepted by verify_all_tables' is read as 'every table row relation holds and the WitnessChecks bus balances'",
        "the model treats the relation imposed on the hinted slots only; which other rows read those slots is a case parameter (consumer shape), not derived from an arbitrary circuit",
    ],
    "assumptions": [
        "bits: single-limb decompositions only (n <= BF::bits(), the only widths used by sample_bits / check_pow_witness / WHIR); the multi-limb chunking of reconstruct_index_from_bits for n > BF::bits() is not modelled",
        "coefficients: binomial extensions X^D = W (BabyBear D=4, KoalaBear D=4, Goldilocks D=2); the quintic trinomial extension is not modelled",
        "observation point is the one the property names: hint executors emitting non-canonical decompositions; hand-forged Traces (e.g. recompose rows whose cells differ from the runner's) are outside this check (C04/C06)",
    ],
}

MANIFEST_ENTRY = {
    "property_id": "C12",
    "quick_cmd": "bin/check C12 --tier quick",
    "thorough_cmd": "bin/check C12 --tier thorough",
    "evidence_file": "evidence/C12.json",
    "replay_cmd_template": "bin/check C12 --replay {path}",
    "engine": "lean-models",
    "technique": "Lean 4 theorems characterising every accepted decomposition witness (model of the circuit relation on the hinted slots) + differential correspondence of run / prove+verify verdicts with deviating hint executors on the real code",
    "level_claimed": {
        "category": "proof",
        "text": "Bits (after fixes/C12-1.diff): accept_fixed_iff / bits_canonical_fixed: for w = BF::bits() and every n <= w the repaired relation (boolean checks, recomposition identity, comparison of a full-width limb with the bits of p) accepts exactly the canonical bits; call-site instances for BabyBear/KoalaBear/Goldilocks. Without the comparison (accept_iff, bits_not_unique, unique_iff) the witnesses are the expansions of v+k*p, which is what the repair removes. Coefficients: base-field coefficient vectors unique (alu_base_unique); ALU chain accepts moved mass for every D>=2 (alu_not_unique); recompose table binds only the cells (npo_accept_iff, npo_not_unique); recompose/coeff unique iff its tuple has non-zero multiplicity (npoc_bound_unique, npoc_unbound_eq_npo). Model tied to the code by line-exact comparison of runner outcome and prove+verify verdict on generated honest and deviating hint outputs.",
        "design_ref": "4/C12",
    },
    "level_note": "Lean kernel + 3 standard axioms; model hand-written (correspondence-tested, bb/kb/gl, D in {1,2,4}); STARK/LogUp assumed ideal; multi-limb bit decompositions and quintic extension not modelled; bits: full statement proved for the repaired gadget (F8 fixed, its witnesses are regression cases that must be rejected); coefficients: full statement false (known findings F16, F17, F18)",
}
