/-
The work-stack loop of `circuit/src/symbolic/compiler.rs` (`wsStep` / `wsRun` / `wsCompile` of
`Model/SymCompile.lean`), proved once for an abstract builder:

* `eval_bigstep` — from a state whose top work item is `Eval n`, the loop reaches, in at most
  `3·(newly cached nodes) + 1` iterations, the state with that item removed and one id pushed
  on the value stack; the id has the native value of node `n`; the cache only ever maps a node
  to an id of equal value and never receives a key twice;
* `wsCompile_sound` — hence `wsCompile` with fuel `≥ 3·N + 1` (N = number of nodes) returns, and
  what it returns is sound. This is both the termination and the correctness of the loop.
-/
import P3R.Model.SymCompile
import Mathlib.Algebra.Ring.Basic
import Mathlib.Data.List.Perm.Subperm
import Mathlib.Data.List.Range

set_option linter.unusedSectionVars false

namespace P3R.WSL
open P3R

variable {σ K : Type} [CommRing K]

def binOpVal : BinOp → K → K → K
  | .add, a, b => a + b
  | .sub, a, b => a - b
  | .mul, a, b => a * b

/-- Exactly `k` iterations of the loop body. -/
def wsIter (O : Ops σ) (shape : Nat → Option Shape) (leaf : Nat → σ → Option (σ × Nat)) :
    Nat → WS σ → Option (WS σ)
  | 0, st => some st
  | k + 1, st => (wsStep O shape leaf st).bind (wsIter O shape leaf k)

theorem wsIter_trans {O : Ops σ} {shape : Nat → Option Shape} {leaf : Nat → σ → Option (σ × Nat)}
    {a b : Nat} {s0 s1 s2 : WS σ} (h1 : wsIter O shape leaf a s0 = some s1)
    (h2 : wsIter O shape leaf b s1 = some s2) : wsIter O shape leaf (a + b) s0 = some s2 := by
  induction a generalizing s0 with
  | zero => simp only [wsIter] at h1; cases h1; simpa using h2
  | succ a ih =>
    simp only [wsIter] at h1
    cases hs : wsStep O shape leaf s0 with
    | none => simp [hs] at h1
    | some sx =>
      simp only [hs, Option.bind_some] at h1
      have := ih h1
      rw [show a + 1 + b = (a + b) + 1 by omega]
      simp only [wsIter, hs, Option.bind_some]
      exact this

theorem wsIter_one {O : Ops σ} {shape : Nat → Option Shape} {leaf : Nat → σ → Option (σ × Nat)}
    {s0 s1 : WS σ} (h : wsStep O shape leaf s0 = some s1) : wsIter O shape leaf 1 s0 = some s1 := by
  simp [wsIter, h]

/-- The fuel-bounded loop returns the state reached by `k ≤ fuel` iterations once the work
stack is empty there. -/
theorem wsRun_of_iter {O : Ops σ} {shape : Nat → Option Shape} {leaf : Nat → σ → Option (σ × Nat)}
    {k fuel : Nat} {s0 s1 : WS σ} (h : wsIter O shape leaf k s0 = some s1) (he : s1.tasks = [])
    (hk : k ≤ fuel) : wsRun O shape leaf fuel s0 = some s1 := by
  induction k generalizing s0 fuel with
  | zero =>
    simp only [wsIter] at h; cases h
    cases fuel <;> simp [wsRun, he]
  | succ k ih =>
    simp only [wsIter] at h
    cases hs : wsStep O shape leaf s0 with
    | none => simp [hs] at h
    | some sx =>
      simp only [hs, Option.bind_some] at h
      have hne : s0.tasks ≠ [] := by
        intro hc
        simp [wsStep, hc] at hs
      cases fuel with
      | zero => omega
      | succ f =>
        have : s0.tasks.isEmpty = false := by
          cases ht : s0.tasks with
          | nil => exact absurd ht hne
          | cons _ _ => rfl
        simp only [wsRun, this, hs, Option.bind_some]
        exact ih h (by omega)

/-- What the generic proof needs to know about the builder, the node table and the native
semantics. -/
structure Hyp (O : Ops σ) (shape : Nat → Option Shape) (leaf : Nat → σ → Option (σ × Nat))
    (val : σ → Nat → Option K) (I : σ → Prop) (nv : Nat → Option K) : Prop where
  zero_sound : ∀ s, I s → I (O.zero s).1 ∧ (∀ i v, val s i = some v → val (O.zero s).1 i = some v) ∧
    val (O.zero s).1 (O.zero s).2 = some 0
  bin_sound : ∀ op s l r a b, I s → val s l = some a → val s r = some b →
    I (O.bin op s l r).1 ∧ (∀ i v, val s i = some v → val (O.bin op s l r).1 i = some v) ∧
    val (O.bin op s l r).1 (O.bin op s l r).2 = some (binOpVal op a b)
  sub_is_bin : ∀ s l r, O.sub s l r = O.bin .sub s l r
  leaf_sound : ∀ n s v, shape n = some .leaf → nv n = some v → I s →
    ∃ s' id, leaf n s = some (s', id) ∧ I s' ∧ (∀ i w, val s i = some w → val s' i = some w) ∧
      val s' id = some v
  shape_some : ∀ n v, nv n = some v → ∃ sh, shape n = some sh
  neg_nv : ∀ n x v, shape n = some (.neg x) → nv n = some v → x < n ∧ ∃ a, nv x = some a ∧ v = -a
  bin_nv : ∀ n op x y v, shape n = some (.bin op x y) → nv n = some v →
    x < n ∧ y < n ∧ ∃ a b, nv x = some a ∧ nv y = some b ∧ v = binOpVal op a b

/-- The cache maps a node only to an id carrying that node's native value. -/
def CInv (val : σ → Nat → Option K) (nv : Nat → Option K) (s : σ) (cache : Cache) : Prop :=
  ∀ n id, cache.lookup n = some id → ∀ v, nv n = some v → val s id = some v

def keys (c : Cache) : List Nat := c.map Prod.fst

theorem lookup_none_not_mem {c : Cache} {n : Nat} (h : c.lookup n = none) : n ∉ keys c := by
  induction c with
  | nil => simp [keys]
  | cons p c ih =>
    obtain ⟨k, b⟩ := p
    simp only [List.lookup_cons] at h
    by_cases hk : n = k
    · subst hk; simp at h
    · have : (n == k) = false := by simpa using hk
      simp only [this] at h
      simp only [keys, List.map_cons, List.mem_cons, not_or]
      exact ⟨hk, ih h⟩

theorem cinv_mono {val : σ → Nat → Option K} {nv : Nat → Option K} {s s' : σ} {c : Cache}
    (h : CInv val nv s c) (hle : ∀ i v, val s i = some v → val s' i = some v) : CInv val nv s' c :=
  fun n id hl v hv => hle _ _ (h n id hl v hv)

theorem cinv_cons {val : σ → Nat → Option K} {nv : Nat → Option K} {s : σ} {c : Cache} {n id : Nat}
    {v : K} (h : CInv val nv s c) (hn : nv n = some v) (hid : val s id = some v) :
    CInv val nv s ((n, id) :: c) := by
  intro m id' hl w hw
  simp only [List.lookup_cons] at hl
  by_cases hm : m = n
  · subst hm
    simp at hl
    subst hl
    rw [hn] at hw; cases hw; exact hid
  · have : (m == n) = false := by simpa using hm
    simp only [this] at hl
    exact h m id' hl w hw

section Big
variable {O : Ops σ} {shape : Nat → Option Shape} {leaf : Nat → σ → Option (σ × Nat)}
  {val : σ → Nat → Option K} {I : σ → Prop} {nv : Nat → Option K}

/-- **Big-step lemma for `Work::Eval(n)`.** -/
theorem eval_bigstep (H : Hyp O shape leaf val I nv) (n : Nat) :
    ∀ (tasks : List Work) (stack : List Nat) (cache : Cache) (s : σ) (v : K),
      nv n = some v → I s → CInv val nv s cache → (keys cache).Nodup →
      ∃ k s' id added,
        wsIter O shape leaf k ⟨.eval n :: tasks, stack, cache, s⟩ =
          some ⟨tasks, id :: stack, added ++ cache, s'⟩ ∧
        (∀ p ∈ added, p.1 ≤ n) ∧ k ≤ 3 * added.length + 1 ∧ I s' ∧
        (∀ i w, val s i = some w → val s' i = some w) ∧ CInv val nv s' (added ++ cache) ∧
        (keys (added ++ cache)).Nodup ∧ val s' id = some v := by
  induction n using Nat.strong_induction_on with
  | _ n ih =>
    intro tasks stack cache s v hv hI hC hK
    cases hlk : cache.lookup n with
    | some id =>
      refine ⟨1, s, id, [], wsIter_one (by simp [wsStep, hlk]), by simp, by simp, hI,
        fun _ _ h => h, by simpa using hC, by simpa using hK, hC n id hlk v hv⟩
    | none =>
      have hnot := lookup_none_not_mem hlk
      obtain ⟨sh, hsh⟩ := H.shape_some n v hv
      cases sh with
      | leaf =>
        obtain ⟨s', id, hleaf, hI', hle, hid⟩ := H.leaf_sound n s v hsh hv hI
        refine ⟨1, s', id, [(n, id)], wsIter_one (by simp [wsStep, hlk, hsh, hleaf]), by simp,
          by simp, hI', hle, ?_, ?_, hid⟩
        · exact cinv_cons (cinv_mono hC hle) hv hid
        · simp only [keys, List.cons_append, List.nil_append, List.map_cons, List.nodup_cons]
          exact ⟨hnot, hK⟩
      | neg x =>
        obtain ⟨hx, a, ha, hva⟩ := H.neg_nv n x v hsh hv
        obtain ⟨k1, s1, id1, added1, hit1, hkeys1, hk1, hI1, hle1, hC1, hK1, hid1⟩ :=
          ih x hx (.buildNeg n :: tasks) stack cache s a ha hI hC hK
        -- the build step
        obtain ⟨hIz, hlez, hz⟩ := H.zero_sound s1 hI1
        have hid1z := hlez _ _ hid1
        obtain ⟨hI3, hle3, hid3⟩ := H.bin_sound .sub (O.zero s1).1 (O.zero s1).2 id1 0 a hIz hz hid1z
        have hstep0 : wsStep O shape leaf ⟨.eval n :: tasks, stack, cache, s⟩ =
            some ⟨.eval x :: .buildNeg n :: tasks, stack, cache, s⟩ := by
          simp [wsStep, hlk, hsh]
        have hstepB : wsStep O shape leaf ⟨.buildNeg n :: tasks, id1 :: stack, added1 ++ cache, s1⟩ =
            some ⟨tasks, (O.bin .sub (O.zero s1).1 (O.zero s1).2 id1).2 :: stack,
              (n, (O.bin .sub (O.zero s1).1 (O.zero s1).2 id1).2) :: (added1 ++ cache),
              (O.bin .sub (O.zero s1).1 (O.zero s1).2 id1).1⟩ := by
          simp [wsStep, H.sub_is_bin]
        have hall := wsIter_trans (wsIter_trans (wsIter_one hstep0) hit1) (wsIter_one hstepB)
        have hle13 : ∀ i w, val s1 i = some w → val (O.bin .sub (O.zero s1).1 (O.zero s1).2 id1).1 i = some w :=
          fun i w h => hle3 _ _ (hlez _ _ h)
        have hval : val (O.bin .sub (O.zero s1).1 (O.zero s1).2 id1).1
            (O.bin .sub (O.zero s1).1 (O.zero s1).2 id1).2 = some v := by
          rw [hid3, hva]; simp [binOpVal]
        refine ⟨1 + k1 + 1, _, _, (n, _) :: added1, by simpa using hall, ?_, ?_, hI3,
          fun i w h => hle13 _ _ (hle1 _ _ h), ?_, ?_, hval⟩
        · intro p hp
          rcases List.mem_cons.mp hp with rfl | hp
          · exact Nat.le_refl _
          · exact Nat.le_of_lt (Nat.lt_of_le_of_lt (hkeys1 p hp) hx)
        · simp only [List.length_cons]; omega
        · exact cinv_cons (cinv_mono hC1 hle13) hv hval
        · simp only [keys, List.cons_append, List.map_cons, List.nodup_cons]
          refine ⟨?_, hK1⟩
          simp only [List.map_append, List.mem_append, not_or]
          refine ⟨?_, hnot⟩
          intro hmem
          obtain ⟨p, hp, hpn⟩ := List.mem_map.mp hmem
          have := hkeys1 p hp
          omega
      | bin op x y =>
        obtain ⟨hx, hy, a, b, ha, hb, hvab⟩ := H.bin_nv n op x y v hsh hv
        obtain ⟨k1, s1, id1, added1, hit1, hkeys1, hk1, hI1, hle1, hC1, hK1, hid1⟩ :=
          ih x hx (.eval y :: .buildBin n op :: tasks) stack cache s a ha hI hC hK
        obtain ⟨k2, s2, id2, added2, hit2, hkeys2, hk2, hI2, hle2, hC2, hK2, hid2⟩ :=
          ih y hy (.buildBin n op :: tasks) (id1 :: stack) (added1 ++ cache) s1 b hb hI1 hC1 hK1
        have hid12 := hle2 _ _ hid1
        obtain ⟨hI3, hle3, hid3⟩ := H.bin_sound op s2 id1 id2 a b hI2 hid12 hid2
        have hstep0 : wsStep O shape leaf ⟨.eval n :: tasks, stack, cache, s⟩ =
            some ⟨.eval x :: .eval y :: .buildBin n op :: tasks, stack, cache, s⟩ := by
          simp [wsStep, hlk, hsh]
        have hstepB : wsStep O shape leaf
            ⟨.buildBin n op :: tasks, id2 :: id1 :: stack, added2 ++ (added1 ++ cache), s2⟩ =
            some ⟨tasks, (O.bin op s2 id1 id2).2 :: stack,
              (n, (O.bin op s2 id1 id2).2) :: (added2 ++ (added1 ++ cache)), (O.bin op s2 id1 id2).1⟩ := by
          simp [wsStep]
        have hall := wsIter_trans (wsIter_trans (wsIter_trans (wsIter_one hstep0) hit1) hit2)
          (wsIter_one hstepB)
        have hval : val (O.bin op s2 id1 id2).1 (O.bin op s2 id1 id2).2 = some v := by
          rw [hid3, hvab]
        refine ⟨1 + k1 + k2 + 1, _, _, (n, _) :: (added2 ++ added1),
          by simpa [List.append_assoc] using hall, ?_, ?_, hI3,
          fun i w h => hle3 _ _ (hle2 _ _ (hle1 _ _ h)), ?_, ?_, hval⟩
        · intro p hp
          rcases List.mem_cons.mp hp with rfl | hp
          · exact Nat.le_refl _
          · rcases List.mem_append.mp hp with hp | hp
            · exact Nat.le_of_lt (Nat.lt_of_le_of_lt (hkeys2 p hp) hy)
            · exact Nat.le_of_lt (Nat.lt_of_le_of_lt (hkeys1 p hp) hx)
        · simp only [List.length_cons, List.length_append]; omega
        · have := cinv_cons (cinv_mono hC2 hle3) hv hval
          simpa [List.append_assoc] using this
        · have hK2' : (keys (added2 ++ added1 ++ cache)).Nodup := by
            simpa [List.append_assoc] using hK2
          simp only [keys, List.cons_append, List.map_cons, List.nodup_cons]
          refine ⟨?_, hK2'⟩
          simp only [List.map_append, List.mem_append, not_or]
          refine ⟨⟨?_, ?_⟩, hnot⟩
          · intro hmem
            obtain ⟨p, hp, hpn⟩ := List.mem_map.mp hmem
            have := hkeys2 p hp
            omega
          · intro hmem
            obtain ⟨p, hp, hpn⟩ := List.mem_map.mp hmem
            have := hkeys1 p hp
            omega

end Big

/-- Key discipline of a cache over `N` nodes. -/
def KInv (N : Nat) (c : Cache) : Prop := (keys c).Nodup ∧ ∀ k ∈ keys c, k < N

theorem kinv_nil (N : Nat) : KInv N [] := by simp [KInv, keys]

theorem length_le_of_kinv {N : Nat} {c : Cache} (h : KInv N c) : c.length ≤ N := by
  have hsub : keys c ⊆ List.range N := fun x hx => List.mem_range.mpr (h.2 x hx)
  have := (List.subperm_of_subset h.1 hsub).length_le
  simpa [keys] using this

/-- **Termination and soundness of `compile_base` / `compile_ext`** (generic form). -/
theorem wsCompile_sound {O : Ops σ} {shape : Nat → Option Shape} {leaf : Nat → σ → Option (σ × Nat)}
    {val : σ → Nat → Option K} {I : σ → Prop} {nv : Nat → Option K}
    (H : Hyp O shape leaf val I nv) (N fuel root : Nat) (cache : Cache) (s : σ) (v : K)
    (hfuel : 3 * N + 1 ≤ fuel) (hroot : root < N) (hv : nv root = some v) (hI : I s)
    (hC : CInv val nv s cache) (hK : KInv N cache) :
    ∃ id cache' s', wsCompile O shape leaf fuel root cache s = some (id, cache', s') ∧ I s' ∧
      (∀ i w, val s i = some w → val s' i = some w) ∧ CInv val nv s' cache' ∧ KInv N cache' ∧
      val s' id = some v := by
  obtain ⟨k, s', id, added, hit, hkeys, hk, hI', hle, hC', hK', hid⟩ :=
    eval_bigstep H root [] [] cache s v hv hI hC hK.1
  have hKN : KInv N (added ++ cache) := by
    refine ⟨hK', ?_⟩
    intro x hx
    simp only [keys, List.map_append, List.mem_append] at hx
    rcases hx with hx | hx
    · obtain ⟨p, hp, rfl⟩ := List.mem_map.mp hx
      exact Nat.lt_of_le_of_lt (hkeys p hp) hroot
    · exact hK.2 x (by simpa [keys] using hx)
  have hlen : added.length ≤ N := by
    have := length_le_of_kinv hKN
    simp only [List.length_append] at this
    omega
  have hrun := wsRun_of_iter hit rfl (by omega : k ≤ fuel)
  refine ⟨id, added ++ cache, s', ?_, hI', hle, hC', hKN, hid⟩
  simp [wsCompile, hrun]

end P3R.WSL
