/-
Line-protocol driver for C05 (`p3r_driver_c05`). Reads the case blocks written by
`p3r-harness transcript`:

  case <id> cfg=<name> p=<prime> w=<W> r=<R> d=<D> base=<0|1> alu=<0|1> wc=<W const> bits=<BF bits>
  perm <in_0 … in_{W-1}> : <out_0 … out_{W-1}>        recorded permutation table (0 or more)
  op o <x> | op oe <c_0 … c_{D-1}> | op s | op se | op sb <n> | op pow <n> <w> | op clr
  end

and runs *both* models (`P3R.Duplex`, `P3R.CC`) over `PF p` with `perm := lookup in the
recorded table` (a miss yields the empty list, which surfaces as a differing line).
Prints the native model's answers (`N …`) and the circuit model's (`C …`) in the format of
the harness' `.impl` stream. Nothing is derived from defaults: every parameter comes from the
`case` line; an unknown command prints `bad-op`.
-/
import P3R.Model.Field
import P3R.Model.Duplex
import P3R.Model.CircuitChallenger

open P3R

structure Hdr where
  id : String
  p : Nat
  w : Nat
  r : Nat
  d : Nat
  base : Bool
  alu : Bool
  wc : Nat
  bits : Nat

structure CaseAcc where
  hdr : Option Hdr := none
  table : List (List Nat × List Nat) := []
  ops : List (List String) := []      -- reversed

def kv (ws : List String) (k : String) : Option String :=
  ws.findSome? fun w => if w.startsWith (k ++ "=") then some ((w.drop (k.length + 1)).toString) else none

def parseHdr (ws : List String) : Option Hdr := do
  let id ← ws.head?
  let n := fun k => (kv ws k) >>= String.toNat?
  some { id, p := ← n "p", w := ← n "w", r := ← n "r", d := ← n "d", base := (← n "base") == 1,
         alu := (← n "alu") == 1, wc := ← n "wc", bits := ← n "bits" }

def natsStr (l : List Nat) : String := " ".intercalate (l.map toString)

def parseOp (p : Nat) (ws : List String) : Option (Duplex.Op (PF p)) :=
  match ws with
  | ["o", x] => x.toNat?.map fun n => .observe (PF.ofNat n)
  | "oe" :: cs => (cs.mapM String.toNat?).map fun l => .observeExt (l.map PF.ofNat)
  | ["s"] => some .sample
  | ["se"] => some .sampleExt
  | ["sb", n] => n.toNat?.map .sampleBits
  | ["pow", n, w] => do some (.checkPow (← n.toNat?) (PF.ofNat (← w.toNat?)))
  | ["clr"] => some .clear
  | _ => none

def vals {p : Nat} (l : List (PF p)) : String := natsStr (l.map (·.val))

def runCase (h : Hdr) (table : List (List Nat × List Nat)) (opws : List (List String)) : List String :=
  let p := h.p
  match opws.mapM (parseOp p) with
  | none => [s!"case {h.id}", "bad-op", "end"]
  | some ops =>
    let perm : List (PF p) → List (PF p) := fun l =>
      match table.lookup (l.map (·.val)) with
      | some o => o.map PF.ofNat
      | none => []
    let canon : PF p → Nat := fun x => x.val
    let nres := Duplex.run perm h.w h.r h.d canon p ops (Duplex.St.init h.w)
    let nlines : List String :=
      match nres with
      | none => ["N panic"]
      | some (outs, _) =>
        (outs.zipIdx).filterMap fun (o, k) =>
          match o with
          | .unit => none
          | .val x => some s!"N {k} s {x.val}"
          | .ext xs => some s!"N {k} se {vals xs}"
          | .bits _ v => some s!"N {k} sb {v}"
          | .pow ok => some s!"N {k} pow {if ok then 1 else 0}"
    let cfg : CC.Cfg (PF p) :=
      { width := h.w, rate := h.r, D := h.d, base := h.base, alu := h.alu, W := PF.ofNat h.wc, bfBits := h.bits }
    let cres := CC.run cfg perm canon ops (CC.St.init cfg)
    let clines : List String :=
      match cres with
      | none => ["C err"]
      | some (outs, st) =>
        if !st.ok then ["C err"]
        else
          "C ok" :: (outs.zipIdx).filterMap fun (o, k) =>
            match o with
            | .unit => none
            | .pow => none
            | .val x => some s!"C {k} s {vals x}"
            | .ext x => some s!"C {k} se {vals x}"
            | .bits bs => some (s!"C {k} sb " ++ " ".intercalate (bs.map fun v => ",".intercalate (v.map fun x => toString x.val))).trimAsciiEnd.toString
    [s!"case {h.id}"] ++ nlines ++ clines ++ ["end"]

partial def loop (h : IO.FS.Stream) (acc : CaseAcc) : IO Unit := do
  let line ← h.getLine
  if line.isEmpty then return ()
  let ws := (line.trimAsciiEnd.toString.splitOn " ").filter (· ≠ "")
  match ws with
  | "case" :: rest =>
    match parseHdr rest with
    | some hd => loop h { hdr := some hd }
    | none => IO.println "bad-op"; loop h {}
  | "perm" :: rest =>
    let (i, o) := rest.span (· ≠ ":")
    match i.mapM String.toNat?, (o.drop 1).mapM String.toNat? with
    | some i, some o => loop h { acc with table := (i, o) :: acc.table }
    | _, _ => IO.println "bad-op"; loop h acc
  | "op" :: rest => loop h { acc with ops := rest :: acc.ops }
  | ["end"] =>
    match acc.hdr with
    | some hd => for l in runCase hd acc.table acc.ops.reverse do IO.println l
    | none => IO.println "bad-op"
    loop h {}
  | [] => loop h acc
  | _ => IO.println "bad-op"; loop h acc

def main : IO Unit := do
  loop (← IO.getStdin) {}
