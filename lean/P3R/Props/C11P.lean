/-
C11 (Poseidon circuit tables, control part) — row-level theorems over `P3R.Model.PoseidonCtl`, the model
that is compared value-by-value with the real `Poseidon2CircuitAir::eval` / `Poseidon1CircuitAir::eval`
on every run. Every statement holds for every field `K` and every shape parameter (`D`, `WIDTH_EXT`,
`RATE_EXT`, `CAPACITY_EXT`): no bound.

* `boolCons_iff`, `chainCons_iff`, `chainCons_zero_gate`, `chainTagCons_iff`, `startCons_iff` — the atoms.
* `accCons2_iff` / `accCons4_iff`, `accCons2_reset`, `accCons2_not_merkle` — the accumulator step constraint
  holds iff `next = 2·local + bit` (resp. `4·local + bit + 2·bit2`) on a Merkle continuation row, and is
  vacuous on a `new_start` row and on a non-Merkle row.
* `accChain2_iff`, `accChain2_last`, `binVal_split`, `binVal_cast` (and the base-4 twins `accChain4_iff`,
  `quadVal_cast`) — over a whole run of continuation rows: all step constraints vanish iff the accumulator
  column is the running binary (base-4) value of the direction bits *from the value on the reset row*;
  the last one is `2^n · start + (bits as a binary number)`. Nothing in the AIR fixes `start`
  (`Witness.C11P.acc_start_free`, finding F-C08-5c).
* `spongeChain_iff` — the sponge chaining constraints of a limb range vanish iff every limb whose selector
  is non-zero has `next input = local output` on all `D` coefficients.
* `merklePlace_iff` — with a non-zero Merkle selector and a boolean direction bit, the left and right
  placement constraints of digest limb `i` vanish iff the previous digest sits left (`bit = 0`) resp. right
  (`bit = 1`); the other half (the sibling) is unconstrained.
* `arity4Hot_onehot`, `arity4Place_iff` — arity 4: with boolean bits and the product column, `h_k` is the
  indicator of `k = bit + 2·bit2`, and the placement constraints vanish iff chunk `pos` carries the digest.
* `arity4Hot_onehot_iff`, `arity4_window_selectors` — the position vector of an arity-4 row is one-hot iff BOTH direction
  cells are boolean and the helper is their product; every accepted window has that on its local row.
  `arity4Hot_bit2_free`, `arity4_forged_place`, `accCons4_forged` — necessity: with only `b0` and `b0·b1` boolean the
  weights `(1 − t, 0, t, 0)` pass placement (digest in chunks 0 and 2) and accumulator (`4·prev + 2t`).
* `generic_window_iff` — the whole generic-layout window: every control constraint vanishes iff the local
  bit is boolean, the chained limbs are copied, the placement holds and the accumulator steps.
* `zero_prep_accepts` — a next preprocessed row of zeros (padding) accepts every pair of rows (given the
  booleanity / product assertions on the *local* row, which are unconditional), for every layout.
* `generic_chain_start_free` — generic layout: a `new_start` row accepts every input cell (finding F-C11-P1).
* `compact_start_iff` — compact `D = 1` layout: on a sponge chain start the capacity is `tag, 0, …, 0`.
-/
import P3R.Model.PoseidonCtl
import Mathlib.Algebra.Field.Basic
import Mathlib.Tactic.Ring
import Mathlib.Tactic.LinearCombination
import Mathlib.Tactic.FieldSimp
import Mathlib.Data.Nat.Cast.Basic

namespace P3R.C11P
open P3R

section Atoms
variable {K : Type} [Field K]

theorem boolCons_iff (x : K) : boolCons x = 0 ↔ x = 0 ∨ x = 1 := by
  unfold boolCons
  rw [mul_eq_zero, sub_eq_zero]

theorem chainCons_iff {tr gate : K} (htr : tr ≠ 0) (hg : gate ≠ 0) (x y : K) :
    chainCons tr gate x y = 0 ↔ x = y := by
  unfold chainCons
  rw [mul_eq_zero, mul_eq_zero, sub_eq_zero]
  constructor
  · rintro (h | h | h)
    · exact absurd h htr
    · exact absurd h hg
    · exact h
  · intro h; exact Or.inr (Or.inr h)

theorem chainCons_zero_gate (tr x y : K) : chainCons tr 0 x y = 0 := by
  unfold chainCons; ring

/-- general form: the constraint vanishes iff the gate is off or the cells agree -/
theorem chainCons_iff' {tr : K} (htr : tr ≠ 0) (gate x y : K) :
    chainCons tr gate x y = 0 ↔ (gate ≠ 0 → x = y) := by
  by_cases hg : gate = 0
  · subst hg; simp [chainCons_zero_gate]
  · rw [chainCons_iff htr hg]; simp [hg]

theorem chainTagCons_iff {tr gate : K} (htr : tr ≠ 0) (hg : gate ≠ 0) (x y tag : K) :
    chainTagCons tr gate x y tag = 0 ↔ x = y + tag := by
  unfold chainTagCons
  rw [mul_eq_zero, mul_eq_zero]
  constructor
  · rintro (h | h | h)
    · exact absurd h htr
    · exact absurd h hg
    · linear_combination h
  · intro h; right; right; rw [h]; ring

theorem startCons_iff {ns mp : K} (hns : ns ≠ 0) (hmp : (1 : K) - mp ≠ 0) (x tag : K) :
    startCons ns mp x tag = 0 ↔ x = tag := by
  unfold startCons
  rw [mul_eq_zero, mul_eq_zero]
  constructor
  · rintro (h | h | h)
    · exact absurd h hns
    · exact absurd h hmp
    · exact sub_eq_zero.mp h
  · intro h; exact Or.inr (Or.inr (sub_eq_zero.mpr h))

/-- **Accumulator step, arity 2.** On a Merkle continuation row (`new_start = 0`, `merkle_path ≠ 0`, inside
the table) the constraint vanishes iff `next.sum = 2·local.sum + next.bit`. -/
theorem accCons2_iff {tr mp : K} (htr : tr ≠ 0) (hmp : mp ≠ 0) (l n b : K) :
    accCons2 tr 0 mp l n b = 0 ↔ n = 2 * l + b := by
  unfold accCons2
  rw [mul_eq_zero, mul_eq_zero, mul_eq_zero]
  constructor
  · rintro (h | h | h | h)
    · exact absurd h htr
    · simp at h
    · exact absurd h hmp
    · linear_combination h
  · intro h; right; right; right; rw [h]; ring

/-- the reset: on a `new_start` row the accumulator is not constrained at all -/
theorem accCons2_reset (tr mp l n b : K) : accCons2 tr 1 mp l n b = 0 := by
  unfold accCons2; ring

theorem accCons2_not_merkle (tr ns l n b : K) : accCons2 tr ns 0 l n b = 0 := by
  unfold accCons2; ring

/-- the wrap-around window (`is_transition = 0`) constrains nothing -/
theorem accCons2_last_window (ns mp l n b : K) : accCons2 0 ns mp l n b = 0 := by
  unfold accCons2; ring

/-- **Accumulator step, arity 4.** -/
theorem accCons4_iff {tr mp : K} (htr : tr ≠ 0) (hmp : mp ≠ 0) (l n b b2 : K) :
    accCons4 tr 0 mp l n b b2 = 0 ↔ n = 4 * l + b + 2 * b2 := by
  unfold accCons4
  rw [mul_eq_zero, mul_eq_zero, mul_eq_zero]
  constructor
  · rintro (h | h | h | h)
    · exact absurd h htr
    · simp at h
    · exact absurd h hmp
    · linear_combination h
  · intro h; right; right; right; rw [h]; ring

theorem accCons4_reset (tr mp l n b b2 : K) : accCons4 tr 1 mp l n b b2 = 0 := by
  unfold accCons4; ring

end Atoms

/-! ### the accumulator over a whole run of Merkle continuation rows -/

section Chain
variable {K : Type} [Field K]

/-- running value of the recurrence `a ↦ 2a + b` from `s0` -/
def binVal (s0 : K) (bits : List K) : K := bits.foldl (fun a b => 2 * a + b) s0

/-- the accumulator column an honest run produces after the reset value `s0` -/
def sumsOf (s0 : K) : List K → List K
  | [] => []
  | b :: bs => (2 * s0 + b) :: sumsOf (2 * s0 + b) bs

/-- All step constraints of a run of continuation rows `(bit, sum)` following a row with accumulator `s0`
(each window: `is_transition = 1`, `next.new_start = 0`, `next.merkle_path = 1`). -/
def accChain2Ok (s0 : K) : List (K × K) → Prop
  | [] => True
  | (b, s) :: rest => accCons2 1 0 1 s0 s b = 0 ∧ accChain2Ok s rest

/-- **The recurrence ⇔ the column is the running binary value of the bits from the reset row on.** -/
theorem accChain2_iff (s0 : K) (rows : List (K × K)) :
    accChain2Ok s0 rows ↔ rows.map Prod.snd = sumsOf s0 (rows.map Prod.fst) := by
  induction rows generalizing s0 with
  | nil => simp [accChain2Ok, sumsOf]
  | cons r rest ih =>
    obtain ⟨b, s⟩ := r
    simp only [accChain2Ok, List.map_cons, sumsOf, List.cons.injEq]
    rw [accCons2_iff one_ne_zero one_ne_zero, ih]
    constructor
    · rintro ⟨h, h2⟩; subst h; exact ⟨rfl, h2⟩
    · rintro ⟨h, h2⟩; subst h; exact ⟨rfl, h2⟩

theorem sumsOf_getLast (s0 : K) (bits : List K) :
    (s0 :: sumsOf s0 bits).getLast (List.cons_ne_nil _ _) = binVal s0 bits := by
  induction bits generalizing s0 with
  | nil => simp [sumsOf, binVal]
  | cons b bs ih =>
    simp only [sumsOf, binVal, List.foldl_cons]
    rw [List.getLast_cons (List.cons_ne_nil _ _)]
    exact ih (2 * s0 + b)

/-- the value on the last row of an accepted run (the one the index lookup sends) -/
theorem accChain2_last (s0 : K) (rows : List (K × K)) (h : accChain2Ok s0 rows) :
    (s0 :: rows.map Prod.snd).getLast (List.cons_ne_nil _ _) = binVal s0 (rows.map Prod.fst) := by
  rw [(accChain2_iff s0 rows).mp h]; exact sumsOf_getLast s0 _

/-- the exposed value is `2^n · start + (bits read as a binary number)`: the start value is *not* erased -/
theorem binVal_split (s0 : K) (bits : List K) :
    binVal s0 bits = 2 ^ bits.length * s0 + binVal 0 bits := by
  induction bits generalizing s0 with
  | nil => simp [binVal]
  | cons b bs ih =>
    simp only [binVal, List.foldl_cons, List.length_cons] at *
    rw [ih (2 * s0 + b), ih (2 * 0 + b)]; ring

/-- bits as a natural number, most significant first -/
def natOfBits (bits : List Bool) : Nat := bits.foldl (fun a b => 2 * a + b.toNat) 0

theorem binVal_cast_aux (n : Nat) (bits : List Bool) :
    binVal (n : K) (bits.map fun b => if b then (1 : K) else 0) = ((bits.foldl (fun a b => 2 * a + b.toNat) n : Nat) : K) := by
  induction bits generalizing n with
  | nil => simp [binVal]
  | cons b bs ih =>
    simp only [binVal, List.map_cons, List.foldl_cons] at *
    have : (2 * (n : K) + if b then (1 : K) else 0) = ((2 * n + b.toNat : Nat) : K) := by
      cases b <;> simp
    rw [this]; exact ih _

/-- with reset value `0` and boolean bits the accumulated value is the bits read as a binary number -/
theorem binVal_cast (bits : List Bool) :
    binVal (0 : K) (bits.map fun b => if b then (1 : K) else 0) = (natOfBits bits : K) := by
  have := binVal_cast_aux (K := K) 0 bits
  simpa [natOfBits] using this

/-- base-4 twin (arity 4): digits `bit + 2·bit2` -/
def quadVal (s0 : K) (digs : List (K × K)) : K := digs.foldl (fun a d => 4 * a + d.1 + 2 * d.2) s0

def sumsOf4 (s0 : K) : List (K × K) → List K
  | [] => []
  | d :: ds => (4 * s0 + d.1 + 2 * d.2) :: sumsOf4 (4 * s0 + d.1 + 2 * d.2) ds

/-- rows `((bit, bit2), sum)` -/
def accChain4Ok (s0 : K) : List ((K × K) × K) → Prop
  | [] => True
  | (d, s) :: rest => accCons4 1 0 1 s0 s d.1 d.2 = 0 ∧ accChain4Ok s rest

theorem accChain4_iff (s0 : K) (rows : List ((K × K) × K)) :
    accChain4Ok s0 rows ↔ rows.map Prod.snd = sumsOf4 s0 (rows.map Prod.fst) := by
  induction rows generalizing s0 with
  | nil => simp [accChain4Ok, sumsOf4]
  | cons r rest ih =>
    obtain ⟨d, s⟩ := r
    simp only [accChain4Ok, List.map_cons, sumsOf4, List.cons.injEq]
    rw [accCons4_iff one_ne_zero one_ne_zero, ih]
    constructor
    · rintro ⟨h, h2⟩; subst h; exact ⟨rfl, h2⟩
    · rintro ⟨h, h2⟩; subst h; exact ⟨rfl, h2⟩

theorem sumsOf4_getLast (s0 : K) (digs : List (K × K)) :
    (s0 :: sumsOf4 s0 digs).getLast (List.cons_ne_nil _ _) = quadVal s0 digs := by
  induction digs generalizing s0 with
  | nil => simp [sumsOf4, quadVal]
  | cons d ds ih =>
    simp only [sumsOf4, quadVal, List.foldl_cons]
    rw [List.getLast_cons (List.cons_ne_nil _ _)]
    exact ih _

def natOfQuads (digs : List (Bool × Bool)) : Nat := digs.foldl (fun a d => 4 * a + d.1.toNat + 2 * d.2.toNat) 0

theorem quadVal_cast_aux (n : Nat) (digs : List (Bool × Bool)) :
    quadVal (n : K) (digs.map fun d => ((if d.1 then (1 : K) else 0), (if d.2 then (1 : K) else 0)))
      = ((digs.foldl (fun a d => 4 * a + d.1.toNat + 2 * d.2.toNat) n : Nat) : K) := by
  induction digs generalizing n with
  | nil => simp [quadVal]
  | cons d ds ih =>
    obtain ⟨b, b2⟩ := d
    simp only [quadVal, List.map_cons, List.foldl_cons] at *
    have : (4 * (n : K) + (if b then (1 : K) else 0) + 2 * (if b2 then (1 : K) else 0))
        = ((4 * n + b.toNat + 2 * b2.toNat : Nat) : K) := by
      cases b <;> cases b2 <;> simp
    rw [this]; exact ih _

/-- arity 4, reset value `0`, boolean bits: the accumulated value is the digit string read in base 4 -/
theorem quadVal_cast (digs : List (Bool × Bool)) :
    quadVal (0 : K) (digs.map fun d => ((if d.1 then (1 : K) else 0), (if d.2 then (1 : K) else 0)))
      = (natOfQuads digs : K) := by
  have := quadVal_cast_aux (K := K) 0 digs
  simpa [natOfQuads] using this

end Chain

/-! ### window-level statements over the model's constraint lists -/

section Window
variable {K : Type} [Field K]

theorem forall_map_range (D : Nat) (f : Nat → K) :
    (∀ c ∈ (List.range D).map f, c = 0) ↔ ∀ i < D, f i = 0 := by
  constructor
  · intro h i hi
    exact h (f i) (List.mem_map.mpr ⟨i, List.mem_range.mpr hi, rfl⟩)
  · intro h c hc
    obtain ⟨i, hi, rfl⟩ := List.mem_map.mp hc
    exact h i (List.mem_range.mp hi)

theorem forall_flatMap_range (n : Nat) (f : Nat → List K) :
    (∀ c ∈ (List.range n).flatMap f, c = 0) ↔ ∀ i < n, ∀ c ∈ f i, c = 0 := by
  constructor
  · intro h i hi c hc
    exact h c (List.mem_flatMap.mpr ⟨i, List.mem_range.mpr hi, hc⟩)
  · intro h c hc
    obtain ⟨i, hi, hc⟩ := List.mem_flatMap.mp hc
    exact h i (List.mem_range.mp hi) c hc

theorem forall_append (l₁ l₂ : List K) :
    (∀ c ∈ l₁ ++ l₂, c = 0) ↔ (∀ c ∈ l₁, c = 0) ∧ (∀ c ∈ l₂, c = 0) := by
  simp only [List.mem_append]
  constructor
  · intro h; exact ⟨fun c hc => h c (Or.inl hc), fun c hc => h c (Or.inr hc)⟩
  · rintro ⟨h1, h2⟩ c (hc | hc)
    · exact h1 c hc
    · exact h2 c hc

theorem forall_singleton (x : K) : (∀ c ∈ [x], c = 0) ↔ x = 0 := by simp

/-- **Sponge chaining.** The constraints of limbs `lo ≤ limb < hi` vanish iff every limb whose chain
selector is non-zero carries the previous output on all `D` coefficients. -/
theorem spongeChain_iff (D : Nat) {tr : K} (htr : tr ≠ 0) (gate : Nat → K) (loc nxt : PosRow K) (lo hi : Nat) :
    (∀ c ∈ spongeChain D tr gate loc nxt lo hi, c = 0) ↔
      ∀ k < hi - lo, ∀ d < D, gate (lo + k) ≠ 0 →
        pget nxt.inp ((lo + k) * D + d) = pget loc.out ((lo + k) * D + d) := by
  unfold spongeChain
  rw [forall_flatMap_range]
  refine forall_congr' fun k => forall_congr' fun _ => ?_
  rw [forall_map_range]
  refine forall_congr' fun d => forall_congr' fun _ => ?_
  exact chainCons_iff' htr _ _ _

/-- **Merkle placement (arity 2).** For a digest limb `i` with a non-zero Merkle chain selector and a
boolean direction bit on the next row: left and right constraints vanish iff the previous digest limb sits
in the left half when `bit = 0` and in the right half when `bit = 1`. -/
theorem merklePlace_iff (D RE : Nat) {tr : K} (htr : tr ≠ 0) (msel : Nat → K) (loc nxt : PosRow K) (i : Nat)
    (hm : msel i ≠ 0) (hb : nxt.bit = 0 ∨ nxt.bit = 1) :
    (∀ c ∈ merkleLeft D tr msel loc nxt i ++ merkleRight D RE tr msel loc nxt i, c = 0) ↔
      ∀ d < D, (nxt.bit = 0 → pget nxt.inp (i * D + d) = pget loc.out (i * D + d)) ∧
               (nxt.bit = 1 → pget nxt.inp ((RE + i) * D + d) = pget loc.out (i * D + d)) := by
  unfold merkleLeft merkleRight
  rw [forall_append, forall_map_range, forall_map_range]
  constructor
  · rintro ⟨hl, hr⟩ d hd
    rcases hb with hb | hb
    · refine ⟨fun _ => ?_, fun h1 => ?_⟩
      · have := hl d hd
        rw [hb] at this
        exact (chainCons_iff htr (by simpa using hm) _ _).mp this
      · rw [hb] at h1; exact absurd h1 zero_ne_one
    · refine ⟨fun h0 => ?_, fun _ => ?_⟩
      · rw [hb] at h0; exact absurd h0 one_ne_zero
      · have := hr d hd
        rw [hb] at this
        exact (chainCons_iff htr (by simpa using hm) _ _).mp this
  · intro h
    rcases hb with hb | hb
    · refine ⟨fun d hd => ?_, fun d hd => ?_⟩
      · rw [hb]; exact (chainCons_iff htr (by simpa using hm) _ _).mpr ((h d hd).1 hb)
      · rw [hb]; simp [chainCons_zero_gate]
    · refine ⟨fun d hd => ?_, fun d hd => ?_⟩
      · rw [hb]; simp [chainCons_zero_gate]
      · rw [hb]; exact (chainCons_iff htr (by simpa using hm) _ _).mpr ((h d hd).2 hb)

/-- arity 4: with boolean bits and the product column, `h_k` is the indicator of `k = bit + 2·bit2` -/
theorem arity4Hot_onehot (r : PosRow K) (b b2 : Bool)
    (hb : r.bit = if b then 1 else 0) (hb2 : r.bit2 = if b2 then 1 else 0) (hp : r.bitProd = r.bit * r.bit2)
    (k : Nat) (hk : k < 4) :
    arity4Hot r k = if k = b.toNat + 2 * b2.toNat then 1 else 0 := by
  have h4 : k = 0 ∨ k = 1 ∨ k = 2 ∨ k = 3 := by omega
  rcases h4 with rfl | rfl | rfl | rfl <;> cases b <;> cases b2 <;>
    simp [arity4Hot, hp, hb, hb2]

/-- **Arity-4 placement.** With boolean bits, a consistent product column and non-zero Merkle selectors
on chunk `pos = bit + 2·bit2`, the placement constraints vanish iff chunk `pos` of the next input is the
previous digest; the three other chunks are unconstrained (siblings). -/
theorem arity4Place_iff (D CE : Nat) {tr : K} (htr : tr ≠ 0) (msel : Nat → K) (loc nxt : PosRow K) (b b2 : Bool)
    (hb : nxt.bit = if b then 1 else 0) (hb2 : nxt.bit2 = if b2 then 1 else 0) (hp : nxt.bitProd = nxt.bit * nxt.bit2)
    (hm : ∀ slot < CE, msel ((b.toNat + 2 * b2.toNat) * CE + slot) ≠ 0) :
    (∀ c ∈ arity4Place D CE tr msel loc nxt, c = 0) ↔
      ∀ slot < CE, ∀ d < D,
        pget nxt.inp (((b.toNat + 2 * b2.toNat) * CE + slot) * D + d) = pget loc.out (slot * D + d) := by
  unfold arity4Place
  rw [forall_flatMap_range]
  have hpos : b.toNat + 2 * b2.toNat < 4 := by cases b <;> cases b2 <;> simp
  constructor
  · intro h slot hs d hd
    have h1 := h _ hpos
    rw [forall_flatMap_range] at h1
    have h2 := h1 slot hs
    rw [forall_map_range] at h2
    have h3 := h2 d hd
    rw [arity4Hot_onehot nxt b b2 hb hb2 hp _ hpos] at h3
    simp only [if_true, mul_one] at h3
    exact (chainCons_iff htr (hm slot hs) _ _).mp h3
  · intro h k hk
    rw [forall_flatMap_range]
    intro slot hs
    rw [forall_map_range]
    intro d hd
    rw [arity4Hot_onehot nxt b b2 hb hb2 hp k hk]
    by_cases hkp : k = b.toNat + 2 * b2.toNat
    · subst hkp
      simp only [if_true, mul_one]
      exact (chainCons_iff htr (hm slot hs) _ _).mpr (h slot hs d hd)
    · simp [hkp, chainCons_zero_gate]

/-- **The whole generic-layout window** (arity 2 with `D ≥ 2`, and every shape that is neither compact nor
arity 4): all control constraints vanish iff the local bit is boolean, every sponge-chained limb is copied,
the Merkle placement gates hold and the accumulator steps. -/
theorem generic_window_iff (L : PosLayout) {tr : K} (htr : tr ≠ 0) (loc nxt : PosRow K) (pn : List K) :
    (∀ c ∈ genericConstraints L tr loc nxt pn, c = 0) ↔
      (loc.bit = 0 ∨ loc.bit = 1) ∧
      (∀ limb < L.widthExt, ∀ d < L.D, prepNormalSel L pn limb ≠ 0 →
          pget nxt.inp (limb * L.D + d) = pget loc.out (limb * L.D + d)) ∧
      (∀ i < L.rateExt, ∀ d < L.D, prepMerkleSel L pn i * (1 - nxt.bit) ≠ 0 →
          pget nxt.inp (i * L.D + d) = pget loc.out (i * L.D + d)) ∧
      (∀ i < L.rateExt, L.rateExt + i < L.widthExt → ∀ d < L.D, prepMerkleSel L pn i * nxt.bit ≠ 0 →
          pget nxt.inp ((L.rateExt + i) * L.D + d) = pget loc.out (i * L.D + d)) ∧
      ((1 - prepNewStart L pn) * prepMerklePath L pn ≠ 0 → nxt.idxSum = 2 * loc.idxSum + nxt.bit) := by
  unfold genericConstraints
  rw [forall_append, forall_append, forall_append, forall_append, forall_singleton, forall_singleton,
    boolCons_iff, spongeChain_iff L.D htr, forall_flatMap_range, forall_flatMap_range]
  simp only [and_assoc]
  refine and_congr Iff.rfl (and_congr ?_ (and_congr ?_ (and_congr ?_ ?_)))
  · simp only [Nat.sub_zero, Nat.zero_add]
  · refine forall_congr' fun i => forall_congr' fun _ => ?_
    unfold merkleLeft
    rw [forall_map_range]
    exact forall_congr' fun d => forall_congr' fun _ => chainCons_iff' htr _ _ _
  · refine forall_congr' fun i => forall_congr' fun _ => ?_
    by_cases hfit : L.rateExt + i < L.widthExt
    · simp only [hfit, if_true, true_imp_iff]
      unfold merkleRight
      rw [forall_map_range]
      exact forall_congr' fun d => forall_congr' fun _ => chainCons_iff' htr _ _ _
    · simp [hfit]
  · unfold accCons2
    constructor
    · intro h hg
      rcases mul_eq_zero.mp h with h | h
      · exact absurd h htr
      · rw [← mul_assoc] at h
        rcases mul_eq_zero.mp h with h | h
        · exact absurd h hg
        · linear_combination h
    · intro h
      by_cases hg : (1 - prepNewStart L pn) * prepMerklePath L pn = 0
      · have : tr * ((1 - prepNewStart L pn) * (prepMerklePath L pn * (nxt.idxSum - (loc.idxSum * (1 + 1) + nxt.bit))))
            = tr * (((1 - prepNewStart L pn) * prepMerklePath L pn) * (nxt.idxSum - (loc.idxSum * (1 + 1) + nxt.bit))) := by ring
        rw [this, hg]; ring
      · rw [h hg]; ring

/-- compact `D = 1` layout: on a sponge chain start (`new_start ≠ 0`, not Merkle) the start constraint of a
capacity cell vanishes iff the cell is the length tag (first capacity cell) resp. zero -/
theorem compact_start_iff {ns mp : K} (hns : ns ≠ 0) (hmp : (1 : K) - mp ≠ 0) (x tag : K) :
    startCons ns mp x tag = 0 ↔ x = tag := startCons_iff hns hmp x tag

/-- pget of an all-zero row -/
theorem pget_zero_row (pn : List K) (hz : ∀ x ∈ pn, x = 0) (i : Nat) : pget pn i = 0 := by
  unfold pget
  rw [List.getD_eq_getElem?_getD]
  cases h : pn[i]? with
  | none => rfl
  | some v => exact hz v (List.mem_of_getElem? h)

/-- **Zero-selector rows accept everything.** If the next preprocessed row is all zeros (a padding row),
every control constraint that involves the next row vanishes, whatever the two main rows hold; what remains
are the unconditional assertions on the *local* row's bit columns. All layouts. -/
theorem zero_prep_accepts (L : PosLayout) (tr : K) (loc nxt : PosRow K) (pn : List K)
    (hz : ∀ x ∈ pn, x = 0)
    (hbit : loc.bit = 0 ∨ loc.bit = 1)
    (h4 : L.arity4 = true → (loc.bit2 = 0 ∨ loc.bit2 = 1) ∧ loc.bitProd = loc.bit * loc.bit2) :
    ∀ c ∈ poseidonCtlConstraints L tr loc nxt pn, c = 0 := by
  have z : ∀ i, pget pn i = 0 := pget_zero_row pn hz
  have hb0 : boolCons loc.bit = 0 := (boolCons_iff _).mpr hbit
  unfold poseidonCtlConstraints
  split
  · rename_i ha
    obtain ⟨hb2, hp⟩ := h4 ha
    unfold arity4Constraints
    rw [forall_append, forall_append, forall_append]
    refine ⟨⟨⟨?_, ?_⟩, ?_⟩, ?_⟩
    · intro c hc
      simp only [List.mem_cons, List.mem_nil_iff, or_false] at hc
      rcases hc with rfl | rfl | rfl
      · exact hb0
      · exact (boolCons_iff _).mpr hb2
      · rw [hp]; ring
    · unfold spongeChain
      rw [forall_flatMap_range]; intro k _; rw [forall_map_range]; intro d _
      simp [prepNormalSel, z, chainCons_zero_gate]
    · unfold arity4Place
      rw [forall_flatMap_range]; intro k _; rw [forall_flatMap_range]; intro s _
      rw [forall_map_range]; intro d _
      simp [prepMerkleSel, z, chainCons_zero_gate]
    · rw [forall_singleton]; unfold accCons4; simp [prepMerklePath, z]
  · split
    · unfold compactConstraints
      simp only
      rw [forall_append, forall_append, forall_append, forall_append, forall_append]
      refine ⟨⟨⟨⟨⟨?_, ?_⟩, ?_⟩, ?_⟩, ?_⟩, ?_⟩
      · rw [forall_singleton]; exact hb0
      · unfold spongeChain
        rw [forall_flatMap_range]; intro k _; rw [forall_map_range]; intro d _
        simp [prepNormalSel, z, chainCons_zero_gate]
      · rw [forall_flatMap_range]; intro k _; rw [forall_map_range]; intro d _
        simp [prepCapChain, z, chainTagCons]
      · rw [forall_flatMap_range]; intro i _; rw [forall_flatMap_range]; intro d _
        intro c hc
        simp only [List.mem_cons, List.mem_nil_iff, or_false] at hc
        rcases hc with rfl | rfl
        · simp [prepMerkleSel, z, chainCons_zero_gate]
        · simp [prepMerkleSel, z, chainCons_zero_gate]
      · rw [forall_flatMap_range]; intro k _; rw [forall_map_range]; intro d _
        simp [prepNewStart, z, startCons]
      · rw [forall_singleton]; unfold accCons2; simp [prepMerklePath, z]
    · unfold genericConstraints
      rw [forall_append, forall_append, forall_append, forall_append]
      refine ⟨⟨⟨⟨?_, ?_⟩, ?_⟩, ?_⟩, ?_⟩
      · rw [forall_singleton]; exact hb0
      · unfold spongeChain
        rw [forall_flatMap_range]; intro k _; rw [forall_map_range]; intro d _
        simp [prepNormalSel, z, chainCons_zero_gate]
      · rw [forall_flatMap_range]; intro i _; unfold merkleLeft; rw [forall_map_range]; intro d _
        simp [prepMerkleSel, z, chainCons_zero_gate]
      · rw [forall_flatMap_range]; intro i _
        split
        · unfold merkleRight; rw [forall_map_range]; intro d _
          simp [prepMerkleSel, z, chainCons_zero_gate]
        · simp
      · rw [forall_singleton]; unfold accCons2; simp [prepMerklePath, z]

/-- **A generic-layout chain start binds nothing but the bus.** On a `new_start` row of the generic layout
(`new_start = 1`, hence every chain selector 0) every control constraint vanishes whatever the next row's
input cells are: a limb that is not fed from a witness (`in_ctl = 0`) is a free cell, although the operation's
fresh state is zero there (finding F-C11-P1; the compact `D = 1` layout has `compact_start_iff`). -/
theorem generic_chain_start_free (L : PosLayout) (tr : K) (loc nxt : PosRow K) (pn : List K)
    (hbit : loc.bit = 0 ∨ loc.bit = 1)
    (hn : ∀ limb < L.widthExt, prepNormalSel L pn limb = 0) (hm : ∀ i < L.rateExt, prepMerkleSel L pn i = 0)
    (hns : prepNewStart L pn = 1) :
    ∀ c ∈ genericConstraints L tr loc nxt pn, c = 0 := by
  unfold genericConstraints
  rw [forall_append, forall_append, forall_append, forall_append]
  refine ⟨⟨⟨⟨?_, ?_⟩, ?_⟩, ?_⟩, ?_⟩
  · rw [forall_singleton]; exact (boolCons_iff _).mpr hbit
  · unfold spongeChain
    rw [forall_flatMap_range]; intro k hk; rw [forall_map_range]; intro d _
    simp only [Nat.sub_zero] at hk
    simp [hn k hk, chainCons_zero_gate]
  · rw [forall_flatMap_range]; intro i hi; unfold merkleLeft; rw [forall_map_range]; intro d _
    simp [hm i hi, chainCons_zero_gate]
  · rw [forall_flatMap_range]; intro i hi
    split
    · unfold merkleRight; rw [forall_map_range]; intro d _
      simp [hm i hi, chainCons_zero_gate]
    · simp
  · rw [forall_singleton, hns]; exact accCons2_reset _ _ _ _ _

end Window

/-! ### selector cells of arity 4: both booleanity checks and the product tie are needed

The position weights `h_k` are *linear* in the three prover cells `(mmcs_bit, mmcs_bit2, mmcs_bit_x_bit2)`, so the
placement gates alone accept any affine combination. `arity4Hot_onehot_iff`: the weight vector is one-hot exactly when
BOTH direction cells are boolean and the helper is their product — `arity4Hot_onehot` needs all three hypotheses.
`arity4Hot_bit2_free` / `arity4_forged_place` / `accCons4_forged`: with only `b0` and `b0·b1` boolean (the booleanity of the
high direction cell asserted on the helper instead: seed C11-d) the row `b0 = 0, b1 = t, b0b1 = 0` passes, its weights are
`(1 − t, 0, t, 0)`, the placement gates hold as soon as chunks 0 and 2 both carry the digest, and the accumulator takes
`4·prev + 2t`: the coordinated forgery the harness builds (`forge_selector` in harness/src/c11p_chain.rs). -/

section Selectors
variable {K : Type} [Field K]

/-- the three selector cells are recovered linearly from the position weights, which always sum to 1 -/
theorem arity4Hot_bits (r : PosRow K) :
    r.bit = arity4Hot r 1 + arity4Hot r 3 ∧ r.bit2 = arity4Hot r 2 + arity4Hot r 3 ∧ r.bitProd = arity4Hot r 3 ∧
      arity4Hot r 0 + arity4Hot r 1 + arity4Hot r 2 + arity4Hot r 3 = 1 := by
  simp only [arity4Hot]
  refine ⟨by ring, by ring, trivial, by ring⟩

/-- **One-hot position ⇔ both direction cells boolean and the helper is their product.** None of the three checks of
`eval_arity4` on the selector cells can be dropped or moved to another cell. -/
theorem arity4Hot_onehot_iff (r : PosRow K) :
    (∃ pos < 4, ∀ k < 4, arity4Hot r k = if k = pos then 1 else 0) ↔
      (r.bit = 0 ∨ r.bit = 1) ∧ (r.bit2 = 0 ∨ r.bit2 = 1) ∧ r.bitProd = r.bit * r.bit2 := by
  constructor
  · rintro ⟨pos, hpos, h⟩
    obtain ⟨hb, hb2, hp, _⟩ := arity4Hot_bits r
    have h1 := h 1 (by omega)
    have h2 := h 2 (by omega)
    have h3 := h 3 (by omega)
    have hc : pos = 0 ∨ pos = 1 ∨ pos = 2 ∨ pos = 3 := by omega
    rw [hp, hb, hb2]
    rcases hc with rfl | rfl | rfl | rfl <;> simp at h1 h2 h3 <;> simp [h1, h2, h3]
  · rintro ⟨hb, hb2, hp⟩
    have key : ∀ (b b2 : Bool), r.bit = (if b then 1 else 0) → r.bit2 = (if b2 then 1 else 0) →
        ∃ pos < 4, ∀ k < 4, arity4Hot r k = if k = pos then 1 else 0 := by
      intro b b2 e e2
      refine ⟨b.toNat + 2 * b2.toNat, by cases b <;> cases b2 <;> simp, fun k hk => ?_⟩
      exact arity4Hot_onehot r b b2 e e2 hp k hk
    rcases hb with hb | hb <;> rcases hb2 with hb2 | hb2
    · exact key false false (by simpa using hb) (by simpa using hb2)
    · exact key false true (by simpa using hb) (by simpa using hb2)
    · exact key true false (by simpa using hb) (by simpa using hb2)
    · exact key true true (by simpa using hb) (by simpa using hb2)

/-- every window the arity-4 table accepts has, on its LOCAL row, boolean direction cells, a consistent helper and a
one-hot position vector (the three head constraints of `arity4Constraints` are unconditional) -/
theorem arity4_window_selectors (L : PosLayout) (tr : K) (loc nxt : PosRow K) (pn : List K)
    (h : ∀ c ∈ arity4Constraints L tr loc nxt pn, c = 0) :
    (loc.bit = 0 ∨ loc.bit = 1) ∧ (loc.bit2 = 0 ∨ loc.bit2 = 1) ∧ loc.bitProd = loc.bit * loc.bit2 ∧
      ∃ pos < 4, ∀ k < 4, arity4Hot loc k = if k = pos then 1 else 0 := by
  have h0 := h (boolCons loc.bit) (by simp [arity4Constraints])
  have h1 := h (boolCons loc.bit2) (by simp [arity4Constraints])
  have h2 := h (loc.bitProd - loc.bit * loc.bit2) (by simp [arity4Constraints])
  have hb := (boolCons_iff _).mp h0
  have hb2 := (boolCons_iff _).mp h1
  have hp : loc.bitProd = loc.bit * loc.bit2 := sub_eq_zero.mp h2
  exact ⟨hb, hb2, hp, (arity4Hot_onehot_iff loc).mpr ⟨hb, hb2, hp⟩⟩

/-- **Necessity of the check on the high direction cell.** The row `b0 = 0, b1 = t, b0b1 = 0` passes booleanity of
`b0`, booleanity of the helper `b0·b1` and the product tie, for every `t`; its position weights are `(1 − t, 0, t, 0)`. -/
theorem arity4Hot_bit2_free (t s : K) (inp out : List K) :
    let r : PosRow K := ⟨inp, out, 0, t, 0, s⟩
    boolCons r.bit = 0 ∧ boolCons r.bitProd = 0 ∧ r.bitProd - r.bit * r.bit2 = 0 ∧
      arity4Hot r 0 = 1 - t ∧ arity4Hot r 1 = 0 ∧ arity4Hot r 2 = t ∧ arity4Hot r 3 = 0 := by
  simp [boolCons, arity4Hot]

/-- … and for `t ∉ {0, 1}` that vector is not one-hot: the row is no Merkle step -/
theorem arity4Hot_bit2_free_not_onehot (t s : K) (inp out : List K) (h0 : t ≠ 0) (h1 : t ≠ 1) :
    ¬ ∃ pos < 4, ∀ k < 4, arity4Hot (⟨inp, out, 0, t, 0, s⟩ : PosRow K) k = if k = pos then 1 else 0 := by
  rw [arity4Hot_onehot_iff]
  rintro ⟨_, hb2 | hb2, _⟩
  · exact h0 hb2
  · exact h1 hb2

/-- the placement gates accept weights `(1 − t, 0, t, 0)` as soon as chunks 0 and 2 BOTH carry the previous digest -/
theorem arity4_forged_place (D CE : Nat) (tr : K) (msel : Nat → K) (loc nxt : PosRow K)
    (hb : nxt.bit = 0) (hp : nxt.bitProd = 0)
    (hc0 : ∀ slot < CE, ∀ d < D, pget nxt.inp ((0 * CE + slot) * D + d) = pget loc.out (slot * D + d))
    (hc2 : ∀ slot < CE, ∀ d < D, pget nxt.inp ((2 * CE + slot) * D + d) = pget loc.out (slot * D + d)) :
    ∀ c ∈ arity4Place D CE tr msel loc nxt, c = 0 := by
  unfold arity4Place
  rw [forall_flatMap_range]
  intro k hk
  rw [forall_flatMap_range]
  intro slot hs
  rw [forall_map_range]
  intro d hd
  have hc : k = 0 ∨ k = 1 ∨ k = 2 ∨ k = 3 := by omega
  rcases hc with rfl | rfl | rfl | rfl
  · rw [hc0 slot hs d hd]; simp [chainCons]
  · simp [arity4Hot, hb, hp, chainCons]
  · rw [hc2 slot hs d hd]; simp [chainCons]
  · simp [arity4Hot, hp, chainCons]

/-- the base-4 accumulator follows the forged high cell: `4·prev + 0 + 2t` -/
theorem accCons4_forged (tr ns mp l t : K) : accCons4 tr ns mp l (4 * l + 2 * t) 0 t = 0 := by
  unfold accCons4; ring

end Selectors

/-! ### non-vacuity -/

section Examples

/-- hypotheses of `accCons2_iff` are satisfiable and the constraint is not trivially zero -/
example : accCons2 (1 : ℚ) 0 1 3 7 1 = 0 ∧ accCons2 (1 : ℚ) 0 1 3 8 1 ≠ 0 := by
  unfold accCons2; norm_num

example : accChain2Ok (0 : ℚ) [(1, 1), (0, 2), (1, 5)] := by
  simp only [accChain2Ok, accCons2]; norm_num

example : ¬ accChain2Ok (0 : ℚ) [(1, 1), (0, 3)] := by
  simp only [accChain2Ok, accCons2]; norm_num

example : natOfBits [true, false, true] = 5 := by decide

example : natOfQuads [(true, false), (false, true)] = 6 := by decide

example : accCons4 (1 : ℚ) 0 1 1 6 0 1 = 0 := by unfold accCons4; norm_num

/-- `merklePlace_iff` on a concrete right-child window (`D = 1`, `RATE_EXT = 1`) -/
example :
    let loc : PosRow ℚ := ⟨[0, 0], [42, 9], 0, 0, 0, 0⟩
    let nxt : PosRow ℚ := ⟨[5, 42], [0, 0], 1, 0, 0, 1⟩
    ∀ c ∈ merkleLeft 1 (1 : ℚ) (fun _ => 1) loc nxt 0 ++ merkleRight 1 1 1 (fun _ => 1) loc nxt 0, c = 0 := by
  intro loc nxt c hc
  simp [merkleLeft, merkleRight, chainCons, pget, loc, nxt] at hc
  rcases hc with rfl | rfl <;> norm_num

/-- and the placement constraint does reject the digest on the wrong side -/
example :
    let loc : PosRow ℚ := ⟨[0, 0], [42, 9], 0, 0, 0, 0⟩
    let nxt : PosRow ℚ := ⟨[42, 5], [0, 0], 1, 0, 0, 1⟩
    ¬ ∀ c ∈ merkleLeft 1 (1 : ℚ) (fun _ => 1) loc nxt 0 ++ merkleRight 1 1 1 (fun _ => 1) loc nxt 0, c = 0 := by
  intro loc nxt h
  have := h (chainCons 1 (1 * nxt.bit) (pget nxt.inp ((1 + 0) * 1 + 0)) (pget loc.out (0 * 1 + 0)))
    (by simp [merkleLeft, merkleRight])
  simp [chainCons, pget, loc, nxt] at this
  norm_num at this

end Examples

end P3R.C11P
