/-
Executable degree-4 binomial extension `PF p [X] / (X⁴ − W)` for the C07 driver
(`BinomialExtensionField<BabyBear, 4>` has `W = 11`). Import-free apart from `Model/Field`.

Like `PF p`, this instance is *not* proved to be a field; it is validated against p3-field by
the correspondence runs (every verdict of the driver goes through this arithmetic). `p` and `W`
come from the case line, nothing is defaulted.
-/
import P3R.Model.Field

namespace P3R

structure BE4 (p W : Nat) where
  c0 : PF p
  c1 : PF p
  c2 : PF p
  c3 : PF p
deriving DecidableEq, Repr

namespace BE4
variable {p W : Nat}

@[inline] def ofBase (x : PF p) : BE4 p W := ⟨x, 0, 0, 0⟩
instance : Zero (BE4 p W) := ⟨⟨0, 0, 0, 0⟩⟩
instance : One (BE4 p W) := ⟨⟨1, 0, 0, 0⟩⟩
instance : Add (BE4 p W) := ⟨fun a b => ⟨a.c0 + b.c0, a.c1 + b.c1, a.c2 + b.c2, a.c3 + b.c3⟩⟩
instance : Sub (BE4 p W) := ⟨fun a b => ⟨a.c0 - b.c0, a.c1 - b.c1, a.c2 - b.c2, a.c3 - b.c3⟩⟩
instance : Neg (BE4 p W) := ⟨fun a => ⟨-a.c0, -a.c1, -a.c2, -a.c3⟩⟩

def mul (a b : BE4 p W) : BE4 p W :=
  let w : PF p := PF.ofNat W
  ⟨a.c0 * b.c0 + w * (a.c1 * b.c3 + a.c2 * b.c2 + a.c3 * b.c1),
   a.c0 * b.c1 + a.c1 * b.c0 + w * (a.c2 * b.c3 + a.c3 * b.c2),
   a.c0 * b.c2 + a.c1 * b.c1 + a.c2 * b.c0 + w * (a.c3 * b.c3),
   a.c0 * b.c3 + a.c1 * b.c2 + a.c2 * b.c1 + a.c3 * b.c0⟩
instance : Mul (BE4 p W) := ⟨mul⟩

def pow (a : BE4 p W) (n : Nat) : BE4 p W := Id.run do
  let mut r : BE4 p W := 1
  let mut b := a
  let mut e := n
  for _ in [0:260] do
    if e % 2 == 1 then r := r * b
    b := b * b
    e := e / 2
  return r

/-- Inverse as `a^(p⁴ − 2)` (the multiplicative group has order `p⁴ − 1`); `0⁻¹ = 0`. -/
instance : Inv (BE4 p W) := ⟨fun a => pow a (p ^ 4 - 2)⟩
instance : ToString (BE4 p W) := ⟨fun a => s!"{a.c0} {a.c1} {a.c2} {a.c3}"⟩

end BE4
end P3R
