// Included twice by c01.rs (modules `bb` and `kb`) with `params`, `TAG`, `P`, `PermCfg`, `P2`,
// `default_perm` in scope. Not a module of its own.

use std::panic::{AssertUnwindSafe, catch_unwind};
use std::rc::Rc;

use p3_circuit::CircuitBuilder;
use p3_circuit::ops::{generate_poseidon2_trace, generate_recompose_trace};
use p3_circuit::test_utils::{FibonacciAir, generate_trace_rows};
use p3_batch_stark::{BatchProof, ProverData, StarkInstance, prove_batch, verify_batch};
use p3_batch_stark::CommonData;
use p3_batch_stark::common::GlobalPreprocessed;
use p3_circuit_prover::common::get_airs_and_degrees_with_prep;
use p3_circuit_prover::{BatchStarkProof, BatchStarkProver, CircuitProverData, ConstraintProfile, TablePacking};
use p3_recursion::verifier::verify_p3_batch_proof_circuit;
use p3_field::PrimeCharacteristicRing;
use p3_fri::{FriParameters, HidingFriPcs};
use p3_recursion::pcs::fri::HidingFriProofTargets;
use p3_recursion::{BatchStarkVerifierInputsBuilder, verify_batch_circuit};
use p3_uni_stark::StarkConfig;
use rand::SeedableRng;
use rand::rngs::SmallRng;
use p3_lookup::logup::LogUpGadget;
use p3_matrix::Matrix;
use p3_recursion::pcs::fri::{FriVerifierParams, InputProofTargets, MerkleCapTargets, RecValMmcs};
use p3_recursion::pcs::{FriProofTargets, RecExtensionValMmcs, Witness, set_fri_mmcs_private_data};
use p3_recursion::public_inputs::StarkVerifierInputsBuilder;
use p3_recursion::verify_p3_uni_proof_circuit;
use p3_uni_stark::{PreprocessedVerifierKey, Proof, prove_with_preprocessed, setup_preprocessed, verify_with_preprocessed};
use params::{
    Challenge, ChallengeMmcs, Challenger, DIGEST_ELEMS, Dft, F, MyCompress, MyConfig, MyHash, MyMmcs, RATE, WIDTH, make_test_config,
    test_fri_scalars,
};
use serde_json::{Value, json};

use p3_challenger::{CanObserve, CanSample, CanSampleBits, FieldChallenger, GrindingChallenger};
use super::{EvLog, FriSpec, InstStatic, PowOverride, ShapeParams, effective_pow_bits, grind_variants, pow_reads, shape_line};
use super::{AddAir, Circ, DemoAir, FeatAir, MulAir, Native, RunFn, Siblings, Target, add_trace, bus_trace, chunk_counts, features_of, panic_msg, perm_trace, table_trace, variant, variant2, wrongair_ids};
use super::forge_prover::{Forge, forge_prove_batch};
use super::forge_prover::uni::forge_prove_uni;

type RecVal = RecValMmcs<F, DIGEST_ELEMS, MyHash, MyCompress>;
type InputProof = InputProofTargets<F, Challenge, RecVal>;
type InnerFri =
    FriProofTargets<F, Challenge, RecExtensionValMmcs<F, Challenge, DIGEST_ELEMS, RecVal>, InputProof, Witness<F>>;
type Comm = MerkleCapTargets<F, DIGEST_ELEMS>;
type Com = p3_symmetric::MerkleCap<F, [F; DIGEST_ELEMS]>;

/// `params::Challenger` with every observe / sample logged (p3 itself is unchanged).
#[derive(Clone)]
pub struct RecCh {
    inner: Challenger,
    log: EvLog,
}

impl CanObserve<F> for RecCh {
    fn observe(&mut self, v: F) {
        self.log.push('o', 1);
        self.inner.observe(v);
    }
}
impl CanObserve<Com> for RecCh {
    fn observe(&mut self, c: Com) {
        for d in c.roots() {
            for v in d {
                CanObserve::<F>::observe(self, *v);
            }
        }
    }
}
impl CanSample<F> for RecCh {
    fn sample(&mut self) -> F {
        self.log.push('s', 1);
        self.inner.sample()
    }
}
impl CanSample<Challenge> for RecCh {
    fn sample(&mut self) -> Challenge {
        <Challenge as p3_field::BasedVectorSpace<F>>::from_basis_coefficients_fn(|_| CanSample::<F>::sample(self))
    }
}
impl CanSampleBits<usize> for RecCh {
    fn sample_bits(&mut self, bits: usize) -> usize {
        self.log.push('b', bits);
        self.inner.sample_bits(bits)
    }
}
impl FieldChallenger<F> for RecCh {}
impl GrindingChallenger for RecCh {
    type Witness = F;
    fn grind(&mut self, bits: usize) -> F {
        self.inner.grind(bits)
    }
}

type RecConfig = StarkConfig<params::MyPcs, Challenge, RecCh>;
type RecConfigZk = StarkConfig<MyPcsZk, Challenge, RecCh>;

fn rec_ch(log: &EvLog) -> RecCh {
    RecCh { inner: Challenger::new(default_perm()), log: log.clone() }
}

/// Native `FriParameters` of a spec. The grinding bit counts go through `effective_pow_bits`: while the
/// adversarial prover of a `grind:c:q` forgery builds its config they are `(c, q)`, otherwise the spec's.
fn fri_of_spec(spec: FriSpec, mmcs: ChallengeMmcs) -> FriParameters<ChallengeMmcs> {
    let (cpow, qpow) = effective_pow_bits(&spec);
    FriParameters {
        log_blowup: spec.log_blowup,
        log_final_poly_len: spec.log_final,
        max_log_arity: spec.max_log_arity,
        num_queries: spec.queries,
        commit_proof_of_work_bits: cpow,
        query_proof_of_work_bits: qpow,
        mmcs,
    }
}

fn mmcs_pair() -> (MyMmcs, ChallengeMmcs) {
    let perm = default_perm();
    let hash = MyHash::new(perm.clone());
    let compress = MyCompress::new(perm);
    let val_mmcs = MyMmcs::new(hash, compress, 0);
    let challenge_mmcs = ChallengeMmcs::new(val_mmcs.clone());
    (val_mmcs, challenge_mmcs)
}

/// Plain PCS (`TwoAdicFriPcs`) with the FRI parameters of `spec`.
fn make_config_spec(spec: FriSpec) -> MyConfig {
    let (val_mmcs, challenge_mmcs) = mmcs_pair();
    let fri = fri_of_spec(spec, challenge_mmcs);
    MyConfig::new(params::MyPcs::new(Dft::default(), val_mmcs, fri), Challenger::new(default_perm()))
}

/// Hiding PCS (`HidingFriPcs`, 2 random codewords) with the FRI parameters of `spec`.
fn make_zk_config_spec(seed: u64, spec: FriSpec) -> MyConfigZk {
    let (val_mmcs, challenge_mmcs) = mmcs_pair();
    let fri = fri_of_spec(spec, challenge_mmcs);
    let pcs = MyPcsZk::new(Dft::default(), val_mmcs, fri, 2, SmallRng::seed_from_u64(seed));
    MyConfigZk::new(pcs, Challenger::new(default_perm()))
}

/// Same PCS as `make_config_spec`, recording challenger.
fn rec_config_spec(log: &EvLog, spec: FriSpec) -> RecConfig {
    let (val_mmcs, challenge_mmcs) = mmcs_pair();
    let fri = fri_of_spec(spec, challenge_mmcs);
    RecConfig::new(params::MyPcs::new(Dft::default(), val_mmcs, fri), rec_ch(log))
}

fn rec_config_zk_spec(log: &EvLog, spec: FriSpec) -> RecConfigZk {
    let (val_mmcs, challenge_mmcs) = mmcs_pair();
    let fri = fri_of_spec(spec, challenge_mmcs);
    RecConfigZk::new(MyPcsZk::new(Dft::default(), val_mmcs, fri, 2, SmallRng::seed_from_u64(9)), rec_ch(log))
}

/// The circuit's verifying parameters of a spec (never under a prover-side override).
fn fri_params_spec(spec: FriSpec) -> FriVerifierParams {
    FriVerifierParams::with_mmcs(spec.log_blowup, spec.log_final, spec.cpow, spec.qpow, P2)
}

/// Same PCS as `cfg`'s maker, recording challenger.
fn rec_config(log: &EvLog, fri2: bool) -> RecConfig {
    rec_config_spec(log, if fri2 { FriSpec::FRI2 } else { FriSpec::TESTING })
}

fn rec_config_zk(log: &EvLog) -> RecConfigZk {
    rec_config_zk_spec(log, FriSpec::TESTING)
}

fn fri_params() -> FriVerifierParams {
    let s = test_fri_scalars();
    FriVerifierParams::with_mmcs(s.log_blowup, s.log_final_poly_len, s.commit_pow_bits, s.query_pow_bits, P2)
}

/// A second, still tiny, FRI parameter set: blowup 2, arity up to 4, final polynomial of length 2,
/// 3 queries, no commit-phase grinding, 2 bits of query grinding.
fn make_config_fri2() -> MyConfig {
    make_config_spec(FriSpec::FRI2)
}

fn fri_params2() -> FriVerifierParams {
    fri_params_spec(FriSpec::FRI2)
}

fn new_builder() -> CircuitBuilder<Challenge> {
    let mut b = CircuitBuilder::new();
    b.enable_poseidon2_perm::<PermCfg, _>(generate_poseidon2_trace::<Challenge, PermCfg>, default_perm());
    b.enable_recompose::<F>(generate_recompose_trace::<F, Challenge>);
    b
}

fn parse_pis(j: &Value) -> Option<Vec<F>> {
    serde_json::from_value::<Vec<F>>(j.clone()).ok()
}

macro_rules! fri_plain {
    ($p:expr) => {
        &$p.opening_proof
    };
}
macro_rules! fri_zk {
    ($p:expr) => {
        &$p.opening_proof.1
    };
}

/// A uni-STARK target for a concrete AIR type (everything monomorphic inside).
macro_rules! uni_target {
    ($name:expr, $mk_air:expr, $trace:expr, $pis:expr) => {
        uni_target!($name, $mk_air, $trace, $pis, make_test_config, fri_params)
    };
    ($name:expr, $mk_air:expr, $trace:expr, $pis:expr, $mk_cfg:expr, $frip:expr) => {
        uni_target!($name, $mk_air, $trace, $pis, $mk_cfg, $frip, MyConfig, InnerFri, fri_plain, RecConfig,
            (|l: &EvLog| rec_config(l, false)), (1usize, 1usize, 2usize, 0usize))
    };
    ($name:expr, $mk_air:expr, $trace:expr, $pis:expr, $mk_cfg:expr, $frip:expr, $SC:ty, $INNER:ty, $fri_of:ident,
     $RSC:ty, $mk_rec:expr, $spec:expr) => {{
        let name: String = format!("{}/{}/{}", if stringify!($SC) == "MyConfigZk" { "unizk" } else { "uni" }, TAG, $name);
        let config = $mk_cfg();
        let air = $mk_air;
        let trace = $trace;
        let pis: Vec<F> = $pis;
        let log_h = p3_util::log2_strict_usize(trace.height());
        let (ppd, vk) = setup_preprocessed(&config, &air, log_h).unzip();
        let proof = prove_with_preprocessed(&config, &air, trace, &pis, ppd.as_ref());
        let vk: Option<Rc<PreprocessedVerifierKey<$SC>>> = vk.map(Rc::new);
        let spec: (usize, usize, usize, usize) = $spec;
        let is_zk = stringify!($SC) == "MyConfigZk";
        let log = EvLog::default();
        let transcript = {
            let rcfg: $RSC = $mk_rec(&log);
            let proof_r: Proof<$RSC> = serde_json::from_value(serde_json::to_value(&proof).unwrap()).unwrap();
            let vk_r = vk.as_ref().map(|v| PreprocessedVerifierKey::<$RSC> {
                width: v.width,
                degree_bits: v.degree_bits,
                commitment: v.commitment.clone(),
            });
            log.clear();
            let _ = catch_unwind(AssertUnwindSafe(|| verify_with_preprocessed(&rcfg, &air, &proof_r, &pis, vk_r.as_ref())));
            log.render()
        };
        let inst = InstStatic {
            width: <_ as p3_air::BaseAir<F>>::width(&air),
            n_pub: <_ as p3_air::BaseAir<F>>::num_public_values(&air),
            pre_w: <_ as p3_air::BaseAir<F>>::preprocessed_width(&air),
            has_next: !<_ as p3_air::BaseAir<F>>::main_next_row_columns(&air).is_empty(),
            pre_next: !<_ as p3_air::BaseAir<F>>::preprocessed_next_row_columns(&air).is_empty(),
            n_lookups: 0,
        };
        let sp = ShapeParams { mode: "uni", zk: is_zk, d: 4, dg: DIGEST_ELEMS, nrc: if is_zk { 2 } else { 0 },
            cpow: spec.0, qpow: spec.1, log_blowup: spec.2, log_final: spec.3 };
        let shape = shape_line(&sp, &serde_json::to_value(&proof).unwrap(), &[inst]);
        let features = features_of(
            is_zk,
            &[inst],
            &[Siblings::<F>::periods(&air)],
            &chunk_counts("uni", &serde_json::to_value(&proof).unwrap(), 1),
            &[1usize << log_h],
        );
        let honest = json!({
            "proof": serde_json::to_value(&proof).unwrap(),
            "pis": serde_json::to_value(&pis).unwrap(),
            "vd": vk.as_ref().map(|v| serde_json::to_value(&v.commitment).unwrap()).unwrap_or(Value::Null),
        });
        let honest_vd: Value = honest["vd"].clone();
        let vk_of = {
            let vk = vk.clone();
            move |j: &Value| -> Option<Option<PreprocessedVerifierKey<$SC>>> {
                match &vk {
                    None => Some(None),
                    Some(v) => {
                        let c: Com = serde_json::from_value(j["vd"].clone()).ok()?;
                        Some(Some(PreprocessedVerifierKey { width: v.width, degree_bits: v.degree_bits, commitment: c }))
                    }
                }
            }
        };
        let native = {
            let vk_of = vk_of.clone();
            Box::new(move |j: &Value| -> Option<Native> {
                let proof: Proof<$SC> = serde_json::from_value(j["proof"].clone()).ok()?;
                let pis = parse_pis(&j["pis"])?;
                let vk = vk_of(j)?;
                let config = $mk_cfg();
                let air = $mk_air;
                let r = catch_unwind(AssertUnwindSafe(|| verify_with_preprocessed(&config, &air, &proof, &pis, vk.as_ref())));
                Some(match r {
                    Ok(Ok(())) => Native::Accept,
                    Ok(Err(e)) => {
                        // `InvalidOpeningArgument(InvalidPowWitness)` → `InvalidOpeningArgument/InvalidPowWitness`
                        let full: String = format!("{e:?}").chars().take(120).collect();
                        Native::Reject(format!("{}|{}", variant2(&full), full))
                    }
                    Err(p) => Native::Panic(panic_msg(p)),
                })
            })
        };
        let build = {
            let vk_of = vk_of.clone();
            Box::new(move |j: &Value| -> Result<RunFn, Circ> {
                let proof: Proof<$SC> =
                    serde_json::from_value(j["proof"].clone()).map_err(|e| Circ::BuildErr(format!("deser {e}")))?;
                let pis = parse_pis(&j["pis"]).ok_or(Circ::BuildErr("deser pis".into()))?;
                let vk = vk_of(j).ok_or(Circ::BuildErr("deser vd".into()))?;
                let config = $mk_cfg();
                let air = $mk_air;
                let mut cb = new_builder();
                let vi = StarkVerifierInputsBuilder::<$SC, Comm, $INNER>::allocate(
                    &mut cb,
                    &proof,
                    vk.as_ref().map(|v| &v.commitment),
                    pis.len(),
                );
                let params = $frip();
                let op_ids = verify_p3_uni_proof_circuit::<_, $SC, Comm, InputProof, $INNER, _, WIDTH, RATE>(
                    &config,
                    &air,
                    &mut cb,
                    &vi.proof_targets,
                    &vi.air_public_targets,
                    &vi.preprocessed_commit,
                    &params,
                    P2,
                )
                .map_err(|e| Circ::BuildErr(variant(&format!("{e:?}")) + ":" + &format!("{e:?}").chars().take(120).collect::<String>()))?;
                let circuit = cb.build().map_err(|e| Circ::BuildErr(format!("build {e:?}").chars().take(140).collect()))?;
                let vk_of = vk_of.clone();
                Ok(Box::new(move |j: &Value| -> Circ {
                    let Ok(proof) = serde_json::from_value::<Proof<$SC>>(j["proof"].clone()) else {
                        return Circ::PackErr("deser proof".into());
                    };
                    let Some(pis) = parse_pis(&j["pis"]) else { return Circ::PackErr("deser pis".into()) };
                    let Some(vk) = vk_of(j) else { return Circ::PackErr("deser vd".into()) };
                    let (pubs, privs) = vi.pack_values(&pis, &proof, &vk.map(|v| v.commitment));
                    let mut runner = circuit.runner();
                    if let Err(e) = runner.set_public_inputs(&pubs) {
                        return Circ::PackErr(variant(&format!("{e:?}")));
                    }
                    if let Err(e) = runner.set_private_inputs(&privs) {
                        return Circ::PackErr(variant(&format!("{e:?}")));
                    }
                    if let Err(e) = set_fri_mmcs_private_data::<F, Challenge, ChallengeMmcs, MyMmcs, MyHash, MyCompress, DIGEST_ELEMS>(
                        &mut runner,
                        &op_ids,
                        $fri_of!(proof),
                        P2,
                    ) {
                        return Circ::PackErr(e.to_string());
                    }
                    match runner.run() {
                        Ok(_) => Circ::Accept,
                        Err(e) => Circ::RunErr(variant(&format!("{e:?}"))),
                    }
                }) as RunFn)
            })
        };
        // prover-side forgeries (see the batch targets): altered trace cell / public value / quotient value
        let (t_len, n_pis) = {
            let t = $trace;
            (t.values.len(), pis.len())
        };
        // does this target's config maker take its grinding bit counts through `effective_pow_bits`?
        let grind_ok = {
            let r0 = pow_reads();
            let _g = PowOverride::set(spec.0, spec.1);
            let _ = $mk_cfg();
            pow_reads() > r0
        };
        let grind: Vec<(usize, usize)> = if grind_ok { grind_variants(spec.0, spec.1) } else { vec![] };
        let mut forge_ids = super::forge_ids(&[t_len], &[n_pis], &[0], &grind);
        forge_ids.extend(wrongair_ids::<F, _>(&[$mk_air]));
        let forge_fn = {
            let pis = pis.clone();
            move |id: &str| -> Result<Value, String> {
                let spec = super::ForgeSpec::parse(id).ok_or_else(|| format!("bad forgery id {id}"))?;
                let mut trace = $trace;
                let mut pis = pis.clone();
                let mut quot = None;
                let mut prover_pow: Option<(usize, usize)> = None;
                // the AIR the prover proves: the target's, or (wrong-AIR move) one of its siblings
                let mut prover_air = $mk_air;
                let mut wrong_air = false;
                match spec {
                    super::ForgeSpec::WrongAir(0, k) => {
                        let sibs = Siblings::<F>::siblings(&prover_air);
                        let (label, sib) = sibs.into_iter().nth(k).ok_or_else(|| format!("forgery {id}: no such sibling"))?;
                        // a pinned id names its sibling: refuse if the sibling list has moved under it
                        if id.split(':').nth(3).is_some_and(|l| l != label) {
                            return Err(format!("forgery {id}: sibling {k} is {label}"));
                        }
                        let (t, p) = Siblings::<F>::sib_witness(&sib);
                        trace = t;
                        pis = p;
                        prover_air = sib;
                        wrong_air = true;
                    }
                    super::ForgeSpec::None => {}
                    super::ForgeSpec::Grind(c, q) => prover_pow = Some((c, q)),
                    super::ForgeSpec::Trace(0, cell, delta) => {
                        let n = trace.values.len();
                        trace.values[cell % n] += F::from_u64(delta);
                    }
                    super::ForgeSpec::Pv(0, k) => {
                        let n = pis.len().max(1);
                        if let Some(x) = pis.get_mut(k % n) {
                            *x += F::ONE;
                        }
                    }
                    super::ForgeSpec::Quot(0, cell) => quot = Some(cell),
                    _ => return Err(format!("forgery {id} does not apply to a uni-STARK target")),
                }
                // the prover's config: the target's, with the prover-side grinding bit counts if any
                let config = {
                    let r0 = pow_reads();
                    let _g = prover_pow.map(|(c, q)| PowOverride::set(c, q));
                    let config = $mk_cfg();
                    if prover_pow.is_some() && pow_reads() == r0 {
                        return Err(format!("forgery {id}: this target's config ignores the prover-side grinding override"));
                    }
                    config
                };
                let honest_vd = honest_vd.clone();
                let r = catch_unwind(AssertUnwindSafe(|| {
                    let air = prover_air;
                    let log_h = p3_util::log2_strict_usize(trace.height());
                    let (ppd, vk) = setup_preprocessed(&config, &air, log_h).unzip();
                    let proof = forge_prove_uni(&config, &air, trace, &pis, ppd.as_ref(), quot);
                    // wrong-AIR move: the verifier keeps ITS verifying data (the target's preprocessed commitment)
                    let vd = if wrong_air {
                        honest_vd
                    } else {
                        vk.as_ref().map(|v| serde_json::to_value(&v.commitment).unwrap()).unwrap_or(Value::Null)
                    };
                    json!({
                        "proof": serde_json::to_value(&proof).unwrap(),
                        "pis": serde_json::to_value(&pis).unwrap(),
                        "vd": vd,
                    })
                }));
                r.map_err(|p| format!("prover panic: {}", panic_msg(p)))
            }
        };
        let drift = match forge_fn("none") {
            Ok(j) if j == honest => None,
            Ok(_) => Some("proof differs from p3_uni_stark::prove_with_preprocessed on the honest witness".to_string()),
            Err(e) => Some(e),
        };
        Target { name, honest, native, build, include: Box::new(|_| true), shape, transcript, pow_bits: (spec.0, spec.1),
            forge_ids, forge: Some(Box::new(forge_fn)), drift, features }
    }};
}

type MyPcsZk = HidingFriPcs<F, Dft, MyMmcs, ChallengeMmcs, SmallRng>;
type MyConfigZk = StarkConfig<MyPcsZk, Challenge, Challenger>;
type InnerFriZk = HidingFriProofTargets<F, Challenge, RecExtensionValMmcs<F, Challenge, DIGEST_ELEMS, RecVal>, InputProof, Witness<F>>;

fn make_zk_config(seed: u64) -> MyConfigZk {
    make_zk_config_spec(seed, FriSpec::TESTING)
}

/// Verifying data of a batch: the real `CommonData` of the AIRs with the global preprocessed
/// commitment taken from the JSON (`vd`).
macro_rules! common_of {
    ($SC:ty, $config:expr, $airs:expr, $ext_db:expr, $j:expr) => {{
        let pd = ProverData::<$SC>::from_airs_and_degrees($config, $airs, $ext_db);
        let mut common = pd.common;
        let mut ok = true;
        if let Some(g) = common.preprocessed.as_mut() {
            match serde_json::from_value::<Com>($j["vd"].clone()) {
                Ok(c) => g.commitment = c,
                Err(_) => ok = false,
            }
        }
        if ok { Some(common) } else { None }
    }};
}

/// A batch-STARK target over `DemoAir` instances, for the plain or the hiding PCS.
macro_rules! batch_target {
    ($name:expr, $SC:ty, $INNER:ty, $mk_config:expr, $fri_of:ident, $RSC:ty, $mk_rec:expr, $airs:expr, $traces:expr, $pvs:expr) => {
        batch_target!($name, $SC, $INNER, $mk_config, $fri_of, $RSC, $mk_rec, $airs, $traces, $pvs, fri_params, (1usize, 1usize, 2usize, 0usize))
    };
    // `$frip`: the circuit's verifying parameters; `$spec` = (cpow, qpow, log_blowup, log_final) of the native ones
    ($name:expr, $SC:ty, $INNER:ty, $mk_config:expr, $fri_of:ident, $RSC:ty, $mk_rec:expr, $airs:expr, $traces:expr, $pvs:expr,
     $frip:expr, $spec:expr) => {{
        let fspec: (usize, usize, usize, usize) = $spec;
        let name: String = format!("{}/{}/{}", if stringify!($SC) == "MyConfigZk" { "batchzk" } else { "batch" }, TAG, $name);
        let airs: Vec<DemoAir> = $airs;
        let traces: Vec<p3_matrix::dense::RowMajorMatrix<F>> = $traces;
        let pvs: Vec<Vec<F>> = $pvs;
        let config: $SC = $mk_config(1);
        let instances: Vec<StarkInstance<'_, $SC, DemoAir>> = airs
            .iter()
            .zip(traces.iter())
            .zip(pvs.iter())
            .map(|((air, trace), pv)| StarkInstance { air, trace, public_values: pv.clone() })
            .collect();
        let prover_data = ProverData::<$SC>::from_instances(&config, &instances);
        let proof = prove_batch(&config, &instances, &prover_data);
        let ext_db: Vec<usize> = proof.degree_bits.clone();
        let is_zk = stringify!($SC) == "MyConfigZk";
        let log = EvLog::default();
        let transcript = {
            let rcfg: $RSC = $mk_rec(&log);
            let proof_r: BatchProof<$RSC> = serde_json::from_value(serde_json::to_value(&proof).unwrap()).unwrap();
            let common_r = ProverData::<$RSC>::from_airs_and_degrees(&rcfg, &airs, &ext_db).common;
            log.clear();
            let _ = catch_unwind(AssertUnwindSafe(|| verify_batch(&rcfg, &airs, &proof_r, &pvs, &common_r)));
            log.render()
        };
        let insts: Vec<InstStatic> = airs
            .iter()
            .map(|a| InstStatic {
                width: <DemoAir as p3_air::BaseAir<F>>::width(a),
                n_pub: <DemoAir as p3_air::BaseAir<F>>::num_public_values(a),
                pre_w: <DemoAir as p3_air::BaseAir<F>>::preprocessed_width(a),
                has_next: !<DemoAir as p3_air::BaseAir<F>>::main_next_row_columns(a).is_empty(),
                pre_next: !<DemoAir as p3_air::BaseAir<F>>::preprocessed_next_row_columns(a).is_empty(),
                n_lookups: 0,
            })
            .enumerate()
            .map(|(i, mut x)| {
                x.n_lookups = prover_data.common.lookups[i].len();
                x
            })
            .collect();
        let sp = ShapeParams { mode: "batch", zk: is_zk, d: 4, dg: DIGEST_ELEMS, nrc: if is_zk { 2 } else { 0 },
            cpow: fspec.0, qpow: fspec.1, log_blowup: fspec.2, log_final: fspec.3 };
        let shape = shape_line(&sp, &serde_json::to_value(&proof).unwrap(), &insts);
        let features = features_of(
            is_zk,
            &insts,
            &airs.iter().map(|a| Siblings::<F>::periods(a)).collect::<Vec<_>>(),
            &chunk_counts("batch", &serde_json::to_value(&proof).unwrap(), airs.len()),
            &traces.iter().map(|t| t.height()).collect::<Vec<_>>(),
        );
        let honest = json!({
            "proof": serde_json::to_value(&proof).unwrap(),
            "pis": serde_json::to_value(&pvs).unwrap(),
            "vd": prover_data.common.preprocessed.as_ref().map(|g| serde_json::to_value(&g.commitment).unwrap()).unwrap_or(Value::Null),
        });
        let native = {
            let airs = airs.clone();
            let ext_db = ext_db.clone();
            Box::new(move |j: &Value| -> Option<Native> {
                let proof: BatchProof<$SC> = serde_json::from_value(j["proof"].clone()).ok()?;
                let pvs: Vec<Vec<F>> = serde_json::from_value(j["pis"].clone()).ok()?;
                let config: $SC = $mk_config(2);
                let common = common_of!($SC, &config, &airs, &ext_db, j)?;
                let r = catch_unwind(AssertUnwindSafe(|| verify_batch(&config, &airs, &proof, &pvs, &common)));
                Some(match r {
                    Ok(Ok(())) => Native::Accept,
                    Ok(Err(e)) => {
                        let full: String = format!("{e:?}").chars().take(120).collect();
                        Native::Reject(format!("{}|{}", variant2(&full), full))
                    }
                    Err(p) => Native::Panic(panic_msg(p)),
                })
            })
        };
        let build = {
            let airs = airs.clone();
            let ext_db = ext_db.clone();
            Box::new(move |j: &Value| -> Result<RunFn, Circ> {
                let proof: BatchProof<$SC> =
                    serde_json::from_value(j["proof"].clone()).map_err(|e| Circ::BuildErr(format!("deser {e}")))?;
                let config: $SC = $mk_config(3);
                let common = common_of!($SC, &config, &airs, &ext_db, j).ok_or(Circ::BuildErr("deser vd".into()))?;
                let mut cb = new_builder();
                let counts: Vec<usize> = airs.iter().map(|a| <DemoAir as p3_air::BaseAir<F>>::num_public_values(a)).collect();
                if counts.len() != proof.opened_values.instances.len() {
                    return Err(Circ::BuildErr("InstanceCount".into()));
                }
                let vi = BatchStarkVerifierInputsBuilder::<$SC, Comm, $INNER>::allocate(&mut cb, &proof, &common, &counts);
                let params = $frip();
                let lg = LogUpGadget::new();
                let op_ids = verify_batch_circuit::<DemoAir, $SC, Comm, InputProof, $INNER, LogUpGadget, _, WIDTH, RATE>(
                    &config,
                    &airs,
                    &mut cb,
                    &vi.proof_targets,
                    &vi.air_public_targets,
                    &params,
                    &vi.common_data,
                    &lg,
                    P2,
                )
                .map_err(|e| Circ::BuildErr(format!("{e:?}").chars().take(160).collect()))?;
                let circuit = cb.build().map_err(|e| Circ::BuildErr(format!("Build{e:?}").chars().take(140).collect()))?;
                let airs = airs.clone();
                let ext_db = ext_db.clone();
                Ok(Box::new(move |j: &Value| -> Circ {
                    let Ok(proof) = serde_json::from_value::<BatchProof<$SC>>(j["proof"].clone()) else {
                        return Circ::PackErr("deser proof".into());
                    };
                    let Ok(pvs) = serde_json::from_value::<Vec<Vec<F>>>(j["pis"].clone()) else {
                        return Circ::PackErr("deser pis".into());
                    };
                    let config: $SC = $mk_config(4);
                    let Some(common) = common_of!($SC, &config, &airs, &ext_db, j) else { return Circ::PackErr("deser vd".into()) };
                    let (pubs, privs) = vi.pack_values(&pvs, &proof, &common);
                    let mut runner = circuit.runner();
                    if let Err(e) = runner.set_public_inputs(&pubs) {
                        return Circ::PackErr(variant(&format!("{e:?}")));
                    }
                    if let Err(e) = runner.set_private_inputs(&privs) {
                        return Circ::PackErr(variant(&format!("{e:?}")));
                    }
                    if !op_ids.is_empty() {
                        if let Err(e) = set_fri_mmcs_private_data::<F, Challenge, ChallengeMmcs, MyMmcs, MyHash, MyCompress, DIGEST_ELEMS>(
                            &mut runner,
                            &op_ids,
                            $fri_of!(proof),
                            P2,
                        ) {
                            return Circ::PackErr(e.to_string());
                        }
                    }
                    match runner.run() {
                        Ok(_) => Circ::Accept,
                        Err(e) => Circ::RunErr(variant(&format!("{e:?}"))),
                    }
                }) as RunFn)
            })
        };
        // prover-side forgeries: the adversarial prover on altered traces / public values / derived values
        let n_lk: Vec<usize> = prover_data.common.lookups.iter().map(|l| l.len()).collect();
        let grind_ok = {
            let r0 = pow_reads();
            let _g = PowOverride::set(fspec.0, fspec.1);
            let _: $SC = $mk_config(1);
            pow_reads() > r0
        };
        let grind: Vec<(usize, usize)> = if grind_ok { grind_variants(fspec.0, fspec.1) } else { vec![] };
        let mut forge_ids = super::forge_ids(&traces.iter().map(|t| t.values.len()).collect::<Vec<_>>(), &pvs.iter().map(|p| p.len()).collect::<Vec<_>>(), &n_lk, &grind);
        forge_ids.extend(wrongair_ids::<F, _>(&airs));
        let honest_vd: Value = honest["vd"].clone();
        let forge_fn = {
            let airs = airs.clone();
            let traces = traces.clone();
            let pvs = pvs.clone();
            move |id: &str| -> Result<Value, String> {
                let spec = super::ForgeSpec::parse(id).ok_or_else(|| format!("bad forgery id {id}"))?;
                let mut traces = traces.clone();
                let mut pvs = pvs.clone();
                let mut fg = Forge::<$SC>::none();
                let mut prover_pow: Option<(usize, usize)> = None;
                // the AIRs the prover proves: the target's, or (wrong-AIR move) a sibling in place of instance `i`
                // and of every instance altered together with it (the other end of its bus)
                let mut airs = airs.clone();
                let mut wrong_air = false;
                match spec {
                    super::ForgeSpec::WrongAir(i, k) => {
                        let base = *airs.get(i).ok_or("instance")?;
                        for j in 0..airs.len() {
                            if j == i || Siblings::<F>::same_family(&base, &airs[j]) {
                                let sibs = Siblings::<F>::siblings(&airs[j]);
                                let (label, sib) = sibs.into_iter().nth(k).ok_or_else(|| format!("forgery {id}: no such sibling"))?;
                                if id.split(':').nth(3).is_some_and(|l| l != label) {
                                    return Err(format!("forgery {id}: sibling {k} is {label}"));
                                }
                                let (t, p) = Siblings::<F>::sib_witness(&sib);
                                traces[j] = t;
                                pvs[j] = p;
                                airs[j] = sib;
                            }
                        }
                        wrong_air = true;
                    }
                    super::ForgeSpec::None => {}
                    super::ForgeSpec::Grind(c, q) => prover_pow = Some((c, q)),
                    super::ForgeSpec::Trace(i, cell, delta) => {
                        let t = traces.get_mut(i).ok_or("instance")?;
                        let n = t.values.len();
                        t.values[cell % n] += F::from_u64(delta);
                    }
                    super::ForgeSpec::Pv(i, k) => {
                        let p = pvs.get_mut(i).ok_or("instance")?;
                        let n = p.len().max(1);
                        if let Some(x) = p.get_mut(k % n) {
                            *x += F::ONE;
                        }
                    }
                    super::ForgeSpec::TerminalPair(i, j) => {
                        fg.terminal_shift = vec![(i, Challenge::ONE), (j, -Challenge::ONE)];
                    }
                    super::ForgeSpec::TerminalOne(i) => fg.terminal_shift = vec![(i, Challenge::ONE)],
                    super::ForgeSpec::Perm(i, cell) => fg.perm_cell = Some((i, cell)),
                    super::ForgeSpec::Quot(i, cell) => fg.quotient_cell = Some((i, cell)),
                }
                // the prover's config: the target's, with the prover-side grinding bit counts if any
                let config: $SC = {
                    let r0 = pow_reads();
                    let _g = prover_pow.map(|(c, q)| PowOverride::set(c, q));
                    let config: $SC = $mk_config(1);
                    if prover_pow.is_some() && pow_reads() == r0 {
                        return Err(format!("forgery {id}: this target's config ignores the prover-side grinding override"));
                    }
                    config
                };
                let r = catch_unwind(AssertUnwindSafe(|| {
                    let instances: Vec<StarkInstance<'_, $SC, DemoAir>> = airs
                        .iter()
                        .zip(traces.iter())
                        .zip(pvs.iter())
                        .map(|((air, trace), pv)| StarkInstance { air, trace, public_values: pv.clone() })
                        .collect();
                    let pd = ProverData::<$SC>::from_instances(&config, &instances);
                    let proof = forge_prove_batch(&config, &instances, &pd, &fg);
                    // wrong-AIR move: the verifier keeps ITS verifying data (the target's preprocessed commitment)
                    let vd = if wrong_air {
                        honest_vd.clone()
                    } else {
                        pd.common.preprocessed.as_ref().map(|g| serde_json::to_value(&g.commitment).unwrap()).unwrap_or(Value::Null)
                    };
                    json!({
                        "proof": serde_json::to_value(&proof).unwrap(),
                        "pis": serde_json::to_value(&pvs).unwrap(),
                        "vd": vd,
                    })
                }));
                r.map_err(|p| format!("prover panic: {}", panic_msg(p)))
            }
        };
        // the adversarial prover with nothing forged must be the stock prover
        let drift = match forge_fn("none") {
            Ok(j) if j == honest => None,
            Ok(_) => Some("proof differs from p3_batch_stark::prove_batch on the honest witness".to_string()),
            Err(e) => Some(e),
        };
        Target { name, honest, native, build, include: Box::new(|_| true), shape, transcript, pow_bits: (fspec.0, fspec.1),
            forge_ids, forge: Some(Box::new(forge_fn)), drift, features }
    }};
}

/// Batch proof of a small circuit by the real `BatchStarkProver` (Const / Public / ALU tables with
/// preprocessed columns and the LogUp witness bus), verified by `verify_p3_batch_proof_circuit`.
fn tables_target() -> Target {
    tables_target_spec("arith", None)
}

/// `spec = None`: the repo's `make_test_config` (= `FriSpec::TESTING`); `Some`: the same PCS with other FRI parameters.
fn tables_target_spec(tname: &str, spec: Option<FriSpec>) -> Target {
    let name = format!("tables/{TAG}/{tname}");
    let mk_cfg = move || match spec {
        None => make_test_config(),
        Some(s) => make_config_spec(s),
    };
    let mk_params = move || match spec {
        None => fri_params(),
        Some(s) => fri_params_spec(s),
    };
    let fs = spec.unwrap_or(FriSpec::TESTING);
    let mut b = CircuitBuilder::<F>::new();
    let x = b.alloc_public_input("x");
    let expected = b.alloc_public_input("y");
    let a = b.alloc_const(F::from_u64(3), "a");
    let c = b.alloc_const(F::from_u64(5), "c");
    let mut y = x;
    for _ in 0..6 {
        let t = b.mul(a, y);
        y = b.add(t, c);
    }
    b.connect(y, expected);
    let circuit = b.build().unwrap();
    let packing = TablePacking::new(1, 2);
    let (airs_degrees, prim, nonprim) =
        get_airs_and_degrees_with_prep::<MyConfig, _, 1>(&circuit, &packing, &[], &[], ConstraintProfile::Standard).unwrap();
    let (airs, degrees): (Vec<_>, Vec<usize>) = airs_degrees.into_iter().unzip();
    let mut runner = circuit.runner();
    let mut yv = F::from_u64(7);
    for _ in 0..6 {
        yv = F::from_u64(3) * yv + F::from_u64(5);
    }
    runner.set_public_inputs(&[F::from_u64(7), yv]).unwrap();
    let traces = runner.run().unwrap();
    let config = mk_cfg();
    let pd = ProverData::from_airs_and_degrees(&config, &airs, &degrees);
    let cpd = CircuitProverData::new(pd, prim, nonprim);
    let prover = BatchStarkProver::new(config).with_table_packing(packing);
    let bsp = prover.prove_all_tables(&traces, &cpd).unwrap();
    let lookups = Rc::new(cpd.common_data().lookups.clone());
    let log = EvLog::default();
    let transcript = {
        let rprover = BatchStarkProver::new(rec_config_spec(&log, fs));
        let bsp_r: BatchStarkProof<RecConfig> = serde_json::from_value(serde_json::to_value(&bsp).unwrap()).unwrap();
        log.clear();
        let _ = catch_unwind(AssertUnwindSafe(|| rprover.verify_all_tables::<F>(&bsp_r)));
        log.render()
    };
    let insts: Vec<InstStatic> = airs
        .iter()
        .enumerate()
        .map(|(i, a)| InstStatic {
            width: p3_air::BaseAir::<F>::width(a),
            n_pub: p3_air::BaseAir::<F>::num_public_values(a),
            pre_w: cpd.common_data().preprocessed.as_ref().and_then(|g| g.instances[i].as_ref().map(|m| m.width)).unwrap_or(0),
            has_next: !p3_air::BaseAir::<F>::main_next_row_columns(a).is_empty(),
            pre_next: !p3_air::BaseAir::<F>::preprocessed_next_row_columns(a).is_empty(),
            n_lookups: cpd.common_data().lookups[i].len(),
        })
        .collect();
    let sp = ShapeParams { mode: "batch", zk: false, d: 4, dg: DIGEST_ELEMS, nrc: 0, cpow: fs.cpow, qpow: fs.qpow,
        log_blowup: fs.log_blowup, log_final: fs.log_final };
    let shape = shape_line(&sp, &serde_json::to_value(&bsp.proof).unwrap(), &insts);
    let n_tables = bsp.proof.opened_values.instances.len();
    let features = features_of(
        false,
        &insts,
        &airs.iter().map(|a| p3_air::BaseAir::<F>::periodic_columns(a).iter().map(|c| c.len()).collect()).collect::<Vec<Vec<usize>>>(),
        &chunk_counts("batch", &serde_json::to_value(&bsp.proof).unwrap(), n_tables),
        &bsp.proof.degree_bits.iter().map(|d| 1usize << d).collect::<Vec<_>>(),
    );
    let honest = json!({"bsp": serde_json::to_value(&bsp).unwrap()});

    fn parse(j: &Value) -> Option<BatchStarkProof<MyConfig>> {
        serde_json::from_value(j["bsp"].clone()).ok()
    }
    let native = Box::new(move |j: &Value| -> Option<Native> {
        let bsp = parse(j)?;
        let prover = BatchStarkProver::new(mk_cfg());
        let r = catch_unwind(AssertUnwindSafe(|| prover.verify_all_tables::<F>(&bsp)));
        Some(match r {
            Ok(Ok(())) => Native::Accept,
            Ok(Err(e)) => Native::Reject(variant(&format!("{e:?}"))),
            Err(p) => Native::Panic(panic_msg(p)),
        })
    });
    let build = {
        let lookups = lookups.clone();
        Box::new(move |j: &Value| -> Result<RunFn, Circ> {
            let bsp = parse(j).ok_or(Circ::BuildErr("deser".into()))?;
            let config = mk_cfg();
            // verifying data: the preprocessed binding carried with the proof + the lookups of the tables
            let common_of = {
                let lookups = lookups.clone();
                move |bsp: &BatchStarkProof<MyConfig>| -> CommonData<MyConfig> {
                    CommonData::new(
                        bsp.stark_common.preprocessed.as_ref().map(|g| GlobalPreprocessed {
                            commitment: g.commitment.clone(),
                            instances: g.instances.clone(),
                            matrix_to_instance: g.matrix_to_instance.clone(),
                        }),
                        (*lookups).clone(),
                    )
                }
            };
            let common = common_of(&bsp);
            let mut cb = new_builder();
            let params = mk_params();
            let lg = LogUpGadget::new();
            let (vi, op_ids) = verify_p3_batch_proof_circuit::<MyConfig, Comm, InputProof, InnerFri, LogUpGadget, _, WIDTH, RATE, 1>(
                &config, &mut cb, &bsp, &params, &common, &lg, P2, &[],
            )
            .map_err(|e| Circ::BuildErr(format!("{e:?}").chars().take(160).collect()))?;
            let circuit = cb.build().map_err(|e| Circ::BuildErr(format!("Build{e:?}").chars().take(140).collect()))?;
            Ok(Box::new(move |j: &Value| -> Circ {
                let Some(bsp) = parse(j) else { return Circ::PackErr("deser".into()) };
                let common = common_of(&bsp);
                let pis: Vec<Vec<F>> = vec![vec![]; n_tables];
                let (pubs, privs) = vi.pack_values(&pis, &bsp.proof, &common);
                let mut runner = circuit.runner();
                if let Err(e) = runner.set_public_inputs(&pubs) {
                    return Circ::PackErr(variant(&format!("{e:?}")));
                }
                if let Err(e) = runner.set_private_inputs(&privs) {
                    return Circ::PackErr(variant(&format!("{e:?}")));
                }
                if let Err(e) = set_fri_mmcs_private_data::<F, Challenge, ChallengeMmcs, MyMmcs, MyHash, MyCompress, DIGEST_ELEMS>(
                    &mut runner, &op_ids, &bsp.proof.opening_proof, P2,
                ) {
                    return Circ::PackErr(e.to_string());
                }
                match runner.run() {
                    Ok(_) => Circ::Accept,
                    Err(e) => Circ::RunErr(variant(&format!("{e:?}"))),
                }
            }) as RunFn)
        })
    };
    Target {
        name,
        honest,
        native,
        build,
        // proof metadata (rows, packing, …) is property C16; here: the proof and the preprocessed commitment
        include: Box::new(|k| k.starts_with("bsp/proof/") || k.starts_with("bsp/stark_common/")),
        shape,
        transcript,
        pow_bits: (fs.cpow, fs.qpow),
        forge_ids: vec![],
        forge: None,
        drift: None,
        features,
    }
}

pub fn targets(out: &mut Vec<(String, Box<dyn Fn() -> Target>)>) {
    out.push((format!("tables/{TAG}/arith"), Box::new(tables_target)));
    out.push((
        format!("uni/{TAG}/fib"),
        Box::new(|| {
            uni_target!("fib", FibonacciAir {}, generate_trace_rows::<F>(0, 1, 8), vec![F::ZERO, F::ONE, F::from_u64(21)])
        }),
    ));
    out.push((
        format!("uni/{TAG}/fib-fri2"),
        Box::new(|| {
            uni_target!(
                "fib-fri2",
                FibonacciAir {},
                generate_trace_rows::<F>(0, 1, 16),
                vec![F::ZERO, F::ONE, F::from_u64(987)],
                make_config_fri2,
                fri_params2,
                MyConfig,
                InnerFri,
                fri_plain,
                RecConfig,
                (|l: &EvLog| rec_config(l, true)),
                (0usize, 2usize, 1usize, 1usize)
            )
        }),
    ));
    out.push((
        format!("unizk/{TAG}/fib"),
        Box::new(|| {
            uni_target!(
                "fib",
                FibonacciAir {},
                generate_trace_rows::<F>(0, 1, 8),
                vec![F::ZERO, F::ONE, F::from_u64(21)],
                (|| make_zk_config(5)),
                fri_params,
                MyConfigZk,
                InnerFriZk,
                fri_zk,
                RecConfigZk,
                rec_config_zk,
                (1usize, 1usize, 2usize, 0usize)
            )
        }),
    ));
    out.push((
        format!("unizk/{TAG}/mul-pre"),
        Box::new(|| {
            // hiding PCS + preprocessed columns: step 4 of the repaired uni observation (b026681)
            let air = MulAir { degree: 3, rows: 8, reps: 2, pre_next: true, main_next: true };
            uni_target!(
                "mul-pre",
                air,
                air.traces::<F>().0,
                vec![],
                (|| make_zk_config(6)),
                fri_params,
                MyConfigZk,
                InnerFriZk,
                fri_zk,
                RecConfigZk,
                rec_config_zk,
                (1usize, 1usize, 2usize, 0usize)
            )
        }),
    ));
    out.push((
        format!("uni/{TAG}/mul-pre"),
        Box::new(|| {
            let air = MulAir { degree: 3, rows: 8, reps: 2, pre_next: true, main_next: true };
            uni_target!("mul-pre", air, air.traces::<F>().0, vec![])
        }),
    ));
    out.push((
        format!("uni/{TAG}/mul-prenonext"),
        Box::new(|| {
            let air = MulAir { degree: 2, rows: 8, reps: 1, pre_next: false, main_next: true };
            uni_target!("mul-prenonext", air, air.traces::<F>().0, vec![])
        }),
    ));
    out.push((
        format!("uni/{TAG}/add-nonext"),
        Box::new(|| uni_target!("add-nonext", AddAir { open_next: false }, add_trace::<F>(8), vec![])),
    ));
    let mul = MulAir { degree: 3, rows: 8, reps: 2, pre_next: true, main_next: true };
    out.push((
        format!("batch/{TAG}/mixed"),
        Box::new(move || {
            batch_target!(
                "mixed",
                MyConfig,
                InnerFri,
                |_s: u64| make_test_config(),
                fri_plain,
                RecConfig,
                (|l: &EvLog| rec_config(l, false)),
                vec![DemoAir::Fib, DemoAir::Add(AddAir { open_next: false }), DemoAir::Mul(mul)],
                vec![generate_trace_rows::<F>(0, 1, 4), add_trace::<F>(2), mul.traces::<F>().0],
                vec![vec![F::ZERO, F::ONE, F::from_u64(3)], vec![], vec![]]
            )
        }),
    ));
    out.push((
        format!("batch/{TAG}/short-pre"),
        Box::new(move || {
            // the only preprocessed matrix (Mul, 8 rows) is shorter than the tallest trace (Fib, 16 rows)
            batch_target!(
                "short-pre",
                MyConfig,
                InnerFri,
                |_s: u64| make_test_config(),
                fri_plain,
                RecConfig,
                (|l: &EvLog| rec_config(l, false)),
                vec![DemoAir::Fib, DemoAir::Mul(mul)],
                vec![generate_trace_rows::<F>(0, 1, 16), mul.traces::<F>().0],
                vec![vec![F::ZERO, F::ONE, F::from_u64(987)], vec![]]
            )
        }),
    ));
    out.push((
        format!("batch/{TAG}/mul-prenonext"),
        Box::new(move || {
            let m = MulAir { degree: 2, rows: 4, reps: 1, pre_next: false, main_next: false };
            batch_target!(
                "mul-prenonext",
                MyConfig,
                InnerFri,
                |_s: u64| make_test_config(),
                fri_plain,
                RecConfig,
                (|l: &EvLog| rec_config(l, false)),
                vec![DemoAir::Mul(m)],
                vec![m.traces::<F>().0],
                vec![vec![]]
            )
        }),
    ));
    // batches with LogUp lookups between custom AIRs: every instance has lookups / lookups next to
    // lookup-free instances (first, last, in between) / different heights / preprocessed columns /
    // a local lookup / the hiding PCS
    out.push((
        format!("batch/{TAG}/bus-all"),
        Box::new(move || {
            batch_target!(
                "bus-all",
                MyConfig,
                InnerFri,
                |_s: u64| make_test_config(),
                fri_plain,
                RecConfig,
                (|l: &EvLog| rec_config(l, false)),
                vec![DemoAir::Bus { sign: 1, open_next: true }, DemoAir::Bus { sign: -1, open_next: false }],
                vec![bus_trace::<F>(8, 8, 0), bus_trace::<F>(8, 8, 0)],
                vec![vec![], vec![]]
            )
        }),
    ));
    out.push((
        format!("batch/{TAG}/bus-mixed"),
        Box::new(move || {
            batch_target!(
                "bus-mixed",
                MyConfig,
                InnerFri,
                |_s: u64| make_test_config(),
                fri_plain,
                RecConfig,
                (|l: &EvLog| rec_config(l, false)),
                vec![
                    DemoAir::Bus { sign: 1, open_next: true },
                    DemoAir::Bus { sign: -1, open_next: true },
                    DemoAir::Add(AddAir { open_next: true })
                ],
                vec![bus_trace::<F>(8, 8, 0), bus_trace::<F>(8, 8, 0), add_trace::<F>(8)],
                vec![vec![], vec![], vec![]]
            )
        }),
    ));
    out.push((
        format!("batch/{TAG}/bus-table-pre"),
        Box::new(move || {
            // lookup-free instances first and last; sender (8 rows, each of 0..4 twice) and table
            // (4 rows, multiplicity column) of different heights; public values; preprocessed columns
            batch_target!(
                "bus-table-pre",
                MyConfig,
                InnerFri,
                |_s: u64| make_test_config(),
                fri_plain,
                RecConfig,
                (|l: &EvLog| rec_config(l, false)),
                vec![DemoAir::Fib, DemoAir::Bus { sign: 1, open_next: false }, DemoAir::Table, DemoAir::Mul(mul)],
                vec![generate_trace_rows::<F>(0, 1, 4), bus_trace::<F>(8, 4, 0), table_trace::<F>(4, 2), mul.traces::<F>().0],
                vec![vec![F::ZERO, F::ONE, F::from_u64(3)], vec![], vec![], vec![]]
            )
        }),
    ));
    out.push((
        format!("batch/{TAG}/perm-mixed"),
        Box::new(move || {
            batch_target!(
                "perm-mixed",
                MyConfig,
                InnerFri,
                |_s: u64| make_test_config(),
                fri_plain,
                RecConfig,
                (|l: &EvLog| rec_config(l, false)),
                vec![DemoAir::Add(AddAir { open_next: false }), DemoAir::Perm],
                vec![add_trace::<F>(4), perm_trace::<F>(8)],
                vec![vec![], vec![]]
            )
        }),
    ));
    out.push((
        format!("batchzk/{TAG}/bus-mixed"),
        Box::new(move || {
            batch_target!(
                "bus-mixed",
                MyConfigZk,
                InnerFriZk,
                make_zk_config,
                fri_zk,
                RecConfigZk,
                rec_config_zk,
                vec![
                    DemoAir::Add(AddAir { open_next: false }),
                    DemoAir::Bus { sign: 1, open_next: true },
                    DemoAir::Bus { sign: -1, open_next: true }
                ],
                vec![add_trace::<F>(4), bus_trace::<F>(8, 8, 0), bus_trace::<F>(8, 8, 0)],
                vec![vec![], vec![], vec![]]
            )
        }),
    ));
    out.push((
        format!("batchzk/{TAG}/mixed-pre"),
        Box::new(move || {
            // hiding PCS + a preprocessed round (committed without random codewords)
            batch_target!(
                "mixed-pre",
                MyConfigZk,
                InnerFriZk,
                make_zk_config,
                fri_zk,
                RecConfigZk,
                rec_config_zk,
                vec![DemoAir::Add(AddAir { open_next: false }), DemoAir::Mul(mul)],
                vec![add_trace::<F>(4), mul.traces::<F>().0],
                vec![vec![], vec![]]
            )
        }),
    ));
    out.push((
        format!("batchzk/{TAG}/mixed"),
        Box::new(move || {
            batch_target!(
                "mixed",
                MyConfigZk,
                InnerFriZk,
                make_zk_config,
                fri_zk,
                RecConfigZk,
                rec_config_zk,
                vec![DemoAir::Fib, DemoAir::Add(AddAir { open_next: false })],
                vec![generate_trace_rows::<F>(0, 1, 8), add_trace::<F>(4)],
                vec![vec![F::ZERO, F::ONE, F::from_u64(21)], vec![]]
            )
        }),
    ));
    pow_targets(out);
    feature_targets(out);
}

/// The (PCS flavour x AIR feature) matrix: every feature a verifier treats specially — periodic columns (several
/// per AIR, mixed periods, period 1, period = trace length, minimal-degree and random tables), preprocessed
/// columns read on the next row, public values, several quotient chunks (constraint degree 3 and 5), lookups
/// (batch), instances of different heights (batch) — under each of uni / unizk / batch / batchzk. Every target
/// carries the wrong-AIR moves of its `FeatAir`s (`wrongair:i:k:label`, see `ForgeSpec::WrongAir`).
/// (Preprocessed columns read on the current row only are the known findings F-C01-2 / F-C01-3: the targets
/// `uni|batch/*/mul-prenonext` keep exercising them. Under the hiding PCS the circuits fail in the same place with the
/// same message — probed with a `FeatAir … .pre(1)` under all four flavours — so no ZK twin of those targets is kept:
/// it would only restate the two findings under two more class names.)
fn feature_targets(out: &mut Vec<(String, Box<dyn Fn() -> Target>)>) {
    // four periodic columns: period 2, period 1, period = trace length (random table), period 4 (low-degree
    // table); nothing else special
    const PER: FeatAir = FeatAir::new(8).periodic([2, 1, 8, 4], [true, false, false, true]);
    // every feature at once: two periodic columns with low-degree tables (period 4, period 8 = trace length),
    // preprocessed columns read on both rows, public values, constraint degree 3 (two quotient chunks)
    const ALL: FeatAir = FeatAir::new(8).periodic([4, 8, 0, 0], [true, true, false, false]).pre(2).pubs().degree(3);
    // four quotient chunks (constraint degree 5), one periodic column of period 8 = half the trace, public values
    const Q4: FeatAir = FeatAir::new(16).periodic([8, 0, 0, 0], [true, false, false, false]).pubs().degree(5);
    // the hiding PCS adds one to the constraint degree (randomised quotient): degree 4 is the largest whose quotient
    // domain still fits the LDE of blowup 4 (degree 5 there makes the *native* prover emit an unverifiable proof)
    const Q4Z: FeatAir = Q4.degree(4);
    // the two ends of a bus, each with periodic columns (period 4 random, period 2)
    const BUSP: FeatAir = FeatAir::new(8).periodic([4, 2, 0, 0], [false, true, false, false]);

    macro_rules! uni_feat {
        ($name:expr, $air:expr) => {
            out.push((
                format!("uni/{TAG}/{}", $name),
                Box::new(move || uni_target!($name, $air, $air.trace::<F>(), $air.pis::<F>())),
            ));
        };
    }
    macro_rules! unizk_feat {
        ($name:expr, $seed:expr, $air:expr) => {
            out.push((
                format!("unizk/{TAG}/{}", $name),
                Box::new(move || {
                    uni_target!($name, $air, $air.trace::<F>(), $air.pis::<F>(), (|| make_zk_config($seed)), fri_params, MyConfigZk,
                        InnerFriZk, fri_zk, RecConfigZk, rec_config_zk, (1usize, 1usize, 2usize, 0usize))
                }),
            ));
        };
    }
    macro_rules! batch_feat {
        ($name:expr, $airs:expr, $traces:expr, $pvs:expr) => {
            out.push((
                format!("batch/{TAG}/{}", $name),
                Box::new(move || {
                    batch_target!($name, MyConfig, InnerFri, |_s: u64| make_test_config(), fri_plain, RecConfig,
                        (|l: &EvLog| rec_config(l, false)), $airs, $traces, $pvs)
                }),
            ));
        };
    }
    macro_rules! batchzk_feat {
        ($name:expr, $airs:expr, $traces:expr, $pvs:expr) => {
            out.push((
                format!("batchzk/{TAG}/{}", $name),
                Box::new(move || {
                    batch_target!($name, MyConfigZk, InnerFriZk, make_zk_config, fri_zk, RecConfigZk, rec_config_zk, $airs, $traces, $pvs)
                }),
            ));
        };
    }

    uni_feat!("feat-per", PER);
    uni_feat!("feat-all", ALL);
    uni_feat!("feat-q4", Q4);
    unizk_feat!("feat-per", 11, PER);
    unizk_feat!("feat-all", 12, ALL);
    unizk_feat!("feat-q4", 13, Q4Z);
    // batch: periodic columns on both ends of a bus, next to a taller lookup-free instance with public values and to
    // two unconstrained ends of the same bus (on those a forged trace cell leaves the terminal sum as the only failing check)
    batch_feat!(
        "feat-per-bus",
        vec![DemoAir::Feat(BUSP.bus(1)), DemoAir::Fib, DemoAir::Feat(BUSP.bus(-1)), DemoAir::Bus { sign: 1, open_next: false },
            DemoAir::Bus { sign: -1, open_next: true }],
        vec![BUSP.trace::<F>(), generate_trace_rows::<F>(0, 1, 16), BUSP.trace::<F>(), bus_trace::<F>(4, 4, 0), bus_trace::<F>(4, 4, 0)],
        vec![vec![], vec![F::ZERO, F::ONE, F::from_u64(987)], vec![], vec![], vec![]]
    );
    // batch: every feature in one instance, a four-column periodic instance, four quotient chunks
    batch_feat!(
        "feat-all",
        vec![DemoAir::Feat(ALL), DemoAir::Feat(PER), DemoAir::Feat(Q4)],
        vec![ALL.trace::<F>(), PER.trace::<F>(), Q4.trace::<F>()],
        vec![ALL.pis::<F>(), PER.pis::<F>(), Q4.pis::<F>()]
    );
    batchzk_feat!(
        "feat-per-bus",
        vec![DemoAir::Feat(BUSP.bus(1)), DemoAir::Fib, DemoAir::Feat(BUSP.bus(-1)), DemoAir::Bus { sign: 1, open_next: false },
            DemoAir::Bus { sign: -1, open_next: true }],
        vec![BUSP.trace::<F>(), generate_trace_rows::<F>(0, 1, 16), BUSP.trace::<F>(), bus_trace::<F>(4, 4, 0), bus_trace::<F>(4, 4, 0)],
        vec![vec![], vec![F::ZERO, F::ONE, F::from_u64(987)], vec![], vec![], vec![]]
    );
    batchzk_feat!(
        "feat-all",
        vec![DemoAir::Feat(ALL), DemoAir::Feat(PER), DemoAir::Feat(Q4Z)],
        vec![ALL.trace::<F>(), PER.trace::<F>(), Q4Z.trace::<F>()],
        vec![ALL.pis::<F>(), PER.pis::<F>(), Q4Z.pis::<F>()]
    );
}

/// Verifying FRI parameters that are not the symmetric test defaults (`new_testing`: 1 + 1 grinding bits), for
/// every PCS flavour: commit-phase bits < query-phase bits (`C1Q8`), no commit-phase grinding (`C0Q3`, the
/// shape of `FriParameters::new_benchmark*`), commit-phase bits > query-phase bits (`C3Q1`), and for the
/// hiding PCS also the second parameter set (`FRI2`: blowup 2, arity 4, final polynomial of length 2, 3 queries).
/// On each of them the adversarial prover also grinds fewer / more bits than the verifier demands
/// (`grind:c:q`, see `grind_variants`).
fn pow_targets(out: &mut Vec<(String, Box<dyn Fn() -> Target>)>) {
    const C1Q8: FriSpec = FriSpec::TESTING.pow(1, 8);
    const C0Q3: FriSpec = FriSpec::TESTING.pow(0, 3);
    const C3Q1: FriSpec = FriSpec::TESTING.pow(3, 1);
    const C2Q3: FriSpec = FriSpec::TESTING.pow(2, 3);
    let mul = MulAir { degree: 3, rows: 8, reps: 2, pre_next: true, main_next: true };

    macro_rules! uni_pow {
        ($name:expr, $spec:expr, $mk_air:expr, $trace:expr, $pis:expr) => {
            out.push((
                format!("uni/{TAG}/{}", $name),
                Box::new(move || {
                    uni_target!($name, $mk_air, $trace, $pis, (|| make_config_spec($spec)), (|| fri_params_spec($spec)), MyConfig,
                        InnerFri, fri_plain, RecConfig, (|l: &EvLog| rec_config_spec(l, $spec)), $spec.tuple())
                }),
            ));
        };
    }
    macro_rules! unizk_pow {
        ($name:expr, $spec:expr, $seed:expr, $mk_air:expr, $trace:expr, $pis:expr) => {
            out.push((
                format!("unizk/{TAG}/{}", $name),
                Box::new(move || {
                    uni_target!($name, $mk_air, $trace, $pis, (|| make_zk_config_spec($seed, $spec)), (|| fri_params_spec($spec)),
                        MyConfigZk, InnerFriZk, fri_zk, RecConfigZk, (|l: &EvLog| rec_config_zk_spec(l, $spec)), $spec.tuple())
                }),
            ));
        };
    }
    macro_rules! batch_pow {
        ($name:expr, $spec:expr, $airs:expr, $traces:expr, $pvs:expr) => {
            out.push((
                format!("batch/{TAG}/{}", $name),
                Box::new(move || {
                    batch_target!($name, MyConfig, InnerFri, |_s: u64| make_config_spec($spec), fri_plain, RecConfig,
                        (|l: &EvLog| rec_config_spec(l, $spec)), $airs, $traces, $pvs, (|| fri_params_spec($spec)), $spec.tuple())
                }),
            ));
        };
    }
    macro_rules! batchzk_pow {
        ($name:expr, $spec:expr, $airs:expr, $traces:expr, $pvs:expr) => {
            out.push((
                format!("batchzk/{TAG}/{}", $name),
                Box::new(move || {
                    batch_target!($name, MyConfigZk, InnerFriZk, |s: u64| make_zk_config_spec(s, $spec), fri_zk, RecConfigZk,
                        (|l: &EvLog| rec_config_zk_spec(l, $spec)), $airs, $traces, $pvs, (|| fri_params_spec($spec)), $spec.tuple())
                }),
            ));
        };
    }

    // plain PCS, uni-STARK (no commit-phase grinding: `uni/*/fib-fri2`)
    uni_pow!("fib-c1q8", C1Q8, FibonacciAir {}, generate_trace_rows::<F>(0, 1, 8), vec![F::ZERO, F::ONE, F::from_u64(21)]);
    uni_pow!("mul-pre-c3q1", C3Q1, mul, mul.traces::<F>().0, vec![]);
    // hiding PCS, uni-STARK
    unizk_pow!("fib-c1q8", C1Q8, 5, FibonacciAir {}, generate_trace_rows::<F>(0, 1, 8), vec![F::ZERO, F::ONE, F::from_u64(21)]);
    unizk_pow!("fib-c0q3", C0Q3, 7, FibonacciAir {}, generate_trace_rows::<F>(0, 1, 8), vec![F::ZERO, F::ONE, F::from_u64(21)]);
    unizk_pow!("mul-pre-c3q1", C3Q1, 6, mul, mul.traces::<F>().0, vec![]);
    unizk_pow!("fib-fri2", FriSpec::FRI2, 8, FibonacciAir {}, generate_trace_rows::<F>(0, 1, 16), vec![F::ZERO, F::ONE, F::from_u64(987)]);
    // plain PCS, batch-STARK
    batch_pow!(
        "mixed-c1q8",
        C1Q8,
        vec![DemoAir::Fib, DemoAir::Add(AddAir { open_next: false }), DemoAir::Mul(mul)],
        vec![generate_trace_rows::<F>(0, 1, 4), add_trace::<F>(2), mul.traces::<F>().0],
        vec![vec![F::ZERO, F::ONE, F::from_u64(3)], vec![], vec![]]
    );
    batch_pow!(
        "bus-all-c0q3",
        C0Q3,
        vec![DemoAir::Bus { sign: 1, open_next: true }, DemoAir::Bus { sign: -1, open_next: false }],
        vec![bus_trace::<F>(8, 8, 0), bus_trace::<F>(8, 8, 0)],
        vec![vec![], vec![]]
    );
    batch_pow!(
        "bus-mixed-c3q1",
        C3Q1,
        vec![DemoAir::Bus { sign: 1, open_next: true }, DemoAir::Bus { sign: -1, open_next: true }, DemoAir::Add(AddAir { open_next: true })],
        vec![bus_trace::<F>(8, 8, 0), bus_trace::<F>(8, 8, 0), add_trace::<F>(8)],
        vec![vec![], vec![], vec![]]
    );
    // hiding PCS, batch-STARK
    batchzk_pow!(
        "mixed-c1q8",
        C1Q8,
        vec![DemoAir::Fib, DemoAir::Add(AddAir { open_next: false })],
        vec![generate_trace_rows::<F>(0, 1, 8), add_trace::<F>(4)],
        vec![vec![F::ZERO, F::ONE, F::from_u64(21)], vec![]]
    );
    batchzk_pow!(
        "bus-mixed-c0q3",
        C0Q3,
        vec![DemoAir::Add(AddAir { open_next: false }), DemoAir::Bus { sign: 1, open_next: true }, DemoAir::Bus { sign: -1, open_next: true }],
        vec![add_trace::<F>(4), bus_trace::<F>(8, 8, 0), bus_trace::<F>(8, 8, 0)],
        vec![vec![], vec![], vec![]]
    );
    batchzk_pow!(
        "mixed-pre-c3q1",
        C3Q1,
        vec![DemoAir::Add(AddAir { open_next: false }), DemoAir::Mul(mul)],
        vec![add_trace::<F>(4), mul.traces::<F>().0],
        vec![vec![], vec![]]
    );
    batchzk_pow!(
        "mixed-fri2",
        FriSpec::FRI2,
        vec![DemoAir::Fib, DemoAir::Add(AddAir { open_next: false })],
        vec![generate_trace_rows::<F>(0, 1, 16), add_trace::<F>(4)],
        vec![vec![F::ZERO, F::ONE, F::from_u64(987)], vec![]]
    );
    // the circuit tables (BatchStarkProver / verify_p3_batch_proof_circuit)
    out.push((format!("tables/{TAG}/arith-c2q3"), Box::new(|| tables_target_spec("arith-c2q3", Some(C2Q3)))));
}
