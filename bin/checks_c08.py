"""C08 — in-circuit MMCS opening verification agrees with native: plug-in for bin/check."""
import json, os

PROPERTY = "C08"

THEOREMS = [
    "P3R.C08.mmcs_agree_arity2_partial",
    "P3R.C08.mmcs_agree_arity2_checked",
    "P3R.C08.mmcs_agree_arity2_core",
    "P3R.C08.cap_taller_than_index",
    "P3R.C08.sponge_overwrite_eq",
    "P3R.C08.cap_select_eq",
    "P3R.C08.index_bits_eq",
    "P3R.C08.height_grouping_eq",
    "P3R.C08.circuit_path_eq",
    "P3R.C08.native_schedule_arity2",
    "P3R.C08.Witness.arity4_cap_bridge_disagree",
    "P3R.C08.Witness.mmcs_agree_arity4_false",
    "P3R.C08.Witness.shifted_row_boundary_disagree",
    "P3R.C08.Witness.height_off_ladder_disagree",
    "P3R.C08.Witness.shifted_row_boundary_repaired",
    "P3R.C08.Witness.height_off_ladder_repaired",
    "P3R.C08.Witness.cap_taller_than_index_record",
    # prover-chosen private payloads of the path rows (Props/C08Pay, Witness/C08Pay)
    "P3R.C08.verifyCircuit2P_nil",
    "P3R.C08.verifyCircuit4P_nil",
    "P3R.C08.applyInputs_pinned",
    "P3R.C08.bridge_state_pads_ignored",
    "P3R.C08.bridge_row_pads_ignored",
    "P3R.C08.Witness.Pay.bridge_honest_agree",
    "P3R.C08.Witness.Pay.bridge_forged_commitment_rejected",
    "P3R.C08.Witness.Pay.bridge_adversarial_payload_harmless",
    "P3R.C08.Witness.Pay.unpinned_bridge_pads_matter",
]

# Which build-time shape checks the gadget in /repo is declared to have = which repairs have been
# applied, read from known_findings.json (status "fixed"): the Lean circuit model is parametric in
# these three flags (P3R.Mmcs.Checks) and the driver is told which gadget it models. A patch that is
# declared applied but missing (or lost again) makes the real gadget accept / panic where the model and
# the native verifier do not: an oracle violation of a class that is no longer "known" plus a model
# disagreement.
REPAIRS = [("F-C08-3", "heights"), ("F-C08-2", "widths"), ("F9p", "capbits")]


def gadget_checks(root):
    try:
        fs = json.load(open(os.path.join(root, "known_findings.json")))["findings"]
    except Exception:
        fs = []
    fixed = {f["id"] for f in fs if f.get("status") == "fixed"}
    return "".join("1" if fid in fixed else "0" for fid, _ in REPAIRS)

CORRESPONDENCE = ("MMCS: p3_merkle_tree verify_batch (+ExtensionMmcs/MerkleTreeHidingMmcs) and "
                  "verify_batch_circuit{,_from_extension_opened}{,_arity4} + runner  vs  "
                  "lean/P3R/Model/MmcsNative.lean, MmcsCircuit.lean (native verdict incl. error kind, runner verdict, "
                  "ordered fingerprint of every permutation input of the circuit run; `pay` cases: the prover-chosen payload of "
                  "one path row is given to verifyCircuit{2,4}P, the forged commitment to both models)")


def _read(p):
    with open(p) as fh:
        return [l.rstrip("\n") for l in fh]


def run(ctx):
    tier, seed, work, sh = ctx["tier"], ctx["seed"], ctx["work"], ctx["sh"]
    corpus = os.path.join(ctx["root"], "corpus", "c08")
    if ctx.get("replay"):
        rp = json.load(open(ctx["replay"]))
        os.makedirs(f"{work}/replay_corpus", exist_ok=True)
        json.dump(rp.get("replay", rp), open(f"{work}/replay_corpus/r.json", "w"))
        runs = [dict(groups=0, max_log=6, indices=4, allpos=0, corpus=f"{work}/replay_corpus")]
    elif tier == "quick":
        runs = [dict(groups=500, max_log=9, indices=4, allpos=0, corpus=corpus, forge=8),
                dict(groups=80, max_log=4, indices=4, allpos=1, corpus=None)]
    else:
        runs = [dict(groups=5000, max_log=12, indices=8, allpos=0, corpus=corpus, forge=60),
                dict(groups=400, max_log=5, indices=8, allpos=1, corpus=None),
                dict(groups=300, max_log=14, indices=6, allpos=0, corpus=None)]
    driver = os.path.join(ctx["driver_dir"], "p3r_driver_c08")
    flags = gadget_checks(ctx["root"])
    violations, hist, samples = [], {}, []
    evaluations = distinct = validated = disagreements = 0
    forge_evaluations, forge_records = 0, []
    for n, r in enumerate(runs):
        out = f"{work}/run{n}"
        cmd = [ctx["harness"], "mmcs", "--seed", str(seed + 1000 * n), "--groups", str(r["groups"]),
               "--max-log", str(r["max_log"]), "--indices", str(r["indices"]), "--all-positions", str(r["allpos"]),
               "--gadget-checks", flags, "--out", out]
        if r["corpus"]:
            cmd += ["--corpus", r["corpus"]]
        if r.get("forge"):
            # AIR-level malicious prover (harness/src/c08_forge.rs): real prove_all_tables + verify_all_tables
            cmd += ["--forge", str(r["forge"])]
        rc, o = sh(cmd, timeout=7200)
        if rc != 0:
            violations.append({"class": "harness-crash", "what": f"harness mmcs exited {rc}: {o[-300:]}",
                               "replay": {"cmd": cmd}, "no_input": True})
            continue
        rep = json.load(open(f"{out}/mmcs.report.json"))
        evaluations += rep["evaluations"]; distinct += rep["distinct"]
        forge_evaluations += rep.get("forge_evaluations", 0)
        forge_records += rep.get("forge_records", [])[:6]
        for k, v in rep["hist"].items():
            hist[k] = hist.get(k, 0) + v
        samples += rep["samples"][:2]
        for v in rep["violations"]:
            violations.append({"class": v["class"],
                               "what": f"{v['kind']}: native={v['detail']['native']} circuit={v['detail']['circuit']} "
                                       f"case={v['detail']['case']} "
                                       + (f"shape={json.dumps(v['replay']['shape'])[:160]}" if "shape" in v["replay"]
                                          else f"forged-proof={json.dumps(v['replay'])[:200]} info={json.dumps(v['detail'].get('info'))[:300]}"),
                               "replay": v["replay"]})
        with open(f"{out}/mmcs.cases") as fin:
            rc, mo = sh([driver], stdin=fin, timeout=7200)
        with open(f"{out}/mmcs.model", "w") as fh:
            fh.write(mo)
        impl, model = _read(f"{out}/mmcs.impl"), [l for l in mo.splitlines()]
        validated += min(len(impl), len(model))
        bad = [(a, b) for a, b in zip(impl, model) if a != b]
        if len(impl) != len(model):
            bad.append((f"<{len(impl)} implementation lines>", f"<{len(model)} model lines>"))
        disagreements += len(bad)
        for a, b in bad[:3]:
            cid = a.split(" ")[1] if a.startswith("res ") else ""
            violations.append({"class": "model-disagreement",
                               "what": f"correspondence mmcs-model (L9) no longer checks: impl={a!r} model={b!r}",
                               "replay": {"correspondence": CORRESPONDENCE, "case": cid, "cases_file": f"{out}/mmcs.cases",
                                          "first_difference": [a, b]},
                               "no_input": True})
    cov = {"evaluations": evaluations, "distinct_nontrivial": distinct,
           "rule": "random batches (1-6 matrices; heights on the ceil-halving ladder of a power-of-two or non-power-of-two "
                   "maximum, equal or mixed; widths 1..40 biased to rate-unaligned; cap height 0..3; arity 2 and 4; base and "
                   "extension leaves; hiding on/off; toy or recorded real Poseidon2 permutation) committed by the real native MMCS; "
                   "per batch several indices (incl. 0 and max-1; all indices in the all-positions run) x {honest opening, "
                   "+1 on a leaf value / salt value / sibling word / cap word, each index bit flipped, shifted row boundary, "
                   "claimed height off the ladder, and the adversarial-private-data leg `pay` (both gadgets, every path row "
                   "that has chunks the native verifier fills itself = arity-4 bridge rows' two pad chunks, injection rows' "
                   "digest + pad chunks, arity-2 injection rows' digest chunk; each full set and single chunks): "
                   "(1) commitment replayed along the opened path with non-zero digests in those chunks (what a cheating "
                   "committer publishes; the replay = real proof_arity_schedule + real sponge/compress, self-checked against "
                   "the honest commitment on every case) + those digests in the row's private payload, (2) that commitment + "
                   "honest payload, (0) honest commitment + that payload, and honest commitment + payload with surplus limbs}. "
                   "Every case is non-trivial (a full native verification and a full circuit run); "
                   "distinct = distinct (batch shape+data seed, index, alteration) triples, hashed",
           "samples": samples[:4], "input_distribution": hist,
           "traces_validated_against_impl": validated, "disagreements_checked": disagreements,
           "correspondence": CORRESPONDENCE,
           "malicious_prover": {"proofs_attempted": forge_evaluations, "records": forge_records,
                                "rule": "arity-2 gadget (KoalaBear D=4 W16, real Poseidon2), real prove_all_tables + verify_all_tables; "
                                        "per group: honest control (must verify), wrong-root control (must fail), `bits` (direction bits / row / "
                                        "siblings of another leaf under the claimed index), `leaf` (row values of another tree, single root), "
                                        "`acc` (hand-wired path exposing mmcs_index_sum, prover-chosen first-row accumulator); the statement read "
                                        "off the public table is judged by the native verify_batch; accepted + native reject = violation"},
           "gadget_checks_modelled": {name: flags[i] == "1" for i, (_, name) in enumerate(REPAIRS)}}
    return violations, cov


CHECK = {
    "lean_modules": ["P3R.Props.C08", "P3R.Witness.C08", "P3R.Props.C08Pay", "P3R.Witness.C08Pay"],
    "lean_exes": ["p3r_driver_c08"],
    "theorems": THEOREMS,
    "run": run,
    "trusted_base": [
        "base-coefficient abstraction of the gadget: an extension limb is its D coefficients, recompose/decompose are the identity, "
        "a partially absorbed limb completed with the previous output is 'inherit' (validated by the runner-outcome and "
        "permutation-input-fingerprint correspondence, D=4 configurations)",
        "builder and runner fused in the circuit model: non-primitive ops run in emission order with two chain slots "
        "(validated by the ordered permutation-input fingerprint)",
        "ExtensionMmcs / MerkleTreeHidingMmcs wrappers (flatten, append salt, widths) applied by the harness before the "
        "model; the implementation side calls the real wrappers",
    ],
    "assumptions": [
        "mmcs_agree_arity2_partial assumes: positive widths, index < max_height, opening shape = circuit shape, cap length "
        "2^min(cap_height, log2_ceil(max_height)); the geometry gate and the row-width check are hypotheses only for a gadget "
        "that lacks them (before fixes/C08-3, fixes/C08-2; the Checks.none witnesses show they are then necessary) and proved "
        "facts for a gadget that has them (mmcs_agree_arity2_checked)",
        "permutation: any map on lists preserving length W (theorems); runs use a toy map and the real Poseidon2 (recorded table)",
        "arity 4: model + correspondence + negative witness only, no agreement theorem; proved for arity 4: a bridge row's "
        "result does not depend on the pad digests of its private payload (bridge_row_pads_ignored: W = 4*capw, one "
        "sibling of capw limbs, two pads of capw limbs each; every permutation, state, direction bit)",
        "prover-chosen payloads: path rows only (compression / injection rows of the Merkle chain, ids contiguous from the "
        "first returned op id — cross-checked per group, hist pay.skipped-rowmap-mismatch); sponge rows are not addressed "
        "(the executor refuses private data on non-Merkle rows)",
        "D=1 permutation configurations (per-base lifting, quintic extension) are not exercised",
    ],
}

MANIFEST_ENTRY = {
    "property_id": "C08",
    "quick_cmd": "bin/check C08 --tier quick",
    "thorough_cmd": "bin/check C08 --tier thorough",
    "evidence_file": "evidence/C08.json",
    "replay_cmd_template": "bin/check C08 --replay {path}",
    "engine": "lean-models",
    "technique": "Lean 4 theorems over hand-written models of p3-merkle-tree verify_batch and of the in-circuit gadget with its "
                 "runner row semantics + exact differential correspondence (verdicts and permutation-input fingerprints) "
                 "+ implementation oracle native-verdict == runner-outcome",
    "level_claimed": {
        "category": "proof",
        "text": "arity 2: native verdict <=> runner verdict proved for every permutation, dimension vector, cap height, index and "
                "opening under the shape conjuncts the gadget leaves unchecked; three Lean witnesses refute the unconditional "
                "statement (arity-4 cap+bridge completeness defect, missing width check, missing geometry gate); arity 4 is "
                "modelled and correspondence-tested only",
        "design_ref": "4/C08",
    },
    "level_note": "Lean kernel + 3 standard axioms; models hand-written (correspondence-tested on every run, D=4 KoalaBear "
                  "configs W16/W32); executable field instance PF p unverified",
}
