/-
C15 witnesses — the full statements are false of the current code.

Every theorem here evaluates the model (`P3R.Shape.verifyUni`) on a concrete shape vector that
differs from an honest one by ONE structural alteration; each is the shape of a corpus witness
(`corpus/c15/*.json`) that the harness replays on the real builders on every run and whose real
outcome (panic / accepted with a different circuit) must equal the model's.

Honest shapes: `P3R.C15.honestFib cap` under `envFib` (Fibonacci AIR, 8 rows, testing FRI
parameters: blow-up 4, 2 queries, 3 arity-2 phases, final polynomial of length 1) and
`honestMul` under `envMul` (AIR with 4 preprocessed columns).
-/
import P3R.Props.C15

namespace P3R.Witness.C15
open P3R.Shape P3R.C15

def fib := honestFib 1
def e0 := envFib 0

/-- F9a: `degree_bits` is used in `1 << degree_bits` and to build domains before anything
compares it with the opened data (corpus f9a_*). -/
theorem degree_bits_panics :
    verifyUni e0 { fib with degreeBits := 64 } = .panic ∧
    verifyUni e0 { fib with degreeBits := 28 } = .panic ∧
    verifyUni e0 { fib with degreeBits := 4 } = .panic := by decide

/-- F9b: one PoW witness fewer — the challenge loop zips (truncates), `verify_circuit` then
slices `challenges[1..1+commits]` (corpus f9b). -/
theorem pow_witnesses_short_panics :
    verifyUni e0 { fib with fri := { fib.fri with powWitnesses := 2 } } = .panic := by decide

/-- F9c: one commit-phase commitment more — same slice (corpus f9c). -/
theorem commit_extra_panics :
    verifyUni e0 { fib with fri := { fib.fri with commitCaps := [1, 1, 1, 1] } } = .panic := by decide

/-- F9d: `log_arity` is shifted / multiplied / used as an allocation size while the targets are
allocated (corpus f9d_*: 255 overflows the shift, 28 asks for 2^30 targets). -/
theorem log_arity_panics :
    verifyUni e0 { fib with fri := { fib.fri with
      queries := [{ honestQuery with steps := [1, 1, 255] }, honestQuery] } } = .panic ∧
    verifyUni e0 { fib with fri := { fib.fri with
      queries := [honestQuery, { honestQuery with steps := [28, 1, 1] }] } } = .panic := by decide

/-- F9e: an empty Merkle cap hits `assert!(!commitment_cap.is_empty())` (corpus f9e_cap_empty). -/
theorem cap_empty_panics : verifyUni e0 { fib with traceCap := 0 } = .panic := by decide

/-- F9e: a cap of 3 roots hits `log2_strict_usize` (corpus f9e_cap_not_pow2). -/
theorem cap_not_pow2_panics :
    verifyUni (envFib 1) { honestFib 2 with traceCap := 3 } = .panic := by decide

/-- F9h: the uni verifier evaluates the AIR with the proof's preprocessed width before validating
it (corpus f9h). -/
theorem prep_short_panics :
    verifyUni envMul { honestMul with prepLocal := some 3 } = .panic := by decide

/-- F9i: an out-of-range `log_blowup` parameter reaches `two_adic_generator` (corpus f9i). -/
theorem log_blowup_panics : verifyUni { e0 with logBlowup := 28 } fib = .panic := by decide

/-- F9g: a proof with one of the two FRI queries dropped is accepted — the builder has no
`num_queries` parameter, so it emits a circuit with fewer queries (corpus f9g). -/
theorem query_dropped_accepted :
    verifyUni e0 { fib with fri := { fib.fri with queries := [honestQuery] } } = .ok ∧
    ({ fib with fri := { fib.fri with queries := [honestQuery] } } : UniShape) ≠ fib := by decide

/-- F9f: a cap with twice the configured number of roots is accepted — the circuit MMCS takes the
cap height from the proof (corpus f9f). -/
theorem cap_resized_accepted :
    verifyUni e0 { fib with traceCap := 2 } = .ok ∧ ({ fib with traceCap := 2 } : UniShape) ≠ fib := by
  decide

/-- Negation of the full statement "the builder never panics". -/
theorem no_panic_full_false : ¬ (∀ (e : Env) (s : UniShape), verifyUni e s ≠ .panic) := by
  intro h
  exact h e0 { fib with degreeBits := 64 } degree_bits_panics.1

/-- Negation of the full statement "every shape other than the well-formed one is rejected with
an error" (for this AIR, degree and FRI configuration the well-formed shape is `fib`: the native
verifier fixes 2 queries, cap height 0 and arity-2 folding). -/
theorem malformed_rejected_full_false :
    ¬ (∀ s : UniShape, s ≠ fib → verifyUni e0 s = .err) := by
  intro h
  have := h _ query_dropped_accepted.2
  rw [query_dropped_accepted.1] at this
  exact absurd this (by decide)

/-- Every panic witness falsifies the hypothesis of `uni_no_panic_partial`, the accepted ones
do not (they are outside what validation covers, not panics). -/
theorem witnesses_falsify_guards :
    PanicGuards e0 { fib with degreeBits := 64 } = false ∧
    PanicGuards e0 { fib with fri := { fib.fri with powWitnesses := 2 } } = false ∧
    PanicGuards e0 { fib with fri := { fib.fri with commitCaps := [1, 1, 1, 1] } } = false ∧
    PanicGuards e0 { fib with traceCap := 0 } = false ∧
    PanicGuards (envFib 1) { honestFib 2 with traceCap := 3 } = false ∧
    PanicGuards envMul { honestMul with prepLocal := some 3 } = false ∧
    PanicGuards { e0 with logBlowup := 28 } fib = false ∧
    PanicGuards e0 { fib with fri := { fib.fri with queries := [honestQuery] } } = true ∧
    PanicGuards e0 { fib with traceCap := 2 } = true := by decide

end P3R.Witness.C15

#print axioms P3R.Witness.C15.degree_bits_panics
#print axioms P3R.Witness.C15.pow_witnesses_short_panics
#print axioms P3R.Witness.C15.commit_extra_panics
#print axioms P3R.Witness.C15.log_arity_panics
#print axioms P3R.Witness.C15.cap_empty_panics
#print axioms P3R.Witness.C15.cap_not_pow2_panics
#print axioms P3R.Witness.C15.prep_short_panics
#print axioms P3R.Witness.C15.log_blowup_panics
#print axioms P3R.Witness.C15.query_dropped_accepted
#print axioms P3R.Witness.C15.cap_resized_accepted
#print axioms P3R.Witness.C15.no_panic_full_false
#print axioms P3R.Witness.C15.malformed_rejected_full_false
#print axioms P3R.Witness.C15.witnesses_falsify_guards
