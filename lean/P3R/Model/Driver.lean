/-
Command interpreter for the line protocol (see `Main.lean`).
-/
import P3R.Model.Runner
import P3R.Model.RunnerShape
import P3R.Model.Roles
import P3R.Model.DefUse
import P3R.Model.FusionCheck
import P3R.Model.LowerCheck
import P3R.Model.Order
import P3R.Model.Field

namespace P3R.Driver
open P3R

def kindStr : AluKind → String
  | .add => "add" | .mul => "mul" | .boolCheck => "bool" | .mulAdd => "muladd" | .horner => "horner"

def optStr : Option Nat → String
  | some n => toString n
  | none => "_"

def natsStr (l : List Nat) : String := " ".intercalate (l.map toString)

def npKindStr : NpKind → String
  | .hintBits => "bits" | .hintExt => "ext" | .table t => s!"t{t}"

def opStr {p} : Op (PF p) → String
  | .const out v => s!"C {out} {v}"
  | .pub out pos => s!"P {out} {pos}"
  | .alu k a b c out io => s!"A {kindStr k} {a} {b} {optStr c} {out} {optStr io}"
  | .hint ins outs k => s!"H {npKindStr k} {natsStr ins} | {natsStr outs}"
  | .npo ins outs id k =>
    s!"N {id} {npKindStr k} {" / ".intercalate (ins.map natsStr)} | {" / ".intercalate (outs.map natsStr)}"

def errStr : RunErr → String
  | .publicLen => "PublicInputLengthMismatch"
  | .privateLen => "PrivateInputLengthMismatch"
  | .missingPublicRows => "MissingPublicRowsMapping"
  | .missingPrivateRows => "MissingPrivateRowsMapping"
  | .publicNotSet _ => "PublicInputNotSet"
  | .witnessNotSet _ => "WitnessNotSet"
  | .conflict _ => "WitnessConflict"
  | .outOfBounds _ => "WitnessIdOutOfBounds"
  | .divByZero => "DivisionByZero"
  | .notSetForIndex _ => "WitnessNotSetForIndex"
  | .unsupported => "Unsupported"

/-- Driver state: the field, the builder under construction, and the last compiled circuit. -/
structure St where
  p : Nat
  b : BState (PF p)
  c : Option (Circuit (PF p))
  /-- every id argument of every builder call of the current program was an id the builder had handed
  out for a value (`properId`): the program is `P3R.C09R.ReachablePrim` (the command vocabulary has no
  raw `push_non_primitive_op_with_outputs`). -/
  rp : Bool := true

def St.init : St := { p := babyBearP, b := BState.init, c := none }

def parseNats (ws : List String) : Option (List Nat) := ws.mapM String.toNat?

def fieldOf : String → Option Nat
  | "bb" => some babyBearP
  | "kb" => some koalaBearP
  | "gl" => some goldilocksP
  | _ => none

private def ret (st : St) (r : BState (PF st.p) × Nat) : St × List String :=
  ({ st with b := r.1 }, [s!"r {r.2}"])

private def retL (st : St) (r : BState (PF st.p) × List Nat) : St × List String :=
  ({ st with b := r.1 }, [s!"r {natsStr r.2}"])

def sortedPairs (l : List (Nat × Nat)) : List (Nat × Nat) :=
  l.mergeSort fun a b => a.1 < b.1 || (a.1 == b.1 && a.2 ≤ b.2)

def pairsStr (l : List (Nat × Nat)) : String :=
  " ".intercalate (l.map fun p => s!"{p.1}:{p.2}")

def circuitLines {p} (c : Circuit (PF p)) : List String :=
  let e2w := (c.e2w.toList.zipIdx).filterMap fun (wi : Option Nat × Nat) => wi.1.map fun w => (wi.2, w)
  [s!"wc {c.witnessCount}", s!"nops {c.ops.size}"] ++ c.ops.toList.map opStr ++
  [s!"pubrows {natsStr c.pubRows.toList}", s!"privrows {natsStr c.privRows.toList}",
   s!"e2w {pairsStr e2w}", s!"rewrite {pairsStr (sortedPairs c.rewrite)}"]

def canonPF {p} (x : PF p) : Nat := x.val

def boolStr (b : Bool) : String := if b then "1" else "0"

/-- Dump of the role assignment and of the converted multiplicity columns. -/
def prepLines {p} (c : Circuit (PF p)) : List String :=
  match genPrep c with
  | none => ["prep err"]
  | some pr =>
    let rd := fun s => readsOf pr.reads s
    let conv := fun (st : Nat) (x : Nat) => if st = 1 then "1" else if st = 2 then (if rd x = 0 then "0" else s!"-{rd x}") else "0"
    ["prep ok", s!"pc {natsStr pr.consts}", s!"pp {natsStr pr.pubs}"] ++
    (pr.alu.map fun r =>
      s!"pa {kindStr r.kind} {r.a} {r.b} {r.c} {r.out} {r.aState} {boolStr r.bCreator} {r.cState} {boolStr r.outCreator} | " ++
      s!"{if r.bCreator then toString (rd r.b) else "-1"} {if r.outCreator then toString (rd r.out) else "-1"} " ++
      s!"{conv r.aState r.a} {conv r.cState r.c}") ++
    [s!"reads {natsStr ((List.range c.witnessCount).map rd)}",
     (let sm := sendMults (pr.consts ++ pr.pubs)
      let f := fun (ob : Nat × Bool) => if ob.2 then toString (rd ob.1) else "-1"
      s!"cmult {" ".intercalate ((sm.take pr.consts.length).map f)}"),
     (let sm := sendMults (pr.consts ++ pr.pubs)
      let f := fun (ob : Nat × Bool) => if ob.2 then toString (rd ob.1) else "-1"
      s!"pmult {" ".intercalate ((sm.drop pr.consts.length).map f)}"),
     s!"net {" ".intercalate ((List.range c.witnessCount).map fun s => toString (pr.net s))}"]

/-- Id arguments of a builder command (`none`: not a builder call taking expression ids). -/
def idArgs (cmd : String) (ns : List Nat) : Option (List Nat) :=
  match cmd, ns with
  | "exp2", [x, _] => some [x]
  | "bits", [x, _] => some [x]
  | "add", _ | "sub", _ | "mul", _ | "div", _ | "muladd", _ | "horner", _ | "abool", _ | "azero", _
  | "conn", _ | "sel", _ | "mulmany", _ | "inner", _ => some ns
  | _, _ => none

/-- Interpret one line. Unknown or ill-formed commands answer `bad-op` (never a default). -/
def stepCore (st : St) (line : String) : St × List String :=
  let ws := (line.trimAscii.toString.splitOn " ").filter (· ≠ "")
  match ws with
  | [] => (st, [])
  | "#" :: _ => (st, [])
  | ["prog", f] =>
    match fieldOf f with
    | some p => ({ p := p, b := BState.init, c := none }, [s!"prog {f}"])
    | none => (st, ["bad-op"])
  | "const" :: [v] =>
    match v.toNat? with
    | some n => ret st (st.b.defineConst (PF.ofNat n))
    | none => (st, ["bad-op"])
  | ["pub"] => ret st st.b.allocPublic
  | ["priv"] => ret st st.b.allocPrivate
  | cmd :: args =>
    match parseNats args with
    | none => (st, ["bad-op"])
    | some ns =>
      match cmd, ns with
      | "add", [l, r] => ret st (st.b.add l r)
      | "sub", [l, r] => ret st (st.b.sub l r)
      | "mul", [l, r] => ret st (st.b.mul l r)
      | "div", [l, r] => ret st (st.b.div l r)
      | "muladd", [a, b, c] => ret st (st.b.mulAdd a b c)
      | "horner", [acc, al, pz, px] => ret st (st.b.horner acc al pz px)
      | "abool", [b] => ({ st with b := st.b.assertBool b }, ["r"])
      | "azero", [a] => ({ st with b := st.b.assertZero a }, ["r"])
      | "conn", [a, b] => ({ st with b := st.b.connect a b }, ["r"])
      | "sel", [b, t, s] => ret st (st.b.select b t s)
      | "mulmany", xs => ret st (st.b.mulMany xs)
      | "inner", xs =>
        let h := xs.length / 2
        if xs.length % 2 = 0 then ret st (st.b.innerProduct (xs.take h) (xs.drop h))
        else (st, ["bad-op"])
      | "exp2", [x, k] => ret st (st.b.expPow2 x k)
      | "bits", [x, n] => retL st (st.b.decomposeToBits (fun i => PF.ofNat (2 ^ i)) x n)
      | "build", [] =>
        match compile st.b with
        | .ok c => ({ st with c := some c }, "build ok" :: circuitLines c)
        | .error _ => ({ st with c := none }, ["build err"])
      | "lcheck", [] =>
        -- certificate check of the lowering of this program (see Model/LowerCheck.lean)
        match lower st.b with
        | .error _ => (st, ["lcheck n/a"])
        | .ok l =>
          -- also: topological order of the expression graph and well-formedness of the *final* ops
          -- (hypotheses of `P3R.C02.run_values_denote`)
          let fin := (optimize l.ops l.privRows.toList).1
          (st, [if lowerCheck st.b l && l.ops.toList.all opWF && dagOk st.b.nodes && fin.toList.all opWF
                then "lcheck ok" else "lcheck FAIL"])
      | "shape", [] =>
        -- the value-free shape run (Model/RunnerShape.lean) from "all public and private rows set":
        -- decides, by `P3R.C02.run_succeeds_on_every_satisfying_input`, whether the circuit can fail on
        -- a satisfying input
        match st.c with
        | none => (st, ["shape n/a"])
        | some c =>
          let t0 : Array Bool := (c.pubRows.toList ++ c.privRows.toList).foldl
            (fun t i => t.setIfInBounds i true) (Array.replicate c.witnessCount false)
          (st, [if runShape c t0 then "shape ok" else "shape no"])
      | "fcheck", [] =>
        -- certificate check of the fusion pass on this program (see Model/FusionCheck.lean)
        match lower st.b with
        | .error _ => (st, ["fcheck n/a"])
        | .ok l =>
          let (dops, rw) := dedup l.ops
          let inputs := l.privRows.toList.map (resolve rw)
          let (res, sites) := fuseWithSites dops inputs
          -- extra tokens (stripped by the plug-in before the line diff): `hyp` = hypothesis
          -- `fuseInputOk` of the total theorem `P3R.C03.fuse_passes_check` on the input of the
          -- fusion pass, `lhyp` = the same on the lowering's output (`dedup_preserves_shape`)
          let b (x : Bool) : Nat := if x then 1 else 0
          (st, [s!"fcheck {fusionCheckReport dops.toList res.toList sites} hyp={b (fuseInputOk dops inputs)} lhyp={b (fuseInputOk l.ops inputs)}"])
      | "c18inv", [] =>
        -- C18: the decidable hypothesis of `P3R.C18.compile_order_independent` on this program
        -- (fusion candidates have distinct outputs and distinct mul positions), and the ordered model
        -- run with every hash order reversed against the fixed-order model
        match lower st.b with
        | .error _ => (st, ["c18inv n/a"])
        | .ok l =>
          let d := dedup l.ops
          let inputs := l.privRows.toList.map (resolve d.2)
          let ncand := ((Fusion.new d.1 inputs).candidates d.1).length
          let rev : Order.FuseOrders (PF st.p) := { fusedPos := List.reverse, retain := List.reverse, apply := List.reverse }
          let same := (Order.fuseOrd rev d.1 inputs).toList == (fuse d.1 inputs).toList
          let bf := match Order.lowerOrd List.reverse st.b with
            | .ok l' => l'.e2w.toList == l.e2w.toList && l'.ops.toList == l.ops.toList
            | .error _ => false
          -- `adef`: the elementary hypothesis of `P3R.C18.compile_order_independent_total_partial`
          -- (def-before-use of first add operands; implies `fusionInvariantOf`, `fusionInvariant_of_aDefined`)
          let adef : Nat := if Order.aDefinedOf l then 1 else 0
          (st, [if Order.fusionInvariantOf l && same && bf then s!"c18inv ok {ncand} adef={adef}"
                else s!"c18inv FAIL distinct={Order.fusionInvariantOf l} fuse-rev-same={same} backfill-rev-same={bf} adef={adef}"])
      | "prep", [] =>
        match st.c with
        | none => (st, ["bad-op"])
        | some c =>
          -- def-before-use certificate (`Model/DefUse.lean`, hypothesis of
          -- `P3R.C09T.compiled_bus_balanced_of_defuse`) of the compiled circuit, and of the two
          -- earlier stages (lowering output, de-duplicated list); dropped from the line diff
          let b (x : Bool) : Nat := if x then 1 else 0
          let stages := match lower st.b with
            | .error _ => "l=_ d=_ k=_ f=_"
            | .ok l =>
              let d := dedup l.ops
              s!"l={b (defUse l.privRows.toList l.ops.toList)} d={b (defUse (l.privRows.toList.map (resolve d.2)) d.1.toList)} k={b (optKeeps l)} f={b (fuseKeeps l)}"
          -- builder-side hypotheses of `P3R.C09C.lower_defuse` (g = hintsGuarded, p = privOk) and of
          -- `P3R.C09O.lower_hdu` (a = operandsGuarded; t = noTableOutputsUsed); f = fuseKeeps
          (st, prepLines c ++ [s!"defuse c={b c.defUse} {stages} g={b (hintsGuarded st.b)} p={b (privOk st.b)} t={b (noTableOutputsUsed st.b)} a={b (operandsGuarded st.b)} r={b st.rp}"])
      | "sess", toks =>
        -- tokens: (1 n v1..vn | 0 n v1..vn)*   (1 = set_public_inputs, 0 = set_private_inputs)
        match st.c with
        | none => (st, ["bad-op"])
        | some c =>
          let rec parse (fuel : Nat) (ts : List Nat) (acc : List (Bool × List (PF st.p))) :
              Option (List (Bool × List (PF st.p))) :=
            match fuel, ts with
            | _, [] => some acc.reverse
            | 0, _ => none
            | fuel + 1, kind :: n :: rest =>
              if rest.length < n then none
              else parse fuel (rest.drop n) ((kind == 1, (rest.take n).map (PF.ofNat (p := st.p))) :: acc)
            | _, _ => none
          match parse (toks.length + 1) toks [] with
          | none => (st, ["bad-op"])
          | some calls =>
            -- value-free shape run over the definedness pattern the calls produced
            -- (`P3R.C19.session_shape_fail_err`: "sshape no" forces an error whatever the values)
            let ssh := match applyCalls c (Array.replicate c.witnessCount none) calls with
              | .ok w => if runShape c (w.map Option.isSome) then "sshape ok" else "sshape no"
              | .error _ => "sshape n/a"
            match session canonPF c calls with
            | .ok t =>
            -- the ALU records (what the ALU table rows will carry): the C10 theorems speak about them
            let kindS : AluKind → String := fun k => match k with
              | .add => "add" | .mul => "mul" | .boolCheck => "bool" | .mulAdd => "muladd" | .horner => "horner"
            let recS := fun (r : AluRec (PF st.p)) => s!"{kindS r.kind}:{r.aVal},{r.bVal},{r.cVal},{r.outVal}"
            (st, [s!"run ok {" ".intercalate (t.witness.toList.map toString)}",
                  s!"recs {" ".intercalate (t.alu.toList.map recS)}", ssh])
            | .error e => (st, [s!"run err {errStr e}", ssh])
      | "run", np :: rest =>
        match st.c with
        | none => (st, ["bad-op"])
        | some c =>
          let pubs := (rest.take np).map (PF.ofNat (p := st.p))
          let privs := (rest.drop np).map (PF.ofNat (p := st.p))
          match run canonPF c pubs privs with
          | .ok t =>
            -- the ALU records (what the ALU table rows will carry): the C10 theorems speak about them
            let kindS : AluKind → String := fun k => match k with
              | .add => "add" | .mul => "mul" | .boolCheck => "bool" | .mulAdd => "muladd" | .horner => "horner"
            let recS := fun (r : AluRec (PF st.p)) => s!"{kindS r.kind}:{r.aVal},{r.bVal},{r.cVal},{r.outVal}"
            (st, [s!"run ok {" ".intercalate (t.witness.toList.map toString)}",
                  s!"recs {" ".intercalate (t.alu.toList.map recS)}"])
          | .error e => (st, [s!"run err {errStr e}"])
      | _, _ => (st, ["bad-op"])

/-- `stepCore` + bookkeeping of `St.rp` (token `r=` of the `defuse` line). -/
def step (st : St) (line : String) : St × List String :=
  let r := stepCore st line
  let ws := (line.trimAscii.toString.splitOn " ").filter (· ≠ "")
  match ws with
  | [] => r
  | "prog" :: _ => r
  | "const" :: _ => r
  | cmd :: args =>
    match parseNats args with
    | none => r
    | some ns =>
      match idArgs cmd ns with
      | some ids => ({ r.1 with rp := st.rp && ids.all (properId st.b.nodes) }, r.2)
      | none => r

end P3R.Driver
