/-
Helper lemmas: the rewrite maps built by de-duplication are forests, so `WitnessId::resolve`
(an unbounded `while` in Rust, fuel-indexed in the model) terminates within `|rw| + 1` steps
and lands on a non-key.
-/
import P3R.Model.Optimize

namespace P3R

/-- `t` is terminal: not a key of the map. -/
def Terminal (rw : Rewrite) (t : Nat) : Prop := rw.lookup t = none

/-- Every chain of the map ends at a terminal within the canonical fuel. -/
def Terminates (rw : Rewrite) : Prop :=
  ∀ w, ∃ t, resolveFuel rw (rw.length + 1) w = some t ∧ Terminal rw t

theorem resolveFuel_mono {rw : Rewrite} {n w t} (h : resolveFuel rw n w = some t) :
    resolveFuel rw (n + 1) w = some t := by
  induction n generalizing w with
  | zero => simp [resolveFuel] at h
  | succ n ih =>
    unfold resolveFuel at h ⊢
    cases hl : rw.lookup w with
    | none => simpa [hl] using h
    | some w' => simp only [hl] at h ⊢; exact ih h

theorem lookup_cons (k v w : Nat) (rw : Rewrite) :
    ((k, v) :: rw).lookup w = if w = k then some v else rw.lookup w := by
  by_cases h : w = k
  · subst h; simp [List.lookup]
  · have : (w == k) = false := by simpa using h
    simp [List.lookup, this, h]

/-- Extending a terminating map by `out ↦ root`, with both terminal and distinct, lengthens
every chain by at most one step. -/
theorem resolveFuel_cons {rw : Rewrite} {out root : Nat}
    (hout : Terminal rw out) (hroot : Terminal rw root) (hne : out ≠ root) :
    ∀ n w t, resolveFuel rw n w = some t →
      resolveFuel ((out, root) :: rw) (n + 1) w = some (if t = out then root else t) := by
  intro n
  induction n with
  | zero => intro w t h; simp [resolveFuel] at h
  | succ n ih =>
    intro w t h
    unfold resolveFuel at h
    cases hl : rw.lookup w with
    | none =>
      simp only [hl] at h
      have ht : t = w := by simpa using h.symm
      subst ht
      by_cases hw : t = out
      · subst hw
        have hr : ((t, root) :: rw).lookup root = none := by
          rw [lookup_cons, if_neg (Ne.symm hne)]; exact hroot
        simp [resolveFuel, hr, lookup_cons]
      · simp [resolveFuel, lookup_cons, hw, hl]
    | some w' =>
      simp only [hl] at h
      have hw : w ≠ out := by
        intro e; subst e; unfold Terminal at hout; rw [hout] at hl; cases hl
      have := ih w' t h
      rw [resolveFuel]
      simp only [lookup_cons, hw, if_false, hl]
      exact this

theorem terminates_nil : Terminates [] := by
  intro w; exact ⟨w, by simp [resolveFuel, List.lookup], by simp [Terminal, List.lookup]⟩

theorem terminates_cons {rw : Rewrite} {out root : Nat} (h : Terminates rw)
    (hout : Terminal rw out) (hroot : Terminal rw root) (hne : out ≠ root) :
    Terminates ((out, root) :: rw) := by
  intro w
  obtain ⟨t, ht, htt⟩ := h w
  refine ⟨if t = out then root else t, ?_, ?_⟩
  · simpa using resolveFuel_cons hout hroot hne _ w t ht
  · unfold Terminal
    rw [lookup_cons]
    by_cases hto : t = out
    · rw [if_pos hto, if_neg (Ne.symm hne)]; exact hroot
    · rw [if_neg hto, if_neg hto]; exact htt

/-- On a terminating map `resolve` returns a terminal (the fuel fallback is never taken). -/
theorem resolve_terminal {rw : Rewrite} (h : Terminates rw) (w : Nat) : Terminal rw (resolve rw w) := by
  obtain ⟨t, ht, htt⟩ := h w
  simp [resolve, ht]; exact htt

end P3R

namespace P3R

theorem resolveFuel_terminal {rw : Rewrite} {t : Nat} (h : Terminal rw t) (n : Nat) :
    resolveFuel rw (n + 1) t = some t := by
  unfold Terminal at h
  simp [resolveFuel, h]

theorem resolve_of_terminal {rw : Rewrite} {t : Nat} (h : Terminal rw t) : resolve rw t = t := by
  simp [resolve, resolveFuel_terminal h]

theorem resolve_idem {rw : Rewrite} (h : Terminates rw) (x : Nat) :
    resolve rw (resolve rw x) = resolve rw x :=
  resolve_of_terminal (resolve_terminal h x)

/-- Resolution in a map extended by `out ↦ root` (both terminal before, distinct). -/
theorem resolve_cons_eq {rw : Rewrite} {out root : Nat} (h : Terminates rw)
    (hout : Terminal rw out) (hroot : Terminal rw root) (hne : out ≠ root) (x : Nat) :
    resolve ((out, root) :: rw) x = if resolve rw x = out then root else resolve rw x := by
  obtain ⟨t, ht, _⟩ := h x
  have h1 := resolveFuel_cons hout hroot hne _ x t ht
  have hr : resolve rw x = t := by simp [resolve, ht]
  simp only [resolve, List.length_cons, h1, Option.getD_some, ht]

/-- `rw'` is obtained from `rw` by the insertions de-duplication performs. -/
inductive Ext : Rewrite → Rewrite → Prop where
  | refl (rw : Rewrite) : Ext rw rw
  | step {rw rw₁ : Rewrite} {out root : Nat} : Ext rw rw₁ → Terminal rw₁ out → Terminal rw₁ root →
      out ≠ root → Ext rw ((out, root) :: rw₁)

theorem Ext.trans {a b c : Rewrite} (h₁ : Ext a b) (h₂ : Ext b c) : Ext a c := by
  induction h₂ with
  | refl => exact h₁
  | step _ ho hr hne ih => exact Ext.step ih ho hr hne

theorem Ext.terminates {a b : Rewrite} (h : Ext a b) (ha : Terminates a) : Terminates b := by
  induction h with
  | refl => exact ha
  | step _ ho hr hne ih => exact terminates_cons ih ho hr hne

/-- Resolving first in an earlier map changes nothing for a later one. -/
theorem Ext.resolve_comp {a b : Rewrite} (h : Ext a b) (ha : Terminates a) (x : Nat) :
    resolve b (resolve a x) = resolve b x := by
  induction h with
  | refl => exact resolve_idem ha x
  | step h₁ ho hr hne ih =>
    have hb := h₁.terminates ha
    rw [resolve_cons_eq hb ho hr hne, resolve_cons_eq hb ho hr hne, ih]

end P3R
