/-
C03 — de-duplication never drops a relation (global theorem).

`dedup_sat_back`: for every op list whose ALU ops carry all their operands (`Op.WF`, which is
what lowering emits) and every assignment `w`: if `w` satisfies every op that de-duplication
*kept* (after the final rewrite), then `w ∘ resolve rw` satisfies every op of the *original*
list — including each dropped duplicate, whose relation is implied by the kept op with the
same key and whose output slot resolves to the kept op's output. Together with `rewrite_holds`
this is the statement that the rewrite map is not a side condition: the emitted ops alone
carry every relation (what failed before the repairs F1 and F2).
-/
import P3R.Props.C03
import P3R.Lemmas.Resolve

namespace P3R.C03
open P3R

variable {K : Type} [CommRing K]

/-- ALU ops carry the operands their kind needs. -/
def Op.WF : Op K → Prop
  | .alu k _ _ c _ io => AluWF k c io
  | _ => True

theorem holds_out_congr (v pub : Nat → K) (k : AluKind) (a b : Nat) (c io : Option Nat) (o o' : Nat)
    (h : v o = v o') : (Op.alu k a b c o io : Op K).holds v pub ↔ (Op.alu k a b c o' io).holds v pub := by
  cases k <;> cases c <;> cases io <;> simp [Op.holds, h]

theorem rewrite_alu_inv {rw : Rewrite} {op : Op K} {k a b c out io}
    (h : op.rewrite rw = .alu k a b c out io) :
    ∃ a0 b0 c0 out0 io0, op = .alu k a0 b0 c0 out0 io0 ∧ a = resolve rw a0 ∧ b = resolve rw b0 ∧
      c = c0.map (resolve rw) ∧ out = resolve rw out0 ∧ io = io0.map (resolve rw) := by
  cases op <;> simp [P3R.Op.rewrite] at h
  case alu k' a' b' c' out' io' =>
    obtain ⟨rfl, rfl, rfl, rfl, rfl, rfl⟩ := h
    exact ⟨a', b', c', out', io', rfl, rfl, rfl, rfl, rfl, rfl⟩

theorem map_resolve_idem {rw : Rewrite} (h : Terminates rw) (c : Option Nat) :
    (c.map (resolve rw)).map (resolve rw) = c.map (resolve rw) := by
  cases c <;> simp [resolve_idem h]

theorem aluWF_map (k : AluKind) (c io : Option Nat) (f : Nat → Nat) (h : AluWF k c io) :
    AluWF k (c.map f) (io.map f) := by
  cases k <;> cases c <;> cases io <;> simp_all [AluWF]

/-- Every key in `seen` belongs to a kept ALU op with exactly that key and that output. -/
def SeenInv (s : DedupState K) : Prop :=
  ∀ key cano, s.seen.lookup key = some cano →
    ∃ k a b c io, (Op.alu k a b c cano io : Op K) ∈ s.out.toList ∧ aluKey k a b c io = key ∧ AluWF k c io

/-- What has been established after processing the prefix `P`: whatever the final map `rwF`
turns out to be, if the kept ops hold after rewriting by it then every processed op holds
under `w ∘ resolve rwF`. -/
def Claim (w pub : Nat → K) (s : DedupState K) (P : List (Op K)) : Prop :=
  ∀ rwF, Ext s.rw rwF → (∀ e ∈ s.out.toList, (e.rewrite rwF).holds w pub) →
    ∀ o ∈ P, o.holds (fun x => w (resolve rwF x)) pub

theorem kept_holds (w pub : Nat → K) {rw rwF : Rewrite} (ht : Terminates rw) (hext : Ext rw rwF)
    (op : Op K) (h : ((op.rewrite rw).rewrite rwF).holds w pub) :
    op.holds (fun x => w (resolve rwF x)) pub := by
  rw [rewrite_holds, rewrite_holds] at h
  have : (fun s => (fun s => w (resolve rwF s)) (resolve rw s)) = fun x => w (resolve rwF x) := by
    funext s; simp [hext.resolve_comp ht]
  rwa [this] at h

theorem step_claim (w pub : Nat → K) (s : DedupState K) (P : List (Op K)) (op : Op K)
    (ht : Terminates s.rw) (hs : SeenInv s) (hc : Claim w pub s P) (hwf : Op.WF op) :
    Terminates (s.step op).rw ∧ SeenInv (s.step op) ∧ Claim w pub (s.step op) (P ++ [op]) := by
  unfold DedupState.step
  cases hop : op.rewrite s.rw with
  | const out v =>
    refine ⟨ht, ?_, ?_⟩
    · intro key cano hl
      obtain ⟨k, a, b, c, io, hm, hk, hw⟩ := hs key cano hl
      exact ⟨k, a, b, c, io, by simp [hm], hk, hw⟩
    · intro rwF hext H o ho
      rcases List.mem_append.mp ho with ho | ho
      · exact hc rwF hext (fun e he => H e (by simp [he])) o ho
      · have : o = op := by simpa using ho
        subst this
        exact kept_holds w pub ht hext o (by rw [hop]; exact H _ (by simp))
  | pub out pos =>
    refine ⟨ht, ?_, ?_⟩
    · intro key cano hl
      obtain ⟨k, a, b, c, io, hm, hk, hw⟩ := hs key cano hl
      exact ⟨k, a, b, c, io, by simp [hm], hk, hw⟩
    · intro rwF hext H o ho
      rcases List.mem_append.mp ho with ho | ho
      · exact hc rwF hext (fun e he => H e (by simp [he])) o ho
      · have : o = op := by simpa using ho
        subst this
        exact kept_holds w pub ht hext o (by rw [hop]; exact H _ (by simp))
  | hint ins outs kd =>
    refine ⟨ht, ?_, ?_⟩
    · intro key cano hl
      obtain ⟨k, a, b, c, io, hm, hk, hw⟩ := hs key cano hl
      exact ⟨k, a, b, c, io, by simp [hm], hk, hw⟩
    · intro rwF hext H o ho
      rcases List.mem_append.mp ho with ho | ho
      · exact hc rwF hext (fun e he => H e (by simp [he])) o ho
      · have : o = op := by simpa using ho
        subst this
        exact kept_holds w pub ht hext o (by rw [hop]; exact H _ (by simp))
  | npo ins outs id kd =>
    refine ⟨ht, ?_, ?_⟩
    · intro key cano hl
      obtain ⟨k, a, b, c, io, hm, hk, hw⟩ := hs key cano hl
      exact ⟨k, a, b, c, io, by simp [hm], hk, hw⟩
    · intro rwF hext H o ho
      rcases List.mem_append.mp ho with ho | ho
      · exact hc rwF hext (fun e he => H e (by simp [he])) o ho
      · have : o = op := by simpa using ho
        subst this
        exact kept_holds w pub ht hext o (by rw [hop]; exact H _ (by simp))
  | alu k a b c out io =>
    obtain ⟨a0, b0, c0, out0, io0, rfl, rfl, rfl, rfl, rfl, rfl⟩ := rewrite_alu_inv hop
    have hwf' : AluWF k (c0.map (resolve s.rw)) (io0.map (resolve s.rw)) := aluWF_map k c0 io0 _ hwf
    -- the key is computed from already resolved operands
    have hkey : aluKey k (resolve s.rw (resolve s.rw a0)) (resolve s.rw (resolve s.rw b0))
        ((c0.map (resolve s.rw)).map (resolve s.rw)) ((io0.map (resolve s.rw)).map (resolve s.rw)) =
        aluKey k (resolve s.rw a0) (resolve s.rw b0) (c0.map (resolve s.rw)) (io0.map (resolve s.rw)) := by
      rw [resolve_idem ht, resolve_idem ht, map_resolve_idem ht, map_resolve_idem ht]
    simp only []
    rw [hkey]
    split
    · -- duplicate: dropped
      rename_i cano hl
      obtain ⟨k', a', b', c', io', hm, hk, hw'⟩ := hs _ cano hl
      have hkk : k' = k := by
        have := congrArg Prod.fst hk
        cases k' <;> cases k <;> simp_all [aluKey]
      subst hkk
      have hextS : Ext s.rw (if resolve s.rw out0 ≠ resolve s.rw cano then
          ((resolve s.rw out0, resolve s.rw cano) :: s.rw) else s.rw) := by
        split
        · rename_i hne
          exact Ext.step (Ext.refl _) (resolve_terminal ht out0) (resolve_terminal ht cano) hne
        · exact Ext.refl _
      refine ⟨?_, ?_, ?_⟩
      · split
        · rename_i hne
          exact terminates_cons ht (resolve_terminal ht out0) (resolve_terminal ht cano) hne
        · exact ht
      · split <;> exact hs
      · intro rwF hext H o ho
        have hext' : Ext s.rw rwF := by
          split at hext
          · rename_i hne
            exact (Ext.step (Ext.refl _) (resolve_terminal ht out0) (resolve_terminal ht cano) hne).trans hext
          · exact hext
        have Hs : ∀ e ∈ s.out.toList, (e.rewrite rwF).holds w pub := by
          intro e he; apply H; split <;> exact he
        rcases List.mem_append.mp ho with ho | ho
        · exact hc rwF hext' Hs o ho
        · have : o = Op.alu k' a0 b0 c0 out0 io0 := by simpa using ho
          subst this
          -- the kept op with the same key holds under v := w ∘ resolve rwF
          have hkept := Hs _ hm
          rw [rewrite_holds] at hkept
          set v : Nat → K := fun x => w (resolve rwF x) with hv
          -- same key ⇒ same relation on the common output `cano`
          have hrel := (dedup_key_sound v pub k' (resolve s.rw a0) (resolve s.rw b0) a' b'
            (c0.map (resolve s.rw)) (io0.map (resolve s.rw)) c' io' cano hwf' hw' hk.symm).mpr hkept
          -- the duplicate's output resolves to the kept output
          have hout : v (resolve s.rw out0) = v cano := by
            simp only [hv]
            by_cases hne : resolve s.rw out0 ≠ resolve s.rw cano
            · rw [if_pos hne] at hext
              have hS : Terminates ((resolve s.rw out0, resolve s.rw cano) :: s.rw) :=
                terminates_cons ht (resolve_terminal ht out0) (resolve_terminal ht cano) hne
              have e1 := hext.resolve_comp hS (resolve s.rw out0)
              have e2 := hext.resolve_comp hS cano
              rw [resolve_cons_eq ht (resolve_terminal ht out0) (resolve_terminal ht cano) hne,
                resolve_idem ht] at e1
              rw [resolve_cons_eq ht (resolve_terminal ht out0) (resolve_terminal ht cano) hne] at e2
              simp only [if_true] at e1
              have hne' : ¬ resolve s.rw cano = resolve s.rw out0 := fun h => hne h.symm
              simp only [hne', if_false] at e2
              rw [← e1, ← e2]
            · have heq : resolve s.rw out0 = resolve s.rw cano := not_not.mp hne
              rw [heq, hext'.resolve_comp ht]
          have hrel' := (holds_out_congr v pub k' _ _ _ _ _ _ hout).mpr hrel
          -- pull back along `resolve s.rw`
          have : (Op.alu k' a0 b0 c0 out0 io0 : Op K).holds (fun x => v (resolve s.rw x)) pub := by
            have := (rewrite_holds v pub s.rw (Op.alu k' a0 b0 c0 out0 io0)).mp
              (by simpa [P3R.Op.rewrite] using hrel')
            exact this
          have hfun : (fun x => v (resolve s.rw x)) = v := by
            funext x; simp [hv, hext'.resolve_comp ht]
          rwa [hfun] at this
    · -- new key: kept
      rename_i hl
      refine ⟨ht, ?_, ?_⟩
      · intro key cano hlk
        simp only [List.lookup] at hlk
        split at hlk
        · cases hlk
          rename_i heq
          have : key = aluKey k (resolve s.rw a0) (resolve s.rw b0) (c0.map (resolve s.rw)) (io0.map (resolve s.rw)) := by
            simpa using heq
          exact ⟨k, _, _, _, _, by simp, this.symm, hwf'⟩
        · obtain ⟨k2, a2, b2, c2, io2, hm, hk, hw2⟩ := hs key cano hlk
          exact ⟨k2, a2, b2, c2, io2, by simp [hm], hk, hw2⟩
      · intro rwF hext H o ho
        rcases List.mem_append.mp ho with ho | ho
        · exact hc rwF hext (fun e he => H e (by simp [he])) o ho
        · have : o = Op.alu k a0 b0 c0 out0 io0 := by simpa using ho
          subst this
          have hH := H (Op.alu k (resolve s.rw a0) (resolve s.rw b0) (c0.map (resolve s.rw)) (resolve s.rw out0)
            (io0.map (resolve s.rw))) (by simp)
          exact kept_holds w pub ht hext _ (by simpa [P3R.Op.rewrite] using hH)

theorem fold_claim (w pub : Nat → K) (ops : List (Op K)) :
    ∀ (s : DedupState K) (P : List (Op K)), Terminates s.rw → SeenInv s → Claim w pub s P →
      (∀ o ∈ ops, Op.WF o) →
      Terminates (ops.foldl DedupState.step s).rw ∧ Claim w pub (ops.foldl DedupState.step s) (P ++ ops) := by
  induction ops with
  | nil => intro s P ht _ hc _; simpa using ⟨ht, hc⟩
  | cons op ops ih =>
    intro s P ht hs hc hwf
    obtain ⟨ht', hs', hc'⟩ := step_claim w pub s P op ht hs hc (hwf op (by simp))
    have := ih (s.step op) (P ++ [op]) ht' hs' hc' (fun o ho => hwf o (by simp [ho]))
    simpa [List.append_assoc] using this

/-- **C03 / de-duplication, global.** If `w` satisfies every op de-duplication kept, then
`w ∘ resolve rw` satisfies every op of the original list, dropped duplicates included. -/
theorem dedup_sat_back (w pub : Nat → K) (ops : Array (Op K)) (hwf : ∀ o ∈ ops.toList, Op.WF o)
    (h : Sat w pub (dedup ops).1.toList) :
    Sat (fun x => w (resolve (dedup ops).2 x)) pub ops.toList := by
  unfold dedup at h ⊢
  simp only at h ⊢
  rw [← Array.foldl_toList] at h ⊢
  have hinit : Claim w pub ({ rw := [], seen := [], out := #[] } : DedupState K) [] := by
    intro _ _ _ o ho; cases ho
  have hseen : SeenInv ({ rw := [], seen := [], out := #[] } : DedupState K) := by
    intro key cano hl; simp [List.lookup] at hl
  obtain ⟨_, hc⟩ := fold_claim w pub ops.toList _ [] terminates_nil hseen hinit hwf
  intro o ho
  apply hc _ (Ext.refl _) _ o (by simpa using ho)
  intro e he
  apply h
  simp only [Array.toList_map, List.mem_map]
  exact ⟨e, he, rfl⟩

end P3R.C03
