/-
C12 — concrete witnesses.

1. Bits, call-site parameters of `sample_bits` / `check_pow_witness` (`n = BF::bits() = 31`,
   BabyBear), on the *executable* field of the driver. Before the canonicity repair
   (fixes/C12-1.diff, finding F8, now `fixed`) the relation `bitsAccept` accepted the bits of
   `5 + p` as a decomposition of `5` (`forged_accepted_before_repair`,
   `full_statement_bits_false_before_repair`: kept as the record of what the repair removes).
   The repaired relation `bitsAcceptFixed` rejects that vector and still accepts the honest
   one (`forged_rejected`, `honest_accepted`); the harness replays the same vector on the
   real prover on every run (`corpus/c12/f8_*.json`) and it must be rejected.
2. Coefficients: for `D = 4`, `W = 11` (BabyBear quartic), moved mass is accepted by the ALU
   chain; junk in a higher limb is accepted by the `recompose` table relation.
3. Non-vacuity of the hypotheses of the `P3R.C12` theorems (`ZMod 3`).
-/
import P3R.Model.Field
import P3R.Props.C12
import Mathlib.Algebra.Field.ZMod

namespace P3R.C12.Witness
open P3R P3R.Decomp

abbrev BB := PF babyBearP

/-- bits of `5 + p` over BabyBear, 31 bits -/
def forged : List BB := canonBits 31 (5 + babyBearP)

theorem forged_accepted_before_repair : bitsAccept (PF.ofNat 5 : BB) forged = true := by decide

/-- The repaired gadget rejects the forged vector … -/
theorem forged_rejected : bitsAcceptFixed babyBearP 31 (PF.ofNat 5 : BB) forged = false := by decide

/-- … already at the runner (the comparison chain ends in a `connect` with the constant 1). -/
theorem forged_run_conflict : bitsRunOkFixed babyBearP 31 (PF.ofNat 5 : BB) forged = false := by decide

theorem forged_not_canonical : forged ≠ (canonBits 31 5 : List BB) := by decide

theorem forged_index_differs : forged.take 1 ≠ (canonBits 31 5 : List BB).take 1 := by decide

/-- Negation of the full statement (bits) at the call-site parameters, for the relation
*without* the modulus comparison (the tree before fixes/C12-1.diff). -/
theorem full_statement_bits_false_before_repair :
    ¬ ∀ bits : List BB, bits.length = 31 → bitsAccept (PF.ofNat 5 : BB) bits = true →
        bits = canonBits 31 5 :=
  fun h => forged_not_canonical (h forged (by decide) forged_accepted_before_repair)

/-- The honest hint is accepted by the repaired gadget. -/
theorem honest_accepted :
    bitsAcceptFixed babyBearP 31 (PF.ofNat 5 : BB) (canonBits 31 5 : List BB) = true := by decide

/-! coefficients, `D = 4`, `W = 11` -/

def x4 : Nat → BB := fun j => PF.ofNat (j + 1)

/-- `c₀ = 1 + 7·X`, `c₁ = 2 - 7`, `c₂ = 3`, `c₃ = 4` -/
def moved : Nat → Nat → BB := fun i j =>
  if i = 0 then (if j = 0 then PF.ofNat 1 else if j = 1 then PF.ofNat 7 else 0)
  else if i = 1 then (if j = 0 then PF.ofNat 2 - PF.ofNat 7 else 0)
  else embed (x4 i) j

theorem moved_accepted_alu : coefAccept (PF.ofNat 11 : BB) 4 .alu false x4 moved = true := by decide

theorem moved_not_canonical : coeffsEq 4 moved (canonCoeffs x4) = false := by decide

theorem moved_not_base : isBase 4 (moved 0) = false := by decide

/-- Negation of the full statement (coefficients, ALU chain). -/
theorem full_statement_coeffs_alu_false :
    ¬ ∀ cs : Nat → Nat → BB, coefAccept (PF.ofNat 11 : BB) 4 .alu false x4 cs = true →
        coeffsEq 4 cs (canonCoeffs x4) = true := fun h => by
  have := h moved moved_accepted_alu
  rw [moved_not_canonical] at this
  exact Bool.false_ne_true this

def junk : Nat → Nat → BB := fun i j => if i = 2 ∧ j = 3 then PF.ofNat 9 else embed (x4 i) j

theorem junk_accepted_npo : coefAccept (PF.ofNat 11 : BB) 4 .npo false x4 junk = true := by decide
theorem junk_accepted_npoc_unread : coefAccept (PF.ofNat 11 : BB) 4 .npoCoeff false x4 junk = true := by decide
theorem junk_rejected_npoc_read : coefAccept (PF.ofNat 11 : BB) 4 .npoCoeff true x4 junk = false := by decide
theorem junk_not_canonical : coeffsEq 4 junk (canonCoeffs x4) = false := by decide

/-! non-vacuity: the hypotheses of the general theorems are satisfiable -/

example : bitsAccept ((0 : ℕ) : ZMod 3) (canonBits 2 (0 + 3) : List (ZMod 3)) = true ∧
    (canonBits 2 (0 + 3) : List (ZMod 3)) ≠ canonBits 2 0 :=
  bits_not_unique (K := ZMod 3) 3 2 0 (by norm_num) (by norm_num)

example : ∀ bits : List (ZMod 3), bits.length = 1 → bitsAccept ((1 : ℕ) : ZMod 3) bits = true →
    bits = canonBits 1 1 :=
  fun bits hl h => bits_unique (K := ZMod 3) 3 1 (by norm_num) bits hl 1 (by norm_num) h

example : ∀ bits : List (ZMod 3), bits.length = 2 → bitsAcceptFixed 3 2 ((1 : ℕ) : ZMod 3) bits = true →
    bits = canonBits 2 1 :=
  fun bits hl h => bits_canonical_fixed (K := ZMod 3) 3 2 2 (by norm_num) (by norm_num) le_rfl bits hl 1
    (by norm_num) h

example : coefAccept (2 : ZMod 3) 2 .alu false (fun _ => 1) (massMove (fun _ => 1) 1) = true :=
  (alu_not_unique (K := ZMod 3) 2 2 le_rfl false (fun _ => 1) 1 one_ne_zero).1

end P3R.C12.Witness
