/-
Witnesses for `Props/C04SchedWF`.

* `wf_derived` — `computeSchedule_wf` instantiated on the packed-chain circuit of `Witness/C04Sched`
  (no `decide` on the clauses of `SchedWF`).
* a second op list with TWO chains, a non-Horner op between them, unpackable steps (different `b`),
  `lanes = 3`, `K_max = 3`: `sched2_eq` (model of `compute_schedule` by `decide`), `wf2_derived`, and the
  clauses read off it (`wf2_chain_start`, `wf2_chain_step`).
* `wf_clause_not_trivial` — `SchedWF` is refutable: the same entries with the packed row moved to
  lane 1 violate it.
* `scheduled_accepted_sat_nonvacuous'` — every hypothesis of `scheduled_accepted_sat_bus'` holds on the
  packed witness (`lanes = 2`).
-/
import P3R.Witness.C04SchedBus
import P3R.Props.C04SchedWF

namespace P3R.Witness.C04Sched
open P3R P3R.C04 P3R.C09 P3R.C11

/-- `SchedWF` of the witness schedule, derived (not decided clause by clause). -/
theorem wf_derived : SchedWF 2 2 (isHorner preps) sched :=
  computeSchedule_wf preps 2 2 (by decide) sched sched_eq

/-- ops: 0 ADD, 1..3 HORNER (1, 2 share `b = 1` and op 1's `out` is silent; op 3 has `b = 2`),
4 MUL (sel all zero), 5..6 HORNER (op 5's `out` is NOT silent: no packing), 7 ADD. -/
def preps2 : List (List K) :=
  [[-1, 1, 0, 0, 0, 1, 2, 0, 10, -1, 0, 1, 0],
   [-1, 0, 0, 0, 1, 3, 1, 2, 11, -1, 0, 1, 1],
   [-1, 0, 0, 0, 1, 3, 1, 2, 12, -1, 0, 1, 1],
   [-1, 0, 0, 0, 1, 3, 2, 2, 13, -1, 0, 1, 1],
   [-1, 0, 0, 0, 0, 1, 2, 0, 14, -1, 0, 1, 0],
   [-1, 0, 0, 0, 1, 3, 1, 2, 15, -1, 1, 1, 1],
   [-1, 0, 0, 0, 1, 3, 1, 2, 16, -1, 0, 1, 1],
   [-1, 1, 0, 0, 0, 1, 2, 0, 17, -1, 0, 1, 0]]

def sched2 : List SchedEntry :=
  [.sep, .op 0, .op 4,
   .packed 1 2, .op 7, .sep,
   .op 3, .sep, .sep,
   .sep, .sep, .sep,
   .op 5, .sep, .sep,
   .op 6, .sep, .sep]

theorem sched2_eq : computeSchedule preps2 3 3 = some sched2 := by decide

theorem wf2_derived : SchedWF 3 3 (isHorner preps2) sched2 :=
  computeSchedule_wf preps2 3 3 (by decide) sched2 sched2_eq

/-- read off `wf2_derived`: the second chain starts (op 5, position 12) below a separator. -/
theorem wf2_chain_start : entryAt sched2 (12 - 3) = .sep := by
  have h := (wf2_derived.opH 12 5 (by decide) (by decide) (by decide)).2.2
  unfold predOK at h
  rwa [if_neg (by decide)] at h

/-- read off `wf2_derived`: op 3 (position 6) continues the chain below the packed row ending at op 2. -/
theorem wf2_chain_step :
    entryAt sched2 (6 - 3) = .op 2 ∨ ∃ f k, entryAt sched2 (6 - 3) = .packed f k ∧ f + k = 3 := by
  have h := (wf2_derived.opH 6 3 (by decide) (by decide) (by decide)).2.2
  unfold predOK at h
  rwa [if_pos (by decide)] at h

/-- The discipline is a real restriction: a packed row on lane 1 violates it. -/
theorem wf_clause_not_trivial :
    ¬ SchedWF 2 2 (isHorner preps) [.sep, .op 2, .sep, .packed 0 2] := by
  intro h
  have := (h.packed 3 0 2 (by decide) (by decide)).1
  exact absurd this (by decide)

/-- **Non-vacuity of `scheduled_accepted_sat_bus'`** (no `SchedWF` hypothesis). -/
theorem scheduled_accepted_sat_nonvacuous' :
    ∃ cv : ℕ → List K,
      (∀ c ∈ others ++ schedCells 1 2 2 (ExtKind.base : ExtKind K) Mr sched ops rl, c.role ≠ .skip →
        c.val = cv c.slot) ∧
      Sat (fun s => ev (RingHom.id K) 0 1 (cv s)) (fun _ => 0) ops := by
  refine scheduled_accepted_sat_bus' (RingHom.id K) (0 : K) 1 2 2 ExtKind.base Mr preps sched 2
    Nat.one_pos rfl (by decide) (fun _ => 0) ops rl reads sched_eq (by decide) (by decide) ?_ ?_
    win_ok (by decide) (fun j => by simp [rl]) others creators_ok ?_ bus_ok ?_ ?_
  · intro j k a b c out io h
    rw [aluOps_eq] at h
    rcases j with _ | _ | _ | j
    · simp at h
      obtain ⟨rfl, _⟩ := h
      exact ⟨by decide, fun c h1 h4 => by interval_cases c <;> decide⟩
    · simp at h
      obtain ⟨rfl, _⟩ := h
      exact ⟨by decide, fun c h1 h4 => by interval_cases c <;> decide⟩
    · simp at h
      obtain ⟨rfl, _⟩ := h
      exact ⟨by decide, fun c h1 h4 => by interval_cases c <;> decide⟩
    · simp at h
  · intro k a b out io hm
    simp [ops] at hm
    obtain ⟨rfl, _⟩ := hm
    exact ⟨by decide, by decide⟩
  · intro p f k hp he
    have hp4 : p < 4 := hp
    interval_cases p
    · simp [entryAt, sched] at he
    · simp [entryAt, sched] at he
    · simp [entryAt, sched] at he
      obtain ⟨rfl, rfl⟩ := he
      refine ⟨by decide, by decide, fun t ht => ?_⟩
      have : t = 0 := by omega
      subst this
      decide
    · simp [entryAt, sched] at he
  · intro out v hm
    simp [ops] at hm
    rcases hm with ⟨rfl, rfl⟩ | ⟨rfl, rfl⟩ | ⟨rfl, rfl⟩ | ⟨rfl, rfl⟩
    · exact ⟨⟨0, .creator, [0]⟩, by simp [others], rfl, by decide, ev_one_single _ _⟩
    · exact ⟨⟨1, .creator, [2]⟩, by simp [others], rfl, by decide, ev_one_single _ _⟩
    · exact ⟨⟨2, .creator, [3]⟩, by simp [others], rfl, by decide, ev_one_single _ _⟩
    · exact ⟨⟨3, .creator, [1]⟩, by simp [others], rfl, by decide, ev_one_single _ _⟩
  · intro out pos hm
    simp [ops] at hm

end P3R.Witness.C04Sched
