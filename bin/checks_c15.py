"""C15 — malformed proofs are rejected with an error, never a panic or a weaker circuit.

Plug-in for bin/check (see bin/checks.py). One harness run (`p3r-harness malformed`) builds honest
proofs (uni-STARK Fibonacci with Merkle cap height 0 and 1, uni-STARK with a preprocessed trace,
batch-STARK of a small circuit through the circuit prover), enumerates *every* single structural
alteration of the proof + companion data + parameters (generic walk over the serialised input:
each list shortened / lengthened / emptied, each count / degree / parameter set to 0, v-1, v+1, 28,
63, 64, usize::MAX, each optional part toggled) plus seeded pairs of alterations, and calls the real
circuit builders on each mutant in worker processes under catch_unwind and an address-space limit.
Implementation oracle: panic / process death => violation; accepted with a circuit different from
the well-formed one => violation. The Lean driver `p3r_driver_c15` evaluates the model
`P3R.Shape.verifyUni` on the shape vector of the same mutants; outcome lines are compared.
"""
import json, os

PROPERTY = "C15"

CORRESPONDENCE = ("proof-shape control flow of verify_p3_uni_proof_circuit + FRI/MMCS circuit builders "
                  "(recursion/src/verifier/stark.rs, types/proof.rs, pcs/fri/{targets,verifier}.rs, pcs/mmcs.rs) "
                  "vs lean/P3R/Model/Shape.lean (verifyUni)")


def _read(p):
    with open(p) as fh:
        return [l.rstrip("\n") for l in fh]


def run(ctx):
    tier, seed, work = ctx["tier"], ctx["seed"], ctx["work"]
    out = f"{work}/run0"
    violations = []
    if ctx.get("replay"):
        rp = json.load(open(ctx["replay"]))
        os.makedirs(f"{work}/replay_corpus", exist_ok=True)
        r = rp.get("replay", rp)
        json.dump(r.get("case", r), open(f"{work}/replay_corpus/r.json", "w"))
        corpus, generate, pairs = f"{work}/replay_corpus", 0, 0
    else:
        corpus, generate = f"{ctx['root']}/corpus/c15", 1
        pairs = 3000 if tier == "quick" else 100000
    cmd = [ctx["harness"], "malformed", "--seed", str(seed), "--out", out, "--corpus", corpus,
           "--generate", str(generate), "--per-class", "0", "--pairs", str(pairs), "--threads", "8"]
    rc, o = ctx["sh"](cmd, timeout=7200)
    empty = {"evaluations": 0, "distinct_nontrivial": 0, "rule": "", "samples": [], "input_distribution": {},
             "traces_validated_against_impl": 0, "disagreements_checked": 0}
    if rc != 0 or not os.path.exists(f"{out}/c15.report.json"):
        violations.append({"class": "harness-crash", "what": f"harness malformed exited {rc}: {o[-300:]}",
                           "replay": {"cmd": cmd}, "no_input": True})
        return violations, empty
    rep = json.load(open(f"{out}/c15.report.json"))
    for v in rep["violations"]:
        d = v.get("detail", {})
        violations.append({"class": v["class"],
                           "what": f"{v['kind']} on altered {v['site']} ({v['alteration']}) "
                                   f"base={v['replay']['base']} path={v['replay']['generic_path']} {json.dumps(d)[:200]}",
                           "replay": v["replay"]})
    # regression cases of repaired findings (corpus files with "expect_outcome")
    for r in rep.get("corpus_regressions_failed", []):
        violations.append({"class": f"regression:{r.get('finding') or r['file']}",
                           "what": f"repaired finding {r.get('finding')} is back: corpus/c15/{r['file']} expected {r['expected']!r}, "
                                   f"the real builder gave {r['got']!r}",
                           "replay": {"case": r["replay"]}})
    # model side
    driver = os.path.join(ctx["driver_dir"], "p3r_driver_c15")
    with open(f"{out}/c15.cases") as fin:
        rc, mo = ctx["sh"]([driver], stdin=fin, timeout=3600)
    with open(f"{out}/c15.model", "w") as fh:
        fh.write(mo)
    impl, model, cases = _read(f"{out}/c15.impl"), _read(f"{out}/c15.model"), _read(f"{out}/c15.cases")
    while model and model[-1] == "":
        model.pop()
    disagreements = 0
    for k in range(max(len(impl), len(model))):
        a = impl[k] if k < len(impl) else None
        b = model[k] if k < len(model) else None
        if a != b:
            disagreements += 1
            if disagreements <= 3:
                case = cases[k] if k < len(cases) else ""
                violations.append({"class": "model-disagreement",
                                   "what": f"correspondence {CORRESPONDENCE} no longer checks: impl={a!r} model={b!r}",
                                   "replay": {"correspondence": CORRESPONDENCE, "case_line": case,
                                              "first_difference": [a, b]},
                                   "no_input": True})
    hist = dict(rep["hist"])
    hist["outcome_by_site"] = rep.get("outcome_by_site", {})
    cov = {"evaluations": rep["evaluations"], "distinct_nontrivial": rep["distinct"],
           "rule": "one real circuit-builder call (target allocation + verify_*_circuit + CircuitBuilder::build, in a worker "
                   "process under catch_unwind and an address-space limit) per structurally altered input; alterations = "
                   "ALL single alterations found by a generic walk over the serialised (proof, companion data, parameters) of "
                   "4 honest bases (every list shortened by one / lengthened by one / emptied; every count, degree, size and "
                   "parameter integer set to 0, v-1, v+1, 28, 63, 64, usize::MAX (log_arity: ..7, 8, 255; degree_bits: +26, 27); "
                   "every optional part removed or added; booleans flipped) + seeded pairs of alterations; mutants the typed "
                   "proof cannot hold (fixed-size digests / extension elements) are counted as unrepresentable and not "
                   "evaluated; distinct = distinct (base, generic path, alteration[, second alteration]) keys, each of which "
                   "changes the input structurally (none trivial)",
           "samples": rep["samples"][:6], "input_distribution": hist,
           "traces_validated_against_impl": len(impl), "disagreements_checked": disagreements,
           "enumerated_alterations": rep.get("enumerated_alterations"), "unrepresentable": rep.get("unrepresentable"),
           "pair_cases": rep.get("pair_cases"), "bases": rep.get("bases"),
           "model_lines_uni_only": rep.get("model_lines"),
           "violation_class_counts": rep.get("violation_classes"),
           "corpus_witnesses_reproduced": rep.get("corpus_witnesses_reproduced", []),
           "corpus_regression_cases_passed": rep.get("corpus_regressions_passed", []),
           "known_not_reproduced": []}
    return violations, cov


CHECK = {
    "lean_modules": ["P3R.Props.C15", "P3R.Witness.C15"],
    "lean_exes": ["p3r_driver_c15"],
    "theorems": [
        "P3R.C15.run_ok_iff", "P3R.C15.run_panic_iff", "P3R.C15.run_no_panic",
        "P3R.C15.uni_ok_validated", "P3R.C15.uni_ok_fri_validated", "P3R.C15.uni_no_panic_partial",
        "P3R.C15.panicGuards_necessary", "P3R.C15.uni_malformed_rejected_partial", "P3R.C15.honest_shapes_ok",
        "P3R.Witness.C15.malformed_rejected_full_false", "P3R.Witness.C15.no_panic_full_false",
        "P3R.C15.run_append", "P3R.C15.run_err_of_must_prefix", "P3R.C15.fri_pow_mismatch_err",
        "P3R.C15.fri_height_overflow_err", "P3R.C15.open_input_height_err", "P3R.C15.uni_pow_mismatch_err",
        "P3R.C15.uni_pow_mismatch_outcome",
        "P3R.Witness.C15.degree_bits_panics", "P3R.Witness.C15.log_arity_panics",
        "P3R.Witness.C15.pow_witnesses_short_rejected", "P3R.Witness.C15.pow_witnesses_short_record",
        "P3R.Witness.C15.commit_extra_rejected", "P3R.Witness.C15.commit_extra_record",
        "P3R.Witness.C15.log_final_poly_len_max_rejected", "P3R.Witness.C15.schedule_too_short_rejected",
        "P3R.Witness.C15.schedule_too_short_record", "P3R.Witness.C15.degree_bits_plus1_rejected",
        "P3R.Witness.C15.degree_bits_plus1_record",
        "P3R.Witness.C15.domain_below_cap_panics",
        "P3R.Witness.C15.cap_empty_panics", "P3R.Witness.C15.cap_not_pow2_panics",
        "P3R.Witness.C15.prep_short_panics", "P3R.Witness.C15.log_blowup_panics",
        "P3R.Witness.C15.query_dropped_accepted", "P3R.Witness.C15.cap_resized_accepted",
        "P3R.Witness.C15.witnesses_falsify_guards",
    ],
    "run": run,
    "trusted_base": [
        "the shape vector extracted by the harness (harness/src/c15_shape.rs) is the builder-visible shape of the mutant: "
        "lengths / counts / options read from the same serialised input the typed proof is deserialised from",
        "environment constants of the model (usize = 64 bits with overflow checks as in the dev profile the harness is built "
        "in, BabyBear bits = 31, two-adicity = 27, allocation bound 2^26 targets) are parameters of the theorems and "
        "fixed only in the driver lines",
        "the batch-STARK builder (verify_p3_batch_proof_circuit / verify_batch_circuit) is exercised by the implementation "
        "oracle only; its shape control flow is not modelled in Lean (FRI / MMCS parts are shared with the uni model)",
    ],
    "assumptions": [
        "AIR-dependent step: an AIR that declares preprocessed width w indexes w preprocessed columns in eval "
        "(true of the harness AIR transcribed from recursion/tests/common MulAir); the uni verifier evaluates the AIR with the "
        "proof's width before validating it",
        "non-ZK TwoAdicFriPcs with Merkle-tree MMCS (arity 2), extension degree 4, all matrices of one round of the "
        "uni-STARK share the trace height (single height group); hiding PCS / arity-4 MMCS / WHIR shapes are not enumerated",
        "fixes C15-1/2/3 applied: F9b, F9c, F9j, F9k, F9l, F9o (and the overflow part of F9i, the degree+1 part of F9a) are "
        "repaired; their corpus cases are regression cases (expect_outcome = err) and a return is a VIOLATION "
        "(class regression:<id>, plus the unlisted panic class, plus a model disagreement for the modelled ones)",
        "full statements are still false: the negations are proved on concrete shape vectors (P3R.Witness.C15) and every "
        "witness is replayed on the real builders each run (corpus/c15); the _partial theorems carry the decidable "
        "hypothesis PanicGuards (no-panic) and additionally quantify the accepted family (any query count >= 1, any "
        "power-of-two cap sizes) in uni_ok_validated",
    ],
}

MANIFEST_ENTRY = {
    "property_id": "C15",
    "quick_cmd": "bin/check C15 --tier quick",
    "thorough_cmd": "bin/check C15 --tier thorough",
    "evidence_file": "evidence/C15.json",
    "replay_cmd_template": "bin/check C15 --replay {path}",
    "engine": "lean-models",
    "technique": "Lean 4 theorems over an ordered guarded-step model of the circuit builders' shape control flow "
                 "(every shape vector, every environment) + complete single-alteration enumeration on real proofs "
                 "(real builders under catch_unwind in worker processes) + line-exact outcome correspondence",
    "level_claimed": {
        "category": "proof",
        "text": "for every shape vector and environment: accepted => every validated component has its expected value "
                "(uni-STARK + FRI + MMCS caps), no panic under the explicit guard hypothesis, well-formed shapes accepted; the "
                "full statements (never panics / every malformed shape rejected) are refuted on concrete witnesses replayed on "
                "the real code (10 known findings with fixes C15-1/2/3 applied; the repaired ones are proved rejected "
                "for every shape: fri_pow_mismatch_err, fri_height_overflow_err, open_input_height_err); model tied to the Rust by outcome-exact comparison on every single "
                "alteration of 3 uni bases and on seeded pairs; batch-STARK builder judged on the real code only",
        "design_ref": "4/C15",
    },
    "level_note": "Lean kernel + 3 standard axioms; the model is a hand transcription of the builders' shape-dependent "
                  "statements (order included) and covers the uni-STARK path; batch path not modelled; overflow panics are "
                  "profile dependent (dev profile observed)",
}
