//! C11: evaluate the real `AluAir` (every extension degree / reduction / lane count / Horner
//! packing factor) on concrete windows with a value-recording `AirBuilder`, print every
//! constraint value and bus interaction for the Lean model to reproduce, and judge
//! accept/reject against the operation's defining relation computed with p3-field's own
//! extension arithmetic.

use std::collections::BTreeMap;
use std::io::Write;
use std::panic::{AssertUnwindSafe, catch_unwind};

use p3_air::{Air, AirBuilder, RowWindow};
use p3_baby_bear::BabyBear;
use p3_circuit_prover::air::AluAir;
use p3_field::extension::BinomialExtensionField;
use p3_field::{BasedVectorSpace, Field, PrimeCharacteristicRing, PrimeField64};
use p3_lookup::{Count, InteractionBuilder};
use serde_json::{Value, json};

use crate::rng::Rng;

type F = BabyBear;
const P: u64 = 2013265921;

pub struct ValBuilder<'a> {
    main: RowWindow<'a, F>,
    prep: RowWindow<'a, F>,
    pub cons: Vec<F>,
    pub inter: Vec<(Vec<F>, F)>,
}

impl<'a> AirBuilder for ValBuilder<'a> {
    type F = F;
    type Expr = F;
    type Var = F;
    type PreprocessedWindow = RowWindow<'a, F>;
    type MainWindow = RowWindow<'a, F>;
    type PublicVar = F;
    type PeriodicVar = F;

    fn main(&self) -> Self::MainWindow {
        self.main
    }
    fn preprocessed(&self) -> &Self::PreprocessedWindow {
        &self.prep
    }
    fn is_first_row(&self) -> F {
        F::ZERO
    }
    fn is_last_row(&self) -> F {
        F::ZERO
    }
    fn is_transition(&self) -> F {
        F::ONE
    }
    fn assert_zero<I: Into<F>>(&mut self, x: I) {
        self.cons.push(x.into());
    }
}

impl InteractionBuilder for ValBuilder<'_> {
    fn push_interaction<E: Into<F>>(
        &mut self,
        _bus_name: &str,
        fields: impl IntoIterator<Item = E>,
        count: impl Into<Count<F>>,
    ) {
        let (m, _) = count.into().into_parts();
        self.inter.push((fields.into_iter().map(Into::into).collect(), m));
    }
    fn push_local_interaction(&mut self, tuples: impl IntoIterator<Item = (Vec<F>, Count<F>)>) {
        for (f, c) in tuples {
            let (m, _) = c.into_parts();
            self.inter.push((f, m));
        }
    }
}

#[derive(Clone, Copy, Debug, PartialEq)]
pub enum Kind {
    Base,
    Bin(u64),
    Quint,
}

fn make_air<const D: usize>(lanes: usize, kmax: usize, kind: Kind) -> AluAir<F, D> {
    match kind {
        Kind::Base => AluAir::<F, D>::new(1, lanes).with_horner_pack_k(kmax),
        Kind::Bin(w) => AluAir::<F, D>::new_binomial(1, lanes, F::from_u64(w)).with_horner_pack_k(kmax),
        Kind::Quint => AluAir::<F, D>::new_quintic_trinomial(1, lanes).with_horner_pack_k(kmax),
    }
}

pub fn widths(d: usize, lanes: usize, kmax: usize) -> (usize, usize) {
    let num_int = (kmax - 1) / 2;
    (lanes * 4 * d + (num_int + 2 * (kmax - 1) + 1) * d, lanes * 13 + (kmax - 1) + 6 * (kmax - 1))
}

/// Evaluate the real AIR on one window.
pub fn eval_real(d: usize, lanes: usize, kmax: usize, kind: Kind, ml: &[F], mn: &[F], pl: &[F], pn: &[F]) -> Option<(Vec<F>, Vec<(Vec<F>, F)>)> {
    let run = || -> (Vec<F>, Vec<(Vec<F>, F)>) {
        let mut b = ValBuilder { main: RowWindow::from_two_rows(ml, mn), prep: RowWindow::from_two_rows(pl, pn), cons: vec![], inter: vec![] };
        match d {
            1 => make_air::<1>(lanes, kmax, kind).eval(&mut b),
            2 => make_air::<2>(lanes, kmax, kind).eval(&mut b),
            4 => make_air::<4>(lanes, kmax, kind).eval(&mut b),
            5 => make_air::<5>(lanes, kmax, kind).eval(&mut b),
            8 => make_air::<8>(lanes, kmax, kind).eval(&mut b),
            _ => panic!("unsupported D"),
        }
        (b.cons, b.inter)
    };
    catch_unwind(AssertUnwindSafe(run)).ok()
}

fn vec_str(v: &[F]) -> String {
    v.iter().map(|x| x.as_canonical_u64().to_string()).collect::<Vec<_>>().join(" ")
}

fn kind_str(k: Kind) -> (&'static str, u64) {
    match k {
        Kind::Base => ("base", 0),
        Kind::Bin(w) => ("bin", w),
        Kind::Quint => ("quint", 0),
    }
}

fn rand_f(rng: &mut Rng) -> F {
    match rng.below(6) {
        0 => F::ZERO,
        1 => F::ONE,
        2 => F::NEG_ONE,
        _ => F::from_u64(rng.below(P)),
    }
}

type E4 = BinomialExtensionField<F, 4>;

/// Structured case for D=4 (BabyBear's own binomial extension, W = 11) and D=1: a prep row for
/// one op kind, operands chosen honestly, optionally one cell perturbed. Returns the window
/// and whether the kind's relation holds over the extension field (computed with p3-field).
fn structured(rng: &mut Rng, d: usize, lanes: usize, kmax: usize) -> (Vec<F>, Vec<F>, Vec<F>, Vec<F>, bool, String) {
    let (mw, pw) = widths(d, lanes, kmax);
    let mut ml = vec![F::ZERO; mw];
    let mn = vec![F::ZERO; mw];
    let mut pl = vec![F::ZERO; pw];
    let pn = vec![F::ZERO; pw];
    let lane = rng.usize(lanes);
    let kind = rng.usize(4); // add, mul, bool, muladd
    let p = lane * 13;
    pl[p] = F::NEG_ONE; // mult_a
    match kind {
        0 => pl[p + 1] = F::ONE,
        2 => pl[p + 2] = F::ONE,
        3 => pl[p + 3] = F::ONE,
        _ => {}
    }
    let rand_e = |rng: &mut Rng| -> Vec<F> { (0..d).map(|_| rand_f(rng)).collect() };
    let mul = |x: &[F], y: &[F]| -> Vec<F> {
        if d == 1 {
            vec![x[0] * y[0]]
        } else {
            let a = E4::from_basis_coefficients_slice(x).unwrap();
            let b = E4::from_basis_coefficients_slice(y).unwrap();
            (a * b).as_basis_coefficients_slice().to_vec()
        }
    };
    let add = |x: &[F], y: &[F]| -> Vec<F> { x.iter().zip(y).map(|(a, b)| *a + *b).collect() };
    let mut a = rand_e(rng);
    let b = rand_e(rng);
    let c = rand_e(rng);
    if kind == 2 {
        a = vec![F::ZERO; d];
        a[0] = F::from_bool(rng.chance(1, 2));
    }
    let mut out = match kind {
        0 => add(&a, &b),
        1 => mul(&a, &b),
        2 => a.clone(),
        _ => add(&mul(&a, &b), &c),
    };
    // perturb one cell half of the time
    let perturb = rng.chance(1, 2);
    if perturb {
        let which = rng.usize(4);
        let i = rng.usize(d);
        let delta = F::from_u64(1 + rng.below(P - 1));
        match which {
            0 => a[i] += delta,
            1 => out[i] += delta,
            2 => out[i] += delta,
            _ => a[i] += delta,
        }
    }
    let m = lane * 4 * d;
    ml[m..m + d].copy_from_slice(&a);
    ml[m + d..m + 2 * d].copy_from_slice(&b);
    ml[m + 2 * d..m + 3 * d].copy_from_slice(&c);
    ml[m + 3 * d..m + 4 * d].copy_from_slice(&out);
    if rng.chance(1, 8) {
        out = out.clone();
    }
    let holds = match kind {
        0 => add(&a, &b) == out,
        1 => mul(&a, &b) == out,
        2 => (a[0] == F::ZERO || a[0] == F::ONE) && a[1..].iter().all(|x| *x == F::ZERO),
        _ => add(&mul(&a, &b), &c) == out,
    };
    let names = ["add", "mul", "bool", "muladd"];
    (ml, mn, pl, pn, holds, names[kind].to_string())
}

pub fn main(args: &crate::Args) {
    let seed = args.u64("seed", 1);
    let n = args.u64("cases", 2000) as usize;
    let out = args.str("out", "/tmp/p3r");
    std::fs::create_dir_all(&out).unwrap();
    let mut cases = std::io::BufWriter::new(std::fs::File::create(format!("{out}/alu.cases")).unwrap());
    let mut implo = std::io::BufWriter::new(std::fs::File::create(format!("{out}/alu.impl")).unwrap());
    let mut rng = Rng::new(seed);
    let mut hist: BTreeMap<String, u64> = BTreeMap::new();
    let mut violations: Vec<Value> = vec![];
    let mut samples: Vec<Value> = vec![];
    let mut distinct = std::collections::HashSet::new();
    let configs: Vec<(usize, Kind)> = vec![
        (1, Kind::Base),
        (2, Kind::Bin(7)),
        (4, Kind::Bin(11)),
        (8, Kind::Bin(11)),
        (5, Kind::Quint),
        (4, Kind::Bin(3)),
    ];
    let mut evals = 0usize;
    for i in 0..n {
        // every 12th case: the Const / Public table (`WitnessSendAir`): no constraint, one send per lane
        if i % 12 == 11 {
            let d = [1usize, 2, 4, 5, 8][rng.usize(5)];
            let lanes = 1 + rng.usize(3);
            let ml: Vec<F> = (0..d * lanes).map(|_| rand_f(&mut rng)).collect();
            let pl: Vec<F> = (0..2 * lanes).map(|_| rand_f(&mut rng)).collect();
            let line = format!("send {d} {lanes} | {} | {}", vec_str(&ml), vec_str(&pl));
            writeln!(cases, "{line}").unwrap();
            evals += 1;
            *hist.entry(format!("send.D{d}.lanes{lanes}")).or_default() += 1;
            let run = || -> (Vec<F>, Vec<(Vec<F>, F)>) {
                use p3_circuit_prover::air::PublicAir;
                let zeros_m = vec![F::ZERO; ml.len()];
                let zeros_p = vec![F::ZERO; pl.len()];
                let mut b = ValBuilder { main: RowWindow::from_two_rows(&ml, &zeros_m), prep: RowWindow::from_two_rows(&pl, &zeros_p), cons: vec![], inter: vec![] };
                match d {
                    1 => PublicAir::<F, 1>::new(1, lanes).eval(&mut b),
                    2 => PublicAir::<F, 2>::new(1, lanes).eval(&mut b),
                    4 => PublicAir::<F, 4>::new(1, lanes).eval(&mut b),
                    5 => PublicAir::<F, 5>::new(1, lanes).eval(&mut b),
                    _ => PublicAir::<F, 8>::new(1, lanes).eval(&mut b),
                }
                (b.cons, b.inter)
            };
            match catch_unwind(AssertUnwindSafe(run)) {
                Err(_) => {
                    writeln!(implo, "panic").unwrap();
                    violations.push(json!({"property":"C11","kind":"air-eval-panic","class":"panic","replay":{"case":line}}));
                }
                Ok((cons, inter)) => {
                    writeln!(implo, "c {}", vec_str(&cons)).unwrap();
                    writeln!(implo, "i {}", inter.iter().map(|(f, m)| format!("{}:{}", f.iter().map(|x| x.as_canonical_u64().to_string()).collect::<Vec<_>>().join(","), m.as_canonical_u64())).collect::<Vec<_>>().join(" ")).unwrap();
                }
            }
            continue;
        }
        // every 12th case (offset 5): the `recompose` table, with and without coefficient lookups
        if i % 12 == 5 {
            let d = [2usize, 4, 5, 8][rng.usize(4)];
            let lanes = 1 + rng.usize(3);
            let coeff = rng.chance(1, 2);
            let plw = if coeff { 2 + 2 * d } else { 2 };
            let ml: Vec<F> = (0..d * lanes).map(|_| rand_f(&mut rng)).collect();
            let pl: Vec<F> = (0..plw * lanes).map(|_| rand_f(&mut rng)).collect();
            let line = format!("recompose {d} {lanes} {} | {} | {}", coeff as u8, vec_str(&ml), vec_str(&pl));
            writeln!(cases, "{line}").unwrap();
            evals += 1;
            *hist.entry(format!("recompose.D{d}.lanes{lanes}.coeff{}", coeff as u8)).or_default() += 1;
            let run = || -> (Vec<F>, Vec<(Vec<F>, F)>) {
                use p3_circuit_prover::air::RecomposeAir;
                let zeros_m = vec![F::ZERO; ml.len()];
                let zeros_p = vec![F::ZERO; pl.len()];
                let mut b = ValBuilder { main: RowWindow::from_two_rows(&ml, &zeros_m), prep: RowWindow::from_two_rows(&pl, &zeros_p), cons: vec![], inter: vec![] };
                match d {
                    2 => RecomposeAir::<F, 2>::new_with_preprocessed(lanes, vec![], 1, coeff).eval(&mut b),
                    4 => RecomposeAir::<F, 4>::new_with_preprocessed(lanes, vec![], 1, coeff).eval(&mut b),
                    5 => RecomposeAir::<F, 5>::new_with_preprocessed(lanes, vec![], 1, coeff).eval(&mut b),
                    _ => RecomposeAir::<F, 8>::new_with_preprocessed(lanes, vec![], 1, coeff).eval(&mut b),
                }
                (b.cons, b.inter)
            };
            match catch_unwind(AssertUnwindSafe(run)) {
                Err(_) => {
                    writeln!(implo, "panic").unwrap();
                    violations.push(json!({"property":"C11","kind":"air-eval-panic","class":"panic","replay":{"case":line}}));
                }
                Ok((cons, inter)) => {
                    writeln!(implo, "c {}", vec_str(&cons)).unwrap();
                    writeln!(implo, "i {}", inter.iter().map(|(f, m)| format!("{}:{}", f.iter().map(|x| x.as_canonical_u64().to_string()).collect::<Vec<_>>().join(","), m.as_canonical_u64())).collect::<Vec<_>>().join(" ")).unwrap();
                }
            }
            continue;
        }
        let (d, kind) = configs[i % configs.len()];
        let lanes = 1 + rng.usize(3);
        let kmax = 2 + rng.usize(5);
        let (mw, pw) = widths(d, lanes, kmax);
        let structured_case = (d == 1 || (d == 4 && kind == Kind::Bin(11))) && rng.chance(1, 2);
        let (ml, mn, pl, pn, verdict) = if structured_case {
            let (ml, mn, pl, pn, holds, k) = structured(&mut rng, d, lanes, kmax);
            *hist.entry(format!("structured.{k}.{}", if holds { "valid" } else { "invalid" })).or_default() += 1;
            (ml, mn, pl, pn, Some(holds))
        } else {
            // fully random window (selectors included): polynomial identity testing; a sparse
            // variant zeroes most preprocessed cells so single selectors are isolated
            let sparse = rng.chance(1, 2);
            let r = |rng: &mut Rng, n: usize, sparse: bool| -> Vec<F> {
                (0..n).map(|_| if sparse && rng.chance(3, 4) { F::ZERO } else { rand_f(rng) }).collect()
            };
            *hist.entry(format!("random.{}", if sparse { "sparse" } else { "dense" })).or_default() += 1;
            (r(&mut rng, mw, false), r(&mut rng, mw, false), r(&mut rng, pw, sparse), r(&mut rng, pw, sparse), None)
        };
        *hist.entry(format!("D{d}.lanes{lanes}.k{kmax}")).or_default() += 1;
        let (ks, w) = kind_str(kind);
        let line = format!("alu {d} {lanes} {kmax} {ks} {w} | {} | {} | {} | {}", vec_str(&ml), vec_str(&mn), vec_str(&pl), vec_str(&pn));
        let mut h = 0xcbf29ce484222325u64;
        for b in line.bytes() {
            h = (h ^ b as u64).wrapping_mul(0x100000001b3);
        }
        distinct.insert(h);
        writeln!(cases, "{line}").unwrap();
        evals += 1;
        match eval_real(d, lanes, kmax, kind, &ml, &mn, &pl, &pn) {
            None => {
                writeln!(implo, "panic").unwrap();
                violations.push(json!({"property":"C11","kind":"air-eval-panic","class":"panic","replay":{"case":line}}));
            }
            Some((cons, inter)) => {
                writeln!(implo, "c {}", vec_str(&cons)).unwrap();
                writeln!(
                    implo,
                    "i {}",
                    inter
                        .iter()
                        .map(|(f, m)| format!("{}:{}", f.iter().map(|x| x.as_canonical_u64().to_string()).collect::<Vec<_>>().join(","), m.as_canonical_u64()))
                        .collect::<Vec<_>>()
                        .join(" ")
                )
                .unwrap();
                if let Some(holds) = verdict {
                    let accepted = cons.iter().all(|x| *x == F::ZERO);
                    if accepted != holds {
                        violations.push(json!({"property":"C11","kind": if accepted {"row-accepted-but-relation-fails"} else {"row-rejected-but-relation-holds"},
                            "class": if accepted {"accepts-invalid-row"} else {"rejects-valid-row"}, "replay":{"case":line}}));
                    }
                }
                if samples.len() < 2 && d == 1 {
                    samples.push(json!({"case": line, "constraints": cons.len(), "interactions": inter.len()}));
                }
            }
        }
    }
    cases.flush().unwrap();
    implo.flush().unwrap();
    let report = json!({"evaluations": evals, "distinct": distinct.len(), "hist": hist, "violations": violations, "samples": samples, "seed": seed});
    std::fs::write(format!("{out}/alu.report.json"), serde_json::to_string_pretty(&report).unwrap()).unwrap();
    println!("alu: cases={} violations={}", evals, violations.len());
}

// ---------------------------------------------------------------------------------------
// Scheduled-trace cases: honest ALU traces (Horner chains of every arity, mixed with other
// ops) laid out by the real `AluAir` (schedule, packed rows, separators), all windows
// evaluated; then single-cell tampering judged against the operations' relations.

use p3_circuit::WitnessId;
use p3_circuit::ops::AluOpKind;
use p3_circuit::tables::AluTrace;
use p3_circuit_prover::air::AluExtMulKind;
use p3_matrix::Matrix;
use p3_matrix::dense::RowMajorMatrix;
use p3_air::BaseAir;

trait Elt: Field + BasedVectorSpace<F> + Copy {
    const D: usize;
    #[allow(clippy::too_many_arguments)]
    fn build(n: usize, lanes: usize, ext: AluExtMulKind<F>, prep: Vec<F>, kmax: usize, min_h: usize, trace: &AluTrace<Self>) -> (RowMajorMatrix<F>, RowMajorMatrix<F>);
}
impl Elt for F {
    const D: usize = 1;
    fn build(n: usize, lanes: usize, ext: AluExtMulKind<F>, prep: Vec<F>, kmax: usize, min_h: usize, trace: &AluTrace<Self>) -> (RowMajorMatrix<F>, RowMajorMatrix<F>) {
        let air = AluAir::<F, 1>::from_reduction_with_preprocessed(n, lanes, ext, prep, kmax).with_min_height(min_h);
        let prep = air.preprocessed_trace().unwrap();
        (air.trace_to_matrix(trace, prep.height()), prep)
    }
}
impl Elt for E4 {
    const D: usize = 4;
    fn build(n: usize, lanes: usize, ext: AluExtMulKind<F>, prep: Vec<F>, kmax: usize, min_h: usize, trace: &AluTrace<Self>) -> (RowMajorMatrix<F>, RowMajorMatrix<F>) {
        let air = AluAir::<F, 4>::from_reduction_with_preprocessed(n, lanes, ext, prep, kmax).with_min_height(min_h);
        let prep = air.preprocessed_trace().unwrap();
        (air.trace_to_matrix(trace, prep.height()), prep)
    }
}

fn rand_elt<E: Elt>(rng: &mut Rng) -> E {
    let v: Vec<F> = (0..E::D).map(|_| rand_f(rng)).collect();
    E::from_basis_coefficients_slice(&v).unwrap()
}

struct Sched<E: Elt> {
    kinds: Vec<AluOpKind>,
    vals: Vec<[E; 4]>,
    prep: Vec<F>,
}

/// Random op list: Horner chains (first accumulator 0, chaining through `out`), separated by
/// other ops or directly adjacent only when the second chain is a continuation.
fn gen_ops<E: Elt>(rng: &mut Rng) -> Sched<E> {
    let mut s = Sched { kinds: vec![], vals: vec![], prep: vec![] };
    let nblocks = rng.range(1, 5);
    let mut next_idx = 10u64;
    let mut push = |s: &mut Sched<E>, k: AluOpKind, v: [E; 4], bidx: u64, next_idx: &mut u64| {
        let sel = match k {
            AluOpKind::Add => [1, 0, 0, 0],
            AluOpKind::Mul => [0, 0, 0, 0],
            AluOpKind::BoolCheck => [0, 1, 0, 0],
            AluOpKind::MulAdd => [0, 0, 1, 0],
            AluOpKind::HornerAcc => [0, 0, 0, 1],
        };
        let d = E::D as u64;
        s.kinds.push(k);
        s.vals.push(v);
        let row = [
            F::NEG_ONE,
            F::from_u64(sel[0]),
            F::from_u64(sel[1]),
            F::from_u64(sel[2]),
            F::from_u64(sel[3]),
            F::from_u64(*next_idx * d),
            F::from_u64(bidx * d),
            F::from_u64((*next_idx + 1) * d),
            F::from_u64((*next_idx + 2) * d),
            F::NEG_ONE,
            F::ONE,
            F::ONE,
            F::from_bool(matches!(k, AluOpKind::MulAdd | AluOpKind::HornerAcc)),
        ];
        *next_idx += 3;
        s.prep.extend(row);
    };
    // multiplicity patterns beyond "everything reads once": creators (`+reads` for b / out,
    // `-reads` in the reader columns of a / c) and off-bus operands; the constraint oracles do not
    // look at them, the layout correspondence with the Lean schedule model does
    let vary = rng.chance(1, 2);
    for blk in 0..nblocks {
        if rng.chance(2, 3) {
            // a Horner chain
            let len = rng.range(1, 8);
            let shared_b = rng.chance(3, 4);
            let b0: E = rand_elt(rng);
            let bidx0 = 3 + rng.below(4);
            let mut acc = E::ZERO;
            for j in 0..len {
                let (b, bidx) = if shared_b || j == 0 { (b0, bidx0) } else if rng.chance(1, 2) { (rand_elt(rng), bidx0 + 1 + j as u64) } else { (b0, bidx0) };
                let a: E = rand_elt(rng);
                let c: E = rand_elt(rng);
                let out = acc * b + c - a;
                push(&mut s, AluOpKind::HornerAcc, [a, b, c, out], bidx, &mut next_idx);
                acc = out;
                // an intermediate accumulator is usually bus-silent (created, read by nobody):
                // only then may the scheduler pack the step behind the next one
                if j + 1 < len && rng.chance(7, 8) {
                    let n = s.prep.len();
                    s.prep[n - 13 + 10] = F::ZERO;
                }
            }
        }
        if vary {
            let nrows = s.prep.len() / 13;
            for r in 0..nrows {
                if rng.chance(1, 4) {
                    s.prep[r * 13 + 9] = F::from_u64(rng.below(4));
                }
                if rng.chance(1, 5) {
                    s.prep[r * 13 + 11] = if rng.chance(1, 2) { F::ZERO } else { -F::from_u64(1 + rng.below(3)) };
                }
                if rng.chance(1, 5) {
                    s.prep[r * 13 + 12] = if rng.chance(1, 2) { F::ZERO } else { -F::from_u64(1 + rng.below(3)) };
                }
            }
        }
        // non-Horner filler (at least one between chains so that runs stay separate)
        let nf = rng.range(if blk + 1 < nblocks { 1 } else { 0 }, 4);
        for _ in 0..nf {
            let a: E = rand_elt(rng);
            let b: E = rand_elt(rng);
            let c: E = rand_elt(rng);
            match rng.below(4) {
                0 => push(&mut s, AluOpKind::Add, [a, b, E::ZERO, a + b], 1, &mut next_idx),
                1 => push(&mut s, AluOpKind::Mul, [a, b, E::ZERO, a * b], 1, &mut next_idx),
                2 => {
                    let bit = if rng.chance(1, 2) { E::ONE } else { E::ZERO };
                    push(&mut s, AluOpKind::BoolCheck, [bit, E::ZERO, bit, bit], 0, &mut next_idx)
                }
                _ => push(&mut s, AluOpKind::MulAdd, [a, b, c, a * b + c], 1, &mut next_idx),
            }
        }
    }
    if s.kinds.is_empty() {
        let a: E = rand_elt(rng);
        let b: E = rand_elt(rng);
        push(&mut s, AluOpKind::Add, [a, b, E::ZERO, a + b], 1, &mut next_idx);
    }
    s
}

fn eval_all_windows(d: usize, lanes: usize, kmax: usize, kind: Kind, main: &RowMajorMatrix<F>, prep: &RowMajorMatrix<F>) -> Option<(usize, usize)> {
    let h = main.height();
    for r in 0..h {
        let n = (r + 1) % h;
        let ml: Vec<F> = main.row_slice(r).unwrap().to_vec();
        let mn: Vec<F> = main.row_slice(n).unwrap().to_vec();
        let pl: Vec<F> = prep.row_slice(r).unwrap().to_vec();
        let pn: Vec<F> = prep.row_slice(n).unwrap().to_vec();
        let (cons, _) = eval_real(d, lanes, kmax, kind, &ml, &mn, &pl, &pn)?;
        if let Some(ci) = cons.iter().position(|x| *x != F::ZERO) {
            return Some((r, ci));
        }
    }
    None
}

/// Independent re-evaluation of the ops' relations on the (possibly tampered) matrices,
/// decoding rows through the preprocessed selectors. `None` = cannot decide (leave alone).
fn relations_hold<E: Elt>(lanes: usize, kmax: usize, main: &RowMajorMatrix<F>, prep: &RowMajorMatrix<F>) -> bool {
    let d = E::D;
    let h = main.height();
    let get = |row: &[F], off: usize| -> E { E::from_basis_coefficients_slice(&row[off..off + d]).unwrap() };
    let num_int = (kmax - 1) / 2;
    for r in 0..h {
        let row: Vec<F> = main.row_slice(r).unwrap().to_vec();
        let prow: Vec<F> = prep.row_slice(r).unwrap().to_vec();
        let prev: Vec<F> = main.row_slice((r + h - 1) % h).unwrap().to_vec();
        let pprev: Vec<F> = prep.row_slice((r + h - 1) % h).unwrap().to_vec();
        // the accumulator a Horner row *means*: the previous step's output inside a chain, zero at
        // the start of a chain (previous lane-0 entry is a separator / padding / another kind) —
        // whatever the previous row's `out` cell holds
        let prev_out: E = if pprev[4] == F::ONE { get(&prev, 3 * d) } else { E::ZERO };
        for lane in 0..lanes {
            let m = lane * 4 * d;
            let p = lane * 13;
            if prow[p] == F::ZERO {
                // padding / separator lane; on lane 0 its `out` is the next chain's start
                // accumulator and must be zero (fix F22)
                if lane == 0 && get(&row, m + 3 * d) != E::ZERO {
                    return false;
                }
                continue;
            }
            let (a, b, c, out): (E, E, E, E) = (get(&row, m), get(&row, m + d), get(&row, m + 2 * d), get(&row, m + 3 * d));
            let ok = if prow[p + 1] == F::ONE {
                a + b == out
            } else if prow[p + 2] == F::ONE {
                let co = a.as_basis_coefficients_slice();
                (co[0] == F::ZERO || co[0] == F::ONE) && co[1..].iter().all(|x| *x == F::ZERO)
            } else if prow[p + 3] == F::ONE {
                a * b + c == out
            } else if prow[p + 4] == F::ONE {
                if lane != 0 {
                    return true; // not produced by the scheduler; do not judge
                }
                // arity from the extra selectors
                let extra_prep = lanes * 13;
                let k = (2..=kmax).find(|kk| prow[extra_prep + kk - 2] == F::ONE).unwrap_or(1);
                let extra_main = lanes * 4 * d;
                let ac_base = extra_main + num_int * d;
                let mut acc = prev_out * b + c - a;
                let mut aux_ok = true;
                for t in 1..k {
                    let off = ac_base + 2 * (t - 1) * d;
                    let a_t: E = get(&row, off);
                    let c_t: E = get(&row, off + d);
                    acc = acc * b + c_t - a_t;
                    // intermediate slot j holds the accumulator after 2(j+1) steps, when that
                    // is not yet the final step
                    let steps = t + 1;
                    if steps % 2 == 0 && steps < k {
                        let j = steps / 2 - 1;
                        let int_j: E = get(&row, extra_main + j * d);
                        aux_ok &= int_j == acc;
                    }
                }
                if k >= 2 {
                    let b_sq: E = get(&row, ac_base + 2 * (kmax - 1) * d);
                    aux_ok &= b_sq == b * b;
                }
                acc == out && aux_ok
            } else {
                a * b == out
            };
            if !ok {
                return false;
            }
        }
    }
    true
}

fn sched_case<E: Elt>(rng: &mut Rng, kind: Kind, hist: &mut BTreeMap<String, u64>, violations: &mut Vec<Value>, tampers: usize, lines: &mut (Vec<String>, Vec<String>)) -> usize {
    let d = E::D;
    let lanes = 1 + rng.usize(3);
    let kmax = 2 + rng.usize(5);
    let s: Sched<E> = gen_ops(rng);
    let ext = match kind {
        Kind::Base => AluExtMulKind::Base,
        Kind::Bin(w) => AluExtMulKind::Binomial { w: F::from_u64(w) },
        Kind::Quint => AluExtMulKind::QuinticTrinomial,
    };
    let trace = AluTrace {
        op_kind: s.kinds.clone(),
        values: s.vals.clone(),
        indices: vec![[WitnessId(0); 4]; s.kinds.len()],
    };
    let min_h = 1usize << rng.usize(3);
    let built = catch_unwind(AssertUnwindSafe(|| E::build(s.kinds.len(), lanes, ext, s.prep.clone(), kmax, min_h, &trace)));
    let desc = json!({"D": d, "lanes": lanes, "kmax": kmax, "min_height": min_h,
        "ops": s.kinds.iter().map(|k| crate::prog::kind_str(*k)).collect::<Vec<_>>(),
        "b_idx": s.prep.chunks(13).map(|r| r[6].as_canonical_u64()).collect::<Vec<_>>()});
    let Ok((main, prep)) = built else {
        violations.push(json!({"property":"C11","kind":"trace-build-panic","class":"panic","replay":desc}));
        return 0;
    };
    let nh = s.kinds.iter().filter(|k| **k == AluOpKind::HornerAcc).count();
    *hist.entry(format!("sched.horner_ops.{}", nh.min(9))).or_default() += 1;
    // correspondence with lean/P3R/Model/AluSchedule.lean: the scheduled preprocessed matrix
    // (trailing all-zero rows — padding — trimmed on both sides)
    {
        let pw = prep.width();
        let mut rows: Vec<&[F]> = prep.values.chunks(pw).collect();
        while rows.last().is_some_and(|r| r.iter().all(|x| *x == F::ZERO)) {
            rows.pop();
        }
        lines.0.push(format!("sched {lanes} {kmax} | {}", s.prep.iter().map(|x| x.as_canonical_u64().to_string()).collect::<Vec<_>>().join(" ")));
        lines.1.push(format!("m {} {}", rows.len(), rows.iter().map(|r| r.iter().map(|x| x.as_canonical_u64().to_string()).collect::<Vec<_>>().join(" ")).collect::<Vec<_>>().join(" ; ")));
    }
    if main.height() != prep.height() {
        violations.push(json!({"property":"C11","kind":"height-mismatch","class":"height-mismatch","replay":desc}));
        return 0;
    }
    let mut evals = 1;
    if let Some((r, ci)) = eval_all_windows(d, lanes, kmax, kind, &main, &prep) {
        violations.push(json!({"property":"C11","kind":"honest-scheduled-trace-rejected","class":"rejects-valid-row",
            "row": r, "constraint": ci, "replay": desc}));
        return evals;
    }
    if !relations_hold::<E>(lanes, kmax, &main, &prep) {
        // the decoder disagrees with the honest trace: harness bug, do not judge
        *hist.entry("sched.decoder_disagrees".into()).or_default() += 1;
        return evals;
    }
    // single-cell tampering of operand cells of active lanes and of packed (a_t, c_t) cells
    let w = main.width();
    let num_int = (kmax - 1) / 2;
    for _ in 0..tampers {
        let r = rng.usize(main.height());
        let prow: Vec<F> = prep.row_slice(r).unwrap().to_vec();
        let lane = rng.usize(lanes);
        // one tamper in four hits an arbitrary cell of the row — inactive lanes, separator and
        // padding rows, unused extra columns included: a cell nobody constrains must also be a
        // cell nobody *reads* (neither another row's constraint nor a live bus tuple)
        let anywhere = rng.chance(1, 4);
        if !anywhere && prow[lane * 13] == F::ZERO {
            continue;
        }
        let extra_prep = lanes * 13;
        let k = (2..=kmax).find(|kk| prow[extra_prep + kk - 2] == F::ONE).unwrap_or(1);
        let col = if anywhere {
            rng.usize(w)
        } else if lane == 0 && k >= 2 && rng.chance(1, 2) {
            match rng.below(4) {
                // b^2 column
                0 => lanes * 4 * d + num_int * d + 2 * (kmax - 1) * d + rng.usize(d),
                // a constrained intermediate slot, if the arity has one
                1 if k >= 3 => lanes * 4 * d + rng.usize(((k - 1) / 2) * d),
                _ => lanes * 4 * d + num_int * d + rng.usize(2 * (k - 1) * d),
            }
        } else {
            lane * 4 * d + rng.usize(4 * d)
        };
        let mut m2 = main.clone();
        m2.values[r * w + col] += F::from_u64(1 + rng.below(P - 1));
        let holds = relations_hold::<E>(lanes, kmax, &m2, &prep);
        let rejected = eval_all_windows(d, lanes, kmax, kind, &m2, &prep).is_some();
        evals += 1;
        *hist.entry(format!("tamper.{}", if holds { "still-valid" } else { "invalid" })).or_default() += 1;
        if holds == rejected {
            let mut rp = desc.clone();
            rp["tamper"] = json!({"row": r, "col": col, "arity": k});
            violations.push(json!({"property":"C11","kind": if rejected {"row-rejected-but-relation-holds"} else {"row-accepted-but-relation-fails"},
                "class": if rejected {"rejects-valid-row"} else {"accepts-invalid-row"}, "replay": rp}));
        }
    }
    // chain-start forgery: the accumulator of a chain's first step is read from the previous row's
    // lane-0 `out` cell, which on a separator row is bound by nothing unless the AIR pins it to
    // zero. Put X there and re-derive the first step's `out` (single-step first rows whose chain
    // ends there, so no later row has to be recomputed): the AIR must reject.
    for r in 0..main.height() {
        let h = main.height();
        let pr = (r + h - 1) % h;
        let nx = (r + 1) % h;
        let prow: Vec<F> = prep.row_slice(r).unwrap().to_vec();
        let pprev: Vec<F> = prep.row_slice(pr).unwrap().to_vec();
        let pnext: Vec<F> = prep.row_slice(nx).unwrap().to_vec();
        let extra_prep = lanes * 13;
        let packed = (2..=kmax).any(|kk| prow[extra_prep + kk - 2] == F::ONE);
        if prow[0] == F::ZERO || prow[4] != F::ONE || packed || pprev[0] != F::ZERO || pnext[4] == F::ONE {
            continue;
        }
        let get = |row: &[F], off: usize| -> E { E::from_basis_coefficients_slice(&row[off..off + d]).unwrap() };
        let row: Vec<F> = main.row_slice(r).unwrap().to_vec();
        let (a, b, c): (E, E, E) = (get(&row, 0), get(&row, d), get(&row, 2 * d));
        let x: E = rand_elt(rng);
        if x * b == E::ZERO {
            continue;
        }
        let mut m2 = main.clone();
        m2.values[pr * w + 3 * d..pr * w + 4 * d].copy_from_slice(x.as_basis_coefficients_slice());
        let new_out = x * b + c - a;
        m2.values[r * w + 3 * d..r * w + 4 * d].copy_from_slice(new_out.as_basis_coefficients_slice());
        let holds = relations_hold::<E>(lanes, kmax, &m2, &prep);
        let rejected = eval_all_windows(d, lanes, kmax, kind, &m2, &prep).is_some();
        evals += 1;
        *hist.entry(format!("chain-start-forgery.{}", if rejected { "rejected" } else { "accepted" })).or_default() += 1;
        if !holds && !rejected {
            let mut rp = desc.clone();
            rp["tamper"] = json!({"separator_row": pr, "horner_row": r, "what": "separator out cell := X, first step out := X*b + c - a"});
            violations.push(json!({"property":"C11","kind":"row-accepted-but-relation-fails","class":"accepts-invalid-row","replay": rp}));
        }
        break;
    }
    evals
}

pub fn sched_main(args: &crate::Args) {
    let seed = args.u64("seed", 1);
    let n = args.u64("cases", 300) as usize;
    let tampers = args.u64("tampers", 12) as usize;
    let out = args.str("out", "/tmp/p3r");
    std::fs::create_dir_all(&out).unwrap();
    let mut rng = Rng::new(seed ^ 0x5ced);
    let mut hist: BTreeMap<String, u64> = BTreeMap::new();
    let mut violations: Vec<Value> = vec![];
    let mut evals = 0usize;
    let mut lines: (Vec<String>, Vec<String>) = (vec![], vec![]);
    for i in 0..n {
        evals += if i % 3 == 0 {
            sched_case::<E4>(&mut rng, Kind::Bin(11), &mut hist, &mut violations, tampers, &mut lines)
        } else {
            sched_case::<F>(&mut rng, Kind::Base, &mut hist, &mut violations, tampers, &mut lines)
        };
    }
    std::fs::write(format!("{out}/alusched.cases"), lines.0.join("\n") + "\n").unwrap();
    std::fs::write(format!("{out}/alusched.impl"), lines.1.join("\n") + "\n").unwrap();
    let report = json!({"evaluations": evals, "cases": n, "hist": hist, "violations": violations, "seed": seed});
    std::fs::write(format!("{out}/alusched.report.json"), serde_json::to_string_pretty(&report).unwrap()).unwrap();
    println!("alusched: cases={} evals={} violations={}", n, evals, violations.len());
}
