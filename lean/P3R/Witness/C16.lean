/-
C16 records of the behaviour before `fixes/C16-1.diff` on concrete metadata, restated for the
patched verifier (both are replayed on the real `verify_all_tables` by the harness on every run:
`directed:same-alu-main-width` cases, the `packing.alu_lanes` / `common.width` single alterations
and the corpus case of F-C16-1). Nothing here negates a theorem of `P3R.Props.C16`.

Setting: base field (`D = 1`), no plug-ins, an honest proof made with `public_lanes = 3`,
`alu_lanes = 3`, `horner_packed_steps = 2`; its `stark_common` declares preprocessed widths
2 (Const), 6 (Public), 46 (ALU: 3·13 + 7).
-/
import P3R.Props.C16

namespace P3R.Witness.C16
open P3R.Metadata P3R.C16

def exp : Expected := ⟨1, none, false⟩

def common : Common :=
  { commitment := [[1, 2, 3, 4, 5, 6, 7, 8]]
    instances := [some ⟨0, 2, 2⟩, some ⟨1, 6, 2⟩, some ⟨2, 46, 2⟩]
    m2i := [0, 1, 2] }

/-- the honest proof's metadata -/
def orig : Meta :=
  { packing := ⟨3, 3, [], 4, 2⟩, rows := (1, 6, 2), aluVariant := 1, d := 1, w := none, quintic := false,
    entries := [], common := some common }

/-- `alu_lanes 3 → 1`, `horner_packed_steps 2 → 5`: same ALU main width (4·3+3 = 4·1+11 = 15),
fewer preprocessed columns read (13 + 28 = 41 ≤ 46 declared). -/
def alt : Meta := { orig with packing := ⟨3, 1, [], 4, 5⟩ }

/-- `alu_lanes 3 → 4`: the rebuilt ALU AIR reads 59 preprocessed columns, 46 are declared. -/
def altWide : Meta := { orig with packing := ⟨3, 4, [], 4, 2⟩ }

def s0 : Sys := ⟨[.const 1, .pub 1 3, .alu 1 3 2 .base], [[], [], []], some common⟩
def s1 : Sys := ⟨[.const 1, .pub 1 3, .alu 1 1 5 .base], [[], [], []], some common⟩
def body : Body := bodyOf s0

theorem sys_orig : sysOf exp [] orig = some s0 := by decide
theorem sys_alt : sysOf exp [] alt = some s1 := by decide

/-- the unaltered proof passes the declared-width check and the shape stage -/
theorem orig_passes : shapeStage s0 body = none := by decide

theorem orig_prep_exact : PrepExact s0 := by unfold PrepExact; decide
theorem alt_not_prep_exact : ¬ PrepExact s1 := by unfold PrepExact; decide

/-- Record of the old collision: `(alu_lanes, K) = (3,2)` and `(1,5)` have the same ALU main
width and 41 ≤ 46 declared columns, so before `fixes/C16-1.diff` both passed every modelled
check against the same body. With the declared-width check the altered record is rejected
before `verify_batch` (46 declared ≠ 41 read). -/
theorem same_main_width_now_rejected : shapeStage s1 body = some (.reject "prep-width") := by decide

/-- Record of F-C16-1: `alu_lanes 3 → 4` (59 columns read, 46 declared) used to make the
verifier panic; it is now a rejection, whatever the cryptographic layer says. -/
theorem underdeclared_width_rejected (crypto : Sys → Bool) :
    verify crypto body exp [] altWide = .reject "prep-width" := by
  simp only [verify]
  rfl

end P3R.Witness.C16

#print axioms P3R.Witness.C16.same_main_width_now_rejected
#print axioms P3R.Witness.C16.underdeclared_width_rejected
