/-
C02 — algebra of the shape run (`Model/RunnerShape.lean`).

* `Rel ρ t u` — simulation between two definedness tables along a slot map `ρ`: same size, and
  every slot set in `t` has its image set in `u`;
* `sim_step` / `sim_run` — one op / an op list executed on `t` can be replayed, renamed by `ρ`, on
  every `u` that simulates `t` (the runner's forward / backward choice may differ: a row that ran
  backward on `t` runs forward on `u` when `ρ b` is already set there — the write of `out` is then a
  re-check of a set slot);  with `ρ = id` this is monotonicity of the shape run in the table;
* `run_written` — after a successful run every ALU row's `out`, `a` (and `b`, except for `BoolCheck`)
  are set; `run_sub` — a run only ever sets bits.
-/
import P3R.Model.RunnerShape
import P3R.Lemmas.Resolve
import Mathlib.Tactic.Linarith

namespace P3R.C02S
open P3R

variable {K : Type}

/-! ### `getS` / `setS` -/

theorem getS_lt {t : Array Bool} {i : Nat} (h : getS t i = true) : i < t.size := by
  unfold getS at h
  by_contra hge
  simp [Array.getD, hge] at h

theorem getS_set (t : Array Bool) (i j : Nat) :
    getS (t.setIfInBounds i true) j = true ↔ getS t j = true ∨ (j = i ∧ i < t.size) := by
  unfold getS
  by_cases hj : j < t.size
  · by_cases hji : j = i
    · subst hji
      simp [Array.getD, hj]
    · have : (t.setIfInBounds i true)[j]'(by simpa using hj) = t[j] :=
        Array.getElem_setIfInBounds_ne (by simpa using hj) (fun h => hji h.symm)
      simp [Array.getD, hj, this, hji]
  · have h1 : ¬ j < (t.setIfInBounds i true).size := by simpa using hj
    simp only [Array.getD, h1, hj, dif_neg, not_false_eq_true]
    constructor
    · intro h; cases h
    · rintro (h | ⟨rfl, h⟩)
      · cases h
      · exact absurd h hj

theorem setS_some {t t' : Array Bool} {i : Nat} (h : setS t i = some t') :
    i < t.size ∧ t' = t.setIfInBounds i true := by
  unfold setS at h
  split at h
  · rename_i hlt; cases h; exact ⟨hlt, rfl⟩
  · cases h

theorem setS_of_lt {t : Array Bool} {i : Nat} (h : i < t.size) :
    setS t i = some (t.setIfInBounds i true) := by
  unfold setS; rw [if_pos h]

/-- Simulation of `t` by `u` along `ρ`. -/
def Rel (ρ : Nat → Nat) (t u : Array Bool) : Prop :=
  u.size = t.size ∧ ∀ i, getS t i = true → getS u (ρ i) = true

theorem Rel.set {ρ : Nat → Nat} {t u : Array Bool} (h : Rel ρ t u) (k : Nat) :
    Rel ρ t (u.setIfInBounds k true) :=
  ⟨by simpa using h.1, fun i hi => (getS_set u k _).mpr (Or.inl (h.2 i hi))⟩

/-- Writing `i` on the left is matched by writing `ρ i` on the right. -/
theorem Rel.setBoth {ρ : Nat → Nat} {t u : Array Bool} (h : Rel ρ t u) (i : Nat)
    (hb : ρ i < t.size) :
    Rel ρ (t.setIfInBounds i true) (u.setIfInBounds (ρ i) true) := by
  refine ⟨by simpa using h.1, fun j hj => ?_⟩
  rcases (getS_set t i j).mp hj with hj | ⟨rfl, _⟩
  · exact (getS_set u _ _).mpr (Or.inl (h.2 j hj))
  · exact (getS_set u _ _).mpr (Or.inr ⟨rfl, by rw [h.1]; exact hb⟩)

/-- Writing `i` on the left when `ρ i` is already set on the right. -/
theorem Rel.setLeft {ρ : Nat → Nat} {t u : Array Bool} (h : Rel ρ t u) (i : Nat)
    (hs : getS u (ρ i) = true) : Rel ρ (t.setIfInBounds i true) u := by
  refine ⟨by simpa using h.1, fun j hj => ?_⟩
  rcases (getS_set t i j).mp hj with hj | ⟨rfl, _⟩
  · exact h.2 j hj
  · exact hs

theorem Rel.refl (t : Array Bool) : Rel id t t := ⟨rfl, fun _ h => h⟩

theorem Rel.trans_id {t u v : Array Bool} (h1 : Rel id t u) (h2 : Rel id u v) : Rel id t v :=
  ⟨h2.1.trans h1.1, fun i hi => h2.2 i (h1.2 i hi)⟩

theorem Rel.comp_id {ρ : Nat → Nat} {t u v : Array Bool} (h1 : Rel ρ t u) (h2 : Rel id u v) : Rel ρ t v :=
  ⟨h2.1.trans h1.1, fun i hi => h2.2 _ (h1.2 i hi)⟩

theorem grow_set (u : Array Bool) (k : Nat) : Rel id u (u.setIfInBounds k true) := (Rel.refl u).set k

/-- `setS` on the left replayed on the right. -/
theorem setS_sim {ρ : Nat → Nat} {t u t1 : Array Bool} (hR : Rel ρ t u)
    (hρ : ∀ i, i < t.size → ρ i < t.size) {i : Nat} (h : setS t i = some t1) :
    ∃ u1, setS u (ρ i) = some u1 ∧ Rel ρ t1 u1 ∧ Rel id u u1 := by
  obtain ⟨hlt, rfl⟩ := setS_some h
  have hb := hρ i hlt
  exact ⟨_, setS_of_lt (by rw [hR.1]; exact hb), hR.setBoth i hb, grow_set u _⟩

/-! ### Renaming an op -/

/-- `Op.rewrite`, for an arbitrary slot map. -/
def mapOp (ρ : Nat → Nat) : Op K → Op K
  | .const out v => .const (ρ out) v
  | .pub out pos => .pub (ρ out) pos
  | .alu k a b c out io => .alu k (ρ a) (ρ b) (c.map ρ) (ρ out) (io.map ρ)
  | .hint ins outs k => .hint (ins.map ρ) (outs.map ρ) k
  | .npo ins outs id k => .npo (ins.map (·.map ρ)) (outs.map (·.map ρ)) id k

theorem rewrite_eq_mapOp (rw : Rewrite) (op : Op K) : op.rewrite rw = mapOp (resolve rw) op := by
  cases op <;> rfl

theorem mapOp_id (op : Op K) : mapOp id op = op := by
  cases op <;> simp [mapOp]

theorem foldSet_sim {ρ : Nat → Nat} :
    ∀ (outs : List Nat) (t u t1 : Array Bool), Rel ρ t u → (∀ i, i < t.size → ρ i < t.size) →
      outs.foldlM (fun t o => setS t o) t = some t1 →
      ∃ u1, (outs.map ρ).foldlM (fun t o => setS t o) u = some u1 ∧ Rel ρ t1 u1 ∧ Rel id u u1 := by
  intro outs
  induction outs with
  | nil =>
    intro t u t1 hR _ h
    simp only [List.foldlM_nil, pure, Option.some.injEq] at h
    subst h
    exact ⟨u, rfl, hR, Rel.refl u⟩
  | cons o rest ih =>
    intro t u t1 hR hb h
    simp only [List.foldlM_cons, List.map_cons] at h ⊢
    cases hs : setS t o with
    | none => rw [hs] at h; simp at h
    | some t2 =>
      rw [hs] at h
      obtain ⟨u2, hu2, hR2, hg2⟩ := setS_sim hR hb hs
      rw [hu2]
      have hsz : t2.size = t.size := by
        obtain ⟨_, rfl⟩ := setS_some hs; simp
      obtain ⟨u1, e1, r1, g1⟩ := ih t2 u2 t1 hR2 (by rw [hsz]; exact hb) h
      exact ⟨u1, e1, r1, hg2.trans_id g1⟩

/-- Size is kept by `setS`. -/
theorem setS_size {t t1 : Array Bool} {i : Nat} (h : setS t i = some t1) : t1.size = t.size := by
  obtain ⟨_, rfl⟩ := setS_some h; simp

/-- **One op, replayed.** -/
theorem sim_step {ρ : Nat → Nat} {t u t1 : Array Bool} (hR : Rel ρ t u)
    (hρ : ∀ i, i < t.size → ρ i < t.size) (op : Op K) (h : execOpShape t op = some t1) :
    ∃ u1, execOpShape u (mapOp ρ op) = some u1 ∧ Rel ρ t1 u1 ∧ Rel id u u1 := by
  have fin : ∀ {i : Nat}, setS t i = some t1 →
      ∃ u1, setS u (ρ i) = some u1 ∧ Rel ρ t1 u1 ∧ Rel id u u1 :=
    fun hs => setS_sim hR hρ hs
  cases op with
  | const out v => exact fin h
  | pub out pos =>
    simp only [execOpShape, mapOp] at h ⊢
    split at h
    · rename_i hg
      cases h
      exact ⟨u, by rw [if_pos (hR.2 _ hg)], hR, Rel.refl u⟩
    · cases h
  | npo _ _ _ _ => simp [execOpShape] at h
  | hint ins outs kd =>
    cases kd with
    | table _ => simp [execOpShape] at h
    | hintBits =>
      match ins, h with
      | [x], h =>
        simp only [execOpShape, mapOp, List.map_cons, List.map_nil] at h ⊢
        split at h
        · cases h
        · rename_i hg
          have hx : getS t x = true := by simpa using hg
          rw [if_neg (by simp [hR.2 x hx])]
          exact foldSet_sim outs t u t1 hR hρ h
      | [], h => simp [execOpShape] at h
      | _ :: _ :: _, h => simp [execOpShape] at h
    | hintExt =>
      match ins, outs, h with
      | [x], [o], h =>
        simp only [execOpShape, mapOp, List.map_cons, List.map_nil] at h ⊢
        split at h
        · cases h
        · rename_i hg
          have hx : getS t x = true := by simpa using hg
          rw [if_neg (by simp [hR.2 x hx])]
          exact fin h
      | [], _, h => simp [execOpShape] at h
      | [_], [], h => simp [execOpShape] at h
      | [_], _ :: _ :: _, h => simp [execOpShape] at h
      | _ :: _ :: _, _, h => simp [execOpShape] at h
  | alu k a b c out io =>
    simp only [execOpShape, mapOp] at h ⊢
    have am : (if !getS t a then none else if getS t b then setS t out
        else if !getS t out then none else setS t b) = some t1 →
        ∃ u1, (if !getS u (ρ a) then none else if getS u (ρ b) then setS u (ρ out)
          else if !getS u (ρ out) then none else setS u (ρ b)) = some u1 ∧ Rel ρ t1 u1 ∧ Rel id u u1 := by
      intro h
      split at h
      · cases h
      · rename_i hga
        have ha : getS t a = true := by simpa using hga
        rw [if_neg (by simp [hR.2 a ha])]
        split at h
        · rename_i hgb
          rw [if_pos (hR.2 b hgb)]
          exact fin h
        · split at h
          · cases h
          · rename_i hgo
            have ho : getS t out = true := by simpa using hgo
            obtain ⟨hlt, rfl⟩ := setS_some h
            by_cases hub : getS u (ρ b) = true
            · rw [if_pos hub]
              have hob := hρ out (getS_lt ho)
              exact ⟨_, setS_of_lt (by rw [hR.1]; exact hob), (hR.setLeft b hub).set _, grow_set u _⟩
            · rw [if_neg hub, if_neg (by simp [hR.2 out ho])]
              exact fin (setS_of_lt hlt)
    cases k with
    | add => exact am h
    | mul => exact am h
    | boolCheck =>
      simp only [execAluShape] at h ⊢
      split at h
      · cases h
      · rename_i hga
        have ha : getS t a = true := by simpa using hga
        rw [if_neg (by simp [hR.2 a ha])]
        exact fin h
    | horner =>
      simp only [execAluShape] at h ⊢
      match io, c, h with
      | some acc, some cId, h =>
        simp only [Option.map_some] at h ⊢
        split at h
        · cases h
        · rename_i hg
          simp only [Bool.or_eq_true, Bool.not_eq_true', not_or, Bool.not_eq_false] at hg
          obtain ⟨⟨⟨h1, h2⟩, h3⟩, h4⟩ := hg
          rw [if_neg (by simp [hR.2 _ h1, hR.2 _ h2, hR.2 _ h3, hR.2 _ h4])]
          exact fin h
      | none, _, h => simp at h
      | some _, none, h => simp at h
    | mulAdd =>
      simp only [execAluShape] at h ⊢
      split at h
      · cases h
      · rename_i hg
        simp only [Bool.or_eq_true, Bool.not_eq_true', not_or, Bool.not_eq_false] at hg
        obtain ⟨h1, h2⟩ := hg
        rw [if_neg (by simp [hR.2 _ h1, hR.2 _ h2])]
        have tail : ∀ (c : Option Nat) (t2 u2 : Array Bool), Rel ρ t2 u2 → Rel id u u2 → t2.size = t.size →
            (match c with
              | some ci => if !getS t2 ci then none else setS t2 out
              | none => setS t2 out) = some t1 →
            ∃ u1, (match c.map ρ with
              | some ci => if !getS u2 ci then none else setS u2 (ρ out)
              | none => setS u2 (ρ out)) = some u1 ∧ Rel ρ t1 u1 ∧ Rel id u u1 := by
          intro c t2 u2 hR2 hg2 hsz2 htail
          have fin2 : ∀ {i : Nat}, setS t2 i = some t1 →
              ∃ u1, setS u2 (ρ i) = some u1 ∧ Rel ρ t1 u1 ∧ Rel id u u1 :=
            fun hs => by
              obtain ⟨u1, h1, h2, h3⟩ := setS_sim hR2 (by rw [hsz2]; exact hρ) hs
              exact ⟨u1, h1, h2, hg2.trans_id h3⟩
          cases c with
          | none => exact fin2 htail
          | some ci =>
            simp only [Option.map_some] at htail ⊢
            split at htail
            · cases htail
            · rename_i hgc
              have hc : getS t2 ci = true := by simpa using hgc
              rw [if_neg (by simp [hR2.2 _ hc])]
              exact fin2 htail
        cases io with
        | none =>
          simp only [Option.map_none] at h ⊢
          exact tail c t u hR (Rel.refl u) rfl h
        | some i =>
          simp only [Option.map_some] at h ⊢
          cases hs : setS t i with
          | none => rw [hs] at h; simp at h
          | some t2 =>
            rw [hs] at h
            obtain ⟨u2, hu2, hR2, hg2⟩ := setS_sim hR hρ hs
            rw [hu2]
            exact tail c t2 u2 hR2 hg2 (setS_size hs) h

/-- A step keeps the size and only sets bits. -/
theorem step_sub {t t1 : Array Bool} (op : Op K) (h : execOpShape t op = some t1) : Rel id t t1 := by
  obtain ⟨u1, h1, _, h3⟩ := sim_step (Rel.refl t) (fun _ h => h) op h
  rw [mapOp_id, h] at h1
  cases h1
  exact h3

/-- The op-list run. -/
def runOps (t : Array Bool) (ops : List (Op K)) : Option (Array Bool) := ops.foldlM execOpShape t

theorem runOps_nil (t : Array Bool) : runOps t ([] : List (Op K)) = some t := rfl

theorem runOps_cons (t : Array Bool) (op : Op K) (ops : List (Op K)) :
    runOps t (op :: ops) = (execOpShape t op).bind fun t1 => runOps t1 ops := by
  unfold runOps
  simp only [List.foldlM_cons]
  cases execOpShape t op <;> rfl

theorem runOps_append (t : Array Bool) (l1 l2 : List (Op K)) :
    runOps t (l1 ++ l2) = (runOps t l1).bind fun t1 => runOps t1 l2 := by
  induction l1 generalizing t with
  | nil => simp [runOps]
  | cons op l1 ih =>
    rw [List.cons_append, runOps_cons, runOps_cons]
    cases execOpShape t op with
    | none => rfl
    | some t1 => simp only [Option.bind_some]; exact ih t1

theorem run_sub {t t1 : Array Bool} (ops : List (Op K)) (h : runOps t ops = some t1) : Rel id t t1 := by
  induction ops generalizing t with
  | nil => cases h; exact Rel.refl _
  | cons op ops ih =>
    rw [runOps_cons] at h
    cases hs : execOpShape t op with
    | none => rw [hs] at h; cases h
    | some t2 =>
      rw [hs] at h
      exact (step_sub op hs).trans_id (ih h)

/-- **An op list, replayed.** -/
theorem sim_run {ρ : Nat → Nat} (ops : List (Op K)) {t u t1 : Array Bool} (hR : Rel ρ t u)
    (hρ : ∀ i, i < t.size → ρ i < t.size) (h : runOps t ops = some t1) :
    ∃ u1, runOps u (ops.map (mapOp ρ)) = some u1 ∧ Rel ρ t1 u1 := by
  induction ops generalizing t u with
  | nil => cases h; exact ⟨u, rfl, hR⟩
  | cons op ops ih =>
    rw [runOps_cons] at h
    cases hs : execOpShape t op with
    | none => rw [hs] at h; cases h
    | some t2 =>
      rw [hs] at h
      obtain ⟨u2, e2, r2, _⟩ := sim_step hR hρ op hs
      rw [List.map_cons, runOps_cons, e2]
      exact ih r2 (by rw [(step_sub op hs).1]; exact hρ) h

theorem map_mapOp_id (ops : List (Op K)) : ops.map (mapOp id) = ops := by
  induction ops with
  | nil => rfl
  | cons o os ih => rw [List.map_cons, mapOp_id, ih]

/-- Monotonicity of the run in the table. -/
theorem run_mono (ops : List (Op K)) {t u t1 : Array Bool} (hR : Rel id t u)
    (h : runOps t ops = some t1) : ∃ u1, runOps u ops = some u1 ∧ Rel id t1 u1 := by
  obtain ⟨u1, h1, h2⟩ := sim_run ops hR (fun _ h => h) h
  rw [map_mapOp_id] at h1
  exact ⟨u1, h1, h2⟩

end P3R.C02S
