/-
C08: the per-level digests. `levelSpec` is the pure description (span the tallest-first list by
"height rounds up to the level's power of two", hash the concatenated streams with the native
sponge); `levelDigests_spec` shows the circuit's level hashing computes it.
-/
import P3R.Lemmas.MmcsPath

namespace P3R.Mmcs
variable {K : Type} [Zero K] [One K] [DecidableEq K]

/-- Successive spans of the tallest-first list by target power of two. -/
def levelGroups : List Nat → List (Nat × Dim) → List (List (Nat × Dim))
  | [], _ => []
  | t :: ts, sorted =>
    (sorted.span (fun x => npt x.2.height == t)).1 :: levelGroups ts (sorted.span (fun x => npt x.2.height == t)).2

/-- What is left of the tallest-first list after the levels `ts`. -/
def levelRest : List Nat → List (Nat × Dim) → List (Nat × Dim)
  | [], sorted => sorted
  | t :: ts, sorted => levelRest ts (sorted.span (fun x => npt x.2.height == t)).2

def groupData (streams : List (List K)) (grp : List (Nat × Dim)) : List K :=
  (grp.map (fun x => streams.getD x.1 [])).flatten

/-- Digest of one level: `[]` when no coefficient is present, else the native sponge. -/
def levelDigest (perm : List K → List K) (c : Cfg) (streams : List (List K)) (grp : List (Nat × Dim)) : List K :=
  if (groupData streams grp).isEmpty then [] else sponge perm c (groupData streams grp)

def levelSpec (perm : List K → List K) (c : Cfg) (streams : List (List K)) (ts : List Nat)
    (sorted : List (Nat × Dim)) : List (List K) :=
  (levelGroups ts sorted).map (levelDigest perm c streams)

theorem levelDigests_spec (perm : List K → List K) (pc : PermCfg) (c : Cfg) (h4 : pc.arity4 = false)
    (hW : c.W = pc.W) (hr : c.rate = pc.rate) (hd : c.dig = pc.rate)
    (hperm : ∀ x, x.length = pc.W → (perm x).length = pc.W) (hrate : pc.rate ≤ pc.W)
    (L : Nat) (streams : List (List K)) :
    ∀ (is : List Nat) (sorted : List (Nat × Dim)) (st : ExecSt K),
      ∃ st', levelDigests perm pc L streams is sorted st
          = some (st', levelSpec perm c streams (is.map fun i => 1 <<< (L - i)) sorted)
        ∧ st'.merkle = st.merkle := by
  intro is
  induction is with
  | nil => intro sorted st; exact ⟨st, rfl, rfl⟩
  | cons i is ih =>
    intro sorted st
    unfold levelDigests
    simp only [List.map_cons, levelSpec, levelGroups]
    by_cases he : (groupData streams (sorted.span (fun x => npt x.2.height == 1 <<< (L - i))).1).isEmpty
    · obtain ⟨st', h1, h2⟩ := ih (sorted.span (fun x => npt x.2.height == 1 <<< (L - i))).2 st
      refine ⟨st', ?_, h2⟩
      have he' := he
      unfold groupData at he'
      simp only [he', if_true, h1, Option.map_some, levelSpec, levelDigest, he]
    · have hne : groupData streams (sorted.span (fun x => npt x.2.height == 1 <<< (L - i))).1 ≠ [] := by
        intro h; simp [h] at he
      obtain ⟨st1, hh, hm1⟩ := sponge_overwrite_eq perm pc c h4 hW hr hd hperm hrate st _ hne
      obtain ⟨st', h1, h2⟩ := ih (sorted.span (fun x => npt x.2.height == 1 <<< (L - i))).2 st1
      refine ⟨st', ?_, by rw [h2, hm1]⟩
      have he' := he
      unfold groupData at he' hh
      simp only [he', Bool.false_eq_true, if_false, hh, h1, Option.map_some, levelSpec, levelDigest, he]
      rfl

end P3R.Mmcs
