/-
C13 — record of finding F-C13-1 (repaired) on its concrete AIR.

The AIR has one main column and asserts, in this order,
  1. the extension constraint `1 + main[0]`   (`assert_zero_ext`),
  2. the base constraint      `main[0]`       (`assert_zero`).
The native folder accumulates in emission order: `(0·α + (1 + x))·α + x`.
Before the repair `eval_folded_circuit` folded every base constraint before every extension
constraint, i.e. it computed the native fold of the *reordered* emission
`(0·α + x)·α + (1 + x)`. With `x = 5`, `α = 2` these are `17` and `16`
(`prefix_order_value`): that was the counter-example to the full C13 statement.

After the repair (`eval_folded_circuit` walks `get_constraint_layout` order; the model
`evalFoldedAir` does the same) the full statement `P3R.C13.evalFoldedAir_sound` is a theorem and
this file no longer refutes anything: `circuit_value_fixed` evaluates the model on the AIR and
gets the native `17`. The same AIR stays in the harness corpus
(`corpus/c13/fc13_1_ext_before_base.json`, case `witness:ext_before_base`) as a regression case:
on the real code the circuit value must equal the native value.
-/
import P3R.Props.C13

namespace P3R.Witness.C13
open P3R P3R.C13

/-- Builder with two public inputs: id 1 (the opened main cell) and id 2 (alpha). -/
def s0 : BState ℤ := ((BState.init : BState ℤ).allocPublic.1).allocPublic.1

def ρ : Nat → ℤ := fun pos => if pos = 0 then 5 else 2

/-- base node 0: the base constraint `main[0]`; base node 1: the base leaf inside the
extension constraint (its own inline node, as in `ExtLeaf::Base`). -/
def bdag : Array (BNode ℤ) := #[.var (.main 0) 0, .var (.main 0) 0]
def xdag : Array (XNode ℤ) := #[.base 1, .const 1, .add 1 0]

/-- selectors are the constant-zero node; the only opened column is `main[0]` = id 1. -/
def T : Cols Nat :=
  { isFirst := 0, isLast := 0, isTrans := 0, cat := fun c => match c with | .locals => #[1] | _ => #[] }
def E : Cols ℤ :=
  { isFirst := 0, isLast := 0, isTrans := 0, cat := fun c => match c with | .locals => #[5] | _ => #[] }

/-- emission order of the AIR: the extension constraint first. -/
def em : Emission := [(true, 2), (false, 0)]

/-- The emission with all base constraints moved in front (what the code folded before the
repair). -/
def reorder (em : Emission) : Emission := em.filter (fun p => !p.1) ++ em.filter (fun p => p.1)

/-- Native folder value of the AIR. -/
theorem native_value : nativeFolded bdag xdag E 2 em = some 17 := by decide

/-- What the pre-repair fold order computed: a different value. -/
theorem prefix_order_value : nativeFolded bdag xdag E 2 (reorder em) = some 16 := by decide

/-- The model of the repaired `eval_folded_circuit` on this AIR: the native value. -/
theorem circuit_value_fixed :
    (evalFoldedAir bdag xdag T 2 em s0).map (fun st => st.b.val ρ st.acc) = some (some 17) := by
  decide +kernel

/-- The hypotheses of `P3R.C13.evalFoldedAir_sound` hold for this instance (so the computed
value above is an instance of the theorem, not an accident). -/
theorem hyps : BInv ρ s0 ∧ WfB bdag ∧ WfX xdag ∧ Agree (s0.val ρ) T E ∧ s0.val ρ 2 = some 2 := by
  refine ⟨binv_allocPublic (binv_allocPublic (binv_init ρ)), wfB_sound (by decide),
    wfX_sound (by decide), ⟨by decide, by decide, by decide, ?_⟩, by decide⟩
  intro c i v h
  cases c <;> simp only [E] at h <;> try (simp at h)
  cases i with
  | zero =>
    simp at h
    subst h
    exact ⟨1, by simp [T], by decide +kernel⟩
  | succ i => simp at h

/-- The general theorem instantiated at the former counter-example. -/
theorem regression :
    ∃ st, evalFoldedAir bdag xdag T 2 em s0 = some st ∧ st.b.val ρ st.acc = some 17 := by
  obtain ⟨h1, h2, h3, h4, h5⟩ := hyps
  obtain ⟨st, hst, hval, _, _⟩ :=
    evalFoldedAir_sound ρ s0 h1 bdag h2 xdag h3 T E h4 2 2 h5 em 17 native_value
  exact ⟨st, hst, hval⟩

end P3R.Witness.C13

#print axioms P3R.Witness.C13.regression
#print axioms P3R.Witness.C13.prefix_order_value
