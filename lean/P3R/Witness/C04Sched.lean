/-
Witnesses for `P3R.C04.scheduled_accepted_sat` / `sched_rows_sat` (`Props/C04Sched`): `D = 1`,
`K = L = ℤ/7`, `lanes = 2`, `K_max = 2`, a circuit with a PACKED Horner chain.

    s0 := 0, s1 := 2 (b), s2 := 3 (c), s3 := 1 (a)            (Const)
    ALU op 0:  s4 := horner(acc = s0, b = s1, c = s2, a = s3) = 0·2 + 3 − 1 = 2
    ALU op 1:  s5 := horner(acc = s4, b = s1, c = s2, a = s3) = 2·2 + 3 − 1 = 6
    ALU op 2:  s6 := s1 + s2 = 5

`compute_schedule` (model) packs ops 0, 1 into one row: `[sep, op 2 | packed 0 2, sep]` (2 rows of
2 lanes). The honest main trace satisfies every window constraint of `aluConstraints` against the
scheduled preprocessed matrix; a forged `out` cell of the packed row does not.
-/
import Mathlib.Data.ZMod.Basic
import Mathlib.Algebra.Field.ZMod
import Mathlib.Tactic.NormNum.Prime
import Mathlib.Tactic.IntervalCases
import P3R.Props.C04Sched

namespace P3R.Witness.C04Sched
open P3R P3R.C04 P3R.C09 P3R.C11

abbrev K := ZMod 7

instance : Fact (Nat.Prime 7) := ⟨by norm_num⟩

def ops : List (Op K) :=
  [.const 0 0, .const 1 2, .const 2 3, .const 3 1,
   .alu .horner 3 1 (some 2) 4 (some 0), .alu .horner 3 1 (some 2) 5 (some 4),
   .alu .add 1 2 none 6 none]

/-- 13 preprocessed columns per ALU op (`mult_a, sel_add, sel_bool, sel_mul_add, sel_horner, a, b, c,
out idx, mult_b, mult_out, a_reader, c_reader`); the Horner outputs are bus-silent (`mult_out = 0`). -/
def preps : List (List K) :=
  [[-1, 0, 0, 0, 1, 3, 1, 2, 4, -1, 0, 1, 1],
   [-1, 0, 0, 0, 1, 3, 1, 2, 5, -1, 0, 1, 1],
   [-1, 1, 0, 0, 0, 1, 2, 0, 6, -1, 0, 1, 0]]

def sched : List SchedEntry := [.sep, .op 2, .packed 0 2, .sep]

/-- The model of `compute_schedule` packs the two chained steps (lanes = 2, `K_max` = 2). -/
theorem sched_eq : computeSchedule preps 2 2 = some sched := by decide

/-- main trace: row 0 = `[sep | ADD 2 + 3 = 5]`, row 1 = `[packed: a₀ b c₀ out | sep | a₁ c₁ b²]`. -/
def Mr : ℕ → List K := fun r =>
  [[0, 0, 0, 0, 2, 3, 0, 5, 0, 0, 0], [1, 2, 3, 6, 0, 0, 0, 0, 1, 3, 4]].getD r []

/-- forged: the packed row claims `out = 5`. -/
def MrBad : ℕ → List K := fun r =>
  [[0, 0, 0, 0, 2, 3, 0, 5, 0, 0, 0], [1, 2, 3, 5, 0, 0, 0, 0, 1, 3, 4]].getD r []

/-- Hypothesis (a) holds on the honest scheduled matrix. -/
theorem win_ok : WinOk 1 2 2 (ExtKind.base : ExtKind K) preps sched Mr 2 := by
  unfold WinOk
  decide

/-- …and fails on the forged one: the window constraints see the packed row's `out` cell. -/
theorem win_tampered_rejected : ¬ WinOk 1 2 2 (ExtKind.base : ExtKind K) preps sched MrBad 2 := by
  unfold WinOk
  decide

/-- The schedule has the lane-0 discipline `scheduled_accepted_sat` asks for. -/
theorem wf_ok : SchedWF 2 2 (isHorner preps) sched := by
  constructor
  · intro p j hp he hH
    have hp4 : p < 4 := hp
    interval_cases p
    · simp [entryAt, sched] at he
    · simp [entryAt, sched] at he
      subst he
      exact absurd hH (by decide)
    · simp [entryAt, sched] at he
    · simp [entryAt, sched] at he
  · intro p f k hp he
    have hp4 : p < 4 := hp
    interval_cases p
    · simp [entryAt, sched] at he
    · simp [entryAt, sched] at he
    · simp [entryAt, sched] at he
      obtain ⟨rfl, rfl⟩ := he
      refine ⟨by decide, by decide, by decide, by decide, by decide, ?_⟩
      unfold predOK
      rw [if_neg (by decide)]
      rfl
    · simp [entryAt, sched] at he

def rl : ℕ → Roles4 := fun _ => (.creator, .reader, .reader, .reader)

/-- the bus value of every slot -/
def cv : ℕ → List K := fun s => [[0], [2], [3], [1], [2], [6], [5]].getD s []

theorem aluOps_eq : aluOps ops =
    [.alu .horner 3 1 (some 2) 4 (some 0), .alu .horner 3 1 (some 2) 5 (some 4),
     .alu .add 1 2 none 6 none] := by decide

/-- The cells of the scheduled matrix — including the computed cell `[2]` of the packed row's silent
intermediate accumulator `s4` — are the bus values. -/
theorem cells_ok : ∀ p, p < sched.length →
    ∀ c ∈ entryCells 1 2 2 (ExtKind.base : ExtKind K) Mr ops rl p (entryAt sched p),
      c.role ≠ .skip → c.val = cv c.slot := by decide

/-- **Non-vacuity of `sched_rows_sat`** (hence of `scheduled_accepted_sat`'s row part): every hypothesis
is met by the scheduled matrix with a packed Horner row, `lanes = 2`, and the conclusion is the
satisfying assignment `s4 = 2, s5 = 6, s6 = 5`. -/
theorem sched_rows_sat_nonvacuous :
    Sat (fun s => ev (RingHom.id K) 0 1 (cv s)) (fun _ => 0) ops := by
  refine sched_rows_sat (RingHom.id K) (0 : K) 1 2 2 ExtKind.base Mr preps sched 2 Nat.one_pos rfl
    (by decide) (fun _ => 0) ops rl (by decide) (computeSchedule_cover preps 2 2 sched sched_eq)
    (by decide) ?_ ?_ wf_ok win_ok (by decide) (fun j => by simp [rl]) cv cells_ok ?_ ?_
  · intro j k a b c out io h
    rw [aluOps_eq] at h
    rcases j with _ | _ | _ | j
    · simp at h
      obtain ⟨rfl, _⟩ := h
      exact ⟨by decide, fun c h1 h4 => by interval_cases c <;> decide⟩
    · simp at h
      obtain ⟨rfl, _⟩ := h
      exact ⟨by decide, fun c h1 h4 => by interval_cases c <;> decide⟩
    · simp at h
      obtain ⟨rfl, _⟩ := h
      exact ⟨by decide, fun c h1 h4 => by interval_cases c <;> decide⟩
    · simp at h
  · intro k a b out io hm
    simp [ops] at hm
    obtain ⟨rfl, _⟩ := hm
    exact ⟨by decide, by decide⟩
  · intro out v hm
    simp [ops] at hm
    rcases hm with ⟨rfl, rfl⟩ | ⟨rfl, rfl⟩ | ⟨rfl, rfl⟩ | ⟨rfl, rfl⟩ <;> exact ev_one_single _ _
  · intro out pos hm
    simp [ops] at hm

/-- The packed branch alone: the packed row's `out` element is two chained steps from the separator
row's accumulator 0 (`(0·2 + 3 − 1)·2 + 3 − 1 = 6`). -/
example : ev (RingHom.id K) 0 1 (seg (Mr 1) 3 1) = 6 := by
  show ev (RingHom.id K) 0 1 [6] = 6
  exact ev_one_single _ _

end P3R.Witness.C04Sched
