/-
Helper lemmas: the rewrite maps built by de-duplication are forests, so `WitnessId::resolve`
(an unbounded `while` in Rust, fuel-indexed in the model) terminates within `|rw| + 1` steps
and lands on a non-key.
-/
import P3R.Model.Optimize

namespace P3R

/-- `t` is terminal: not a key of the map. -/
def Terminal (rw : Rewrite) (t : Nat) : Prop := rw.lookup t = none

/-- Every chain of the map ends at a terminal within the canonical fuel. -/
def Terminates (rw : Rewrite) : Prop :=
  ∀ w, ∃ t, resolveFuel rw (rw.length + 1) w = some t ∧ Terminal rw t

theorem resolveFuel_mono {rw : Rewrite} {n w t} (h : resolveFuel rw n w = some t) :
    resolveFuel rw (n + 1) w = some t := by
  induction n generalizing w with
  | zero => simp [resolveFuel] at h
  | succ n ih =>
    unfold resolveFuel at h ⊢
    cases hl : rw.lookup w with
    | none => simpa [hl] using h
    | some w' => simp only [hl] at h ⊢; exact ih h

theorem lookup_cons (k v w : Nat) (rw : Rewrite) :
    ((k, v) :: rw).lookup w = if w = k then some v else rw.lookup w := by
  by_cases h : w = k
  · subst h; simp [List.lookup]
  · have : (w == k) = false := by simpa using h
    simp [List.lookup, this, h]

/-- Extending a terminating map by `out ↦ root`, with both terminal and distinct, lengthens
every chain by at most one step. -/
theorem resolveFuel_cons {rw : Rewrite} {out root : Nat}
    (hout : Terminal rw out) (hroot : Terminal rw root) (hne : out ≠ root) :
    ∀ n w t, resolveFuel rw n w = some t →
      resolveFuel ((out, root) :: rw) (n + 1) w = some (if t = out then root else t) := by
  intro n
  induction n with
  | zero => intro w t h; simp [resolveFuel] at h
  | succ n ih =>
    intro w t h
    unfold resolveFuel at h
    cases hl : rw.lookup w with
    | none =>
      simp only [hl] at h
      have ht : t = w := by simpa using h.symm
      subst ht
      by_cases hw : t = out
      · subst hw
        have hr : ((t, root) :: rw).lookup root = none := by
          rw [lookup_cons, if_neg (Ne.symm hne)]; exact hroot
        simp [resolveFuel, hr, lookup_cons]
      · simp [resolveFuel, lookup_cons, hw, hl]
    | some w' =>
      simp only [hl] at h
      have hw : w ≠ out := by
        intro e; subst e; unfold Terminal at hout; rw [hout] at hl; cases hl
      have := ih w' t h
      rw [resolveFuel]
      simp only [lookup_cons, hw, if_false, hl]
      exact this

theorem terminates_nil : Terminates [] := by
  intro w; exact ⟨w, by simp [resolveFuel, List.lookup], by simp [Terminal, List.lookup]⟩

theorem terminates_cons {rw : Rewrite} {out root : Nat} (h : Terminates rw)
    (hout : Terminal rw out) (hroot : Terminal rw root) (hne : out ≠ root) :
    Terminates ((out, root) :: rw) := by
  intro w
  obtain ⟨t, ht, htt⟩ := h w
  refine ⟨if t = out then root else t, ?_, ?_⟩
  · simpa using resolveFuel_cons hout hroot hne _ w t ht
  · unfold Terminal
    rw [lookup_cons]
    by_cases hto : t = out
    · rw [if_pos hto, if_neg (Ne.symm hne)]; exact hroot
    · rw [if_neg hto, if_neg hto]; exact htt

/-- On a terminating map `resolve` returns a terminal (the fuel fallback is never taken). -/
theorem resolve_terminal {rw : Rewrite} (h : Terminates rw) (w : Nat) : Terminal rw (resolve rw w) := by
  obtain ⟨t, ht, htt⟩ := h w
  simp [resolve, ht]; exact htt

end P3R
