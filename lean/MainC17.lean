/-
C17 line-protocol driver (tree with F10 / F10b repaired). Runs the *model* definitions
`P3R.Cache.{fingerprint, fingerprintX, structureOf, step}` and `P3R.genPrep` on the cases written
by `p3r-harness layers`. The key of a circuit is its extended fingerprint: the four counters and
the structure digest; the model's digest of a program circuit is the structure itself (class
id `sid` = first registered circuit with the same `structureOf`), i.e. the run assumes what
`cache_refines_uncached_digest` assumes: no digest collision among the circuits of the run.

Circuits are registered first, call histories refer to them by id.

  circ <cid> <field>          opens a builder program (the lines that follow are the builder
                              calls of `P3R.Driver.step`: pub / const v / add a b / mul a b / …)
  endcirc                     compiles the program with the model compiler and answers
                                circ <cid> fp <wc> <pub> <priv> <ops> cls <c> sid <s>
                              fp  = the model's `fingerprint` of the compiled circuit,
                              cls = id of the first registered program circuit with the same
                                    model preprocessed columns (`genPrep`: Const / Public indices,
                                    ALU rows) — the "same preparation data" class
                              sid = id of the first registered program circuit with the same
                                    `structureOf` (ops, public rows, private rows)
                              (`circ <cid> build-err` / `circ <cid> bad-op` otherwise)
  ext <cid> <wc> <pub> <priv> <ops> <cls>
                              registers a circuit that is too large to be given as a program
                              (a real verification circuit): counters and preparation class
                              are taken from the line, its structure class is its own id (the
                              harness gives one id per distinct circuit); answers `ext <cid>`
  hist <step> …               one call sequence on initially empty cache variables; a step is
                                agg:<cid>:<pid>:<slot|->      prove_aggregation_layer
                                cross:<cid>:<pid>:<slot|->    prove_aggregation_layer_cross
                                next:<cid>:<pid>:<cid'|->:<pid'|->   prove_next_layer, prep built
                                                               for job (cid', pid') or none
                              answers one line: `hist` then per step
                                ` | <kind> hit=<0|1> used=<cls>.<pid> slot=<cls>.<pid>|- eq=<1|?K>`
                              or ` | next refused` (prove_next_layer handed a preparation whose
                              fingerprint differs: `Err`, no proof)
                              used = job whose preparation the prover ran with (circuit given by
                              its class), slot = content of the named cache variable after the
                              call, eq=1: preparation class of the data used = class of the
                              current circuit (theorem `cache_refines_uncached_partial` ⇒ same
                              outcome as uncached); eq=?K: `KeyDeterminesPrep` is falsified at this
                              call (two circuits with one key and different preparation: a
                              digest collision), no prediction.
  tabs <name> P=<l> T=<l> K=<l> B=<b;b;…>
                              table lists of one backend on one verification circuit (model
                              `P3R.Tables`): P = op types of `non_primitive_provers(D)`, T = op types
                              with a non-empty trace, K = keys of the preprocessors' map (sorted),
                              B = per air builder the keys it accepts (`+`-separated); lists are
                              `,`-separated, `-` = empty. Answers
                                tabs <name> carried=<l> air=<l> accept=<0|1> aligned=<0|1>
                              carried = `carried P T` (what `prove_all_tables` puts into the proof),
                              air = `airList B`, accept = `accepts P carried` (the next step's
                              `verify_p3_batch_proof_circuit` takes it), aligned = air == carried
  tabsacc <name> P=<l> proof=<l>
                              answers `tabsacc <name> accept=<0|1>` = `accepts P proof`
Unknown command, unknown circuit id, malformed token → `bad-op`. Nothing is defaulted.
-/
import P3R.Model.Cache
import P3R.Model.Driver
import P3R.Model.Tables

open P3R P3R.Cache

namespace C17Driver

abbrev PrepData := Option (List Nat × List Nat × List AluPrep)

structure CircInfo where
  cid : Nat
  fp : Fingerprint
  cls : Nat
  sid : Nat
  prep : Option PrepData   -- `none` for `ext` circuits (opaque)
  struct : Option (Structure Nat)   -- field values erased to canonical naturals; `none` for `ext`

structure St where
  circs : List CircInfo := []
  /-- program under construction: (cid, driver state, saw a bad line) -/
  cur : Option (Nat × Driver.St × Bool) := none

def St.find (st : St) (cid : Nat) : Option CircInfo := st.circs.find? fun c => c.cid == cid

def words (line : String) : List String :=
  (line.trimAscii.toString.splitOn " ").filter (· ≠ "")

abbrev Job := Nat × Nat

def parseOptNat (s : String) : Option (Option Nat) :=
  if s == "-" then some none else s.toNat?.map some

def parseStep (tok : String) : Option (String × Step Job) :=
  match tok.splitOn ":" with
  | [k, c, p, sl] =>
    if k == "agg" || k == "cross" then do
      let c ← c.toNat?; let p ← p.toNat?; let sl ← parseOptNat sl
      pure (k, .agg (c, p) sl)
    else none
  | ["next", c, p, c', p'] => do
    let c ← c.toNat?; let p ← p.toNat?; let c' ← parseOptNat c'; let p' ← parseOptNat p'
    match c', p' with
    | some c', some p' => pure ("next", .next (c, p) (some (c', p')))
    | none, none => pure ("next", .next (c, p) none)
    | _, _ => none
  | _ => none

def jobStr (st : St) (j : Job) : String :=
  match st.find j.1 with
  | some ci => s!"{ci.cls}.{j.2}"
  | none => "?"

/-- Run the model on one history, step by step (so the cache variable named by each step can
be shown after it). Uses `P3R.Cache.step` itself. -/
def runHist (st : St) (steps : List (String × Step Job)) : String :=
  let key : Job → Option (FingerprintX Nat) := fun j => (st.find j.1).map fun ci => ⟨ci.fp, ci.sid⟩
  let cls : Job → Option Nat := fun j => (st.find j.1).map (·.cls)
  let rec go (s : Slots (Option (FingerprintX Nat)) Job) (l : List (String × Step Job)) (acc : String) : String :=
    match l with
    | [] => acc
    | (kind, stp) :: rest =>
      let (s1, o) := step key s stp
      let slotStr := match stp with
        | .agg _ (some k) => match s1.get k with
          | some e => jobStr st e.job
          | none => "-"
        | _ => "-"
      match o.used with
      | none => go s1 rest (acc ++ s!" | {kind} refused")
      | some u =>
        let eq := if cls u == cls stp.job then "1" else "?K"
        go s1 rest (acc ++ s!" | {kind} hit={if o.hit then 1 else 0} used={jobStr st u} slot={slotStr} eq={eq}")
  go [] steps "hist"

def stepJobs : Step Job → List Job
  | .agg j _ => [j]
  | .next j (some j') => [j, j']
  | .next j none => [j]

def parseList (sep : String) (s : String) : List String :=
  if s == "-" then [] else s.splitOn sep

def showList (l : List String) : String :=
  if l.isEmpty then "-" else ",".intercalate l

/-- `key=value` token with the given key. -/
def field (key tok : String) : Option String :=
  if tok.startsWith (key ++ "=") then some ((tok.drop (key.length + 1)).toString) else none

def runTabs (name p t k b : String) : String :=
  let provers := parseList "," p
  let traced := parseList "," t
  let _keys := parseList "," k
  let builders := (parseList ";" b).map (parseList "+")
  let car := Tables.carried provers (fun x => traced.contains x)
  let air := Tables.airList builders
  let acc := Tables.accepts provers car
  s!"tabs {name} carried={showList car} air={showList air} accept={if acc then 1 else 0} aligned={if air == car then 1 else 0}"

def handle (st : St) (line : String) : St × List String :=
  match st.cur with
  | some (cid, ds, bad) =>
    match words line with
    | [] => (st, [])
    | ["endcirc"] =>
      let st' := { st with cur := none }
      if bad then (st', [s!"circ {cid} bad-op"]) else
      let (ds', _) := Driver.step ds "build"
      match ds'.c with
      | none => (st', [s!"circ {cid} build-err"])
      | some c =>
        -- preparation data does not depend on the field values: erase them
        let pd : PrepData := (genPrep c).map fun p => (p.consts, p.pubs, p.alu)
        let fp := fingerprint c
        let cls := match st.circs.find? fun ci => ci.prep == some pd with
          | some ci => ci.cls
          | none => cid
        -- the structure the digest is computed from, field values as canonical naturals
        let eraseOp : Op (PF ds'.p) → Op Nat
          | .const out v => .const out v.val
          | .pub out pos => .pub out pos
          | .alu k a b c out io => .alu k a b c out io
          | .hint ins outs k => .hint ins outs k
          | .npo ins outs id k => .npo ins outs id k
        let sc := structureOf c
        let str : Structure Nat := (sc.1.map eraseOp, sc.2.1, sc.2.2)
        let sid := match st.circs.find? fun ci => ci.struct == some str with
          | some ci => ci.sid
          | none => cid
        ({ st' with circs := st.circs ++ [⟨cid, fp, cls, sid, some pd, some str⟩] },
         [s!"circ {cid} fp {fp.witnessCount} {fp.publicFlatLen} {fp.privateFlatLen} {fp.opsLen} cls {cls} sid {sid}"])
    | _ =>
      let (ds', outs) := Driver.step ds line
      ({ st with cur := some (cid, ds', bad || outs.contains "bad-op") }, [])
  | none =>
    match words line with
    | [] => (st, [])
    | ["circ", cid, f] =>
      match cid.toNat?, Driver.fieldOf f with
      | some cid, some _ =>
        if (st.find cid).isSome then (st, ["bad-op"]) else
        let (ds, _) := Driver.step Driver.St.init s!"prog {f}"
        ({ st with cur := some (cid, ds, false) }, [])
      | _, _ => (st, ["bad-op"])
    | ["ext", cid, a, b, c, d, cls] =>
      match cid.toNat?, a.toNat?, b.toNat?, c.toNat?, d.toNat?, cls.toNat? with
      | some cid, some a, some b, some c, some d, some cls =>
        if (st.find cid).isSome then (st, ["bad-op"]) else
        ({ st with circs := st.circs ++ [⟨cid, ⟨a, b, c, d⟩, cls, cid, none, none⟩] }, [s!"ext {cid}"])
      | _, _, _, _, _, _ => (st, ["bad-op"])
    | ["tabs", name, p, t, k, b] =>
      match field "P" p, field "T" t, field "K" k, field "B" b with
      | some p, some t, some k, some b => (st, [runTabs name p t k b])
      | _, _, _, _ => (st, ["bad-op"])
    | ["tabsacc", name, p, pr] =>
      match field "P" p, field "proof" pr with
      | some p, some pr =>
        let acc := Tables.accepts (parseList "," p) (parseList "," pr)
        (st, [s!"tabsacc {name} accept={if acc then 1 else 0}"])
      | _, _ => (st, ["bad-op"])
    | "hist" :: toks =>
      match toks.mapM parseStep with
      | none => (st, ["bad-op"])
      | some steps =>
        if steps.all fun (_, s) => (stepJobs s).all fun j => (st.find j.1).isSome then
          (st, [runHist st steps])
        else (st, ["bad-op"])
    | _ => (st, ["bad-op"])

partial def loop (h : IO.FS.Stream) (st : St) : IO Unit := do
  let line ← h.getLine
  if line.isEmpty then return ()
  let (st', outs) := handle st line
  for o in outs do IO.println o
  loop h st'

end C17Driver

def main : IO Unit := do C17Driver.loop (← IO.getStdin) {}
