/-
Executable degree-4 binomial extension `PF p [X] / (X^4 - W)` used by the C13 driver
(`BinomialExtensionField<BabyBear, 4>`, `W = 11`). Import-free apart from `Model.Field`.

Like `PF p`, this instance is *not* proved to be a field; the theorems of `P3R.Props.C13` are
stated for an arbitrary commutative ring and the model functions are polymorphic in the
arithmetic instances. The arithmetic below is validated against p3-field by the C13
correspondence run (every value line of the run is an `Ext4` computation compared with
`BinomialExtensionField` arithmetic).
-/
import P3R.Model.Field

namespace P3R

/-- Coefficient vector `c0 + c1·X + c2·X² + c3·X³` with `X⁴ = W`. -/
structure Ext4 (p W : Nat) where
  c0 : PF p
  c1 : PF p
  c2 : PF p
  c3 : PF p
deriving DecidableEq, Repr

namespace Ext4
variable {p W : Nat}

def ofBase (x : PF p) : Ext4 p W := ⟨x, 0, 0, 0⟩
def w : PF p := PF.ofNat W

instance : Zero (Ext4 p W) := ⟨⟨0, 0, 0, 0⟩⟩
instance : One (Ext4 p W) := ⟨⟨1, 0, 0, 0⟩⟩
instance : Add (Ext4 p W) := ⟨fun a b => ⟨a.c0 + b.c0, a.c1 + b.c1, a.c2 + b.c2, a.c3 + b.c3⟩⟩
instance : Sub (Ext4 p W) := ⟨fun a b => ⟨a.c0 - b.c0, a.c1 - b.c1, a.c2 - b.c2, a.c3 - b.c3⟩⟩
instance : Neg (Ext4 p W) := ⟨fun a => ⟨-a.c0, -a.c1, -a.c2, -a.c3⟩⟩
instance : Mul (Ext4 p W) := ⟨fun a b =>
  ⟨a.c0 * b.c0 + w (p := p) (W := W) * (a.c1 * b.c3 + a.c2 * b.c2 + a.c3 * b.c1),
   a.c0 * b.c1 + a.c1 * b.c0 + w (p := p) (W := W) * (a.c2 * b.c3 + a.c3 * b.c2),
   a.c0 * b.c2 + a.c1 * b.c1 + a.c2 * b.c0 + w (p := p) (W := W) * (a.c3 * b.c3),
   a.c0 * b.c3 + a.c1 * b.c2 + a.c2 * b.c1 + a.c3 * b.c0⟩⟩

def toStr (a : Ext4 p W) : String := s!"{a.c0} {a.c1} {a.c2} {a.c3}"

end Ext4

/-- `BinomialExtensionField<BabyBear, 4>`. -/
abbrev BabyBearExt4 := Ext4 babyBearP 11

end P3R
