/-
L4b — the *shape* of a run: which witness slots are defined when.
`runShape` abstracts `Model/Runner.lean` to definedness bits: it follows exactly the control flow
of `execute_all` (forward / backward branch choice, the optional product slot, hints, the rewrite
post-pass, the final "every slot set" scan) but carries no values. On inputs that satisfy the
circuit the real run succeeds iff the shape run does (`P3R.C02.run_refines_shape`), so whether a
circuit can fail on a satisfying input is a decidable, input-independent property of the circuit.
-/
import P3R.Model.Runner

namespace P3R

def getS (t : Array Bool) (i : Nat) : Bool := t.getD i false

def setS (t : Array Bool) (i : Nat) : Option (Array Bool) :=
  if i < t.size then some (t.setIfInBounds i true) else none

def execAluShape (t : Array Bool) (k : AluKind) (a b : Nat) (c : Option Nat) (out : Nat)
    (io : Option Nat) : Option (Array Bool) :=
  match k with
  | .add | .mul =>
    if !getS t a then none
    else if getS t b then setS t out
    else if !getS t out then none
    else setS t b
  | .boolCheck => if !getS t a then none else setS t out
  | .mulAdd =>
    if !getS t a || !getS t b then none else
    match (match io with | some i => setS t i | none => some t) with
    | none => none
    | some t1 =>
      match c with
      | some ci => if !getS t1 ci then none else setS t1 out
      | none => setS t1 out
  | .horner =>
    match io, c with
    | some acc, some cId =>
      if !getS t acc || !getS t a || !getS t b || !getS t cId then none else setS t out
    | _, _ => none

def execOpShape {K : Type} (t : Array Bool) : Op K → Option (Array Bool)
  | .const out _ => setS t out
  | .pub out _ => if getS t out then some t else none
  | .alu k a b c out io => execAluShape t k a b c out io
  | .hint [x] outs .hintBits =>
    if !getS t x then none else
    outs.foldlM (fun t o => setS t o) t
  | .hint [x] [o] .hintExt => if !getS t x then none else setS t o
  | _ => none

/-- Shape of `run`: ops, rewrite post-pass, final scan. -/
def runShape {K : Type} (c : Circuit K) (t0 : Array Bool) : Bool :=
  match c.ops.toList.foldlM execOpShape t0 with
  | none => false
  | some t1 =>
    match c.rewrite.foldlM (fun t (dc : Nat × Nat) =>
        if getS t (resolve c.rewrite dc.2) then setS t dc.1 else some t) t1 with
    | none => false
    | some t2 => t2.all id

end P3R
