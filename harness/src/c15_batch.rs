//! C15, batch path: honest batch-STARK bases built from plain AIRs through the *generic* entry
//! `verify_batch_circuit` (1..4 instances, with / without preprocessed columns, different degrees,
//! with / without a next-row opening), the AIR facts the Lean model takes as its environment
//! (`P3R.Shape.AirFacts`: the real `RecursiveAir` methods called on the mutant's preprocessed
//! width / lookup contexts under `catch_unwind`), and the driver line of a (mutated) batch input
//! (`batch …`, grammar in `lean/MainC15.lean`). Only lengths / counts / options / small integers
//! are read from the input — never field values.
use std::panic::{AssertUnwindSafe, catch_unwind};

use p3_air::{Air, AirBuilder, BaseAir, WindowAccess};
use p3_batch_stark::{BatchProof, CommonData, ProverData, StarkInstance, prove_batch, verify_batch};
use p3_circuit::test_utils::{FibonacciAir, generate_trace_rows};
use p3_circuit_prover::air::{AluAir, AluExtMulKind, ConstAir, PublicAir};
use p3_circuit_prover::batch_stark_prover::{BatchStarkProof, PrimitiveTable};
use p3_circuit_prover::field_params::ExtractBinomialW;
use p3_field::PrimeCharacteristicRing;
use p3_lookup::logup::LogUpGadget;
use p3_lookup::{Lookup, Lookups};
use p3_matrix::dense::RowMajorMatrix;
use p3_recursion::traits::RecursiveAir;
use p3_recursion::verifier::CircuitTablesAir;
use p3_recursion::{BatchStarkVerifierInputsBuilder, Poseidon2Config, verify_batch_circuit};
use serde_json::{Value, json};

use super::shape::{env_line, fri_line};
use super::*;

// ------------------------------------------------------------------ plain AIRs

/// `c = a + b` on every row; never reads the next row (so the prover omits `trace_next`).
#[derive(Clone, Copy)]
pub struct AddAir {
    pub rows: usize,
}

#[derive(Clone, Copy)]
pub enum GAir {
    /// FibonacciAir with that many rows: 3 public values, opens the next row
    Fib(usize),
    /// the harness's MulAir: 2 main columns, 4 preprocessed columns
    Mul(MulAir),
    Add(AddAir),
}

impl GAir {
    fn trace(&self) -> RowMajorMatrix<F> {
        match self {
            GAir::Fib(n) => generate_trace_rows::<F>(0, 1, *n),
            GAir::Mul(m) => m.traces().0,
            GAir::Add(a) => {
                let mut v = F::zero_vec(a.rows * 3);
                for r in 0..a.rows {
                    v[3 * r] = F::from_usize(r);
                    v[3 * r + 1] = F::from_usize(r + 1);
                    v[3 * r + 2] = v[3 * r] + v[3 * r + 1];
                }
                RowMajorMatrix::new(v, 3)
            }
        }
    }
    fn public_values(&self, trace: &RowMajorMatrix<F>) -> Vec<F> {
        match self {
            GAir::Fib(_) => vec![F::ZERO, F::ONE, *trace.values.last().unwrap()],
            _ => vec![],
        }
    }
}

impl BaseAir<F> for GAir {
    fn width(&self) -> usize {
        match self {
            GAir::Fib(_) => BaseAir::<F>::width(&FibonacciAir {}),
            GAir::Mul(m) => BaseAir::<F>::width(m),
            GAir::Add(_) => 3,
        }
    }
    fn preprocessed_width(&self) -> usize {
        match self {
            GAir::Mul(m) => BaseAir::<F>::preprocessed_width(m),
            _ => 0,
        }
    }
    fn preprocessed_trace(&self) -> Option<RowMajorMatrix<F>> {
        match self {
            GAir::Mul(m) => BaseAir::<F>::preprocessed_trace(m),
            _ => None,
        }
    }
    fn num_public_values(&self) -> usize {
        match self {
            GAir::Fib(_) => BaseAir::<F>::num_public_values(&FibonacciAir {}),
            _ => 0,
        }
    }
    fn main_next_row_columns(&self) -> Vec<usize> {
        match self {
            GAir::Fib(_) => BaseAir::<F>::main_next_row_columns(&FibonacciAir {}),
            GAir::Mul(m) => BaseAir::<F>::main_next_row_columns(m),
            GAir::Add(_) => vec![],
        }
    }
}

impl<AB: AirBuilder<F = F>> Air<AB> for GAir {
    fn eval(&self, builder: &mut AB) {
        match self {
            GAir::Fib(_) => Air::<AB>::eval(&FibonacciAir {}, builder),
            GAir::Mul(m) => Air::<AB>::eval(m, builder),
            GAir::Add(_) => {
                let main = builder.main();
                let l = main.current_slice();
                let (a, b, c) = (l[0], l[1], l[2]);
                builder.assert_zero(a.into() + b.into() - c.into());
            }
        }
    }
}

// ------------------------------------------------------------------ generic bases

fn prep_from(v: &Value) -> Result<Option<p3_batch_stark::common::GlobalPreprocessed<MyConfig>>, (String, String)> {
    let un = |s: &str| ("unrepresentable".to_string(), s.to_string());
    if v.is_null() {
        return Ok(None);
    }
    let commitment: Com = serde_json::from_value(v["commitment"].clone()).map_err(|e| un(&e.to_string()))?;
    let mut instances = vec![];
    for m in v["instances"].as_array().ok_or(un("instances"))? {
        if m.is_null() {
            instances.push(None);
        } else {
            let g = |k: &str| m.get(k).and_then(Value::as_u64).map(|x| x as usize).ok_or(un(k));
            instances.push(Some(p3_batch_stark::common::PreprocessedInstanceMeta { matrix_index: g("matrix_index")?, width: g("width")?, degree_bits: g("degree_bits")? }));
        }
    }
    let matrix_to_instance = v["matrix_to_instance"].as_array().ok_or(un("matrix_to_instance"))?.iter().map(|x| x.as_u64().map(|x| x as usize).ok_or(un("m2i"))).collect::<Result<Vec<_>, _>>()?;
    Ok(Some(p3_batch_stark::common::GlobalPreprocessed { commitment, instances, matrix_to_instance }))
}

/// per instance the honest instance whose `Lookups` it carries (null = none)
pub fn lookups_from(honest: &[Lookups<F>], v: &Value) -> Result<Vec<Lookups<F>>, (String, String)> {
    let un = |s: &str| ("unrepresentable".to_string(), s.to_string());
    let mut lookups = vec![];
    for inst in v.as_array().ok_or(un("lookups"))? {
        match inst {
            Value::Null => lookups.push(Lookups::default()),
            v => {
                let k = v.as_u64().ok_or(un("lookups[i]"))? as usize;
                lookups.push(honest.get(k).cloned().ok_or(un("lookups[i] out of range"))?);
            }
        }
    }
    Ok(lookups)
}

pub fn run_gbatch(cfg: &MyConfig, airs: &[GAir], input: &Value) -> Result<Fingerprint, (String, String)> {
    let un = |s: String| ("unrepresentable".to_string(), s);
    let proof: BatchProof<MyConfig> = serde_json::from_value(input["proof"].clone()).map_err(|e| un(e.to_string()))?;
    let params = params_from(&input["params"]).ok_or(un("params".into()))?;
    let prep = prep_from(&input["stark_common"])?;
    let lookups = lookups_from(&[], &input["lookups"])?;
    let common = CommonData::<MyConfig>::new(prep, lookups);
    let air_public_counts: Vec<usize> = airs.iter().map(|a| BaseAir::<F>::num_public_values(a)).collect();
    // the caller's obligation documented at `allocate` ("# Panics"), discharged the way
    // `verify_p3_batch_proof_circuit` does (batch_stark.rs:282)
    if proof.opened_values.instances.len() != air_public_counts.len() {
        return Err(("InvalidProofShape".into(), "caller guard: opened values for another number of instances".into()));
    }
    let mut cb = new_builder();
    let lg = LogUpGadget::new();
    let vi = BatchStarkVerifierInputsBuilder::<MyConfig, CapT, InnerFri>::allocate(&mut cb, &proof, &common, &air_public_counts);
    verify_batch_circuit::<GAir, MyConfig, CapT, InputProofTargets<F, Challenge, RecMmcs>, InnerFri, LogUpGadget, _, WIDTH, RATE>(
        cfg,
        airs,
        &mut cb,
        &vi.proof_targets,
        &vi.air_public_targets,
        &params,
        &vi.common_data,
        &lg,
        Poseidon2Config::BABY_BEAR_D4_W16,
    )
    .map_err(|e| (err_kind(&e), format!("{e}").chars().take(200).collect::<String>()))?;
    finish(cb)
}

pub fn base_gbatch(name: &'static str, airs: Vec<GAir>) -> Base {
    let cfg = make_config(0);
    let traces: Vec<RowMajorMatrix<F>> = airs.iter().map(GAir::trace).collect();
    let pvs: Vec<Vec<F>> = airs.iter().zip(&traces).map(|(a, t)| a.public_values(t)).collect();
    let instances: Vec<StarkInstance<'_, MyConfig, GAir>> =
        airs.iter().zip(&traces).zip(&pvs).map(|((air, trace), pv)| StarkInstance { air, trace, public_values: pv.clone() }).collect();
    let pd = ProverData::from_instances(&cfg, &instances);
    let proof = prove_batch(&cfg, &instances, &pd);
    verify_batch(&cfg, &airs, &proof, &pvs, &pd.common).expect("honest generic batch proof verifies natively");
    assert!(pd.common.lookups.iter().all(|l| l.is_empty()));
    let sc = match &pd.common.preprocessed {
        None => Value::Null,
        Some(g) => json!({
            "commitment": serde_json::to_value(&g.commitment).unwrap(),
            "instances": g.instances.iter().map(|m| match m {
                None => Value::Null,
                Some(m) => json!({"matrix_index": m.matrix_index, "width": m.width, "degree_bits": m.degree_bits}),
            }).collect::<Vec<_>>(),
            "matrix_to_instance": g.matrix_to_instance,
        }),
    };
    let input = json!({"proof": serde_json::to_value(&proof).unwrap(), "stark_common": sc,
                       "lookups": vec![Value::Null; airs.len()], "params": params_json(true)});
    let mut b = Base { name, kind: Kind::GBatch, input, honest: Fingerprint { ops: 0, witnesses: 0, public_len: 0, private_len: 0, npo: 0, ops_hash: 0 },
                       common: Some(CommonData::<MyConfig>::new(None, vec![])), cap_height: 0, gairs: airs };
    b.honest = match b.run(&b.input) {
        (Outcome::Ok(fp), _) => fp,
        o => panic!("honest {name} does not build: {o:?}"),
    };
    b
}

// ------------------------------------------------------------------ AIR facts

pub struct Facts {
    width: usize,
    opens_next: bool,
    declares: Option<bool>,
    log_qd: Option<usize>,
}

/// The real `RecursiveAir` methods `verify_batch_circuit` calls with shape-dependent arguments.
/// `eval_it = false`: the builder rejects the shape before it evaluates the AIR (the preprocessed
/// opening does not have the metadata's width), and the width may be astronomically large.
fn facts_of<A: RecursiveAir<F, Challenge, LogUpGadget>>(air: &A, pre_w: usize, lookups: &[Lookup<F>], eval_it: bool) -> Facts {
    let lg = LogUpGadget::new();
    let width = RecursiveAir::<F, Challenge, LogUpGadget>::width(air);
    let opens_next = RecursiveAir::<F, Challenge, LogUpGadget>::opens_trace_next(air);
    if !eval_it {
        return Facts { width, opens_next, declares: None, log_qd: None };
    }
    let declares = catch_unwind(AssertUnwindSafe(|| RecursiveAir::<F, Challenge, LogUpGadget>::declares_interactions(air, pre_w))).ok();
    let log_qd = catch_unwind(AssertUnwindSafe(|| RecursiveAir::<F, Challenge, LogUpGadget>::get_log_num_quotient_chunks(air, pre_w, lookups, 0, &lg))).ok();
    Facts { width, opens_next, declares, log_qd }
}

/// The circuit-table AIRs as `verify_p3_batch_proof_circuit` rebuilds them from the proof's
/// metadata (batch_stark.rs:220-249, `create_alu_air` at 130-158, TRACE_D = 1); `None` = a panic.
fn p3_airs(proof: &BatchStarkProof<MyConfig>) -> Option<Vec<CircuitTablesAir<MyConfig, 1>>> {
    catch_unwind(AssertUnwindSafe(|| {
        let rows = proof.rows;
        let packing = proof.table_packing.clone();
        let num_ops = rows[PrimitiveTable::Alu];
        let preprocessed = if num_ops == 0 { Vec::new() } else { vec![F::ZERO; num_ops * AluAir::<F, 1>::preprocessed_lane_width()] };
        let reduction = AluExtMulKind::resolve(1, <Challenge as ExtractBinomialW<F>>::extract_w(), false).expect("W");
        let alu = AluAir::<F, 1>::from_reduction_with_preprocessed(num_ops, packing.alu_lanes(), reduction, preprocessed, packing.horner_packed_steps());
        vec![
            CircuitTablesAir::Const(ConstAir::<F, 1>::new(rows[PrimitiveTable::Const])),
            CircuitTablesAir::Public(PublicAir::<F, 1>::new(rows[PrimitiveTable::Public], packing.public_lanes())),
            CircuitTablesAir::Alu(alu),
        ]
    }))
    .ok()
}

// ------------------------------------------------------------------ driver line

fn len(v: &Value) -> Option<usize> {
    v.as_array().map(Vec::len)
}
fn opt_len(v: &Value) -> Option<String> {
    if v.is_null() { Some("-".into()) } else { len(v).map(|n| n.to_string()) }
}
fn cap(v: &Value) -> Option<usize> {
    len(v.get("cap")?)
}
fn opt_cap(v: &Value) -> Option<String> {
    if v.is_null() { Some("-".into()) } else { cap(v).map(|n| n.to_string()) }
}
fn list(xs: &[u64]) -> String {
    let mut s = xs.len().to_string();
    for x in xs {
        s.push(' ');
        s.push_str(&x.to_string());
    }
    s
}
fn nums(v: &Value) -> Option<Vec<u64>> {
    v.as_array()?.iter().map(Value::as_u64).collect()
}

fn fnv(h: &mut u64, s: &str) {
    for b in s.bytes() {
        *h = (*h ^ b as u64).wrapping_mul(0x0000_0100_0000_01b3);
    }
}

/// `table metadata equal to the honest one` — then rebuilding the AIRs is known to be harmless
pub fn same_metadata(a: &Value, b: &Value) -> bool {
    ["rows", "table_packing", "ext_degree", "non_primitives", "alu_variant", "alu_quintic_trinomial"].iter().all(|k| a["proof"][*k] == b["proof"][*k])
}

pub fn shape_line(base: &Base, input: &Value) -> Option<String> {
    let p3 = base.kind == Kind::Batch;
    let (p, sc) = if p3 { (&input["proof"]["proof"], &input["proof"]["stark_common"]) } else { (&input["proof"], &input["stark_common"]) };
    let honest_lookups: &[Lookups<F>] = base.common.as_ref().map(|c| c.lookups.as_slice()).unwrap_or(&[]);
    let lookups = lookups_from(honest_lookups, &input["lookups"]).ok()?;
    let insts = p["opened_values"]["instances"].as_array()?;
    // pre_w per instance as the builder computes it; only used to call the AIR
    let pre_w = |i: usize| -> usize { sc.get("instances").and_then(|a| a.get(i)).and_then(|m| m.get("width")).and_then(Value::as_u64).unwrap_or(0) as usize };
    let prep_local_len = |i: usize| -> usize { insts.get(i).and_then(|x| len(&x["base_opened_values"]["preprocessed_local"])).unwrap_or(0) };
    let ctx = |i: usize| -> Vec<Lookup<F>> { lookups.get(i).map(|l| l.to_vec()).unwrap_or_default() };

    let mut tag: u64 = 0xcbf2_9ce4_8422_2325;
    for l in &lookups {
        fnv(&mut tag, &format!("{:?}|", l.to_vec()));
    }

    let mut facts: Vec<Facts> = vec![];
    let mut p3_part = "0".to_string();
    let public_values;
    if p3 {
        let proof: BatchStarkProof<MyConfig> = serde_json::from_value(input["proof"].clone()).ok()?;
        let airs = p3_airs(&proof);
        if let Some(airs) = &airs {
            for (i, a) in airs.iter().enumerate() {
                facts.push(facts_of(a, pre_w(i), &ctx(i), prep_local_len(i) == pre_w(i)));
            }
        }
        let m = &input["proof"];
        let tp = &m["table_packing"];
        let npo_lanes: Vec<u64> = tp["npo_lanes"].as_array().map(|a| a.iter().filter_map(|e| e.get(1).and_then(Value::as_u64)).collect()).unwrap_or_default();
        let non_prim: Vec<u64> = m["non_primitives"].as_array()?.iter().map(|e| e.get("lanes").and_then(Value::as_u64).unwrap_or(1)).collect();
        public_values = 3 + non_prim.len();
        p3_part = format!(
            "1 1 0 {} 1 {} {} {} {} {} {} {} {}",
            if airs.is_some() { 1 } else { 0 },
            m["ext_degree"].as_u64()?,
            list(&nums(&m["rows"])?),
            tp["public_lanes"].as_u64()?,
            tp["alu_lanes"].as_u64()?,
            list(&npo_lanes),
            tp["min_trace_height"].as_u64()?,
            tp["horner_packed_steps"].as_u64().unwrap_or(2),
            list(&non_prim),
        );
    } else {
        for (i, a) in base.gairs.iter().enumerate() {
            facts.push(facts_of(a, pre_w(i), &ctx(i), prep_local_len(i) == pre_w(i)));
        }
        public_values = base.gairs.len();
    }

    let mut s = format!("batch {} {} {} {}", base.name, tag >> 4, env_line(0, 0, 0, &Value::Null, &input["params"])?, facts.len());
    for f in &facts {
        let o = |x: Option<usize>| x.map(|v| v.to_string()).unwrap_or("-".into());
        s.push_str(&format!(" {} {} {} {}", f.width, f.opens_next as u8, o(f.declares.map(|b| b as usize)), o(f.log_qd)));
    }
    s.push_str(&format!(" {p3_part}"));
    let c = &p["commitments"];
    s.push_str(&format!(" {} {} {} {} {}", cap(&c["main"])?, cap(&c["quotient_chunks"])?, opt_cap(&c["random"])?, opt_cap(&c["permutation"])?, insts.len()));
    for x in insts {
        let ov = &x["base_opened_values"];
        let chunks: Vec<u64> = ov["quotient_chunks"].as_array()?.iter().map(|c| len(c).map(|n| n as u64)).collect::<Option<_>>()?;
        let trace_next = if ov["trace_next"].is_null() { 0 } else { len(&ov["trace_next"])? };
        s.push_str(&format!(
            " {} {} {} {} {} {} {} {}",
            len(&ov["trace_local"])?,
            trace_next,
            opt_len(&ov["preprocessed_local"])?,
            opt_len(&ov["preprocessed_next"])?,
            list(&chunks),
            opt_len(&ov["random"])?,
            len(&x["permutation_local"])?,
            len(&x["permutation_next"])?,
        ));
    }
    let terminals: Vec<u64> = p["lookup_terminals"].as_array()?.iter().map(|t| (!t.is_null()) as u64).collect();
    let lk: Vec<u64> = lookups.iter().map(|l| l.len() as u64).collect();
    s.push_str(&format!(" {} {} {} {}", list(&nums(&p["degree_bits"])?), list(&terminals), public_values, list(&lk)));
    if sc.is_null() {
        s.push_str(" 0");
    } else {
        let metas = sc["instances"].as_array()?;
        s.push_str(&format!(" 1 {} {}", cap(&sc["commitment"])?, metas.len()));
        for m in metas {
            if m.is_null() {
                s.push_str(" 0");
            } else {
                s.push_str(&format!(" 1 {} {} {}", m["matrix_index"].as_u64()?, m["width"].as_u64()?, m["degree_bits"].as_u64()?));
            }
        }
        s.push_str(&format!(" {}", list(&nums(&sc["matrix_to_instance"])?)));
    }
    s.push_str(&format!(" {}", fri_line(&p["opening_proof"])?));
    Some(s)
}
