//! C20: several verifier gadgets are *private* functions of p3-recursion
//! (`circuit_exp_by_constant`, `evaluate_polynomial`, … in `pcs/fri/verifier.rs`,
//! `vanishing_poly_at_point_circuit` in `verifier/quotient.rs`), so the harness cannot call
//! them. This build script copies their *current source text* out of the p3-recursion tree the
//! harness is built against (the `path` of the `p3-recursion` dependency in Cargo.toml) into
//! `$OUT_DIR/c20_extracted.rs`, which `src/c20.rs` `include!`s. An edit of those functions in
//! the working tree is therefore what gets compiled and tested. Nothing else is generated.
//!
//! A function that can no longer be found is replaced by a stub that panics, and its name is
//! listed in `EXTRACT_ERRORS`; `c20.rs` reports that as a broken correspondence.

use std::fmt::Write as _;
use std::path::PathBuf;

/// (file relative to the p3-recursion crate root, function name, stub signature)
const WANTED: &[(&str, &str, &str)] = &[
    (
        "src/pcs/fri/verifier.rs",
        "circuit_exp_by_constant",
        "pub fn circuit_exp_by_constant<EF: Field>(_b: &mut CircuitBuilder<EF>, _base: Target, _n: usize) -> Target",
    ),
    (
        "src/pcs/fri/verifier.rs",
        "evaluate_polynomial",
        "pub fn evaluate_polynomial<EF: Field>(_b: &mut CircuitBuilder<EF>, _c: &[Target], _p: Target) -> Target",
    ),
    (
        "src/pcs/fri/verifier.rs",
        "precompute_two_adic_powers",
        "pub fn precompute_two_adic_powers<F: Field + TwoAdicField, EF: ExtensionField<F>>(_b: &mut CircuitBuilder<EF>, _l: usize) -> Vec<Target>",
    ),
    (
        "src/pcs/fri/verifier.rs",
        "compute_final_query_point",
        "pub fn compute_final_query_point<F: Field + TwoAdicField, EF: ExtensionField<F>>(_b: &mut CircuitBuilder<EF>, _i: &[Target], _l: usize, _t: usize, _p: &[Target]) -> Target",
    ),
    (
        "src/pcs/fri/verifier.rs",
        "precompute_evaluation_points",
        "pub fn precompute_evaluation_points<F: Field + TwoAdicField, EF: ExtensionField<F>>(_b: &mut CircuitBuilder<EF>, _u: &[usize], _i: &[Target], _l: usize) -> BTreeMap<usize, Target>",
    ),
    (
        "src/verifier/quotient.rs",
        "vanishing_poly_at_point_circuit",
        "pub fn vanishing_poly_at_point_circuit<SC: StarkGenericConfig, InputProof: Recursive<SC::Challenge>, OpeningProof: Recursive<SC::Challenge>, Comm: Recursive<SC::Challenge>, Domain>(_pcs: &SC::Pcs, _d: &Domain, _p: Target, _c: &mut CircuitBuilder<SC::Challenge>) -> Target where SC::Pcs: RecursivePcs<SC, InputProof, OpeningProof, Comm, Domain>",
    ),
];

fn recursion_root() -> PathBuf {
    let manifest = std::fs::read_to_string("Cargo.toml").unwrap_or_default();
    for line in manifest.lines() {
        let l = line.trim();
        if l.starts_with("p3-recursion") {
            if let Some(i) = l.find("path") {
                let rest = &l[i..];
                if let (Some(a), Some(b)) = (rest.find('"'), rest.rfind('"')) {
                    if b > a {
                        return PathBuf::from(&rest[a + 1..b]);
                    }
                }
            }
        }
    }
    PathBuf::from("/repo/recursion")
}

/// Text of the top-level `fn name` item: from its `fn` line to the first following line that is
/// exactly `}` (rustfmt layout of a top-level item).
fn extract(src: &str, name: &str) -> Option<String> {
    let lines: Vec<&str> = src.lines().collect();
    let start = lines.iter().position(|l| {
        let l = l.trim_end();
        for pre in ["fn ", "pub fn ", "pub(crate) fn "] {
            if let Some(rest) = l.strip_prefix(pre) {
                if let Some(after) = rest.strip_prefix(name) {
                    return after.starts_with('<') || after.starts_with('(');
                }
            }
        }
        false
    })?;
    let end = (start..lines.len()).find(|&i| lines[i] == "}")?;
    let mut text = lines[start..=end].join("\n");
    for pre in ["pub(crate) fn ", "pub fn ", "fn "] {
        if let Some(rest) = text.strip_prefix(pre) {
            text = format!("pub fn {rest}");
            break;
        }
    }
    Some(text)
}

fn main() {
    let root = recursion_root();
    let mut out = String::new();
    let mut errors: Vec<String> = vec![];
    for (file, name, stub) in WANTED {
        let path = root.join(file);
        println!("cargo:rerun-if-changed={}", path.display());
        let text = std::fs::read_to_string(&path).ok().and_then(|s| extract(&s, name));
        match text {
            Some(t) => {
                writeln!(out, "// extracted from {}\n{}\n", path.display(), t).unwrap();
            }
            None => {
                errors.push(format!("{file}::{name}"));
                writeln!(out, "{stub} {{ panic!(\"c20: {name} could not be extracted from {file}\") }}\n").unwrap();
            }
        }
    }
    writeln!(out, "pub const EXTRACT_ERRORS: &[&str] = &{errors:?};").unwrap();
    writeln!(out, "pub const EXTRACT_ROOT: &str = {:?};", root.display().to_string()).unwrap();
    println!("cargo:rerun-if-changed=Cargo.toml");
    println!("cargo:rerun-if-changed=build.rs");
    let dst = PathBuf::from(std::env::var("OUT_DIR").unwrap()).join("c20_extracted.rs");
    std::fs::write(dst, out).unwrap();
}
