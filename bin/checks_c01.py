"""C01 — in-circuit STARK verification agrees with native verification.

(also: prover-side forgeries — proofs of false statements made by an adversarial prover, the input region
in which a single algebraic check (OOD identity, cross-AIR terminal sum) is the only one that fails; and
verifying FRI parameters that are not the symmetric test defaults — asymmetric / zero / large grinding bit
counts, a second parameter set for the hiding PCS too — with a lazy prover that grinds fewer (or more) bits
than demanded, for every PCS flavour; see `rule` in the coverage and design_notes/C01.md)

(also: the (PCS flavour x AIR feature) matrix — every feature a verifier treats specially (periodic columns of mixed
periods incl. 1 and the trace length, preprocessed columns, public values, several quotient chunks, lookups, instance
heights) under each of uni / unizk / batch / batchzk — and the wrong-AIR move: honest proofs of sibling AIRs of the
same proof shape must be rejected by both verifiers, the equivalent sibling accepted by both; `feature_matrix` and
`wrong_air_verdicts` in the coverage)

Plug-in for bin/check (see bin/checks.py). One harness run (`p3r-harness starkfaults`):
real uni-STARK / batch-STARK proofs (BabyBear and KoalaBear; preprocessed columns, lookups, ZK,
two FRI parameter sets), the real native verifier and the real verification circuit on the honest
proof and on every single-element alteration of the serialised proof / public values / verifying
data (implementation oracle: the two verdicts must agree). The Lean driver `p3r_driver_c01`
evaluates `P3R.Model.VerifierScript` on the shape of every real proof; its prediction of the
honest outcome, the native transcript structure and the element inventory are compared line by
line with what the real code did (recording challenger on the native verifier, leaf counts of the
serialised proof).
"""
import json, os, re

PROPERTY = "C01"

CORRESPONDENCE = ("verifier scripts (p3_uni_stark::verify_with_preprocessed, p3_batch_stark::verify_batch + BatchTranscript, "
                  "TwoAdicFriPcs/HidingFriPcs::verify, p3_fri verify_fri; recursion/src/verifier/{stark,batch_stark}.rs, "
                  "types/challenges.rs, pcs/fri/targets.rs) vs lean/P3R/Model/VerifierScript.lean")


FLAVOURS = ("uni", "unizk", "batch", "batchzk")
# AIR features the verifiers treat specially; each must occur under each PCS flavour (see harness/src/c01.rs `features_of`)
FEATURES_EVERY_FLAVOUR = ("pv", "pre-next", "chunks2+", "chunks4+", "periodic", "periodic-multi", "periodic-mixed",
                          "periodic-p1", "periodic-p2+", "periodic-pn", "periodic+pre-next")
FEATURES_BATCH = ("lookups", "multi-height", "periodic+lookups")
# sibling kinds of the wrong-AIR move (`FeatAir::feat_siblings`); `ptab-dbl` is the equivalent AIR (must stay accepted)
WRONG_AIR_GROUPS = ("ptab-bump", "ptab-rot", "ptab-half", "ptab-dbl", "ptab-swap", "pre-content", "constraint-k")


def _read(p):
    with open(p) as fh:
        return [l.rstrip("\n") for l in fh]


def run(ctx):
    tier, seed, work = ctx["tier"], ctx["seed"], ctx["work"]
    out = f"{work}/run0"
    violations = []
    if ctx.get("replay"):
        rp = json.load(open(ctx["replay"]))
        os.makedirs(f"{work}/replay_corpus", exist_ok=True)
        json.dump(rp.get("replay", rp), open(f"{work}/replay_corpus/r.json", "w"))
        corpus, generate, per_kind, values, forge_all = f"{work}/replay_corpus", 0, 1, 1, 0
    else:
        corpus, generate = f"{ctx['root']}/corpus/c01", 1
        # quick: every position, one altered value; thorough: every position, up to 4 altered values
        per_kind, values = (0, 1) if tier == "quick" else (0, 4)
        # prover-side forgeries: quick = every trace cell / public value / terminal forgery of every batch target
        # (+1), thorough = additionally a seeded random delta per cell and more auxiliary / quotient cells
        forge_all = 1 if tier == "quick" else 2
    cmd = [ctx["harness"], "starkfaults", "--seed", str(seed), "--per-kind", str(per_kind), "--values", str(values),
           "--out", out, "--corpus", corpus, "--generate", str(generate), "--forge-all", str(forge_all)]
    rc, o = ctx["sh"](cmd, timeout=7200)
    empty = {"evaluations": 0, "distinct_nontrivial": 0, "rule": "", "samples": [], "input_distribution": {},
             "traces_validated_against_impl": 0, "disagreements_checked": 0}
    if rc != 0 or not os.path.exists(f"{out}/c01.report.json"):
        violations.append({"class": "harness-crash", "what": f"harness starkfaults exited {rc}: {o[-300:]}",
                           "replay": {"cmd": cmd}, "no_input": True})
        return violations, empty
    rep = json.load(open(f"{out}/c01.report.json"))
    for v in rep["violations"]:
        violations.append({"class": v["class"],
                           "what": f"{v['kind']}: native={v['detail'].get('native')} circuit={v['detail'].get('circuit')} "
                                   f"{v['detail'].get('circuit_detail', '')[:120]} at {json.dumps(v['replay'])[:160]}",
                           "replay": v["replay"]})
    # bin/check prints the first five: soundness disagreements (native rejects, circuit accepts) first, then honest proofs
    # rejected by the circuit, then the rest; within each group one violation per class before the repeats
    seen_cls = {}
    for v in violations:
        v["_rep"] = seen_cls.get(v["class"], 0)
        seen_cls[v["class"]] = v["_rep"] + 1
    violations.sort(key=lambda v: (v["_rep"] > 0,
                                   0 if v["class"].startswith("native-rejects-circuit-accepts") else
                                   1 if ":honest/" in v["class"] else 2))
    for v in violations:
        v.pop("_rep", None)
    # model side
    driver = os.path.join(ctx["driver_dir"], "p3r_driver_c01")
    with open(f"{out}/c01.cases") as fin:
        rc, mo = ctx["sh"]([driver], stdin=fin, timeout=3600)
    with open(f"{out}/c01.model", "w") as fh:
        fh.write(mo)
    impl, model, cases = _read(f"{out}/c01.impl"), _read(f"{out}/c01.model"), _read(f"{out}/c01.cases")
    while model and model[-1] == "":
        model.pop()
    disagreements = 0
    for k in range(max(len(impl), len(model))):
        a = impl[k] if k < len(impl) else None
        b = model[k] if k < len(model) else None
        if a != b:
            disagreements += 1
            if disagreements <= 3:
                case = cases[k] if k < len(cases) else ""
                fa, fb = (a or "").split(" "), (b or "").split(" ")
                first = next(((x, y) for x, y in zip(fa, fb) if x != y), (a, b))
                violations.append({"class": "model-disagreement",
                                   "what": f"correspondence {CORRESPONDENCE} no longer checks: impl={first[0]!r} model={first[1]!r}",
                                   "replay": {"correspondence": CORRESPONDENCE, "case_line": case,
                                              "first_difference": list(first), "impl_line": a, "model_line": b},
                                   "no_input": True})
    hist = rep["hist"]
    # the forgery campaign must keep its teeth: some forged proof must be rejected natively by the terminal-sum
    # check and some by an out-of-domain check (otherwise those checks are no longer exercised in the circuit)
    forged_native = {k[len("forge-native:"):]: v for k, v in hist.items() if k.startswith("forge-native:")}
    if generate:
        for needle in ("TerminalSumNonZero", "OodEvaluationMismatch"):
            if not any(needle in k for k in forged_native):
                violations.append({"class": f"forge-campaign-lost-power:{needle}",
                                   "what": f"no forged proof is rejected natively with {needle}: the prover-side forgeries no "
                                           f"longer exercise that check (native verdicts seen: {forged_native})",
                                   "replay": {"cmd": cmd}, "no_input": True})
        # under-ground proofs: for every PCS flavour and each phase some proof must be rejected natively by the
        # proof-of-work check alone (otherwise the bit count the circuit uses there is no longer exercised)
        for fam in ("uni", "unizk", "batch", "batchzk"):
            for phase in ("commit", "query"):
                if not hist.get(f"forge-pow-native-reject:{fam}:{phase}"):
                    violations.append({"class": f"forge-campaign-lost-power:pow-{phase}:{fam}",
                                       "what": f"no proof under-ground in the {phase} phase is rejected natively with "
                                               f"InvalidPowWitness for PCS flavour {fam}",
                                       "replay": {"cmd": cmd}, "no_input": True})
        # … and honest proofs under asymmetric verifying parameters must exist for every flavour
        for fam in ("uni", "unizk", "batch", "batchzk", "tables"):
            if not any(k.startswith(f"honest:{fam}/") and re.search(r"-c\d+q\d+:", k) and k.endswith(":accept/accept")
                       for k in hist):
                violations.append({"class": f"forge-campaign-lost-power:asymmetric-pow-target:{fam}",
                                   "what": f"no accepted honest proof under asymmetric grinding bit counts for {fam}",
                                   "replay": {"cmd": cmd}, "no_input": True})
    # (PCS flavour x AIR feature) matrix: every feature a verifier treats specially must occur under every flavour in a
    # target whose honest proof the native verifier accepts (the circuit's verdict on it is the oracle, not a condition)
    feature_matrix, feature_circuit_rejects = {}, {}
    for t in rep["targets"]:
        fam = t["target"].split("/")[0]
        feats = list(t.get("features") or [])
        if "periodic" in feats and "lookups" in feats:
            feats.append("periodic+lookups")
        if "periodic" in feats and "pre-next" in feats:
            feats.append("periodic+pre-next")
        if t.get("native") != "accept":
            continue
        for f in feats:
            feature_matrix.setdefault(fam, {}).setdefault(f, []).append(t["target"])
            if t.get("circuit") != "accept":
                feature_circuit_rejects.setdefault(fam, {}).setdefault(f, []).append(t["target"])
    wrong_air = {k[len("wrong-air:"):]: v for k, v in hist.items() if k.startswith("wrong-air:")}
    if generate:
        for fam in FLAVOURS:
            need = list(FEATURES_EVERY_FLAVOUR) + (list(FEATURES_BATCH) if fam.startswith("batch") else [])
            if not fam.endswith("zk"):
                need.append("pre-cur")      # F-C01-2 / F-C01-3: exercised (and rejected by the circuit) without ZK
            for f in need:
                if not feature_matrix.get(fam, {}).get(f):
                    violations.append({"class": f"forge-campaign-lost-power:feature-matrix:{fam}:{f}",
                                       "what": f"no target of PCS flavour {fam} has AIR feature {f} (with an honest proof the native "
                                               f"verifier accepts): that (flavour, feature) pair is no longer exercised",
                                       "replay": {"cmd": cmd}, "no_input": True})
            # the wrong-AIR moves: every sibling kind must have been judged under every flavour, the false ones must be
            # false (natively rejected), the equivalent one equivalent (natively accepted)
            for group in WRONG_AIR_GROUPS:
                seen = {k: v for k, v in wrong_air.items() if k.startswith(f"{fam}:{group}")}
                if not seen:
                    violations.append({"class": f"forge-campaign-lost-power:wrong-air:{fam}:{group}",
                                       "what": f"no wrong-AIR proof of sibling kind {group} was judged for PCS flavour {fam}",
                                       "replay": {"cmd": cmd}, "no_input": True})
                bad = [k for k in seen if k.endswith(":both-reject" if group == "ptab-dbl" else ":both-accept")]
                if bad:
                    violations.append({"class": f"forge-campaign-lost-power:wrong-air-sibling-misdesigned:{fam}:{group}",
                                       "what": f"sibling kind {group} is meant to be " +
                                               ("an equivalent AIR but its honest proofs are rejected by both verifiers"
                                                if group == "ptab-dbl" else
                                                "a different AIR but its honest proofs are accepted by both verifiers") + f": {bad}",
                                       "replay": {"cmd": cmd}, "no_input": True})
    cov = {"evaluations": rep["evaluations"], "distinct_nontrivial": rep["distinct"],
           "rule": "one evaluation = one (proof, public values, verifying data) triple judged by the real native verifier and by "
                   "the real verification circuit (build + pack_values + runner); distinct = distinct altered positions "
                   "(every numeric leaf of the serialised proof / public values / preprocessed commitment of every target; "
                   "altered value = old+1, else old-1; thorough also a seeded random field element and 0); shape "
                   "parameters (degree bits, FRI log-arities, preprocessed metadata) are judged with the circuit rebuilt from "
                   "the altered proof, which kinds are shape parameters is detected per kind by judging the first position both "
                   "ways; every position is non-trivial (it changes the verifier's input). "
                   "Plus prover-side forgeries on every batch target (incl. batches with global / local LogUp lookups "
                   "next to lookup-free instances): an adversarial prover (harness/src/c01_forge_prover.rs = "
                   "p3_batch_stark::prove_batch without its debug-only self-checks, byte-identical on honest "
                   "witnesses, checked each run) proves a FALSE statement — one trace cell / public value off by a "
                   "delta, a shifted lookup terminal (sum-preserving pair or single), an altered cell of the LogUp "
                   "auxiliary trace or of the quotient — so every transcript- and Merkle-bound value is consistent "
                   "and exactly one algebraic check (OOD identity of one instance / cross-AIR terminal sum) decides; "
                   "one evaluation = one forged proof judged natively, by a circuit rebuilt for it and by the honest "
                   "proof's circuit; distinct = distinct forgery ids per target. "
                   "Plus verifying FRI parameters that are not the symmetric test defaults, for every PCS flavour "
                   "(uni / batch x TwoAdicFriPcs / HidingFriPcs, and the circuit tables): commit < query bits (1+8), no "
                   "commit-phase grinding (0+3, 0+2), commit > query bits (3+1), 2+3, and the second parameter set "
                   "(blowup 2, arity 4, final polynomial of length 2, 3 queries) for the hiding PCS; on each of them and "
                   "on every target whose config is built by the harness the same adversarial prover proves the TRUE "
                   "statement but grinds other bit counts than the verifying parameters demand (forgery id grind:c:q — "
                   "one bit short, one bit only, none, per phase and for both phases, and more than demanded): the proof "
                   "is well formed except that a proof-of-work witness does not satisfy the demanded number of bits. "
                   "Plus the (PCS flavour x AIR feature) matrix (feature_matrix): a switchable feature AIR (FeatAir: up to four "
                   "periodic columns of mixed periods incl. 1 and the trace length, low-degree and random tables; preprocessed "
                   "columns read on both rows; public values; constraint degree 2..5 = 1..4 quotient chunks; inside batches also "
                   "a LogUp bus and instances of different heights) under uni / unizk / batch / batchzk, and on it the wrong-AIR "
                   "move (forgery id wrongair:i:k:label): an HONEST proof of a sibling AIR of the same proof shape (one periodic "
                   "table entry off by one, table rotated, table of half the period made of the even entries — one column or all "
                   "—, two tables exchanged, one preprocessed cell off by one, another constraint constant; and as the positive "
                   "control the same column written with twice the period) presented for the target's AIR and verifying data: "
                   "every transcript- / Merkle-bound value is consistent, only what the verifier recomputes from the AIR itself "
                   "(periodic columns at zeta over the right domain, folded constraints, preprocessed commitment) can reject; "
                   "these moves are also run when the circuit rejects the target's honest proof (a circuit that rejects the "
                   "proofs of its AIR may accept those of a sibling)",
           "feature_matrix": {fam: {f: sorted(set(ts)) for f, ts in sorted(d.items())} for fam, d in sorted(feature_matrix.items())},
           "feature_matrix_rule": "feature_matrix[flavour][feature] = targets of that PCS flavour whose AIR(s) have the feature and whose "
                                  "honest proof the native verifier accepts; each carries: honest proof judged by both verifiers, every "
                                  "numeric leaf altered, false-statement forgeries, and (FeatAir targets) the wrong-AIR moves; pre-cur "
                                  "(preprocessed columns read on the current row only) is rejected by the circuit on every flavour "
                                  "(known findings F-C01-2 / F-C01-3), hence only kept for the non-ZK flavours",
           "feature_matrix_honest_proof_rejected_by_circuit": feature_circuit_rejects,
           "wrong_air_verdicts": wrong_air,
           "wrong_air_proofs": sum(t.get("wrong_air_proofs") or 0 for t in rep["targets"]),
           "pow_under_ground_native_rejections": {k[len("forge-pow-native-reject:"):]: v for k, v in hist.items()
                                                  if k.startswith("forge-pow-native-reject:")},
           "forged_native_verdicts": forged_native,
           "forged_proofs": sum(t.get("forged_proofs") or 0 for t in rep["targets"]),
           "forgeries_refused_by_prover": sum(t.get("forgeries_refused_by_prover") or 0 for t in rep["targets"]),
           "samples": rep["samples"][:6], "input_distribution": hist,
           "targets": rep["targets"],
           "positions_skipped_altered_value_does_not_deserialise": rep.get("skipped_deser", 0),
           "violation_class_counts": rep.get("violation_class_counts", {}),
           "traces_validated_against_impl": len(impl), "disagreements_checked": disagreements,
           "corpus_witnesses_reproduced": rep.get("corpus_witnesses_reproduced", []),
           "known_not_reproduced": []}
    return violations, cov


CHECK = {
    "lean_modules": ["P3R.Props.C01", "P3R.Witness.C01", "P3R.Props.C01Periodic", "P3R.Witness.C01Periodic"],
    "lean_exes": ["p3r_driver_c01"],
    "theorems": [
        "P3R.C01.batch_scripts_equal_partial", "P3R.C01.uni_scripts_equal_partial", "P3R.C01.uniAsBatch_rounds",
        "P3R.C01.observe_opened_zk", "P3R.C01.observe_opened_nozk", "P3R.C01.fri_events_equal",
        "P3R.C01.every_element_checked", "P3R.C01.pow_witness_bound",
        "P3R.C01.verdict_agree", "P3R.C01.batch_verdict_agree",
        "P3R.C01.terminal_mem_present", "P3R.C01.terminal_sum_checked", "P3R.C01.ood_checked",
        "P3R.C01.failing_check_rejected", "P3R.C01.unbalanced_bus_rejected",
        "P3R.C01.native_fri_pow", "P3R.C01.get_challenges_pow", "P3R.C01.circuit_batch_pow", "P3R.C01.circuit_uni_pow",
        "P3R.C01.failing_pow_rejected", "P3R.C01.under_ground_query_rejected", "P3R.C01.under_ground_commit_rejected",
        "P3R.C01.uni_under_ground_query_rejected", "P3R.C01.uni_under_ground_commit_rejected",
        "P3R.C01.periodic_domain_fold", "P3R.C01.periodic_low_degree_pad", "P3R.C01.wrong_domain_is_half_sibling",
        "P3R.Witness.C01Periodic.domain_matters", "P3R.Witness.C01Periodic.half_sibling_inhabited",
        "P3R.Witness.C01.zk_asym_pow_events",
        "P3R.Witness.C01.bus_mixed_terminal_sum",
        "P3R.Witness.C01.uni_zk_scripts_equal", "P3R.Witness.C01.uni_nonext_scripts_equal",
        "P3R.Witness.C01.uni_scripts_equal_full_false",
        "P3R.Witness.C01.batch_scripts_equal_full_false", "P3R.Witness.C01.witnesses_falsify_wf",
    ],
    "run": run,
    "trusted_base": [
        "the script abstraction: a verifier is its list of transcript events and checks over symbolic proof-element names; "
        "what happens inside a check (FRI folding, Merkle paths, constraint folding, quotient recomposition) and inside the "
        "sponge is properties C05, C07, C08, C12, C13, C14, C20 and enters `verdict_agree` as hypotheses",
        "the circuit side of the script is tied to the Rust by reading plus the triangle: model-native = real native "
        "(recording challenger, every target), real circuit accepts/rejects as the model predicts (every target), "
        "model-circuit = model-native (theorem); the circuit's own observe calls are not logged (CircuitChallenger is a "
        "concrete type inside verify_*_circuit)",
        "serde_json round trip of proofs (positions whose altered value does not deserialise are skipped and counted)",
        "under-ground proofs are made by giving the prover a config with other grinding bit counts than the verifier's "
        "(thread-local override read by the harness's own config makers; a target whose config ignores it yields no "
        "grind forgery, and the override is never alive while a verifier or a circuit is built)",
        "the wrong-AIR move proves a sibling AIR honestly with the same prover copy; that a sibling is a *different* AIR "
        "(resp. the `ptab-dbl` sibling an equivalent one) is not assumed: the native verifier's verdict on it is checked each "
        "run (class forge-campaign-lost-power:wrong-air-sibling-misdesigned)",
        "the adversarial prover harness/src/c01_forge_prover.rs (copy of p3_batch_stark::prove_batch / "
        "p3_uni_stark::prove_with_preprocessed 0.6.3 without the debug-only self-checks, plus hooks): it only has to "
        "produce proofs; that it has not drifted from the stock provers is checked on every run (byte-identical proof on "
        "the honest witness, else class forge-prover-drift)",
    ],
    "assumptions": [
        "WFUni (theorem hypothesis): if the AIR has preprocessed columns it opens their next row (hiding PCS allowed since "
        "/repo b026681, AIRs without next-row access since fixes/C01-1); outside it the current circuit rejects honest "
        "proofs (known finding F-C01-2)",
        "WFBatch (theorem hypothesis): at least one instance; every instance with preprocessed columns opens their next row "
        "(known finding F-C01-3)",
        "matrix_to_instance lists the instances with preprocessed columns in instance order (as "
        "ProverData::from_airs_and_degrees builds it; both verifiers check meta.matrix_index against it)",
        "proof-of-work witnesses are proof elements only when their bit count is positive (with 0 bits both verifiers ignore "
        "them: confirmed by both-accept verdicts of the fri2 targets)",
        "hiding PCS: the preprocessed round carries empty random vectors (commit_preprocessing pads with zero columns); "
        "validated by the element inventory and transcript of the unizk/mul-pre and batchzk/mixed-pre targets",
    ],
}

MANIFEST_ENTRY = {
    "property_id": "C01",
    "quick_cmd": "bin/check C01 --tier quick",
    "thorough_cmd": "bin/check C01 --tier thorough",
    "evidence_file": "evidence/C01.json",
    "replay_cmd_template": "bin/check C01 --replay {path}",
    "engine": "lean-models",
    "technique": "Lean 4 theorems over a verifier-script model (transcript events + checks per proof shape, native vs circuit) "
                 "+ exhaustive single-element fault enumeration on real proofs (native verdict vs circuit outcome) "
                 "+ prover-side forgeries (an adversarial copy of the p3 provers proves false statements: every algebraic "
                 "check — OOD identity per instance, cross-AIR LogUp terminal sum — is made the only failing one; native "
                 "verdict vs circuit outcome) "
                 "+ asymmetric / non-default verifying FRI parameters for every PCS flavour with a lazy prover grinding fewer "
                 "(or more) proof-of-work bits than demanded "
                 "+ a (PCS flavour x AIR feature) target matrix (periodic columns of mixed periods, preprocessed columns, public "
                 "values, 1..4 quotient chunks, lookups, heights; uni / unizk / batch / batchzk) with the wrong-AIR move (honest "
                 "proofs of sibling AIRs of the same shape: other periodic table / preprocessed content / constraint) "
                 "+ differential correspondence of the model with the recorded native transcript and with the checks / "
                 "proof-of-work phases seen decisive on forged proofs",
    "level_claimed": {
        "category": "proof",
        "text": "for every proof shape (any number of instances, widths, chunk counts, lookups, preprocessed columns, ZK, FRI "
                "parameters) satisfying WFBatch / WFUni the circuit's script equals the native script (same events, order, "
                "encodings, checks, operands); every proof element is an operand of a check (or a bound PoW witness); verdict "
                "agreement follows from component agreement (C05, C07, C08, C12, C13, C14, C20) by `verdict_agree`; outside the "
                "hypotheses the negation is proved on witnesses and replayed on the real code (2 known findings; F-C01-1, F-C01-4 and "
                "F-C01-5 are fixed and their shapes are regression targets)",
        "design_ref": "4/C01",
    },
    "level_note": "Lean kernel + 3 standard axioms; composition level only (components are other properties); the model's "
                  "circuit side is tied to the code indirectly (see trusted base); fault enumeration covers every numeric "
                  "leaf of 78 real proofs (84 targets; single-element alterations) and ~3700 forged proofs (300 of them honest proofs of sibling AIRs; false statements: "
                  "trace / public value / terminal / auxiliary trace / quotient; true statements with under- / over-ground "
                  "proof-of-work witnesses) on the accepted targets; tiny FRI parameters (grinding bit counts 0..9); FRI-internal forgeries (inconsistent folding) are not produced (C07)",
}
