"""C05 — in-circuit Fiat-Shamir transcript equals the native transcript.

Plug-in for bin/check (loaded by bin/checks.py). One run:
  1. lake build of P3R.Props.C05 / P3R.Witness.C05 / p3r_driver_c05 + axiom audit (bin/check),
  2. `p3r-harness transcript`: generated challenger histories on the 12 configurations x
     {recompose table on, off}; the real DuplexChallenger and the real CircuitChallenger (run
     through CircuitRunner::run; observed values are public inputs or DERIVED targets -- `od` ops:
     observe_ext of an earlier sampled challenge, of a product / sum / mul_add of earlier values, of
     select(sampled bit, u, v) with known/unknown-coefficient branches in both orders, of a value
     recomposed from base samples, of a target observed before -- natively the value is computed
     from the native challenger's own samples; for the Lean models an `od` is lowered to an `oe` of
     that native value); a recording wrapper
     around the real Poseidon1/Poseidon2 instance yields the permutation table of the case;
     implementation oracle = circuit outputs vs native outputs (violations),
  3. `p3r_driver_c05` runs both Lean models on the same histories with the recorded table;
     its output must equal the harness' `.impl` stream line by line (model-disagreement).
"""
import itertools, json, os

PROPERTY = "C05"


def _lines(p):
    with open(p) as fh:
        return [l.rstrip() for l in fh]


def _blocks(lines, start="case "):
    out, cur = [], []
    for l in lines:
        if l.startswith(start) and cur:
            out.append(cur); cur = []
        cur.append(l)
    if cur:
        out.append(cur)
    return out


def run(ctx):
    tier, seed, work, root = ctx["tier"], ctx["seed"], ctx["work"], ctx["root"]
    driver = os.path.join(ctx["driver_dir"], "p3r_driver_c05")
    corpus = os.path.join(root, "corpus", "c05")
    if ctx.get("replay"):
        rp = json.load(open(ctx["replay"]))
        os.makedirs(f"{work}/replay_corpus", exist_ok=True)
        json.dump(rp.get("replay", rp), open(f"{work}/replay_corpus/r.json", "w"))
        runs = [dict(cases=0, max_ops=1, corpus=f"{work}/replay_corpus")]
    elif tier == "quick":
        runs = [dict(cases=40000, max_ops=40, corpus=corpus),
                dict(cases=1500, max_ops=160, corpus=None)]
    else:
        runs = [dict(cases=150000, max_ops=40, corpus=corpus),
                dict(cases=10000, max_ops=400, corpus=None)]
    violations, hist, samples = [], {}, []
    evaluations = distinct = disagreements = blocks = perms = outputs = 0
    for n, r in enumerate(runs):
        out = f"{work}/run{n}"
        cmd = [ctx["harness"], "transcript", "--seed", str(seed + 1000 * n), "--cases", str(r["cases"]),
               "--max-ops", str(r["max_ops"]), "--out", out]
        if r["corpus"]:
            cmd += ["--corpus", r["corpus"]]
        rc, o = ctx["sh"](cmd, timeout=7200)
        if rc != 0:
            violations.append({"class": "harness-crash", "what": f"harness transcript exited {rc}: {o[-300:]}",
                               "replay": {"cmd": cmd}, "no_input": True})
            continue
        rep = json.load(open(f"{out}/transcript.report.json"))
        evaluations += rep["evaluations"]; distinct += rep["distinct"]
        perms += rep["perms_recorded"]; outputs += rep["outputs_compared"]
        for k, v in rep["hist"].items():
            hist[k] = hist.get(k, 0) + v
        samples += rep["samples"][:2]
        for v in rep["violations"]:
            violations.append({"class": v["class"],
                               "what": f"{v['kind']}: real CircuitChallenger vs real DuplexChallenger on cfg={v['replay']['cfg']} "
                                       f"alu={v['replay']['alu']} ({len(v['replay']['ops'])} ops after shrinking): {json.dumps(v.get('detail', {}))[:160]}",
                               "replay": v["replay"]})
        with open(f"{out}/transcript.cases") as fin:
            rc, o = ctx["sh"]([driver], stdin=fin, timeout=7200)
        with open(f"{out}/transcript.model", "w") as fh:
            fh.write(o)
        ib = _blocks(_lines(f"{out}/transcript.impl"))
        mb = _blocks(_lines(f"{out}/transcript.model"))
        cb = _blocks(_lines(f"{out}/transcript.cases"))
        blocks += len(ib)
        nd = 0
        for k in range(max(len(ib), len(mb))):
            a = ib[k] if k < len(ib) else []
            b = mb[k] if k < len(mb) else []
            if a != b:
                nd += 1
                if nd <= 3:
                    first = next(((x, y) for x, y in itertools.zip_longest(a, b) if x != y), None)
                    violations.append({
                        "class": "model-disagreement",
                        "what": f"correspondence transcript-model (L8: Model/Duplex + Model/CircuitChallenger vs p3-challenger "
                                f"DuplexChallenger + recursion/src/challenger/circuit.rs) no longer checks: impl={first[0]!r} model={first[1]!r}",
                        "replay": {"correspondence": "challenger transcript (native and circuit) vs lean/P3R/Model/{Duplex,CircuitChallenger}",
                                   "case_block": (cb[k] if k < len(cb) else [])[:80], "first_difference": first},
                        "no_input": True})
        disagreements += nd
    # a model disagreement is "no failing input found" only when no oracle failed on a concrete history
    if any(not v.get("no_input") for v in violations):
        for v in violations:
            if v["class"] == "model-disagreement":
                v["no_input"] = False
    cov = {"evaluations": evaluations, "programs": evaluations, "distinct_nontrivial": distinct,
           "rule": "random challenger histories (bursts of observe / observe_ext / sample / sample_ext biased to RATE-1, RATE, RATE+1, 2*RATE; "
                   "sample_bits incl. 0 and the largest width native accepts; check_pow with ground and deliberately failing witnesses; clear; "
                   "derived observes (~13% of the bursts, input_distribution derived.*): observe_ext of a target built with the real builder from earlier "
                   "values of the same history - an earlier sample_ext, add / mul / mul_add of samples, public inputs and earlier derived targets, "
                   "select(bit of an earlier sample_bits, t, s) with t/s known- or unknown-coefficient (all four shapes, derived.sel.t=*.s=*), "
                   "recompose of base samples, the same target again - the native value being computed from the native samples), "
                   "round-robin over 12 configurations (BabyBear/KoalaBear D4 and D1, Goldilocks D2, each with Poseidon2 and Poseidon1, plus a D1 permutation lifted into a D4 circuit for BabyBear-Poseidon2 and KoalaBear-Poseidon1) x recompose table on/off, corpus first; a case is non-trivial when at least one "
                   "permutation was executed and at least one value was sampled; distinct = distinct (configuration, mode, history) texts",
           "samples": samples[:3], "input_distribution": hist,
           "traces_validated_against_impl": blocks, "disagreements_checked": disagreements,
           "permutation_calls_recorded": perms, "native_outputs_compared": outputs}
    return violations, cov


CHECK = {
    "lean_modules": ["P3R.Props.C05", "P3R.Witness.C05"],
    "lean_exes": ["p3r_driver_c05"],
    "theorems": ["P3R.C05.duplexing_sim", "P3R.C05.step_sim", "P3R.C05.challenger_sim", "P3R.C05.transcript_eq",
                 "P3R.C05.native_sample_isSome", "P3R.C05L.recompose_embed", "P3R.C05L.reconK_bitsOf"],
    "run": run,
    "trusted_base": [
        "executable prime-field instances PF p of the driver (validated against p3-field by the runs)",
        "value-level abstraction of the circuit: the model computes what each builder call's target evaluates to, not the emitted op list "
        "(constant folding, provenance cache, CSE are value-preserving by C02/C03, not re-proved here)",
        "extension-field arithmetic is modelled only as far as the challenger uses it: coefficient-wise addition, multiplication by X^i in "
        "K[X]/(X^D - W), product of two embedded base elements",
        "native proof-of-work check: the harness re-states the 4-line body of GrindingChallenger::check_witness over the real "
        "observe/sample_bits (the trait impl needs a packed permutation the recording wrapper does not provide)",
    ],
    "assumptions": [
        "the permutation is any length-preserving function (theorems); runs use the real Poseidon1/Poseidon2 instances through a recorded table",
        "D divides WIDTH on the extension path, 0 < RATE < WIDTH (true of every supported configuration)",
        "sample_bits widths are those the native challenger accepts ((1 << bits) < ORDER); for wider requests native panics and nothing is claimed",
        "observed base values are base-field elements (native observe takes F); observe_ext takes D coefficients",
        "derived observed targets are built with add / mul / mul_add / select (selector = a sampled bit) / recompose_base_coeffs_to_ext over earlier "
        "sampled and observed values; select with a non-boolean selector and sub / div derived targets are not generated",
        "no other user of the same Poseidon table runs between two permutations of a compact-D1 challenger (chain state last_output_normal is shared per op type)",
        "the quintic trinomial extension is not exercised by the runs (a D=1 permutation lifted into a binomial D=4 circuit is); the theorems cover any D on the compact path and binomial extensions on the ALU recomposition path",
    ],
}

MANIFEST_ENTRY = {
    "property_id": "C05",
    "quick_cmd": "bin/check C05 --tier quick",
    "thorough_cmd": "bin/check C05 --tier thorough",
    "evidence_file": "evidence/C05.json",
    "replay_cmd_template": "bin/check C05 --replay {path}",
    "engine": "lean-models",
    "technique": "Lean 4 simulation proof between a model of DuplexChallenger and a value-level model of CircuitChallenger "
                 "(+ recompose/decompose, bit hint, Poseidon executor chaining) + three-way differential run with a recorded permutation table",
    "level_claimed": {
        "category": "proof",
        "text": "challenger_sim / transcript_eq: for every length-preserving permutation, width/rate/D, both paths (compact D=1, extension), both "
                "recomposition modes and every finite history, the circuit model returns exactly the native model's values and is satisfiable iff "
                "all native PoW checks accept. Both models are compared line by line with the real DuplexChallenger and the real "
                "CircuitChallenger (run through CircuitRunner) on generated histories over 12 configurations x table on/off; the real circuit is "
                "also compared with the real native challenger directly.",
        "design_ref": "4/C05",
    },
    "level_note": "Lean kernel + 3 standard axioms; models hand-written (correspondence-tested, exact on every sampled value); executable field "
                  "instances unverified; value-level (op lists are C02/C03/C09's subject); constraint-level binding of the challenges is C06",
}
