/-
C02 — a decidable invariant of the builder state that every builder operation preserves, and
the total soundness statement of the lowering for every reachable builder state.

`BState.Ok b`: node 0 exists; every id stored in a pool (constant pool, CSE table, mul-add /
Horner / bool-check pools) and every id of a `connect` names an existing expression that carries
a value (`proper`: not a call node); arithmetic children precede their node (`dagOk`).
`Res` is what every id-returning builder operation guarantees (`*_res` lemmas);
`Reachable` closes `BState.init` under the builder API of `Model/Builder.lean` called with ids
the builder handed out; `Reachable.ok : Reachable b → b.Ok`.

`lower_passes_check_ok` / `lower_sound_total`: for every `Ok` (hence every reachable) builder
state, whenever the modelled lowering succeeds, its certificate passes and therefore every
assignment satisfying the emitted ops satisfies every source relation — no per-program
certificate.
-/
import P3R.Props.C02LowerTotal
import P3R.Props.C02Denote

namespace P3R.C02T
open P3R

variable {K : Type}

/-! ### `proper`, `dagOk` under `push` -/

theorem proper_lt {nodes : Array (Expr K)} {x : Nat} (h : proper nodes x = true) :
    x < nodes.size := by
  obtain ⟨e, he, _⟩ := proper_spec h
  by_contra hge
  rw [Array.getElem?_eq_none (by omega)] at he
  cases he

theorem proper_of_get {nodes : Array (Expr K)} {x : Nat} {e : Expr K} (he : nodes[x]? = some e)
    (hne : ∀ op ins, e ≠ .npCall op ins) : proper nodes x = true := by
  unfold proper
  rw [he]
  cases e <;> first | rfl | exact absurd rfl (hne _ _)

theorem proper_push {nodes : Array (Expr K)} (e : Expr K) {x : Nat} (h : proper nodes x = true) :
    proper (nodes.push e) x = true := by
  obtain ⟨e', he', hne⟩ := proper_spec h
  have hx := proper_lt h
  refine proper_of_get (e := e') ?_ hne
  rw [Array.getElem?_push]
  simp [Nat.ne_of_lt hx, he']

theorem proper_push_new {nodes : Array (Expr K)} (e : Expr K)
    (hne : ∀ op ins, e ≠ .npCall op ins) : proper (nodes.push e) nodes.size = true := by
  refine proper_of_get (e := e) ?_ hne
  rw [Array.getElem?_push]
  simp

theorem dagOk_iff (nodes : Array (Expr K)) :
    dagOk nodes = true ↔ ∀ (i : Nat) (e : Expr K), nodes[i]? = some e → ∀ c ∈ e.arithChildren, c < i := by
  unfold dagOk
  simp only [List.all_eq_true, List.mem_range]
  constructor
  · intro h i e he c hc
    have hi : i < nodes.size := by
      by_contra hge
      rw [Array.getElem?_eq_none (by omega)] at he
      cases he
    have := h i hi
    rw [he] at this
    simp only [List.all_eq_true, decide_eq_true_eq] at this
    exact this c hc
  · intro h i hi
    split
    · rename_i e he
      simp only [List.all_eq_true, decide_eq_true_eq]
      exact fun c hc => h i e he c hc
    · rfl

theorem dagOk_push {nodes : Array (Expr K)} (h : dagOk nodes = true) (e : Expr K)
    (hch : ∀ c ∈ e.arithChildren, c < nodes.size) : dagOk (nodes.push e) = true := by
  rw [dagOk_iff] at h ⊢
  intro i e' he' c hc
  rw [Array.getElem?_push] at he'
  split at he'
  · rename_i hi
    cases he'
    rw [hi]; exact hch c hc
  · exact h i e' he' c hc

/-! ### The invariant -/

/-- Decidable invariant of the builder state (see the header). -/
def _root_.P3R.BState.Ok (b : BState K) : Prop :=
  proper b.nodes 0 = true ∧
  (∀ p ∈ b.constPool, proper b.nodes p.2 = true) ∧
  (∀ p ∈ b.cse, proper b.nodes p.2 = true) ∧
  (∀ p ∈ b.mulAddPool, proper b.nodes p.2 = true) ∧
  (∀ p ∈ b.hornerPool, proper b.nodes p.2 = true) ∧
  (∀ p ∈ b.boolPool, proper b.nodes p.2 = true) ∧
  (∀ ab ∈ b.connects, proper b.nodes ab.1 = true ∧ proper b.nodes ab.2 = true) ∧
  dagOk b.nodes = true

instance (b : BState K) : Decidable b.Ok := by
  unfold BState.Ok; infer_instance

theorem _root_.P3R.BState.Ok.connectsOk {b : BState K} (h : b.Ok) : connectsOk b = true := by
  obtain ⟨_, _, _, _, _, _, hc, _⟩ := h
  unfold C02T.connectsOk
  rw [List.all_eq_true]
  intro ab hab
  obtain ⟨h1, h2⟩ := hc ab hab
  simp [proper_lt h1, proper_lt h2, h1]

theorem _root_.P3R.BState.Ok.dagOk {b : BState K} (h : b.Ok) : dagOk b.nodes = true := h.2.2.2.2.2.2.2

/-- Validity of ids is kept. -/
def Mono (b b' : BState K) : Prop := ∀ x, proper b.nodes x = true → proper b'.nodes x = true

theorem Mono.refl (b : BState K) : Mono b b := fun _ h => h
theorem Mono.trans {b b' b'' : BState K} (h1 : Mono b b') (h2 : Mono b' b'') : Mono b b'' :=
  fun x h => h2 x (h1 x h)

/-- Pushing one node (that is not a call, or is not entered in any pool), entering its id in
pools. -/
theorem _root_.P3R.BState.Ok.push {b : BState K} (h : b.Ok) (e : Expr K)
    (hch : ∀ c ∈ e.arithChildren, c < b.nodes.size) (b' : BState K)
    (hn : b'.nodes = b.nodes.push e)
    (h1 : ∀ p ∈ b'.constPool, p ∈ b.constPool ∨ proper b'.nodes p.2 = true)
    (h2 : ∀ p ∈ b'.cse, p ∈ b.cse ∨ proper b'.nodes p.2 = true)
    (h3 : ∀ p ∈ b'.mulAddPool, p ∈ b.mulAddPool ∨ proper b'.nodes p.2 = true)
    (h4 : ∀ p ∈ b'.hornerPool, p ∈ b.hornerPool ∨ proper b'.nodes p.2 = true)
    (h5 : ∀ p ∈ b'.boolPool, p ∈ b.boolPool ∨ proper b'.nodes p.2 = true)
    (hconn : b'.connects = b.connects) : b'.Ok ∧ Mono b b' := by
  obtain ⟨z, c1, c2, c3, c4, c5, cc, dg⟩ := h
  have mono : Mono b b' := fun x hx => by rw [hn]; exact proper_push e hx
  refine ⟨⟨mono 0 z, ?_, ?_, ?_, ?_, ?_, ?_, ?_⟩, mono⟩
  · intro p hp; exact (h1 p hp).elim (fun h => mono _ (c1 p h)) id
  · intro p hp; exact (h2 p hp).elim (fun h => mono _ (c2 p h)) id
  · intro p hp; exact (h3 p hp).elim (fun h => mono _ (c3 p h)) id
  · intro p hp; exact (h4 p hp).elim (fun h => mono _ (c4 p h)) id
  · intro p hp; exact (h5 p hp).elim (fun h => mono _ (c5 p h)) id
  · intro ab hab
    rw [hconn] at hab
    exact ⟨mono _ (cc ab hab).1, mono _ (cc ab hab).2⟩
  · rw [hn]; exact dagOk_push dg e hch

/-- Guarantee of an id-returning builder operation. -/
def Res (b : BState K) (r : BState K × Nat) : Prop :=
  r.1.Ok ∧ Mono b r.1 ∧ proper r.1.nodes r.2 = true

theorem Res.same {b : BState K} (h : b.Ok) {id : Nat} (hid : proper b.nodes id = true) :
    Res b (b, id) := ⟨h, Mono.refl b, hid⟩

theorem Res.trans {b : BState K} {r r' : BState K × Nat} (h1 : Res b r) (h2 : Res r.1 r') :
    Res b r' := ⟨h2.1, h1.2.1.trans h2.2.1, h2.2.2⟩

theorem lookup_mem {α β : Type} [BEq α] [LawfulBEq α] {l : List (α × β)} {k : α} {v : β}
    (h : l.lookup k = some v) : (k, v) ∈ l := by
  induction l with
  | nil => cases h
  | cons p rest ih =>
    obtain ⟨k', v'⟩ := p
    simp only [List.lookup] at h
    split at h
    · rename_i heq
      cases h
      have : k = k' := by simpa using heq
      subst this
      exact List.mem_cons_self ..
    · exact List.mem_cons_of_mem _ (ih h)

section ops
variable [Zero K] [One K] [Add K] [Sub K] [Mul K] [DecidableEq K]

theorem init_ok : (BState.init : BState K).Ok := by
  refine ⟨rfl, ?_, ?_, ?_, ?_, ?_, ?_, ?_⟩ <;> simp [BState.init, proper, dagOk, Expr.arithChildren]

theorem defineConst_res {b : BState K} (h : b.Ok) (v : K) : Res b (b.defineConst v) := by
  unfold BState.defineConst
  split
  · rename_i id hl
    exact Res.same h (h.2.1 _ (lookup_mem hl))
  · have hnew := proper_push_new (nodes := b.nodes) (Expr.const v) (fun _ _ h => by cases h)
    obtain ⟨ok, mono⟩ := h.push (Expr.const v) (by simp [Expr.arithChildren])
      { b with nodes := b.nodes.push (Expr.const v),
               constPool := (v, b.nodes.size) :: b.constPool } rfl
      (by
        intro p hp
        rcases List.mem_cons.mp hp with rfl | hp
        · exact Or.inr hnew
        · exact Or.inl hp)
      (fun _ h => Or.inl h) (fun _ h => Or.inl h) (fun _ h => Or.inl h) (fun _ h => Or.inl h) rfl
    exact ⟨ok, mono, hnew⟩

theorem allocPublic_res {b : BState K} (h : b.Ok) : Res b b.allocPublic := by
  have hnew := proper_push_new (nodes := b.nodes) (Expr.pub b.pubCount) (fun _ _ h => by cases h)
  obtain ⟨ok, mono⟩ := h.push (Expr.pub b.pubCount) (by simp [Expr.arithChildren])
    b.allocPublic.1 rfl (fun _ h => Or.inl h)
    (fun _ h => Or.inl h) (fun _ h => Or.inl h) (fun _ h => Or.inl h) (fun _ h => Or.inl h) rfl
  exact ⟨ok, mono, hnew⟩

theorem allocPrivate_res {b : BState K} (h : b.Ok) : Res b b.allocPrivate := by
  have hnew := proper_push_new (nodes := b.nodes) (Expr.priv b.privCount) (fun _ _ h => by cases h)
  obtain ⟨ok, mono⟩ := h.push (Expr.priv b.privCount) (by simp [Expr.arithChildren])
    b.allocPrivate.1 rfl (fun _ h => Or.inl h)
    (fun _ h => Or.inl h) (fun _ h => Or.inl h) (fun _ h => Or.inl h) (fun _ h => Or.inl h) rfl
  exact ⟨ok, mono, hnew⟩

theorem cseOrPush_res {b : BState K} (h : b.Ok) (key : BinKind × Nat × Nat) (e : Expr K)
    (hne : ∀ op ins, e ≠ .npCall op ins) (hch : ∀ c ∈ e.arithChildren, c < b.nodes.size) :
    Res b (b.cseOrPush key e) := by
  unfold BState.cseOrPush
  split
  · rename_i id hl
    exact Res.same h (h.2.2.1 _ (lookup_mem hl))
  · have hnew := proper_push_new (nodes := b.nodes) e hne
    obtain ⟨ok, mono⟩ := h.push e hch
      { b with nodes := b.nodes.push e, cse := (key, b.nodes.size) :: b.cse } rfl
      (fun _ h => Or.inl h)
      (by
        intro p hp
        rcases List.mem_cons.mp hp with rfl | hp
        · exact Or.inr hnew
        · exact Or.inl hp)
      (fun _ h => Or.inl h) (fun _ h => Or.inl h) (fun _ h => Or.inl h) rfl
    exact ⟨ok, mono, hnew⟩

theorem add_res {b : BState K} (h : b.Ok) {l r : Nat} (hl : proper b.nodes l = true)
    (hr : proper b.nodes r = true) : Res b (b.add l r) := by
  unfold BState.add
  split
  · exact Res.same h hr
  · split
    · exact Res.same h hl
    · split
      · exact defineConst_res h _
      · exact cseOrPush_res h _ _ (fun _ _ h => by cases h)
          (by simp [Expr.arithChildren, proper_lt hl, proper_lt hr])

theorem sub_res {b : BState K} (h : b.Ok) {l r : Nat} (hl : proper b.nodes l = true)
    (hr : proper b.nodes r = true) : Res b (b.sub l r) := by
  unfold BState.sub
  split
  · exact Res.same h hl
  · split
    · exact Res.same h h.1
    · split
      · exact defineConst_res h _
      · exact cseOrPush_res h _ _ (fun _ _ h => by cases h)
          (by simp [Expr.arithChildren, proper_lt hl, proper_lt hr])

theorem mul_res {b : BState K} (h : b.Ok) {l r : Nat} (hl : proper b.nodes l = true)
    (hr : proper b.nodes r = true) : Res b (b.mul l r) := by
  unfold BState.mul
  split
  · exact Res.same h h.1
  · split
    · exact Res.same h hr
    · split
      · exact Res.same h hl
      · split
        · exact defineConst_res h _
        · exact cseOrPush_res h _ _ (fun _ _ h => by cases h)
            (by simp [Expr.arithChildren, proper_lt hl, proper_lt hr])

theorem div_res {b : BState K} (h : b.Ok) {l r : Nat} (hl : proper b.nodes l = true)
    (hr : proper b.nodes r = true) : Res b (b.div l r) := by
  unfold BState.div
  split
  · exact Res.same h hl
  · split
    · exact Res.same h h.1
    · split
      · exact defineConst_res h _
      · exact cseOrPush_res h _ _ (fun _ _ h => by cases h)
          (by simp [Expr.arithChildren, proper_lt hl, proper_lt hr])

theorem horner_res {b : BState K} (h : b.Ok) {acc al pz px : Nat}
    (h1 : proper b.nodes acc = true) (h2 : proper b.nodes al = true)
    (h3 : proper b.nodes pz = true) (h4 : proper b.nodes px = true) :
    Res b (b.horner acc al pz px) := by
  unfold BState.horner
  split
  · exact defineConst_res h _
  · split
    · rename_i id hl
      exact Res.same h (h.2.2.2.2.1 _ (lookup_mem hl))
    · have hnew := proper_push_new (nodes := b.nodes) (Expr.horner acc al pz px)
        (fun _ _ h => by cases h)
      obtain ⟨ok, mono⟩ := h.push (Expr.horner acc al pz px)
        (by simp [Expr.arithChildren, proper_lt h1, proper_lt h2, proper_lt h3, proper_lt h4])
        { b with nodes := b.nodes.push (Expr.horner acc al pz px),
                 hornerPool := ((acc, al, pz, px), b.nodes.size) :: b.hornerPool } rfl
        (fun _ h => Or.inl h) (fun _ h => Or.inl h) (fun _ h => Or.inl h)
        (by
          intro p hp
          rcases List.mem_cons.mp hp with rfl | hp
          · exact Or.inr hnew
          · exact Or.inl hp)
        (fun _ h => Or.inl h) rfl
      exact ⟨ok, mono, hnew⟩

theorem boolCheck_res {b : BState K} (h : b.Ok) {v : Nat} (hv : proper b.nodes v = true) :
    Res b (b.boolCheck v) := by
  unfold BState.boolCheck
  split
  · exact Res.same h hv
  · split
    · rename_i id hl
      exact Res.same h (h.2.2.2.2.2.1 _ (lookup_mem hl))
    · have hnew := proper_push_new (nodes := b.nodes) (Expr.boolCheck v) (fun _ _ h => by cases h)
      obtain ⟨ok, mono⟩ := h.push (Expr.boolCheck v) (by simp [Expr.arithChildren])
        { b with nodes := b.nodes.push (Expr.boolCheck v),
                 boolPool := (v, b.nodes.size) :: b.boolPool } rfl
        (fun _ h => Or.inl h) (fun _ h => Or.inl h) (fun _ h => Or.inl h) (fun _ h => Or.inl h)
        (by
          intro p hp
          rcases List.mem_cons.mp hp with rfl | hp
          · exact Or.inr hnew
          · exact Or.inl hp)
        rfl
      exact ⟨ok, mono, hnew⟩

theorem mulAdd_res {b : BState K} (h : b.Ok) {x y z : Nat} (h1 : proper b.nodes x = true)
    (h2 : proper b.nodes y = true) (h3 : proper b.nodes z = true) : Res b (b.mulAdd x y z) := by
  unfold BState.mulAdd
  split
  · exact defineConst_res h _
  · split
    · rename_i id hl
      exact Res.same h (h.2.2.2.1 _ (lookup_mem hl))
    · have hnew := proper_push_new (nodes := b.nodes) (Expr.mulAdd x y z) (fun _ _ h => by cases h)
      obtain ⟨ok, mono⟩ := h.push (Expr.mulAdd x y z)
        (by simp [Expr.arithChildren, proper_lt h1, proper_lt h2, proper_lt h3])
        { b with nodes := b.nodes.push (Expr.mulAdd x y z),
                 mulAddPool := (mulAddKey x y z, b.nodes.size) :: b.mulAddPool } rfl
        (fun _ h => Or.inl h) (fun _ h => Or.inl h)
        (by
          intro p hp
          rcases List.mem_cons.mp hp with rfl | hp
          · exact Or.inr hnew
          · exact Or.inl hp)
        (fun _ h => Or.inl h) (fun _ h => Or.inl h) rfl
      exact ⟨ok, mono, hnew⟩

/-- `connect` keeps the invariant when both sides are ids the builder handed out. -/
theorem connect_ok {b : BState K} (h : b.Ok) {x y : Nat} (hx : proper b.nodes x = true)
    (hy : proper b.nodes y = true) : (b.connect x y).Ok ∧ (b.connect x y).nodes = b.nodes := by
  unfold BState.connect
  split
  · exact ⟨h, rfl⟩
  · obtain ⟨z, c1, c2, c3, c4, c5, cc, dg⟩ := h
    refine ⟨⟨z, c1, c2, c3, c4, c5, ?_, dg⟩, rfl⟩
    intro ab hab
    rcases List.mem_append.mp hab with hab | hab
    · exact cc ab hab
    · have : ab = (x, y) := by simpa using hab
      subst this
      exact ⟨hx, hy⟩

theorem assertZero_ok {b : BState K} (h : b.Ok) {x : Nat} (hx : proper b.nodes x = true) :
    (b.assertZero x).Ok ∧ (b.assertZero x).nodes = b.nodes := connect_ok h hx h.1

theorem assertBool_ok {b : BState K} (h : b.Ok) {x : Nat} (hx : proper b.nodes x = true) :
    (b.assertBool x).Ok ∧ Mono b (b.assertBool x) := by
  unfold BState.assertBool
  obtain ⟨ok, mono, hid⟩ := boolCheck_res h hx
  obtain ⟨ok2, hn⟩ := connect_ok ok (mono x hx) hid
  exact ⟨ok2, fun y hy => by rw [hn]; exact mono y hy⟩

theorem select_res {b : BState K} (h : b.Ok) {c t f : Nat} (hc : proper b.nodes c = true)
    (ht : proper b.nodes t = true) (hf : proper b.nodes f = true) : Res b (b.select c t f) := by
  unfold BState.select
  split
  · exact Res.same h hf
  · split
    · exact Res.same h hf
    · split
      · exact Res.same h ht
      · have r1 := sub_res h ht hf
        exact r1.trans (mulAdd_res r1.1 (r1.2.1 c hc) r1.2.2 (r1.2.1 f hf))

/-- Folding an id-returning operation over a list of valid ids. -/
theorem foldl_res {α : Type} (f : BState K × Nat → α → BState K × Nat) (P : α → BState K → Prop)
    (hP : ∀ a b b', Mono b b' → P a b → P a b')
    (hf : ∀ acc a, acc.1.Ok → proper acc.1.nodes acc.2 = true → P a acc.1 → Res acc.1 (f acc a)) :
    ∀ (xs : List α) (acc : BState K × Nat), (∀ a ∈ xs, P a acc.1) → acc.1.Ok →
      proper acc.1.nodes acc.2 = true → Res acc.1 (xs.foldl f acc) := by
  intro xs
  induction xs with
  | nil => intro acc _ ok hid; exact ⟨ok, Mono.refl _, hid⟩
  | cons a rest ih =>
    intro acc hall ok hid
    simp only [List.foldl_cons]
    have r1 := hf acc a ok hid (hall a (List.mem_cons_self ..))
    have r2 := ih (f acc a) (fun a' ha' => hP a' _ _ r1.2.1 (hall a' (List.mem_cons_of_mem _ ha')))
      r1.1 r1.2.2
    exact r1.trans r2

theorem mulMany_res {b : BState K} (h : b.Ok) {xs : List Nat}
    (hxs : ∀ x ∈ xs, proper b.nodes x = true) : Res b (b.mulMany xs) := by
  unfold BState.mulMany
  cases xs with
  | nil => exact defineConst_res h _
  | cons x rest =>
    exact foldl_res (fun (acc : BState K × Nat) y => acc.1.mul acc.2 y)
      (fun y b => proper b.nodes y = true) (fun _ _ _ m h => m _ h)
      (fun acc y ok hid hy => mul_res ok hid hy) rest (b, x)
      (fun y hy => hxs y (List.mem_cons_of_mem _ hy)) h (hxs x (List.mem_cons_self ..))

theorem innerProduct_res {b : BState K} (h : b.Ok) {xs ys : List Nat}
    (hxs : ∀ x ∈ xs, proper b.nodes x = true) (hys : ∀ y ∈ ys, proper b.nodes y = true) :
    Res b (b.innerProduct xs ys) := by
  unfold BState.innerProduct
  have r0 := defineConst_res h (0 : K)
  refine r0.trans ?_
  exact foldl_res (fun (acc : BState K × Nat) (xy : Nat × Nat) => acc.1.mulAdd xy.1 xy.2 acc.2)
    (fun xy b => proper b.nodes xy.1 = true ∧ proper b.nodes xy.2 = true)
    (fun _ _ _ m h => ⟨m _ h.1, m _ h.2⟩)
    (fun acc xy ok hid hxy => mulAdd_res ok hxy.1 hxy.2 hid) (xs.zip ys) (b.defineConst 0)
    (fun xy hxy => ⟨r0.2.1 _ (hxs _ (List.of_mem_zip hxy).1), r0.2.1 _ (hys _ (List.of_mem_zip hxy).2)⟩)
    r0.1 r0.2.2

theorem expPow2_res {b : BState K} (h : b.Ok) {base : Nat} (hb : proper b.nodes base = true)
    (k : Nat) : Res b (b.expPow2 base k) := by
  unfold BState.expPow2
  exact foldl_res (fun (acc : BState K × Nat) (_ : Nat) => acc.1.mul acc.2 acc.2)
    (fun _ _ => True) (fun _ _ _ _ _ => trivial)
    (fun acc _ ok hid _ => mul_res ok hid hid) (List.range k) (b, base) (fun _ _ => trivial) h hb

/-- `push_non_primitive_op_with_outputs`: the call node is not entered anywhere; the outputs
are value-carrying ids. -/
theorem pushNp_ok {b : BState K} (h : b.Ok) (kind : NpKind) (ins : List (List Nat)) (nOut : Nat) :
    (b.pushNp kind ins nOut).1.Ok ∧ Mono b (b.pushNp kind ins nOut).1 ∧
    ∀ o ∈ (b.pushNp kind ins nOut).2, proper (b.pushNp kind ins nOut).1.nodes o = true := by
  unfold BState.pushNp
  simp only [BState.push]
  -- the call node
  obtain ⟨ok1, mono1⟩ := h.push (Expr.npCall b.npOps.size ins.flatten)
    (by simp [Expr.arithChildren])
    { b with nodes := b.nodes.push (Expr.npCall b.npOps.size ins.flatten) } rfl
    (fun _ h => Or.inl h) (fun _ h => Or.inl h) (fun _ h => Or.inl h) (fun _ h => Or.inl h)
    (fun _ h => Or.inl h) rfl
  -- the outputs
  have key : ∀ (idxs : List Nat) (acc : BState K × List Nat), acc.1.Ok →
      (∀ o ∈ acc.2, proper acc.1.nodes o = true) →
      let r := idxs.foldl (fun (acc : BState K × List Nat) i =>
        (({ acc.1 with nodes := acc.1.nodes.push (Expr.npOut b.nodes.size i) } : BState K),
          acc.2 ++ [acc.1.nodes.size])) acc
      r.1.Ok ∧ Mono acc.1 r.1 ∧ ∀ o ∈ r.2, proper r.1.nodes o = true := by
    intro idxs
    induction idxs with
    | nil => intro acc ok hall; exact ⟨ok, Mono.refl _, hall⟩
    | cons i rest ih =>
      intro acc ok hall
      simp only [List.foldl_cons]
      have hnew := proper_push_new (nodes := acc.1.nodes) (Expr.npOut b.nodes.size i)
        (fun _ _ h => by cases h)
      obtain ⟨ok', mono'⟩ := ok.push (Expr.npOut b.nodes.size i) (by simp [Expr.arithChildren])
        { acc.1 with nodes := acc.1.nodes.push (Expr.npOut b.nodes.size i) } rfl
        (fun _ h => Or.inl h) (fun _ h => Or.inl h) (fun _ h => Or.inl h) (fun _ h => Or.inl h)
        (fun _ h => Or.inl h) rfl
      obtain ⟨ok2, mono2, hall2⟩ := ih
        (({ acc.1 with nodes := acc.1.nodes.push (Expr.npOut b.nodes.size i) } : BState K),
          acc.2 ++ [acc.1.nodes.size]) ok'
        (by
          intro o ho
          rcases List.mem_append.mp ho with ho | ho
          · exact mono' o (hall o ho)
          · have : o = acc.1.nodes.size := by simpa using ho
            subst this
            exact hnew)
      exact ⟨ok2, mono'.trans mono2, hall2⟩
  obtain ⟨ok2, mono2, hall2⟩ := key (List.range nOut)
    ({ b with nodes := b.nodes.push (Expr.npCall b.npOps.size ins.flatten) }, []) ok1
    (fun _ h => nomatch h)
  exact ⟨ok2, mono1.trans mono2, hall2⟩

theorem reconstructBits_res {b : BState K} (h : b.Ok) (pow2 : Nat → K) {bits : List Nat}
    (hbits : ∀ x ∈ bits, proper b.nodes x = true) : Res b (b.reconstructBits pow2 bits) := by
  unfold BState.reconstructBits
  have r0 := defineConst_res h (0 : K)
  refine r0.trans ?_
  refine foldl_res _ (fun (bi : Nat × Nat) b => proper b.nodes bi.1 = true)
    (fun _ _ _ m h => m _ h) ?_ bits.zipIdx (b.defineConst 0) ?_ r0.1 r0.2.2
  · intro acc bi ok hid hbit
    have r1 := defineConst_res ok (pow2 bi.2)
    cases hd : acc.1.defineConst (pow2 bi.2) with
    | mk st p2 =>
      rw [hd] at r1
      simp only
      obtain ⟨ok2, mono2⟩ := assertBool_ok r1.1 (r1.2.1 _ hbit)
      have r3 := mulAdd_res ok2 (mono2 _ (r1.2.1 _ hbit)) (mono2 _ r1.2.2)
        (mono2 _ (r1.2.1 _ hid))
      exact ⟨r3.1, (r1.2.1.trans mono2).trans r3.2.1, r3.2.2⟩
  · intro bi hbi
    have : bi.1 ∈ bits := by
      obtain ⟨x, i⟩ := bi
      exact (List.mem_zipIdx hbi).2.2 ▸ List.getElem_mem _
    exact r0.2.1 _ (hbits _ this)

theorem decomposeToBits_ok {b : BState K} (h : b.Ok) (pow2 : Nat → K) {x : Nat}
    (hx : proper b.nodes x = true) (n : Nat) :
    (b.decomposeToBits pow2 x n).1.Ok ∧ Mono b (b.decomposeToBits pow2 x n).1 ∧
    ∀ o ∈ (b.decomposeToBits pow2 x n).2, proper (b.decomposeToBits pow2 x n).1.nodes o = true := by
  unfold BState.decomposeToBits
  obtain ⟨ok1, mono1, hbits⟩ := pushNp_ok h .hintBits [[x]] n
  cases hp : b.pushNp .hintBits [[x]] n with
  | mk s1 bits =>
    rw [hp] at ok1 mono1 hbits
    simp only at ok1 mono1 hbits ⊢
    have r2 := reconstructBits_res ok1 pow2 hbits
    cases hr : s1.reconstructBits pow2 bits with
    | mk s2 rec =>
      rw [hr] at r2
      simp only
      obtain ⟨ok3, hn⟩ := connect_ok r2.1 (r2.2.1 _ (mono1 _ hx)) r2.2.2
      refine ⟨ok3, fun y hy => by rw [hn]; exact r2.2.1 _ (mono1 _ hy), fun o ho => ?_⟩
      rw [hn]; exact r2.2.1 _ (hbits o ho)

/-! ### Reachable builder states -/

/-- Builder states reachable from `ExpressionBuilder::new` through the builder API of
`Model/Builder.lean`, every id argument being an id the builder handed out for a value
(`proper`). -/
inductive Reachable : BState K → Prop
  | init : Reachable BState.init
  | defineConst {b} (h : Reachable b) (v : K) : Reachable (b.defineConst v).1
  | allocPublic {b} (h : Reachable b) : Reachable b.allocPublic.1
  | allocPrivate {b} (h : Reachable b) : Reachable b.allocPrivate.1
  | add {b} (h : Reachable b) {l r : Nat} (hl : proper b.nodes l = true)
      (hr : proper b.nodes r = true) : Reachable (b.add l r).1
  | sub {b} (h : Reachable b) {l r : Nat} (hl : proper b.nodes l = true)
      (hr : proper b.nodes r = true) : Reachable (b.sub l r).1
  | mul {b} (h : Reachable b) {l r : Nat} (hl : proper b.nodes l = true)
      (hr : proper b.nodes r = true) : Reachable (b.mul l r).1
  | div {b} (h : Reachable b) {l r : Nat} (hl : proper b.nodes l = true)
      (hr : proper b.nodes r = true) : Reachable (b.div l r).1
  | horner {b} (h : Reachable b) {acc al pz px : Nat} (h1 : proper b.nodes acc = true)
      (h2 : proper b.nodes al = true) (h3 : proper b.nodes pz = true)
      (h4 : proper b.nodes px = true) : Reachable (b.horner acc al pz px).1
  | boolCheck {b} (h : Reachable b) {v : Nat} (hv : proper b.nodes v = true) :
      Reachable (b.boolCheck v).1
  | mulAdd {b} (h : Reachable b) {x y z : Nat} (h1 : proper b.nodes x = true)
      (h2 : proper b.nodes y = true) (h3 : proper b.nodes z = true) : Reachable (b.mulAdd x y z).1
  | connect {b} (h : Reachable b) {x y : Nat} (hx : proper b.nodes x = true)
      (hy : proper b.nodes y = true) : Reachable (b.connect x y)
  | assertZero {b} (h : Reachable b) {x : Nat} (hx : proper b.nodes x = true) :
      Reachable (b.assertZero x)
  | assertBool {b} (h : Reachable b) {x : Nat} (hx : proper b.nodes x = true) :
      Reachable (b.assertBool x)
  | select {b} (h : Reachable b) {c t f : Nat} (hc : proper b.nodes c = true)
      (ht : proper b.nodes t = true) (hf : proper b.nodes f = true) : Reachable (b.select c t f).1
  | mulMany {b} (h : Reachable b) {xs : List Nat} (hxs : ∀ x ∈ xs, proper b.nodes x = true) :
      Reachable (b.mulMany xs).1
  | innerProduct {b} (h : Reachable b) {xs ys : List Nat}
      (hxs : ∀ x ∈ xs, proper b.nodes x = true) (hys : ∀ y ∈ ys, proper b.nodes y = true) :
      Reachable (b.innerProduct xs ys).1
  | expPow2 {b} (h : Reachable b) {base : Nat} (hb : proper b.nodes base = true) (k : Nat) :
      Reachable (b.expPow2 base k).1
  | pushNp {b} (h : Reachable b) (kind : NpKind) (ins : List (List Nat)) (nOut : Nat) :
      Reachable (b.pushNp kind ins nOut).1
  | reconstructBits {b} (h : Reachable b) (pow2 : Nat → K) {bits : List Nat}
      (hbits : ∀ x ∈ bits, proper b.nodes x = true) : Reachable (b.reconstructBits pow2 bits).1
  | decomposeToBits {b} (h : Reachable b) (pow2 : Nat → K) {x : Nat}
      (hx : proper b.nodes x = true) (n : Nat) : Reachable (b.decomposeToBits pow2 x n).1

/-- Every reachable builder state satisfies the invariant. -/
theorem Reachable.ok {b : BState K} (h : Reachable b) : b.Ok := by
  induction h with
  | init => exact init_ok
  | defineConst _ v ih => exact (defineConst_res ih v).1
  | allocPublic _ ih => exact (allocPublic_res ih).1
  | allocPrivate _ ih => exact (allocPrivate_res ih).1
  | add _ hl hr ih => exact (add_res ih hl hr).1
  | sub _ hl hr ih => exact (sub_res ih hl hr).1
  | mul _ hl hr ih => exact (mul_res ih hl hr).1
  | div _ hl hr ih => exact (div_res ih hl hr).1
  | horner _ h1 h2 h3 h4 ih => exact (horner_res ih h1 h2 h3 h4).1
  | boolCheck _ hv ih => exact (boolCheck_res ih hv).1
  | mulAdd _ h1 h2 h3 ih => exact (mulAdd_res ih h1 h2 h3).1
  | connect _ hx hy ih => exact (connect_ok ih hx hy).1
  | assertZero _ hx ih => exact (assertZero_ok ih hx).1
  | assertBool _ hx ih => exact (assertBool_ok ih hx).1
  | select _ hc ht hf ih => exact (select_res ih hc ht hf).1
  | mulMany _ hxs ih => exact (mulMany_res ih hxs).1
  | innerProduct _ hxs hys ih => exact (innerProduct_res ih hxs hys).1
  | expPow2 _ hb k ih => exact (expPow2_res ih hb k).1
  | pushNp _ kind ins nOut ih => exact (pushNp_ok ih kind ins nOut).1
  | reconstructBits _ pow2 hbits ih => exact (reconstructBits_res ih pow2 hbits).1
  | decomposeToBits _ pow2 hx n ih => exact (decomposeToBits_ok ih pow2 hx n).1

end ops

/-! ### Total statements -/

/-- **C02/C03, total.** For every builder state satisfying the invariant (every reachable one),
a successful lowering passes its certificate, the graph is topologically ordered and every
emitted op is well-formed. -/
theorem lower_passes_check_ok [Neg K] [DecidableEq K] (b : BState K) (h : b.Ok) :
    ∀ l, lower b = .ok l →
      lowerCheck b l = true ∧ dagOk b.nodes = true ∧ ∀ o ∈ l.ops.toList, opWF o = true :=
  fun l hl => ⟨lower_passes_check b h.connectsOk l hl, h.dagOk, lower_ops_wf b h.connectsOk l hl⟩

section sound
variable [CommRing K] [DecidableEq K]

/-- **Soundness of the lowering for every program**, no per-program certificate: whenever the
lowering of an `Ok` builder state succeeds, every assignment `w` of the witness slots that
satisfies the emitted ops satisfies, under `v e := w (slot e)`, the defining relation of every
node of the expression graph and the equality of every `connect`. -/
theorem lower_sound_total (b : BState K) (h : b.Ok) (l : Lowered K) (hl : lower b = .ok l)
    (w pub : Nat → K) (hsat : Sat w pub l.ops.toList) :
    (∀ i e, b.nodes[i]? = some e → C03.nodeRel (fun e => w (l.slot e)) pub i e) ∧
    (∀ ab ∈ b.connects, w (l.slot ab.1) = w (l.slot ab.2)) :=
  C03.lower_check_sound b l (lower_passes_check b h.connectsOk l hl) w pub hsat

/-- The same for every builder state reachable through the builder API. -/
theorem lower_sound_reachable (b : BState K) (h : Reachable b) (l : Lowered K)
    (hl : lower b = .ok l) (w pub : Nat → K) (hsat : Sat w pub l.ops.toList) :
    (∀ i e, b.nodes[i]? = some e → C03.nodeRel (fun e => w (l.slot e)) pub i e) ∧
    (∀ ab ∈ b.connects, w (l.slot ab.1) = w (l.slot ab.2)) :=
  lower_sound_total b h.ok l hl w pub hsat

end sound

section denote
variable {K : Type} [Field K] [DecidableEq K]

/-- `run_values_denote` with its three lowering hypotheses (`lowerCheck`, `opWF` of the lowered
ops, `dagOk`) discharged for every `Ok` builder state: value preservation through the compiled
circuit depends on no per-program certificate of the *lowering* (the fusion certificate `hFC`
and the well-formedness of the final ops remain as in `run_values_denote`). -/
theorem run_values_denote_lower_total (canon : K → Nat) (b : BState K) (hb : b.Ok) (l : Lowered K)
    (hl : lower b = .ok l) (inputs : List Nat) (c : Circuit K)
    (hops : c.ops = fuse (dedup l.ops).1 inputs)
    (hWFfin : ∀ o ∈ c.ops.toList, opWF o = true)
    (hFC : fusionCheck (dedup l.ops).1.toList (fuseWithSites (dedup l.ops).1 inputs).1.toList
      (fuseWithSites (dedup l.ops).1 inputs).2 = true)
    (w0 : Array (Option K)) (t : Traces K) (hrun : runFrom canon c w0 = .ok t) (pub : Nat → K)
    (hpub : ∀ out pos, Op.pub out pos ∈ c.ops.toList → t.witness.getD out 0 = pub pos)
    (hbool : ∀ a bb cc out io, Op.alu .boolCheck a bb cc out io ∈ c.ops.toList →
      t.witness.getD a 0 * (t.witness.getD a 0 - 1) = 0) :
    ∃ w' : Nat → K,
      (∀ x, (∀ s ∈ (fuseWithSites (dedup l.ops).1 inputs).2, s.m ≠ x) → w' x = t.witness.getD x 0) ∧
      ((∀ (i a d : Nat), b.nodes[i]? = some (Expr.div a d : Expr K) →
          w' (resolve (dedup l.ops).2 (l.slot d)) ≠ 0) →
        ∀ i, i < b.nodes.size →
          w' (resolve (dedup l.ops).2 (l.slot i)) =
            (C02.denote b.nodes pub (fun e => w' (resolve (dedup l.ops).2 (l.slot e))) b.nodes.size).getD i 0) := by
  obtain ⟨hLC, hdag, hWF⟩ := lower_passes_check_ok b hb l hl
  exact C02.run_values_denote canon b l inputs c hops hLC hWF hWFfin hFC hdag w0 t hrun pub hpub hbool

end denote

end P3R.C02T
