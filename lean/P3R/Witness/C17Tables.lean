/-
C17 — witnesses for `P3R.Props.C17Tables` (table names as numbers: 0 = challenger permutation
table, 1 = `recompose`, 2 = `recompose/coeff`).

* `consistent_chain` — non-vacuity of `chain_ok` / `chain_output`: the D = 2 backend as it is
  (provers `[perm, recompose]`, both traced by every verification circuit) chains to any depth;
* `split_flag_mismatch_refused` — the list of seed C17-d (`non_primitive_provers` computed with the
  flag of another degree: `[perm, recompose, recompose/coeff]` where the verification circuit has
  no `recompose/coeff` op): layer 1 is built and proves (`split_flag_mismatch_depth1_ok`), layer 2
  is refused — `chain_refused` is not vacuous, and depth 1 cannot reveal it;
* `recompose_off_refused` — the same effect when the integrator disables the recompose NPO in
  `prepare_circuit_for_verification` while the backend keeps listing the recompose table
  (observed on the real code by the `tables` leg, reported as an observation, not a violation:
  the backend has no switch for it).
-/
import P3R.Props.C17Tables

namespace P3R.Witness.C17Tables
open P3R.Tables P3R.C17Tables

def provD2 : List Nat := [0, 1]
def provSeed : List Nat := [0, 1, 2]
/-- the verification circuit of the D = 2 configuration: permutation and recompose rows only -/
def trD2 : Nat → Bool := fun t => t == 0 || t == 1
def trNoRecompose : Nat → Bool := fun t => t == 0

theorem consistent_chain :
    runChain provD2 .base [trD2, trD2, trD2] = some (.layer provD2) := by decide

theorem consistent_chain_hyp : ∀ tr ∈ [trD2, trD2, trD2], ∀ p ∈ provD2, tr p = true := by decide

theorem split_flag_mismatch_depth1_ok :
    runChain provSeed .base [trD2] = some (.layer [0, 1]) := by decide

theorem split_flag_mismatch_refused : runChain provSeed .base [trD2, trD2] = none := by decide

theorem split_flag_mismatch_agg_refused :
    stepLayer provSeed trD2 [.layer (carried provSeed trD2), .layer (carried provSeed trD2)] = none := by
  decide

theorem recompose_off_refused : runChain provD2 .base [trNoRecompose, trNoRecompose] = none := by decide

example : accepts provSeed (carried provSeed trD2) = false := by decide
example : accepts provD2 (carried provD2 trD2) = true := by decide
example : airList [[0], [1, 2], ([] : List Nat)] = [0, 1] := by decide

end P3R.Witness.C17Tables
