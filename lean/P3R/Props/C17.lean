/-
C17 — recursion layers and aggregations chain, with or without cached preparation.
Version for the tree with findings F10 and F10b repaired (`fixes/C17-1.diff`, `fixes/C17-2.diff`).

Model: `P3R.Model.Cache` (the call-sequence state machine of `prove_next_layer`,
`prove_aggregation_layer`, `prove_aggregation_layer_cross`; jobs `J`, keys `F`, any number of
caller cache variables, any sequence of calls, any pattern of cache arguments). After the repair
the key is the extended fingerprint (four counters + digest of `(ops, public_rows,
private_input_rows)`) and `prove_next_layer` compares it too, refusing on mismatch.

**Full statement** (what the property text demands, for every sequence of calls and every
pattern of cache reuse): every call either is refused with an error — and then only because it
was handed a preparation made for a different circuit — or proves with exactly the preparation
data of its own circuit, so that its proof verifies exactly when the uncached one does.

What is proved, for every history, every number of cache variables, every initial content:

* `cache_refines_uncached_digest` — the full statement for jobs = circuit × params, key =
  `fingerprintX dg`, preparation = the model's preprocessed columns (`prepData`, from
  `genPrep`), under **one** assumption: `DigestInjOn dg` — the digest function does not collide
  on the structures `(ops, public_rows, private_input_rows)` of the circuits the history
  mentions (its own circuits, the circuits of the preparations handed in, the circuits stored
  in the initial cache variables). The hypotheses `KeyDeterminesPrep` and `CallerPrepsMatch` of
  the pre-repair theorem are gone: the first is now *derived* (`keyDeterminesPrep_of_digest`,
  from `prepData_congr`: the preprocessed columns are a function of the structure), the second
  is enforced by the code (`next_refused_iff`).
  A 64-bit digest cannot be injective on all circuits; the assumption is about the finitely
  many circuits of one history and is the only place where "no collision" enters. It is named
  `_digest`, not claimed unconditionally: the statement without `DigestInjOn` is false for any
  non-injective `dg` (`Witness.C17.constant_digest_insufficient`).
* `cache_refines_uncached_partial` — the generic form (any `J`, `F`, `key`, `prepOf`) under
  `KeyDeterminesPrep` alone; `cache_refines_uncached` — under an injective key: every call is
  refused or uses the data of the job itself.
* `refused_iff` — a call is refused iff it is a `prove_next_layer` call handed a preparation
  whose key differs from the key of the current circuit (never an aggregation call, never a
  call without cache, never a preparation with the same key).
* `cached_verdict_eq_uncached_partial` — for every outcome function of (job, data used), every
  call that is not refused has the uncached outcome.
* `different_job_recomputed`, `agg_hit_iff`, `agg_used_correct_iff`, `slotsWF_run` — as before.
* `circuit_part_refines_partial` — a key that reads the circuit only: the circuit component of
  the data used is right; the params component may be stale (`Witness.C17.params_stale`; the
  proof records its packing, so this does not affect the verdict).

What is not a theorem: that a proof made with the right preparation verifies and is a valid
input of the next layer (C01 + C10 + the cryptographic layer); exercised on the real code by
every run of the check.
-/
import P3R.Model.Cache
import Mathlib.Data.List.Forall2

namespace P3R.C17
open P3R P3R.Cache

variable {F J D : Type} [DecidableEq F]

/-- Every stored entry carries the key of the job it was filled for. -/
def SlotsWF (key : J → F) (s : Slots F J) : Prop := ∀ p ∈ s, p.2.key = key p.2.job

/-- Jobs whose preparation is stored in some cache variable. -/
def slotJobs (s : Slots F J) : List J := s.map fun p => p.2.job

/-- On the listed jobs the key determines the preparation data. -/
def KeyDeterminesPrep (key : J → F) (prepOf : J → D) (js : List J) : Prop :=
  ∀ j j', j ∈ js → j' ∈ js → key j = key j' → prepOf j = prepOf j'

/-- The outcome of one call is acceptable: refused, or proved with data that is the
preparation of the call's own job. -/
def Good (prepOf : J → D) (st : Step J) (o : StepOut J) : Prop :=
  match o.used with
  | none => True
  | some u => prepOf u = prepOf st.job

/-! ### Cache-variable lemmas -/

omit [DecidableEq F] in
theorem mem_of_get {s : Slots F J} {k : Nat} {e : Entry F J} (h : s.get k = some e) :
    (k, e) ∈ s := by
  induction s with
  | nil => simp [Slots.get] at h
  | cons p t ih =>
    obtain ⟨a, b⟩ := p
    unfold Slots.get at h ih
    rw [List.lookup_cons] at h
    by_cases hk : (k == a) = true
    · rw [hk] at h
      have hka : k = a := by simpa using hk
      have hb : b = e := by simpa using h
      subst hka; subst hb
      exact List.mem_cons_self
    · have hk' : (k == a) = false := by simpa using hk
      rw [hk'] at h
      exact List.mem_cons_of_mem _ (ih h)

omit [DecidableEq F] in
theorem get_set (s : Slots F J) (k : Nat) (e : Entry F J) : (s.set k e).get k = some e := by
  simp [Slots.get, Slots.set]

omit [DecidableEq F] in
theorem mem_set {s : Slots F J} {k : Nat} {e : Entry F J} {p : Nat × Entry F J}
    (h : p ∈ s.set k e) : p = (k, e) ∨ p ∈ s := by
  unfold Slots.set at h
  rcases List.mem_cons.mp h with h | h
  · exact Or.inl h
  · exact Or.inr (List.mem_filter.mp h).1

omit [DecidableEq F] in
theorem slotsWF_set {key : J → F} {s : Slots F J} (hwf : SlotsWF key s) (k : Nat) (job : J) :
    SlotsWF key (s.set k ⟨key job, job⟩) := by
  intro p hp
  rcases mem_set hp with h | h
  · subst h; rfl
  · exact hwf p h

omit [DecidableEq F] in
theorem slotJobs_set {s : Slots F J} {k : Nat} {e : Entry F J} {j : J}
    (h : j ∈ slotJobs (s.set k e)) : j = e.job ∨ j ∈ slotJobs s := by
  unfold slotJobs at h ⊢
  obtain ⟨p, hp, rfl⟩ := List.mem_map.mp h
  rcases mem_set hp with h | h
  · subst h; exact Or.inl rfl
  · exact Or.inr (List.mem_map.mpr ⟨p, h, rfl⟩)

/-! ### One call -/

theorem step_agg_empty {key : J → F} {s : Slots F J} {k : Nat} (job : J) (hg : s.get k = none) :
    step key s (.agg job (some k)) = (s.set k ⟨key job, job⟩, ⟨false, some job⟩) := by
  simp only [step, hg]

theorem step_agg_hit {key : J → F} {s : Slots F J} {k : Nat} {e : Entry F J} (job : J)
    (hg : s.get k = some e) (he : e.key = key job) :
    step key s (.agg job (some k)) = (s, ⟨true, some e.job⟩) := by
  simp only [step, hg, he, if_true]

theorem step_agg_miss {key : J → F} {s : Slots F J} {k : Nat} {e : Entry F J} (job : J)
    (hg : s.get k = some e) (he : e.key ≠ key job) :
    step key s (.agg job (some k)) = (s.set k ⟨key job, job⟩, ⟨false, some job⟩) := by
  simp only [step, hg, he, if_false]

theorem step_next_hit {key : J → F} {s : Slots F J} (job j' : J) (he : key j' = key job) :
    step key s (.next job (some j')) = (s, ⟨true, some j'⟩) := by
  simp only [step, he, if_true]

theorem step_next_refused {key : J → F} {s : Slots F J} (job j' : J) (he : key j' ≠ key job) :
    step key s (.next job (some j')) = (s, ⟨false, none⟩) := by
  simp only [step, he, if_false]

/-- The invariant is preserved by every call. -/
theorem slotsWF_step {key : J → F} {s : Slots F J} (hwf : SlotsWF key s) (st : Step J) :
    SlotsWF key (step key s st).1 := by
  cases st with
  | agg job slot =>
    cases slot with
    | none => exact hwf
    | some k =>
      cases hg : s.get k with
      | none => rw [step_agg_empty job hg]; exact slotsWF_set hwf k job
      | some e =>
        by_cases he : e.key = key job
        · rw [step_agg_hit job hg he]; exact hwf
        · rw [step_agg_miss job hg he]; exact slotsWF_set hwf k job
  | next job prep =>
    cases prep with
    | none => exact hwf
    | some j' =>
      by_cases he : key j' = key job
      · rw [step_next_hit job j' he]; exact hwf
      · rw [step_next_refused job j' he]; exact hwf

/-- Jobs stored after a call were stored before, or are the call's own job. -/
theorem slotJobs_step {key : J → F} {s : Slots F J} (st : Step J) {j : J}
    (h : j ∈ slotJobs (step key s st).1) : j = st.job ∨ j ∈ slotJobs s := by
  cases st with
  | agg job slot =>
    cases slot with
    | none => exact Or.inr h
    | some k =>
      cases hg : s.get k with
      | none =>
        rw [step_agg_empty job hg] at h
        exact slotJobs_set h
      | some e =>
        by_cases he : e.key = key job
        · rw [step_agg_hit job hg he] at h
          exact Or.inr h
        · rw [step_agg_miss job hg he] at h
          exact slotJobs_set h
  | next job prep =>
    cases prep with
    | none => exact Or.inr h
    | some j' =>
      by_cases he : key j' = key job
      · rw [step_next_hit job j' he] at h; exact Or.inr h
      · rw [step_next_refused job j' he] at h; exact Or.inr h

/-- An aggregation call uses stored data iff the variable is filled and the stored key equals
the current key. Nothing else is consulted. -/
theorem agg_hit_iff (key : J → F) (s : Slots F J) (job : J) (k : Nat) :
    (step key s (.agg job (some k))).2.hit = true ↔ ∃ e, s.get k = some e ∧ e.key = key job := by
  cases hg : s.get k with
  | none => rw [step_agg_empty job hg]; simp
  | some e =>
    by_cases he : e.key = key job
    · rw [step_agg_hit job hg he]; simp [he]
    · rw [step_agg_miss job hg he]; simp [he]

/-- Exact characterisation (no hypothesis): the data used by an aggregation call is the
preparation of the current job iff the call missed or the stored job has the same
preparation. An aggregation call is never refused. -/
theorem agg_used_correct_iff (key : J → F) (prepOf : J → D) (s : Slots F J) (job : J) (k : Nat) :
    (∃ u, (step key s (.agg job (some k))).2.used = some u ∧ prepOf u = prepOf job) ↔
      ∀ e, s.get k = some e → e.key = key job → prepOf e.job = prepOf job := by
  cases hg : s.get k with
  | none => rw [step_agg_empty job hg]; simp
  | some e =>
    by_cases he : e.key = key job
    · rw [step_agg_hit job hg he]; simp [he]
    · rw [step_agg_miss job hg he]; simp [he]

/-- **Refusal** happens exactly when `prove_next_layer` is handed a preparation whose key differs
from the key of the current circuit. -/
theorem refused_iff (key : J → F) (s : Slots F J) (st : Step J) :
    (step key s st).2.used = none ↔ ∃ job j', st = .next job (some j') ∧ key j' ≠ key job := by
  cases st with
  | agg job slot =>
    cases slot with
    | none => simp [step]
    | some k =>
      cases hg : s.get k with
      | none => rw [step_agg_empty job hg]; simp
      | some e =>
        by_cases he : e.key = key job
        · rw [step_agg_hit job hg he]; simp
        · rw [step_agg_miss job hg he]; simp
  | next job prep =>
    cases prep with
    | none => simp [step]
    | some j' =>
      by_cases he : key j' = key job
      · rw [step_next_hit job j' he]; simp [he]
      · rw [step_next_refused job j' he]; simp [he]

/-- "Refused or recomputed whenever the circuit it was prepared for differs", aggregation: if
the key separates the stored job from the current one, the call recomputes for the current job
and the variable afterwards holds the current job. -/
theorem different_job_recomputed {key : J → F} {s : Slots F J} (hwf : SlotsWF key s)
    {k : Nat} {e : Entry F J} {job : J} (hget : s.get k = some e) (hdiff : e.job ≠ job)
    (hsep : key e.job = key job → e.job = job) :
    (step key s (.agg job (some k))).2 = ⟨false, some job⟩ ∧
      (step key s (.agg job (some k))).1.get k = some ⟨key job, job⟩ := by
  have hk : e.key = key e.job := hwf (k, e) (mem_of_get hget)
  have hne : e.key ≠ key job := fun h => hdiff (hsep (hk ▸ h))
  rw [step_agg_miss job hget hne]
  exact ⟨rfl, get_set s k _⟩

/-! ### Sequences of calls -/

theorem slotsWF_run {key : J → F} (h : List (Step J)) {s : Slots F J} (hwf : SlotsWF key s) :
    SlotsWF key (run key s h).1 := by
  induction h generalizing s with
  | nil => exact hwf
  | cons st rest ih =>
    unfold run
    exact ih (slotsWF_step hwf st)

theorem job_mem_mentioned (st : Step J) : st.job ∈ st.mentioned := by
  cases st with
  | agg j sl => simp [Step.job, Step.mentioned]
  | next j p => cases p <;> simp [Step.job, Step.mentioned]

/-- **C17, cache part, generic form** (`…_partial`: one hypothesis, `hkey`). For every sequence
of calls, every number of cache variables, every initial content: each call is refused or
proves with the preparation data of its own job. -/
theorem cache_refines_uncached_partial (key : J → F) (prepOf : J → D) (h : List (Step J)) :
    ∀ (s : Slots F J), SlotsWF key s →
      KeyDeterminesPrep key prepOf (slotJobs s ++ mentioned h) →
      List.Forall₂ (Good prepOf) h (run key s h).2 := by
  induction h with
  | nil => intro s _ _; exact List.Forall₂.nil
  | cons st rest ih =>
    intro s hwf hkey
    unfold run
    have hjob : st.job ∈ slotJobs s ++ mentioned (st :: rest) :=
      List.mem_append_right _ (by
        simp only [mentioned, List.flatMap_cons]
        exact List.mem_append_left _ (job_mem_mentioned st))
    refine List.Forall₂.cons ?_ (ih (step key s st).1 (slotsWF_step hwf st) ?_)
    · -- the first call
      cases st with
      | agg job slot =>
        cases slot with
        | none => simp [step, Good, Step.job]
        | some k =>
          cases hg : s.get k with
          | none => rw [step_agg_empty job hg]; simp [Good, Step.job]
          | some e =>
            by_cases he : e.key = key job
            · rw [step_agg_hit job hg he]
              have hmem := mem_of_get hg
              have hk : e.key = key e.job := hwf (k, e) hmem
              show prepOf e.job = prepOf job
              apply hkey e.job job
              · exact List.mem_append_left _ (List.mem_map.mpr ⟨(k, e), hmem, rfl⟩)
              · exact hjob
              · rw [← hk, he]
            · rw [step_agg_miss job hg he]; simp [Good, Step.job]
      | next job prep =>
        cases prep with
        | none => simp [step, Good, Step.job]
        | some j' =>
          by_cases he : key j' = key job
          · rw [step_next_hit job j' he]
            show prepOf j' = prepOf job
            apply hkey j' job _ hjob he
            exact List.mem_append_right _ (by simp [mentioned, Step.mentioned])
          · rw [step_next_refused job j' he]; trivial
    · -- hypothesis for the rest
      have hsub : ∀ j, j ∈ slotJobs (step key s st).1 ++ mentioned rest →
          j ∈ slotJobs s ++ mentioned (st :: rest) := by
        intro j hj
        rcases List.mem_append.mp hj with h1 | h1
        · rcases slotJobs_step st h1 with h2 | h2
          · subst h2; exact hjob
          · exact List.mem_append_left _ h2
        · exact List.mem_append_right _ (by
            simp only [mentioned, List.flatMap_cons]
            exact List.mem_append_right _ h1)
      intro j j' hj hj' hkk
      exact hkey j j' (hsub j hj) (hsub j' hj') hkk

/-- Under a key that is injective on the jobs the history mentions (and on the initial cache
content): every call is refused or proves with the data of the job itself. -/
theorem cache_refines_uncached (key : J → F) (s : Slots F J) (h : List (Step J))
    (hwf : SlotsWF key s)
    (hinj : ∀ j j', j ∈ slotJobs s ++ mentioned h → j' ∈ slotJobs s ++ mentioned h →
      key j = key j' → j = j') :
    List.Forall₂ (fun st o => o.used = none ∨ o.used = some st.job) h (run key s h).2 := by
  have := cache_refines_uncached_partial key (fun j => j) h s hwf hinj
  refine this.imp ?_
  intro st o hg
  unfold Good at hg
  cases hu : o.used with
  | none => exact Or.inl rfl
  | some u =>
    rw [hu] at hg
    exact Or.inr (congrArg some (by simpa using hg))

/-- "Verify exactly when the uncached ones do": for every outcome function of (job, data
used), every call that is not refused has the outcome of the same call without cache. -/
theorem cached_verdict_eq_uncached_partial {O : Type} (outcome : J → D → O) (key : J → F)
    (prepOf : J → D) (s : Slots F J) (h : List (Step J)) (hwf : SlotsWF key s)
    (hkey : KeyDeterminesPrep key prepOf (slotJobs s ++ mentioned h)) :
    List.Forall₂ (fun st o => ∀ u, o.used = some u →
        outcome st.job (prepOf u) = outcome st.job (prepOf st.job)) h (run key s h).2 := by
  refine (cache_refines_uncached_partial key prepOf h s hwf hkey).imp ?_
  intro st o hg u hu
  unfold Good at hg
  rw [hu] at hg
  rw [hg]

/-- Jobs = circuit × params, key reads the circuit only (as the fingerprint does). If the key is
injective on the circuits the history mentions, the *circuit* the data was prepared for is
always the current circuit. (The params component can be stale.) -/
theorem circuit_part_refines_partial {C P : Type} (fp : C → F) (s : Slots F (C × P))
    (h : List (Step (C × P))) (hwf : SlotsWF (fun j => fp j.1) s)
    (hinj : ∀ j j', j ∈ slotJobs s ++ mentioned h → j' ∈ slotJobs s ++ mentioned h →
      fp j.1 = fp j'.1 → j.1 = j'.1) :
    List.Forall₂ (Good (Prod.fst : C × P → C)) h (run (fun j => fp j.1) s h).2 :=
  cache_refines_uncached_partial (fun j : C × P => fp j.1) (Prod.fst : C × P → C) h s hwf hinj

theorem forall₂_and {α β : Type} {R T : α → β → Prop} {l : List α} {m : List β}
    (h1 : List.Forall₂ R l m) (h2 : List.Forall₂ T l m) :
    List.Forall₂ (fun a b => R a b ∧ T a b) l m := by
  induction h1 with
  | nil => exact List.Forall₂.nil
  | cons hh _ ih =>
    cases h2 with
    | cons k1 k2 => exact List.Forall₂.cons ⟨hh, k1⟩ (ih k2)

/-! ### The concrete key: counters + structure digest -/

/-- The preparation data of a circuit in the model of `generate_preprocessed_columns`: Const
indices, Public indices, ALU rows (kind, operand indices, roles). -/
def prepData {K : Type} (c : Circuit K) : Option (List Nat × List Nat × List AluPrep) :=
  (genPrep c).map fun p => (p.consts, p.pubs, p.alu)

/-- The preprocessed columns are a function of the structure the digest is computed from. -/
theorem prepData_congr {K : Type} {c c' : Circuit K} (h : structureOf c = structureOf c') :
    prepData c = prepData c' := by
  have h1 : c.ops.toList = c'.ops.toList := congrArg Prod.fst h
  have h3 : c.privRows.toList = c'.privRows.toList := congrArg (fun x => x.2.2) h
  simp only [prepData, genPrep, h1, h3]

/-- The one remaining assumption: the digest function does not collide on the structures of the
listed circuits. -/
def DigestInjOn {K S P : Type} (dg : Structure K → S) (js : List (Circuit K × P)) : Prop :=
  ∀ j j', j ∈ js → j' ∈ js → dg (structureOf j.1) = dg (structureOf j'.1) →
    structureOf j.1 = structureOf j'.1

/-- `KeyDeterminesPrep` is no longer a hypothesis: it follows from `DigestInjOn`. -/
theorem keyDeterminesPrep_of_digest {K S P : Type} (dg : Structure K → S)
    (js : List (Circuit K × P)) (hd : DigestInjOn dg js) :
    KeyDeterminesPrep (fun j : Circuit K × P => fingerprintX dg j.1)
      (fun j : Circuit K × P => prepData j.1) js := by
  intro j j' hj hj' hk
  have : dg (structureOf j.1) = dg (structureOf j'.1) := congrArg FingerprintX.digest hk
  exact prepData_congr (hd j j' hj hj' this)

/-- **C17, cache part, for the repaired code.** Jobs = circuit × params, key = extended
fingerprint. For every sequence of calls, every number of cache variables and every
(well-formed) initial content: if the digest does not collide on the circuits mentioned, every
call is refused or proves with the preprocessed columns of its own circuit; and it is refused
only if it is a `prove_next_layer` call handed a preparation with a different fingerprint. -/
theorem cache_refines_uncached_digest {K S P : Type} [DecidableEq S] (dg : Structure K → S)
    (s : Slots (FingerprintX S) (Circuit K × P)) (h : List (Step (Circuit K × P)))
    (hwf : SlotsWF (fun j : Circuit K × P => fingerprintX dg j.1) s)
    (hd : DigestInjOn dg (slotJobs s ++ mentioned h)) :
    List.Forall₂ (fun st o =>
        Good (fun j : Circuit K × P => prepData j.1) st o ∧
        (o.used = none → ∃ job j', st = .next job (some j') ∧
          fingerprintX dg j'.1 ≠ fingerprintX dg job.1))
      h (run (fun j : Circuit K × P => fingerprintX dg j.1) s h).2 := by
  have hgood := cache_refines_uncached_partial (fun j : Circuit K × P => fingerprintX dg j.1)
    (fun j : Circuit K × P => prepData j.1) h s hwf (keyDeterminesPrep_of_digest dg _ hd)
  -- refusal characterisation along the run
  have href : ∀ (h : List (Step (Circuit K × P))) (s : Slots (FingerprintX S) (Circuit K × P)),
      List.Forall₂ (fun st o => o.used = none → ∃ job j', st = Step.next job (some j') ∧
          fingerprintX dg j'.1 ≠ fingerprintX dg job.1)
        h (run (fun j : Circuit K × P => fingerprintX dg j.1) s h).2 := by
    intro h
    induction h with
    | nil => intro s; exact List.Forall₂.nil
    | cons st rest ih =>
      intro s
      unfold run
      exact List.Forall₂.cons (refused_iff _ s st).mp (ih _)
  exact forall₂_and hgood (href h s)

/-! ### Non-vacuity of the hypotheses -/

/-- The hypotheses of `cache_refines_uncached` hold for a history that fills a variable, hits it
with the same job, misses it with another job, passes a matching `NextLayerPrepCache`, and is
refused with a foreign one. -/
example :
    let key : Nat → Nat := fun j => j
    let h : List (Step Nat) :=
      [.agg 1 (some 0), .agg 1 (some 0), .agg 2 (some 0), .next 3 (some 3), .next 3 (some 1)]
    SlotsWF key ([] : Slots Nat Nat) ∧
      (∀ j j', j ∈ slotJobs ([] : Slots Nat Nat) ++ mentioned h →
        j' ∈ slotJobs ([] : Slots Nat Nat) ++ mentioned h → key j = key j' → j = j') ∧
      (run key [] h).2.map (fun o => (o.hit, o.used)) =
        [(false, some 1), (true, some 1), (false, some 2), (true, some 3), (false, none)] := by
  refine ⟨?_, ?_, ?_⟩
  · intro p hp; cases hp
  · intro j j' _ _ hk; exact hk
  · decide

/-- `DigestInjOn` is satisfiable for every list of jobs (identity digest). -/
example {K P : Type} (js : List (Circuit K × P)) : DigestInjOn (fun st : Structure K => st) js :=
  fun _ _ _ _ h => h

end P3R.C17

#print axioms P3R.C17.cache_refines_uncached_digest
#print axioms P3R.C17.cache_refines_uncached_partial
#print axioms P3R.C17.cache_refines_uncached
#print axioms P3R.C17.cached_verdict_eq_uncached_partial
#print axioms P3R.C17.refused_iff
#print axioms P3R.C17.keyDeterminesPrep_of_digest
#print axioms P3R.C17.prepData_congr
#print axioms P3R.C17.different_job_recomputed
#print axioms P3R.C17.agg_hit_iff
#print axioms P3R.C17.agg_used_correct_iff
#print axioms P3R.C17.circuit_part_refines_partial
#print axioms P3R.C17.slotsWF_run
