/-
C11 / C10 — packing Horner steps into one row preserves the WitnessChecks bus.

`Model/AluSchedule.lean` models `compute_schedule` and the scheduled preprocessed matrix and is
compared with the real `AluAir` on every run. Here the *reason* the schedule is sound for the bus:

* `entryInters` — the bus interactions `(witness index, multiplicity)` one scheduled entry
  contributes (what the scheduled matrix row encodes: for a packed row the first step's `a`/`c`
  lookups, one `b` lookup with the summed multiplicity, the last step's `out` lookup, and the
  per-step `(a, c)` lookups of the extra columns);
* `packed_net` — if the packed window shares `b`, all its steps have the same `mult_a`, and every
  step but the last has a bus-silent `out` (exactly the conditions `compute_schedule` tests:
  `horner_ops_share_b_idx`, `horner_outs_are_silent`; equal `mult_a` holds because every active op
  has `mult_a = −1`), then for every witness index the packed row's net multiplicity equals the
  sum of the net multiplicities of the `k` individual ops. Dropping either condition breaks it —
  these were defects F19 (non-silent intermediate) and F21 (`mult_b · k` instead of the sum);
* `bestK_ok` — a window chosen by the model's `bestK` satisfies the `b` / silent conditions;
* `sched_net` — for a schedule whose packed windows are ok and which covers every op exactly once
  (`Perm`), the scheduled layout has the same net multiplicity on every index as the op list.
-/
import P3R.Model.AluSchedule
import Mathlib.Algebra.Field.Basic
import Mathlib.Algebra.BigOperators.Group.List.Basic
import Mathlib.Data.List.Perm.Basic
import Mathlib.Tactic.Ring

namespace P3R.C11
open P3R

section Sched
variable {K : Type} [Field K] [DecidableEq K]

/-- Net multiplicity of index `x` in a list of interactions. -/
def net (x : K) (l : List (K × K)) : K := ((l.filter fun im => im.1 = x).map (·.2)).sum

omit [DecidableEq K] in
theorem net_nil [DecidableEq K] (x : K) : net x ([] : List (K × K)) = 0 := rfl

theorem net_cons (x i m : K) (l : List (K × K)) :
    net x ((i, m) :: l) = (if i = x then m else 0) + net x l := by
  unfold net
  by_cases h : i = x <;> simp [List.filter_cons, h]

theorem net_append (x : K) (l₁ l₂ : List (K × K)) : net x (l₁ ++ l₂) = net x l₁ + net x l₂ := by
  unfold net; simp [List.filter_append, List.map_append, List.sum_append]

theorem net_flatMap {α} (x : K) (l : List α) (f : α → List (K × K)) :
    net x (l.flatMap f) = (l.map fun a => net x (f a)).sum := by
  induction l with
  | nil => simp [net]
  | cons a l ih => simp [List.flatMap_cons, net_append, ih]

/-- The conditions under which `k` steps starting at `f` may share a row. -/
structure WindowOk (preps : List (List K)) (f k : Nat) : Prop where
  pos : 1 ≤ k
  shareB : ∀ t, t < k → vget (prepOf preps (f + t)) 6 = vget (prepOf preps f) 6
  sameMultA : ∀ t, t < k → vget (prepOf preps (f + t)) 0 = vget (prepOf preps f) 0
  silent : ∀ t, t + 1 < k → vget (prepOf preps (f + t)) 10 = 0

def tm (x i m : K) : K := if i = x then m else 0

/-- The `a`, `b`, `c` part of the packed row equals the sum of the steps' `a`, `b`, `c` parts. -/
theorem packed_abc (preps : List (List K)) (x : K) (f : Nat) :
    ∀ k, 1 ≤ k →
      (∀ t, t < k → vget (prepOf preps (f + t)) 6 = vget (prepOf preps f) 6) →
      (∀ t, t < k → vget (prepOf preps (f + t)) 0 = vget (prepOf preps f) 0) →
      tm x (vget (prepOf preps f) 5) (vget (prepOf preps f) 0 * vget (prepOf preps f) 11) +
      tm x (vget (prepOf preps f) 6) ((List.range k).map fun t => vget (prepOf preps (f + t)) 9).sum +
      tm x (vget (prepOf preps f) 7) (vget (prepOf preps f) 0 * vget (prepOf preps f) 12) +
      ((List.range (k - 1)).map fun t0 =>
        tm x (vget (prepOf preps (f + (t0 + 1))) 5) (vget (prepOf preps f) 0 * vget (prepOf preps (f + (t0 + 1))) 11) +
        tm x (vget (prepOf preps (f + (t0 + 1))) 7) (vget (prepOf preps f) 0 * vget (prepOf preps (f + (t0 + 1))) 12)).sum =
      ((List.range k).map fun t =>
        tm x (vget (prepOf preps (f + t)) 5) (vget (prepOf preps (f + t)) 0 * vget (prepOf preps (f + t)) 11) +
        tm x (vget (prepOf preps (f + t)) 6) (vget (prepOf preps (f + t)) 9) +
        tm x (vget (prepOf preps (f + t)) 7) (vget (prepOf preps (f + t)) 0 * vget (prepOf preps (f + t)) 12)).sum := by
  intro k
  induction k with
  | zero => intro h; omega
  | succ k ih =>
    intro _ hb hm
    by_cases hk : k = 0
    · subst hk
      simp [List.range_one, tm]
    · have ih' := ih (by omega) (fun t ht => hb t (by omega)) (fun t ht => hm t (by omega))
      have e1 : k + 1 - 1 = (k - 1) + 1 := by omega
      rw [e1, List.range_succ (n := k - 1), List.range_succ (n := k)]
      simp only [List.map_append, List.map_cons, List.map_nil, List.sum_append, List.sum_cons,
        List.sum_nil, add_zero]
      have e2 : k - 1 + 1 = k := by omega
      rw [e2]
      rw [← ih']
      have hbk := hb k (by omega)
      have hmk := hm k (by omega)
      rw [hbk, hmk]
      unfold tm
      split_ifs <;> ring

theorem packed_net (preps : List (List K)) (x : K) (f k : Nat) (h : WindowOk preps f k) :
    net x (entryInters preps (.packed f k)) =
      ((List.range k).map fun t => net x (opInters (prepOf preps (f + t)))).sum := by
  have habc := packed_abc preps x f k h.pos h.shareB h.sameMultA
  simp only [entryInters, net_append, net_cons, net_nil, net_flatMap, add_zero]
  simp only [opInters, net_cons, net_nil, add_zero]
  -- the `out` parts: only the last step's is non-zero
  have hout : ((List.range k).map fun t =>
      tm x (vget (prepOf preps (f + t)) 8) (vget (prepOf preps (f + t)) 10)).sum =
      tm x (vget (prepOf preps (f + k - 1)) 8) (vget (prepOf preps (f + k - 1)) 10) := by
    have hk : k = (k - 1) + 1 := by have := h.pos; omega
    rw [hk, List.range_succ]
    simp only [List.map_append, List.map_cons, List.map_nil, List.sum_append, List.sum_cons,
      List.sum_nil, add_zero]
    have hz : ((List.range (k - 1)).map fun t =>
        tm x (vget (prepOf preps (f + t)) 8) (vget (prepOf preps (f + t)) 10)).sum = 0 := by
      apply List.sum_eq_zero
      intro y hy
      obtain ⟨t, ht, rfl⟩ := List.mem_map.mp hy
      have := h.silent t (by have := List.mem_range.mp ht; omega)
      simp [tm, this]
    rw [hz, zero_add]
    have : f + (k - 1) = f + (k - 1 + 1) - 1 := by omega
    rw [← this]
  have hsplit : ((List.range k).map fun t =>
      (tm x (vget (prepOf preps (f + t)) 5) (vget (prepOf preps (f + t)) 0 * vget (prepOf preps (f + t)) 11) +
       (tm x (vget (prepOf preps (f + t)) 6) (vget (prepOf preps (f + t)) 9) +
        (tm x (vget (prepOf preps (f + t)) 7) (vget (prepOf preps (f + t)) 0 * vget (prepOf preps (f + t)) 12) +
         tm x (vget (prepOf preps (f + t)) 8) (vget (prepOf preps (f + t)) 10))))).sum =
      ((List.range k).map fun t =>
        tm x (vget (prepOf preps (f + t)) 5) (vget (prepOf preps (f + t)) 0 * vget (prepOf preps (f + t)) 11) +
        tm x (vget (prepOf preps (f + t)) 6) (vget (prepOf preps (f + t)) 9) +
        tm x (vget (prepOf preps (f + t)) 7) (vget (prepOf preps (f + t)) 0 * vget (prepOf preps (f + t)) 12)).sum +
      ((List.range k).map fun t =>
        tm x (vget (prepOf preps (f + t)) 8) (vget (prepOf preps (f + t)) 10)).sum := by
    rw [← List.sum_map_add]
    congr 1
    apply List.map_congr_left
    intro t _
    ring
  unfold tm at habc hout hsplit
  rw [hsplit, ← habc, hout]
  ring

theorem entry_net (preps : List (List K)) (x : K) (e : SchedEntry)
    (h : ∀ f k, e = .packed f k → WindowOk preps f k) :
    net x (entryInters preps e) = ((entryOps e).map fun i => net x (opInters (prepOf preps i))).sum := by
  cases e with
  | sep => simp [entryInters, entryOps, net]
  | op i => simp [entryInters, entryOps]
  | packed f k =>
    rw [packed_net preps x f k (h f k rfl)]
    simp [entryOps, List.map_map, Function.comp_def]

/-- **Packing preserves the bus.** A schedule whose packed windows are ok and which covers every
op exactly once has, on every witness index, the net multiplicity of the unscheduled op list. -/
theorem sched_net (preps : List (List K)) (sched : List SchedEntry)
    (hwin : ∀ f k, SchedEntry.packed f k ∈ sched → WindowOk preps f k)
    (hcover : (sched.flatMap entryOps).Perm (List.range preps.length)) (x : K) :
    net x (sched.flatMap (entryInters preps)) =
      net x ((List.range preps.length).flatMap fun i => opInters (prepOf preps i)) := by
  rw [net_flatMap, net_flatMap]
  have h1 : (sched.map fun e => net x (entryInters preps e)) =
      sched.map fun e => ((entryOps e).map fun i => net x (opInters (prepOf preps i))).sum := by
    apply List.map_congr_left
    intro e he
    exact entry_net preps x e (fun f k hfk => hwin f k (hfk ▸ he))
  rw [h1]
  have h2 : ∀ (l : List SchedEntry),
      (l.map fun e => ((entryOps e).map fun i => net x (opInters (prepOf preps i))).sum).sum =
      ((l.flatMap entryOps).map fun i => net x (opInters (prepOf preps i))).sum := by
    intro l
    induction l with
    | nil => simp
    | cons e es ih =>
      simp only [List.map_cons, List.sum_cons, List.flatMap_cons, List.map_append, List.sum_append, ih]
  rw [h2]
  exact (hcover.map _).sum_eq

/-! ## The windows chosen by the model of `compute_schedule` are ok -/

/-- Every packed entry of a schedule passed the scheduler's two tests. -/
def PackedTested (preps : List (List K)) (sched : List SchedEntry) : Prop :=
  ∀ f k, SchedEntry.packed f k ∈ sched →
    2 ≤ k ∧ shareB preps f k = true ∧ outsSilent preps f (k - 1) = true

theorem bestK_ok (preps : List (List K)) (start kTry : Nat) (h : 2 ≤ bestK preps start kTry) :
    shareB preps start (bestK preps start kTry) = true ∧
    outsSilent preps start (bestK preps start kTry - 1) = true := by
  unfold bestK at h ⊢
  split at h
  · rename_i k hk
    have := List.find?_some hk
    simpa using this
  · omega

theorem fillRow_tested (preps : List (List K)) (lanes : Nat) (nonChain : List Nat) :
    ∀ fuel (s : SchedState), PackedTested preps s.sched →
      PackedTested preps (fillRow lanes nonChain fuel s).sched := by
  intro fuel
  induction fuel with
  | zero => intro s h; simpa [fillRow] using h
  | succ fuel ih =>
    intro s h
    unfold fillRow
    split
    · split
      · apply ih
        intro f k hm
        simp only [List.mem_append, List.mem_singleton] at hm
        rcases hm with hm | hm
        · exact h f k hm
        · cases hm
      · apply ih
        intro f k hm
        simp only [List.mem_append, List.mem_singleton] at hm
        rcases hm with hm | hm
        · exact h f k hm
        · cases hm
    · exact h

theorem placeChain_tested (preps : List (List K)) (lanes packK : Nat) (nonChain : List Nat)
    (start len : Nat) :
    ∀ fuel i (s : SchedState), PackedTested preps s.sched →
      PackedTested preps (placeChain preps lanes packK nonChain start len fuel i s).sched := by
  intro fuel
  induction fuel with
  | zero => intro i s h; simpa [placeChain] using h
  | succ fuel ih =>
    intro i s h
    unfold placeChain
    split
    · apply ih
      apply fillRow_tested
      split
      · rename_i hk
        intro f k hm
        simp only [List.mem_append, List.mem_singleton] at hm
        rcases hm with hm | hm
        · exact h f k hm
        · cases hm
          exact ⟨hk, bestK_ok preps _ _ hk⟩
      · intro f k hm
        simp only [List.mem_append, List.mem_singleton] at hm
        rcases hm with hm | hm
        · exact h f k hm
        · cases hm
    · exact h

theorem computeSchedule_tested (preps : List (List K)) (lanes packK : Nat) (sched : List SchedEntry)
    (h : computeSchedule preps lanes packK = some sched) : PackedTested preps sched := by
  unfold computeSchedule at h
  split at h
  · cases h
  · split at h
    · cases h
    · simp only [Option.some.injEq] at h
      subst h
      apply fillRow_tested
      intro f k hm
      simp only [List.mem_append, List.mem_map] at hm
      rcases hm with hm | ⟨i, _, hi⟩
      · revert f k
        apply fillRow_tested
        -- the fold over the chains
        generalize (splitChains preps).1.zipIdx = cz
        have hs0 : PackedTested preps
            (fillRow lanes (splitChains preps).2 lanes { sched := [SchedEntry.sep], nc := 0 }).sched := by
          apply fillRow_tested
          intro f k hm
          simp at hm
        revert hs0
        generalize (fillRow lanes (splitChains preps).2 lanes { sched := [SchedEntry.sep], nc := 0 }) = s0
        induction cz generalizing s0 with
        | nil => intro hs0; simpa using hs0
        | cons c cs ih =>
          intro hs0
          simp only [List.foldl_cons]
          apply ih
          apply placeChain_tested
          split
          · apply fillRow_tested
            intro f k hm
            simp only [List.mem_append, List.mem_singleton] at hm
            rcases hm with hm | hm
            · exact fillRow_tested preps lanes _ lanes s0 hs0 f k hm
            · cases hm
          · exact hs0
      · cases hi

/-- Tested windows are ok once all ops share one `mult_a` (every active ALU op has `mult_a = −1`). -/
theorem tested_windowOk (preps : List (List K)) (sched : List SchedEntry) (h : PackedTested preps sched)
    (hma : ∀ i j, vget (prepOf preps i) 0 = vget (prepOf preps j) 0) :
    ∀ f k, SchedEntry.packed f k ∈ sched → WindowOk preps f k := by
  intro f k hm
  obtain ⟨hk, hb, hs⟩ := h f k hm
  refine ⟨by omega, ?_, fun t _ => hma _ _, ?_⟩
  · intro t ht
    unfold shareB at hb
    have := (List.all_eq_true.mp hb) t (List.mem_range.mpr ht)
    simpa using this
  · intro t ht
    unfold outsSilent at hs
    have := (List.all_eq_true.mp hs) t (List.mem_range.mpr (by omega))
    simpa using this

/-! ## The schedule covers every op exactly once -/

def flatOps (sched : List SchedEntry) : List Nat := sched.flatMap entryOps

def chainOps (c : Nat × Nat) : List Nat := (List.range c.2).map (c.1 + ·)

theorem flatOps_append (a b : List SchedEntry) : flatOps (a ++ b) = flatOps a ++ flatOps b := by
  simp [flatOps]

theorem bestK_bounds (preps : List (List K)) (start kTry : Nat) :
    1 ≤ bestK preps start kTry ∧ bestK preps start kTry ≤ max kTry 1 := by
  unfold bestK
  split
  · rename_i k hk
    have hm := List.mem_of_find?_eq_some hk
    simp only [List.mem_filter, List.mem_reverse, List.mem_range, ge_iff_le, decide_eq_true_eq] at hm
    omega
  · omega

/-- Invariant of the scheduling loop: the ops placed so far are `D` (chain ops) plus the first
`nc` non-chain ops. -/
def CovInv (nonChain : List Nat) (D : List Nat) (s : SchedState) : Prop :=
  (flatOps s.sched).Perm (D ++ nonChain.take s.nc) ∧ s.nc ≤ nonChain.length

theorem fillRow_cov (lanes : Nat) (nonChain D : List Nat) :
    ∀ fuel (s : SchedState), CovInv nonChain D s → CovInv nonChain D (fillRow lanes nonChain fuel s) := by
  intro fuel
  induction fuel with
  | zero => intro s h; simpa [fillRow] using h
  | succ fuel ih =>
    intro s h
    unfold fillRow
    split
    · split
      · rename_i i hi
        apply ih
        obtain ⟨hp, hn⟩ := h
        have hlt : s.nc < nonChain.length := by
          by_contra hge
          have : nonChain[s.nc]? = none := List.getElem?_eq_none (by omega)
          rw [this] at hi; cases hi
        refine ⟨?_, Nat.succ_le_of_lt hlt⟩
        simp only [flatOps_append]
        have htake : nonChain.take (s.nc + 1) = nonChain.take s.nc ++ [i] := by
          rw [List.take_succ, hi]; rfl
        rw [htake, ← List.append_assoc]
        exact List.Perm.append hp (by simp [flatOps, entryOps])
      · apply ih
        obtain ⟨hp, hn⟩ := h
        refine ⟨?_, hn⟩
        simp only [flatOps_append]
        simpa [flatOps, entryOps] using hp
    · exact h

theorem placeChain_cov (preps : List (List K)) (lanes packK : Nat) (nonChain : List Nat)
    (start len : Nat) :
    ∀ fuel i (D : List Nat) (s : SchedState), i ≤ len → len - i ≤ fuel → CovInv nonChain D s →
      CovInv nonChain (D ++ (List.range (len - i)).map (start + i + ·))
        (placeChain preps lanes packK nonChain start len fuel i s) := by
  intro fuel
  induction fuel with
  | zero =>
    intro i D s hi hf h
    have : len - i = 0 := by omega
    simpa [placeChain, this] using h
  | succ fuel ih =>
    intro i D s hi hf h
    unfold placeChain
    split
    · rename_i hlt
      obtain ⟨hb1, hb2⟩ := bestK_bounds preps (start + i) (min (len - i) packK)
      set k := bestK preps (start + i) (min (len - i) packK) with hk
      have hkle : (if k ≥ 2 then k else 1) ≤ len - i := by
        split
        · have : k ≤ max (min (len - i) packK) 1 := hb2
          omega
        · omega
      set adv := (if k ≥ 2 then k else 1) with hadv
      have hadv1 : 1 ≤ adv := by rw [hadv]; split <;> omega
      -- the entry placed now covers `adv` ops starting at `start + i`
      have hstep : CovInv nonChain (D ++ (List.range adv).map (start + i + ·))
          (fillRow lanes nonChain lanes
            (if k ≥ 2 then { s with sched := s.sched ++ [SchedEntry.packed (start + i) k] }
             else { s with sched := s.sched ++ [SchedEntry.op (start + i)] })) := by
        apply fillRow_cov
        obtain ⟨hp, hn⟩ := h
        by_cases hk2 : k ≥ 2
        · simp only [hk2, if_true, hadv]
          refine ⟨?_, hn⟩
          simp only [flatOps_append]
          have : flatOps [SchedEntry.packed (start + i) k] = (List.range k).map (start + i + ·) := by
            simp [flatOps, entryOps]
          rw [this, List.append_assoc]
          refine List.Perm.trans (List.Perm.append_right _ hp) ?_
          rw [List.append_assoc]
          exact List.Perm.append_left D List.perm_append_comm
        · simp only [hk2, if_false, hadv]
          refine ⟨?_, hn⟩
          simp only [flatOps_append]
          have : flatOps [SchedEntry.op (start + i)] = (List.range 1).map (start + i + ·) := by
            simp [flatOps, entryOps]
          rw [this, List.append_assoc]
          refine List.Perm.trans (List.Perm.append_right _ hp) ?_
          rw [List.append_assoc]
          exact List.Perm.append_left D List.perm_append_comm
      have := ih (i + adv) _ _ (by omega) (by omega) hstep
      have hsplit : (List.range (len - i)).map (start + i + ·) =
          (List.range adv).map (start + i + ·) ++ (List.range (len - (i + adv))).map (start + (i + adv) + ·) := by
        have e : len - i = adv + (len - (i + adv)) := by omega
        rw [e, List.range_add, List.map_append, List.map_map]
        congr 1
        apply List.map_congr_left
        intro t _
        simp only [Function.comp]
        omega
      rw [hsplit, ← List.append_assoc]
      exact this
    · rename_i hge
      have : len - i = 0 := by omega
      simpa [this] using h

theorem chainOps_succ (st l : Nat) : chainOps (st, l + 1) = chainOps (st, l) ++ [st + l] := by
  simp [chainOps, List.range_succ]

/-- `splitChains` partitions the op indices into the chains' ops and the non-chain ops. -/
theorem splitChains_cover (preps : List (List K)) :
    ((splitChains preps).1.flatMap chainOps ++ (splitChains preps).2).Perm (List.range preps.length) := by
  unfold splitChains
  -- invariant of the fold over `range n`
  have key : ∀ n, ∀ (acc : List (Nat × Nat) × Option (Nat × Nat) × List Nat),
      acc = (List.range n).foldl
        (fun (acc : List (Nat × Nat) × Option (Nat × Nat) × List Nat) i =>
          if isHorner preps i then
            match acc.2.1 with
            | some (s, l) => (acc.1, some (s, l + 1), acc.2.2)
            | none => (acc.1, some (i, 1), acc.2.2)
          else
            match acc.2.1 with
            | some c => (acc.1 ++ [c], none, acc.2.2 ++ [i])
            | none => (acc.1, none, acc.2.2 ++ [i]))
        ([], none, []) →
      (acc.1.flatMap chainOps ++ (match acc.2.1 with | some c => chainOps c | none => []) ++ acc.2.2).Perm
        (List.range n) ∧ (∀ c, acc.2.1 = some c → c.1 + c.2 = n) := by
    intro n
    induction n with
    | zero => intro acc h; subst h; simp
    | succ n ih =>
      intro acc h
      rw [List.range_succ, List.foldl_append] at h
      simp only [List.foldl_cons, List.foldl_nil] at h
      obtain ⟨hp, hc⟩ := ih _ rfl
      generalize (List.range n).foldl _ ([], none, []) = prev at h hp hc
      obtain ⟨chains, cur, nonChain⟩ := prev
      simp only at h hp hc
      by_cases hh : isHorner preps n
      · rw [if_pos hh] at h
        cases cur with
        | some c =>
          obtain ⟨st, l⟩ := c
          try simp only at h
          subst h
          have hst := hc (st, l) rfl
          simp only at hst
          refine ⟨?_, fun c hc' => by cases hc'; simp; omega⟩
          simp only [chainOps_succ, hst]
          rw [List.range_succ]
          refine List.Perm.trans ?_ (List.Perm.append_right [n] hp)
          simp only [List.append_assoc]
          refine List.Perm.append_left _ (List.Perm.append_left _ ?_)
          exact List.perm_append_comm
        | none =>
          try simp only at h
          subst h
          refine ⟨?_, fun c hc' => by cases hc'; simp⟩
          simp only [chainOps, List.range_one, List.map_cons, List.map_nil, Nat.add_zero]
          rw [List.range_succ]
          refine List.Perm.trans ?_ (List.Perm.append_right [n] hp)
          simp only [List.append_assoc, List.nil_append]
          refine List.Perm.append_left _ ?_
          exact List.perm_append_comm
      · rw [if_neg hh] at h
        cases cur with
        | some c =>
          try simp only at h
          subst h
          refine ⟨?_, fun c hc' => by cases hc'⟩
          rw [List.range_succ]
          dsimp only
          rw [List.flatMap_append]
          simp only [List.flatMap_cons, List.flatMap_nil, List.append_nil]
          refine List.Perm.trans ?_ (List.Perm.append_right [n] hp)
          simp only [List.append_assoc]
          exact List.Perm.refl _
        | none =>
          try simp only at h
          subst h
          refine ⟨?_, fun c hc' => by cases hc'⟩
          rw [List.range_succ]
          refine List.Perm.trans ?_ (List.Perm.append_right [n] hp)
          simp only [List.append_assoc, List.nil_append]
          exact List.Perm.refl _
  obtain ⟨hp, _⟩ := key preps.length _ rfl
  generalize (List.range preps.length).foldl _ ([], none, []) = fin at hp ⊢
  obtain ⟨chains, cur, nonChain⟩ := fin
  cases cur with
  | some c =>
    simp only at hp ⊢
    simpa [List.flatMap_append] using hp
  | none =>
    simp only at hp ⊢
    simpa using hp

theorem fillRow_nc_ge (lanes : Nat) (nonChain : List Nat) :
    ∀ fuel (s : SchedState), s.nc ≤ (fillRow lanes nonChain fuel s).nc := by
  intro fuel
  induction fuel with
  | zero => intro s; simp [fillRow]
  | succ fuel ih =>
    intro s
    unfold fillRow
    split
    · split
      · rename_i i _
        exact Nat.le_trans (Nat.le_succ _) (ih { sched := s.sched ++ [SchedEntry.op i], nc := s.nc + 1 })
      · exact ih { s with sched := s.sched ++ [SchedEntry.sep] }
    · exact Nat.le_refl _

/-- The fold over the chains keeps the coverage invariant, adding each chain's ops. -/
theorem chainsFold_cov (preps : List (List K)) (lanes packK : Nat) (nonChain : List Nat) :
    ∀ (cz : List ((Nat × Nat) × Nat)) (D : List Nat) (s : SchedState), CovInv nonChain D s →
      CovInv nonChain (D ++ (cz.map (·.1)).flatMap chainOps)
        (cz.foldl (fun s (c : (Nat × Nat) × Nat) =>
          let s := if c.2 > 0 then
              let s := fillRow lanes nonChain lanes s
              fillRow lanes nonChain lanes { s with sched := s.sched ++ [.sep] }
            else s
          placeChain preps lanes packK nonChain c.1.1 c.1.2 c.1.2 0 s) s) := by
  intro cz
  induction cz with
  | nil => intro D s h; simpa using h
  | cons c cs ih =>
    intro D s h
    simp only [List.foldl_cons, List.map_cons, List.flatMap_cons]
    rw [← List.append_assoc]
    apply ih
    have hpre : CovInv nonChain D
        (if c.2 > 0 then
          fillRow lanes nonChain lanes
            { sched := (fillRow lanes nonChain lanes s).sched ++ [.sep], nc := (fillRow lanes nonChain lanes s).nc }
         else s) := by
      split
      · apply fillRow_cov
        obtain ⟨hp, hn⟩ := fillRow_cov lanes nonChain D lanes s h
        refine ⟨?_, hn⟩
        simp only [flatOps_append]
        simpa [flatOps, entryOps] using hp
      · exact h
    have := placeChain_cov preps lanes packK nonChain c.1.1 c.1.2 c.1.2 0 D _ (Nat.zero_le _) (by omega) hpre
    simpa [chainOps] using this

/-- **Coverage.** The model of `compute_schedule` places every op exactly once. -/
theorem computeSchedule_cover (preps : List (List K)) (lanes packK : Nat) (sched : List SchedEntry)
    (h : computeSchedule preps lanes packK = some sched) :
    (flatOps sched).Perm (List.range preps.length) := by
  unfold computeSchedule at h
  split at h
  · cases h
  · split at h
    · cases h
    · simp only [Option.some.injEq] at h
      subst h
      set nonChain := (splitChains preps).2 with hnc
      set chains := (splitChains preps).1 with hch
      have h0 : CovInv nonChain [] (fillRow lanes nonChain lanes { sched := [SchedEntry.sep], nc := 0 }) := by
        apply fillRow_cov
        exact ⟨by simp [flatOps, entryOps], Nat.zero_le _⟩
      have h1 := chainsFold_cov preps lanes packK nonChain chains.zipIdx [] _ h0
      rw [List.zipIdx_map_fst, List.nil_append] at h1
      have h2 := fillRow_cov lanes nonChain _ lanes _ h1
      set s2 := fillRow lanes nonChain lanes
        (chains.zipIdx.foldl (fun s (c : (Nat × Nat) × Nat) =>
          let s := if c.2 > 0 then
              let s := fillRow lanes nonChain lanes s
              fillRow lanes nonChain lanes { s with sched := s.sched ++ [.sep] }
            else s
          placeChain preps lanes packK nonChain c.1.1 c.1.2 c.1.2 0 s)
          (fillRow lanes nonChain lanes { sched := [SchedEntry.sep], nc := 0 })) with hs2
      have h3 : CovInv nonChain (chains.flatMap chainOps)
          { sched := s2.sched ++ (nonChain.drop s2.nc).map SchedEntry.op, nc := nonChain.length } := by
        obtain ⟨hp, hn⟩ := h2
        refine ⟨?_, Nat.le_refl _⟩
        simp only [flatOps_append, List.take_length]
        have hflat : ∀ l : List Nat, flatOps (l.map SchedEntry.op) = l := by
          intro l
          induction l with
          | nil => rfl
          | cons a l ih => simp only [flatOps, List.map_cons, List.flatMap_cons, entryOps] at ih ⊢; rw [ih]; rfl
        have := hflat (nonChain.drop s2.nc)
        rw [this]
        have := List.Perm.append_right (nonChain.drop s2.nc) hp
        rw [List.append_assoc, List.take_append_drop] at this
        exact this
      obtain ⟨hp, hle⟩ := fillRow_cov lanes nonChain _ lanes _ h3
      have hge := fillRow_nc_ge lanes nonChain lanes
        { sched := s2.sched ++ (nonChain.drop s2.nc).map SchedEntry.op, nc := nonChain.length }
      rw [List.take_of_length_le (by simpa using hge)] at hp
      exact hp.trans (splitChains_cover preps)

/-- **C10/C11 — the scheduled ALU layout has the bus of the op list.** For every list of ALU op
rows in which all ops carry the same `mult_a` (every active op has `mult_a = −1`), every lane count
and every packing arity: the schedule computed by the model of `compute_schedule` has, on every
witness index, exactly the net multiplicity of the unscheduled rows. Together with
`C09.bus_balanced` (the unscheduled multiplicities cancel) the scheduled table balances. -/
theorem schedule_preserves_bus (preps : List (List K)) (lanes packK : Nat) (sched : List SchedEntry)
    (h : computeSchedule preps lanes packK = some sched)
    (hma : ∀ i j, vget (prepOf preps i) 0 = vget (prepOf preps j) 0) (x : K) :
    net x (sched.flatMap (entryInters preps)) =
      net x ((List.range preps.length).flatMap fun i => opInters (prepOf preps i)) :=
  sched_net preps sched
    (tested_windowOk preps sched (computeSchedule_tested preps lanes packK sched h) hma)
    (computeSchedule_cover preps lanes packK sched h) x

end Sched

end P3R.C11
