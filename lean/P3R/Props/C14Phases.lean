/-
C14 (FRI commit phase, Merkle caps) — no commit-phase opening is left unverified, whatever the cap
heights of the commitments.

`P3R.Packing.friPhases` (`Model/FriPhases.lean`) transcribes the commit-phase loop of
`verify_fri_circuit` for one query: per phase either the opening is hashed and compared with the
selected cap entry (`mmcs`), or — the loop's single special case, `log_folded_height == 0` — only
the fold equation is emitted (`foldOnly`: the salts of that opening are operands of nothing, its
siblings are tied by arithmetic alone), or the construction stops (`cap_height > log_folded_height`).

* `friPhases_eq_replicate` — FULL STRENGTH: for every folding schedule, every final-polynomial
  length, every blow-up with `log_blowup + log_final_poly_len ≥ 1` and **every list of cap
  heights**, if the loop completes then every phase is `mmcs`. No bound on the number of phases.
* `friPhases_all_mmcs`, `friPhases_cap_independent` — corollaries: the verdicts do not depend on
  the caps (a tree that sits entirely inside its cap is still compared with the cap).
* `stepUsesAt_mmcs` — for a `mmcs` phase the operands are exactly `stepUses` (what
  `no_dead_input_*` assumes for every phase).
* `P3R.Witness.C14.blowup_needed` (`Witness/C14Phases.lean`) — with `log_blowup = log_final = 0` the
  last phase is `foldOnly` and its salts are allocated, packed and read by nothing.
-/
import P3R.Model.FriPhases
import P3R.Lemmas.Packing

namespace P3R.C14
open P3R.Packing

theorem phaseLoop_eq_replicate (m : Nat) (hm : 1 ≤ m) :
    ∀ (ps : List (Nat × Nat)) (cur k : Nat) (vs : List PhaseVerdict),
      (ps.map Prod.fst).sum + m ≤ cur → phaseLoop cur k ps = .ok vs →
      vs = List.replicate ps.length PhaseVerdict.mmcs := by
  intro ps
  induction ps with
  | nil =>
    intro cur k vs _ h
    simp only [phaseLoop] at h
    cases h
    rfl
  | cons p rest ih =>
    obtain ⟨a, h⟩ := p
    intro cur k vs hle hok
    have hsum : (rest.map Prod.fst).sum + m ≤ cur - a := by
      simp only [List.map_cons, List.sum_cons] at hle
      omega
    have hne : ¬ (cur - a = 0) := by omega
    simp only [phaseLoop, hne, if_false] at hok
    by_cases hc : h > cur - a
    · simp only [hc, if_true] at hok
      cases hok
    · simp only [hc, if_false] at hok
      cases hrec : phaseLoop (cur - a) (k + 1) rest with
      | error e => rw [hrec] at hok; cases hok
      | ok vs' =>
        rw [hrec] at hok
        cases hok
        rw [ih (cur - a) (k + 1) vs' hsum hrec]
        rfl

/-- **Every commit-phase opening is verified against its commitment, for every cap height.** -/
theorem friPhases_eq_replicate (c : PhaseCase) (hb : 1 ≤ c.logBlowup + c.logFinal)
    (vs : List PhaseVerdict) (h : friPhases c = .ok vs) :
    vs = List.replicate c.phases.length PhaseVerdict.mmcs := by
  unfold friPhases at h
  by_cases hi : c.inCap > c.logMax
  · simp only [hi, if_true] at h
    cases h
  · simp only [hi, if_false] at h
    refine phaseLoop_eq_replicate (c.logFinal + c.logBlowup) (by omega) c.phases c.logMax 0 vs ?_ h
    unfold PhaseCase.logMax
    omega

theorem friPhases_all_mmcs (c : PhaseCase) (hb : 1 ≤ c.logBlowup + c.logFinal)
    (vs : List PhaseVerdict) (h : friPhases c = .ok vs) : ∀ v ∈ vs, v = PhaseVerdict.mmcs := by
  intro v hv
  rw [friPhases_eq_replicate c hb vs h] at hv
  exact (List.mem_replicate.mp hv).2

/-- Two proofs with the same parameters and folding schedule but different cap heights: if the
    circuit can be built for both, the same phases are verified (all of them). -/
theorem friPhases_cap_independent (c c' : PhaseCase) (hb : 1 ≤ c.logBlowup + c.logFinal)
    (hB : c'.logBlowup = c.logBlowup) (hF : c'.logFinal = c.logFinal)
    (hA : c'.phases.map Prod.fst = c.phases.map Prod.fst)
    (vs vs' : List PhaseVerdict) (h : friPhases c = .ok vs) (h' : friPhases c' = .ok vs') :
    vs = vs' := by
  rw [friPhases_eq_replicate c hb vs h, friPhases_eq_replicate c' (by omega) vs' h']
  have : c'.phases.length = c.phases.length := by
    have := congrArg List.length hA
    simpa using this
  rw [this]

/-- For a verified phase the operands are those the block-level consumption model lists. -/
theorem stepUsesAt_mmcs (D : Nat) (pre : String) (st : StepShape) :
    stepUsesAt PhaseVerdict.mmcs D pre st = stepUses D pre st := rfl

/-- A skipped phase reads the siblings only. -/
theorem stepUsesAt_foldOnly (D : Nat) (pre : String) (st : StepShape) :
    stepUsesAt PhaseVerdict.foldOnly D pre st = idx s!"{pre}.sib" ((2 ^ st.logArity - 1) * D) := by
  simp [stepUsesAt]

/-- Non-vacuity of the hypotheses: the testing parameters (`log_blowup = 2`, constant final
    polynomial, arity 2) with a cap of height 2 on every commit-phase commitment — the last
    codeword (4 rows) sits entirely inside its cap and is still verified. -/
example : friPhases ⟨2, 0, 2, [(1, 2), (1, 2), (1, 2), (1, 2)]⟩
    = .ok [.mmcs, .mmcs, .mmcs, .mmcs] := by rfl

/-- A cap higher than the folded codeword is refused, not skipped. -/
example : friPhases ⟨2, 0, 0, [(1, 2), (1, 3)]⟩ = .error (.phase 1) := by rfl

end P3R.C14

#print axioms P3R.C14.friPhases_eq_replicate
#print axioms P3R.C14.friPhases_all_mmcs
#print axioms P3R.C14.friPhases_cap_independent
#print axioms P3R.C14.stepUsesAt_mmcs
