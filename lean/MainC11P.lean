/-
Driver for C11 (Poseidon circuit tables, control part): evaluates `poseidonCtlConstraints` /
`poseidonCtlInteractions` on concrete windows. One case per line:
  pos <p2|p1> <bb|kb|gl> <D> <WIDTH_EXT> <RATE_EXT> <CAPACITY_EXT> <WITNESS_EXT_D> <is_transition>
      | <local inputs> | <local outputs> | <local bit [bit2 bitprod] sum>
      | <next inputs> | <next bit [bit2 bitprod] sum> | <prep local> | <prep next>
Answer: `c <control constraint values>` then `i <interactions>` (`f1,f2,..:mult` each).
-/
import P3R.Model.PoseidonCtl
import P3R.Model.Field

open P3R

def words (s : String) : List String := (s.trimAscii.toString.splitOn " ").filter (· ≠ "")

def parseVecP {p : Nat} (s : String) : List (PF p) :=
  (words s).filterMap fun t => t.toNat?.map (PF.ofNat (p := p))

def showVecP {p : Nat} (l : List (PF p)) : String := " ".intercalate (l.map toString)

def showIntersP {p : Nat} (is : List (List (PF p) × PF p)) : String :=
  " ".intercalate (is.map fun (f, m) => s!"{",".intercalate (f.map toString)}:{m}")

/-- main-row control cells `bit [bit2 bitprod] sum` -/
def mkRow {p : Nat} (a4 : Bool) (inp out ctl : List (PF p)) : Option (PosRow (PF p)) :=
  match a4, ctl with
  | true, [b, b2, bp, s] => some ⟨inp, out, b, b2, bp, s⟩
  | false, [b, s] => some ⟨inp, out, b, 0, 0, s⟩
  | _, _ => none

def runCase (p : Nat) (L : PosLayout) (tr : Nat) (parts : List String) : List String :=
  match parts with
  | [lin, lout, lctl, nin, nctl, pl, pn] =>
    let W := L.widthExt * L.D
    let (lin, lout, nin) := (parseVecP (p := p) lin, parseVecP (p := p) lout, parseVecP (p := p) nin)
    let (pl, pn) := (parseVecP (p := p) pl, parseVecP (p := p) pn)
    if lin.length ≠ W || lout.length ≠ W || nin.length ≠ W || pl.length ≠ L.prepWidth || pn.length ≠ L.prepWidth then
      ["bad-op"]
    else
      match mkRow L.arity4 lin lout (parseVecP lctl), mkRow L.arity4 nin [] (parseVecP nctl) with
      | some loc, some nxt =>
        [s!"c {showVecP (poseidonCtlConstraints L (PF.ofNat tr) loc nxt pn)}",
         s!"i {showIntersP (poseidonCtlInteractions L loc pl pn)}"]
      | _, _ => ["bad-op"]
  | _ => ["bad-op"]

def handle (line : String) : List String :=
  match line.trimAscii.toString.splitOn "|" with
  | hd :: parts =>
    match words hd with
    | ["pos", variant, field, d, we, re, ce, wd, tr] =>
      match d.toNat?, we.toNat?, re.toNat?, ce.toNat?, wd.toNat?, tr.toNat? with
      | some d, some we, some re, some ce, some wd, some tr =>
        let L : PosLayout := ⟨d, we, re, ce, wd⟩
        -- Poseidon1 has no arity-4 branch: only the two-column view exists there
        if (variant != "p2" && variant != "p1") || (variant == "p1" && L.arity4) || wd < d || d == 0 then ["bad-op"]
        else match field with
          | "bb" => runCase babyBearP L tr parts
          | "kb" => runCase koalaBearP L tr parts
          | "gl" => runCase goldilocksP L tr parts
          | _ => ["bad-op"]
      | _, _, _, _, _, _ => ["bad-op"]
    | [] => if parts.isEmpty then [] else ["bad-op"]
    | _ => ["bad-op"]
  | [] => []

partial def loop (h : IO.FS.Stream) : IO Unit := do
  let line ← h.getLine
  if line.isEmpty then return ()
  for o in handle line do IO.println o
  loop h

def main : IO Unit := do loop (← IO.getStdin)
