//! C18, order-sensitive sites against the real code (`p3r-harness c18-orders`).
//!
//! `design_notes/C18_sites.md` lists the hash-container iterations whose *result* depends on the
//! iteration order unless a side condition holds (Lean: `P3R.C18.firstErr_perm_of_unique`,
//! `airLoop_perm`). This subcommand drives the real code into the situations where the side
//! condition does NOT hold and records what happens over repeated builds (fresh hash seeds per map
//! instance), and into the situations where it DOES hold, where any difference is a violation:
//!
//! * `tag-error-payload`       two wire tags on expressions without a witness: `build()` must fail on
//!                             every repeat (a success/failure flip would be a violation); which tag
//!                             the error names is recorded (observation: hash-order dependent).
//! * `tag-single-missing`      one such tag: the error must be identical on every repeat (violation otherwise).
//! * `generic-builder-two-tables`  a circuit with two Poseidon2 tables and the *generic*
//!                             `Poseidon2AirBuilder<4>`: the AIR list that `get_airs_and_degrees_with_prep`
//!                             returns is recorded per repeat (observation: one AIR, chosen by hash order).
//! * `per-config-builders-two-tables`  the same circuit with `poseidon2_air_builders_for_configs`
//!                             (at most one entry per builder): the AIR list and degrees must be
//!                             identical on every repeat, in registration order (violation otherwise).

use std::collections::BTreeMap;
use std::panic::{AssertUnwindSafe, catch_unwind};

use p3_air::BaseAir;
use p3_baby_bear::{BabyBear, default_babybear_poseidon2_16, default_babybear_poseidon2_32};
use p3_circuit::ops::{PermCall, PermConfig, Poseidon2Config, generate_poseidon2_trace};
use p3_circuit::{Circuit, CircuitBuilder, ExprId};
use p3_circuit_prover::batch_stark_prover::{poseidon2_air_builders, poseidon2_air_builders_for_configs};
use p3_circuit_prover::common::{NpoAirBuilder, NpoPreprocessor, get_airs_and_degrees_with_prep};
use p3_circuit_prover::config::BabyBearConfig;
use p3_circuit_prover::{ConstraintProfile, Poseidon2Preprocessor, TablePacking};
use p3_field::PrimeCharacteristicRing;
use p3_field::extension::BinomialExtensionField;
use p3_poseidon2_circuit_air::{BabyBearD4Width16, BabyBearD4Width32};
use serde_json::{Value, json};

type F = BabyBear;
type E4 = BinomialExtensionField<F, 4>;

fn tag_build(n_missing: usize) -> String {
    let mut b = CircuitBuilder::<F>::new();
    let x = b.public_input();
    let y = b.public_input();
    let s = b.add(x, y);
    b.tag(s, "sum").unwrap();
    for i in 0..n_missing {
        // an expression id the graph does not contain: it never receives a witness
        b.tag(ExprId(1000 + i as u32), format!("ghost{i}")).unwrap();
    }
    match b.build() {
        Ok(c) => format!("ok tags={}", c.tag_to_witness.len()),
        Err(e) => format!("err {e:?}"),
    }
}

fn two_table_circuit() -> Result<Circuit<E4>, String> {
    let mut b = CircuitBuilder::<E4>::new();
    b.enable_poseidon2_perm::<BabyBearD4Width16, _>(generate_poseidon2_trace::<E4, BabyBearD4Width16>, default_babybear_poseidon2_16());
    b.enable_poseidon2_perm_width_32::<BabyBearD4Width32, _>(generate_poseidon2_trace::<E4, BabyBearD4Width32>, default_babybear_poseidon2_32());
    for cfg in [Poseidon2Config::BABY_BEAR_D4_W16, Poseidon2Config::BABY_BEAR_D4_W32] {
        let w = cfg.width_ext();
        let r = cfg.rate_ext();
        let inputs: Vec<Option<ExprId>> = (0..w).map(|i| Some(b.alloc_const(E4::from_u32(7 + i as u32), "in"))).collect();
        let call = PermCall {
            new_start: true,
            merkle_path: false,
            mmcs_bit: None,
            mmcs_bit2: None,
            inputs,
            out_ctl: (0..r).map(|i| i == 0).collect(),
            return_all_outputs: false,
            mmcs_index_sum: None,
        };
        let (_, outs) = b.add_perm(PermConfig::from(cfg), &call).map_err(|e| format!("add_perm {cfg:?}: {e:?}"))?;
        // keep an output alive as an operand so that the table row is a creator with a reader
        if let Some(Some(o)) = outs.first() {
            let z = b.alloc_const(E4::ONE, "one");
            let _ = b.mul(*o, z);
        }
    }
    b.build().map_err(|e| format!("build: {e:?}"))
}

fn air_list(c: &Circuit<E4>, builders: &[Box<dyn NpoAirBuilder<BabyBearConfig, 4>>]) -> String {
    let prep: Vec<Box<dyn NpoPreprocessor<F>>> = vec![Box::new(Poseidon2Preprocessor)];
    let r = catch_unwind(AssertUnwindSafe(|| {
        get_airs_and_degrees_with_prep::<BabyBearConfig, E4, 4>(c, &TablePacking::new(1, 1), &prep, builders, ConstraintProfile::Standard)
    }));
    match r {
        Err(_) => "panic".into(),
        Ok(Err(e)) => format!("err {e:?}"),
        Ok(Ok((airs, _prim, nonprim))) => {
            let mut keys: Vec<String> = nonprim.keys().map(|k| k.as_str().to_string()).collect();
            keys.sort();
            // the dynamic AIRs follow the three primitive tables; main width identifies the table
            let dynw: Vec<String> = airs.iter().skip(3).map(|(a, d)| format!("w{}d{}", BaseAir::<F>::width(a), d)).collect();
            format!("tables={} dyn=[{}] nonprim_keys={}", airs.len(), dynw.join(","), keys.join("+"))
        }
    }
}

fn tally(f: impl Fn() -> String, repeats: usize) -> BTreeMap<String, u64> {
    let mut m = BTreeMap::new();
    for _ in 0..repeats {
        *m.entry(f()).or_default() += 1;
    }
    m
}

pub fn main(args: &crate::Args) {
    let repeats = args.u64("repeats", 40) as usize;
    let out = args.str("out", "/tmp/p3r");
    let tag = args.str("tag", "p0");
    std::fs::create_dir_all(&out).unwrap();
    let mut violations: Vec<Value> = vec![];
    let mut observations: Vec<Value> = vec![];
    let mut evals = 0usize;

    // --- tag transfer -------------------------------------------------------------------------
    let t0 = tally(|| tag_build(0), repeats);
    let t1 = tally(|| tag_build(1), repeats);
    let t2 = tally(|| tag_build(2), repeats);
    let t3 = tally(|| tag_build(5), repeats);
    evals += 4 * repeats;
    for (name, t) in [("tag-none-missing", &t0), ("tag-single-missing", &t1)] {
        if t.len() != 1 {
            violations.push(json!({"property":"C18","class":"nondeterministic-build","kind":name,
                "first_difference": format!("{t:?}"), "replay": {"what": format!("c18_orders::tag_build: {name}"), "outcomes": t}}));
        }
    }
    for (name, t) in [("tag-error-payload(2)", &t2), ("tag-error-payload(5)", &t3)] {
        let any_ok = t.keys().any(|k| k.starts_with("ok"));
        let any_err = t.keys().any(|k| k.starts_with("err"));
        if any_ok && any_err {
            violations.push(json!({"property":"C18","class":"nondeterministic-build","kind": format!("{name}: success flips"),
                "first_difference": format!("{t:?}"), "replay": {"what": "c18_orders::tag_build", "outcomes": t}}));
        }
        observations.push(json!({"site": "circuit_builder.rs build_with_public_mapping tag_to_expr.for", "case": name,
            "distinct_outcomes": t.len(), "outcomes": t,
            "meaning": "build() fails on every repeat (order-independent, P3R.C18.firstErr_isSome_perm); which tag the MissingExprMapping error names follows the hash order (P3R.Witness.C18Order.tag_error_order_dependent)"}));
    }

    // --- AIR-builder loop ---------------------------------------------------------------------
    match catch_unwind(AssertUnwindSafe(two_table_circuit)) {
        Ok(Ok(c)) => {
            // the build itself, repeated
            let dumps = tally(|| match two_table_circuit() { Ok(c2) => format!("{:?} wc={} pub={:?}", c2.ops, c2.witness_count, c2.public_rows), Err(e) => e }, 4);
            if dumps.len() != 1 {
                violations.push(json!({"property":"C18","class":"nondeterministic-build","kind":"two-table circuit rebuild differs",
                    "first_difference": "op lists differ", "replay": {"what": "c18_orders::two_table_circuit"}}));
            }
            let generic = tally(|| air_list(&c, &poseidon2_air_builders::<BabyBearConfig, 4>()), repeats);
            let per_cfg = tally(
                || air_list(&c, &poseidon2_air_builders_for_configs::<BabyBearConfig, 4>(vec![Poseidon2Config::BABY_BEAR_D4_W16, Poseidon2Config::BABY_BEAR_D4_W32])),
                repeats,
            );
            let per_cfg_rev = tally(
                || air_list(&c, &poseidon2_air_builders_for_configs::<BabyBearConfig, 4>(vec![Poseidon2Config::BABY_BEAR_D4_W32, Poseidon2Config::BABY_BEAR_D4_W16])),
                repeats,
            );
            evals += 3 * repeats + 4;
            for (name, t) in [("per-config-builders-two-tables", &per_cfg), ("per-config-builders-two-tables(reversed registration)", &per_cfg_rev)] {
                if t.len() != 1 || t.keys().any(|k| !k.starts_with("tables=5")) {
                    violations.push(json!({"property":"C18","class":"nondeterministic-keygen","kind":name,
                        "first_difference": format!("{t:?}"),
                        "replay": {"what": "c18_orders::two_table_circuit + poseidon2_air_builders_for_configs", "outcomes": t}}));
                }
            }
            // F-C18-1 (repaired in /repo 9b88fce: entries are visited in sorted op-type order): the generic builder, which
            // accepts both tables, must now pick the same table on every call
            if generic.len() != 1 {
                violations.push(json!({"property":"C18","class":"nondeterministic-keygen","kind":"generic-builder-two-tables",
                    "first_difference": format!("{generic:?}"),
                    "replay": {"what": "c18_orders::two_table_circuit + poseidon2_air_builders::<_,4>() (one generic builder, two Poseidon2 tables): get_airs_and_degrees_with_prep returns different AIR lists across calls on the same circuit", "outcomes": generic}}));
            }
            observations.push(json!({"site": "circuit-prover/src/common.rs get_airs_and_degrees_with_prep non_primitive_base.iter",
                "case": "generic-builder-two-tables", "distinct_outcomes": generic.len(), "outcomes": generic,
                "per_config_outcomes": per_cfg, "per_config_reversed_outcomes": per_cfg_rev,
                "meaning": "one generic Poseidon2AirBuilder<4>, two Poseidon2 tables in non_primitive_base: a single dynamic AIR is built; before 9b88fce which table it was followed the hash order (P3R.Witness.C18Order.airLoop_order_dependent), the sorted visit makes it the same on every call (P3R.C18.airLoop_sorted); with one config-restricted builder per table the list is order-independent (P3R.C18.airLoop_perm)"}));
        }
        Ok(Err(e)) => observations.push(json!({"case": "generic-builder-two-tables", "skipped": e})),
        Err(_) => observations.push(json!({"case": "generic-builder-two-tables", "skipped": "panic while building the two-table circuit"})),
    }

    let report = json!({"evaluations": evals, "violations": violations, "observations": observations, "repeats": repeats});
    std::fs::write(format!("{out}/c18orders.{tag}.report.json"), serde_json::to_string_pretty(&report).unwrap()).unwrap();
    println!("c18-orders[{tag}]: evals={} violations={} observations={}", evals, violations.len(), observations.len());
}
