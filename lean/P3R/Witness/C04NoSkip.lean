/-
Witnesses for `P3R.C04N` (Props/C04NoSkip.lean).

* `skip_occurs` — `skip` is a real outcome of the scan: an `Add` row whose `a` operand nothing defines
  (both sides of `alu_a_skip_iff` hold on a concrete row);
* `cert_on_example`, `lateFresh_on_example` — the two decidable conditions on the compiled op list of the
  end-to-end example program (`Witness/EndToEnd.lean`: fused `MulAdd` with a product slot, backward `Add`);
* `no_skip_applies` — `compiled_no_skip_partial` on that program: the `hnoskip` of the capstone is now a
  consequence (not read off the evaluated scan);
* `soundness_applies'` — `e2e_soundness_reachable_partial` on that program;
* `lateFresh_needed` — list level, the hypothesis `hlate` of `cert_of_shape` cannot be dropped: a list whose
  shape run succeeds, with every other hypothesis, in which a `Const` row placed AFTER an ALU row carries the
  slot of a hint output; the scan leaves the `a` operand of the `BoolCheck` row off the bus.
-/
import P3R.Props.C04NoSkip
import P3R.Witness.EndToEnd

namespace P3R.Witness.C04NoSkip
open P3R P3R.C04N P3R.E2E P3R.Witness.EndToEnd

/-- One `Add` row `5 + 1 → 2`, nothing defined: the `a` operand gets state 0. -/
theorem skip_occurs :
    (⟨5, false, true⟩ : Request).role
      (({ defined := [], reads := [], events := [] } : RoleState).serve ⟨2, true, false⟩).defined = .skip ∧
    (5 ∉ ([] : List Nat) ∧ 5 ≠ 2) := by
  decide

theorem cert_on_example : noSkipCert [3, 4] opsE = true := by decide

theorem lateFresh_on_example : lateFresh opsE = true := by decide

/-- `compiled_no_skip_partial` applies to the example program. -/
theorem no_skip_applies (c : Circuit K) (p : Prep) (hc : compile bE = .ok c) (hp : genPrep c = some p) :
    noSkip p := by
  obtain ⟨hops, _, _, _⟩ := facts_of hc hp
  exact compiled_no_skip_partial bE e_reachable c hc p hp (by rw [hops]; exact lateFresh_on_example)

/-- `e2e_soundness_reachable_partial` applies: no `hnoskip` is supplied. -/
theorem soundness_applies' (c : Circuit K) (p : Prep) (hc : compile bE = .ok c)
    (hp : genPrep c = some p) (vs : List K) (hacc : Accepted pubE c p vs) :
    ∃ (l : Lowered K) (w' : Nat → K), lower bE = .ok l ∧
      SourceSat bE pubE (fun e => w' (eslot c.rewrite l e)) := by
  obtain ⟨hops, _, _, _⟩ := facts_of hc hp
  obtain ⟨l, hl, _, _, w', _, _, _, hsrc, _⟩ :=
    e2e_soundness_reachable_partial bE e_reachable c hc p hp
      (by rw [hops]; exact lateFresh_on_example) pubE vs hacc
  exact ⟨l, w', hl, hsrc⟩

/-- A list with a late `Const` row on a hint output's slot. -/
def lateOps : List (Op K) :=
  [.const 0 0, .pub 1 0, .hint [1] [3] .hintBits, .alu .boolCheck 3 0 (some 3) 4 none, .const 3 1]

def lateC : Circuit K :=
  { witnessCount := 5, ops := lateOps.toArray, pubRows := #[1], privRows := #[], e2w := #[], rewrite := [] }

/-- The shape run of `lateOps` succeeds from "inputs set", the list is not `lateFresh`, and the scan puts
the `a` (and `c`) operand of the `BoolCheck` row off the bus. -/
theorem lateFresh_needed :
    (C02S.runOps (C02S.allInputsSet lateC) lateOps).isSome = true ∧ lateFresh lateOps = false ∧
    (match genPrep lateC with
     | some p => p.events.any fun e => e.2 == .skip
     | none => false) = true := by
  decide

end P3R.Witness.C04NoSkip

#print axioms P3R.Witness.C04NoSkip.no_skip_applies
#print axioms P3R.Witness.C04NoSkip.soundness_applies'
#print axioms P3R.Witness.C04NoSkip.lateFresh_needed
