// bb_plain only: a proof of the circuit tables (Witness / Const / Public / ALU) produced by the
// repository's own `BatchStarkProver` — five instances, global preprocessed commitment, LogUp
// lookups with permutation commitment and lookup terminals — verified by
// `verify_p3_batch_proof_circuit`; native side: `BatchStarkProver::verify_all_tables`.
pub fn tables(seed: u64, per_kind: usize) -> Vec<super::CampaignRes> {
    use p3_circuit_prover::common::get_airs_and_degrees_with_prep;
    use p3_circuit_prover::{BatchStarkProver, CircuitProverData, ConstraintProfile, TablePacking};
    let name = "bb_plain.tables";
    let mut b = p3_circuit::CircuitBuilder::<F>::new();
    let expected = b.alloc_public_input("expected");
    let mut x = b.alloc_const(F::ZERO, "f0");
    let mut y = b.alloc_const(F::ONE, "f1");
    let (mut fx, mut fy) = (F::ZERO, F::ONE);
    for _ in 2..=20 {
        let nx = b.add(x, y);
        x = y;
        y = nx;
        let nf = fx + fy;
        fx = fy;
        fy = nf;
    }
    b.connect(y, expected);
    let packing = TablePacking::new(2, 4);
    let config = make_test_config();
    let inner = b.build().unwrap();
    let (airs_degrees, prim, nonprim) =
        get_airs_and_degrees_with_prep::<SC, _, 1>(&inner, &packing, &[], &[], ConstraintProfile::Standard).unwrap();
    let (airs, degrees): (Vec<_>, Vec<usize>) = airs_degrees.into_iter().unzip();
    let mut runner = inner.runner();
    runner.set_public_inputs(&[fy]).unwrap();
    let traces = runner.run().unwrap();
    let pd = p3_batch_stark::ProverData::from_airs_and_degrees(&config, &airs, &degrees);
    let cpd = CircuitProverData::new(pd, prim, nonprim);
    let prover = BatchStarkProver::new(config).with_table_packing(packing);
    let mut bsp = prover.prove_all_tables(&traces, &cpd).unwrap_or_else(|e| panic!("prove_all_tables: {e:?}"));

    let config2 = make_test_config();
    let params = fri_verifier_params();
    let lookup_gadget = p3_lookup::logup::LogUpGadget::new();
    let build = |bsp: &p3_circuit_prover::BatchStarkProof<SC>| -> Result<(BatchBuilder, p3_circuit::Circuit<EF>, Vec<p3_circuit::NonPrimitiveOpId>), String> {
        let mut cb = p3_circuit::CircuitBuilder::<EF>::new();
        enable_perm(&mut cb);
        let (vi, op_ids) = p3_recursion::verifier::verify_p3_batch_proof_circuit::<SC, CapT, InputT, OpeningT, p3_lookup::logup::LogUpGadget, _, WIDTH, RATE, 1>(
            &config2,
            &mut cb,
            bsp,
            &params,
            &bsp.stark_common,
            &lookup_gadget,
            perm_config(),
            &[],
        )
        .map_err(|e| format!("verifier-circuit:{}", short(e)))?;
        let circuit = cb.build().map_err(|e| format!("build:{}", short(e)))?;
        Ok((vi, circuit, op_ids))
    };
    let (vi, circuit, op_ids) = build(&bsp).unwrap_or_else(|e| panic!("{e}"));
    let positions = circuit.public_flat_len + circuit.private_flat_len;
    let statics = static_oracles(&circuit, &tw_batch(&vi, &bsp.proof));
    let n = bsp.proof.opened_values.instances.len();
    let mut pis: Vec<Vec<F>> = vec![vec![]; n];
    let mut f = |op: Op| -> Resp {
        match op {
            Op::Walk(v) => {
                let mut prep: Option<Com> = bsp.stark_common.preprocessed.as_ref().map(|g| g.commitment.clone());
                walk_batch(&mut pis, &mut bsp.proof, &mut prep, v);
                if let (Some(g), Some(c)) = (bsp.stark_common.preprocessed.as_mut(), prep) {
                    g.commitment = c;
                }
                Resp::Unit
            }
            Op::Shape(sv) => {
                let mut prep: Option<Com> = bsp.stark_common.preprocessed.as_ref().map(|g| g.commitment.clone());
                swalk_batch(&mut pis, false, &mut bsp.proof, &mut prep, sv);
                if let (Some(g), Some(c)) = (bsp.stark_common.preprocessed.as_mut(), prep) {
                    g.commitment = c;
                }
                Resp::Unit
            }
            Op::Rebuild => Resp::Res((|| {
                let (vi2, c2, ops2) = build(&bsp)?;
                let (pv, sv) = vi2.pack_values(&pis, &bsp.proof, &bsp.stark_common);
                run_circuit(&c2, &pv, &sv, &ops2, &bsp.proof.opening_proof)
            })()),
            Op::Native => Resp::Bool(prover.verify_all_tables::<F>(&bsp).is_ok()),
            Op::Run => {
                let (pv, sv) = vi.pack_values(&pis, &bsp.proof, &bsp.stark_common);
                Resp::Res(run_circuit(&circuit, &pv, &sv, &op_ids, &bsp.proof.opening_proof))
            }
        }
    };
    vec![drive(name, seed, per_kind, positions, statics, &mut f)]
}
