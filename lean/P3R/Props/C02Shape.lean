/-
C02 — the run on a satisfying input is decided by the circuit's *shape* alone.

`run_refines_shape`: from a table agreeing with a satisfying assignment, the modelled `run` succeeds
iff the value-free `runShape` (Model/RunnerShape.lean) succeeds on the table's definedness bits, and
then returns exactly the assignment. Consequently (`run_succeeds_on_every_satisfying_input`) a
circuit whose shape run succeeds for the definedness pattern "all public and private rows set" —
one decidable fact per circuit, evaluated by the driver for every compiled program of the
correspondence run (`shape ok`) — succeeds on *every* satisfying input, which is the second clause of
the property. A shape failure is a structural defect of the compiled circuit (an operand not
defined when needed), independent of the input values.
-/
import P3R.Props.C02Complete
import P3R.Model.RunnerShape

namespace P3R.C02
open P3R

variable {K : Type} [Field K] [DecidableEq K]

def shape (t : Array (Option K)) : Array Bool := t.map Option.isSome

theorem getS_shape (t : Array (Option K)) (i : Nat) : getS (shape t) i = (slot t i).isSome := by
  unfold getS shape slot
  by_cases h : i < t.size
  · simp [Array.getD, h]
  · have : t[i]? = none := Array.getElem?_eq_none (by omega)
    simp [Array.getD, h, this]

def RefW (w : Nat → K) (sh : Option (Array Bool)) : Except RunErr (Array (Option K)) → Prop
  | .ok t => Agree t w ∧ sh = some (shape t)
  | .error e => Structural e ∧ sh = none

theorem shape_size (t : Array (Option K)) : (shape t).size = t.size := by simp [shape]

theorem setW_ref (t : Array (Option K)) (w : Nat → K) (i : Nat) (v : K) (h : Agree t w) (hv : v = w i) :
    RefW w (setS (shape t) i) (setW t i v) := by
  have hg := setW_good t w i v h hv
  unfold setW at hg ⊢
  unfold setS
  rw [shape_size]
  cases hti : t[i]? with
  | none =>
    have : ¬ i < t.size := by
      intro hlt
      have : t[i]? = some t[i] := by simp [hlt]
      rw [this] at hti; cases hti
    simp only [this, if_false]
    exact ⟨trivial, rfl⟩
  | some o =>
    have hlt : i < t.size := by
      by_contra hge
      have : t[i]? = none := Array.getElem?_eq_none (by omega)
      rw [this] at hti; cases hti
    have hget : t[i] = o := by
      have : t[i]? = some t[i] := by simp [hlt]
      rw [this] at hti; exact Option.some.inj hti
    simp only [hlt, if_true]
    cases o with
    | some old =>
      have hs : slot t i = some old := by unfold slot; rw [hti]
      have hold := h i old hs
      simp only
      rw [if_pos (by rw [hold, hv])]
      refine ⟨h, ?_⟩
      congr 1
      apply Array.ext
      · simp [shape]
      · intro j h1 h2
        by_cases hji : i = j
        · subst hji; simp [shape, hget]
        · rw [Array.getElem_setIfInBounds_ne (by simpa [shape] using h2) hji]
    | none =>
      rw [hti] at hg
      simp only at hg ⊢
      refine ⟨hg, ?_⟩
      congr 1
      apply Array.ext
      · simp [shape]
      · intro j h1 h2
        by_cases hji : i = j
        · subst hji; simp [shape]
        · have hjt : j < t.size := by simpa [shape] using h1
          simp only [shape, Array.getElem_map]
          rw [Array.getElem_setIfInBounds_ne hjt hji, Array.getElem_setIfInBounds_ne (by simpa using hjt) hji]
          simp

def RefA (w : Nat → K) (sh : Option (Array Bool)) : Except RunErr (Array (Option K) × AluRec K) → Prop
  | .ok tr => Agree tr.1 w ∧ sh = some (shape tr.1)
  | .error e => Structural e ∧ sh = none

theorem refA_of_setW (w : Nat → K) (sh : Option (Array Bool)) (x : Except RunErr (Array (Option K)))
    (r : AluRec K) (hx : RefW w sh x) : RefA w sh (x >>= fun t => pure (t, r)) := by
  cases x with
  | error e => exact hx
  | ok t => exact hx

theorem getW_some (t : Array (Option K)) (w : Nat → K) (i : Nat) (x : K) (h : Agree t w)
    (hs : slot t i = some x) : getW t i = .ok (w i) ∧ getS (shape t) i = true := by
  refine ⟨?_, by rw [getS_shape, hs]; rfl⟩
  unfold getW; rw [hs, h i x hs]

theorem getW_none (t : Array (Option K)) (i : Nat) (hs : slot t i = none) :
    getW t i = .error (.witnessNotSet i) ∧ getS (shape t) i = false := by
  refine ⟨?_, by rw [getS_shape, hs]; rfl⟩
  unfold getW; rw [hs]

/-- The part of a `mulAdd` step before the addend: reads of `a`, `b`, optional product-slot write. -/
theorem mulAdd_front_ref (t : Array (Option K)) (w : Nat → K) (a b : Nat) (io : Option Nat) (h : Agree t w)
    (hio : ∀ i, io = some i → w a * w b = w i)
    (tailS : Array Bool → Option (Array Bool))
    (tailM : K → K → Array (Option K) → Except RunErr (Array (Option K) × AluRec K))
    (htail : ∀ t1, Agree t1 w → RefA w (tailS (shape t1)) (tailM (w a) (w b) t1)) :
    RefA w
      (if !getS (shape t) a || !getS (shape t) b then none else
        match (match io with | some i => setS (shape t) i | none => some (shape t)) with
        | none => none
        | some t1 => tailS t1)
      (do
        let av ← getW t a
        let bv ← getW t b
        let t1 ← (match io with
          | some i => setW t i (av * bv)
          | none => pure t)
        tailM av bv t1) := by
  cases hsa : slot t a with
  | none =>
    obtain ⟨e1, e2⟩ := getW_none t a hsa
    rw [e1, e2]; exact ⟨trivial, by simp⟩
  | some av =>
    obtain ⟨e1, e2⟩ := getW_some t w a av h hsa
    rw [e1, e2]; simp only [ok_bind']
    cases hsb : slot t b with
    | none =>
      obtain ⟨e3, e4⟩ := getW_none t b hsb
      rw [e3, e4]; exact ⟨trivial, by simp⟩
    | some bv =>
      obtain ⟨e3, e4⟩ := getW_some t w b bv h hsb
      rw [e3, e4]; simp only [ok_bind', Bool.not_true, Bool.or_self, Bool.false_eq_true, if_false]
      cases io with
      | none =>
        simp only [pure, Except.pure, ok_bind']
        exact htail t h
      | some i =>
        have hs := setW_ref t w i (w a * w b) h (hio i rfl)
        cases hx : setW t i (w a * w b) with
        | error e =>
          rw [hx] at hs
          simp only [hs.2]
          show RefA w none (setW t i (w a * w b) >>= _)
          rw [hx]
          exact ⟨hs.1, rfl⟩
        | ok t1 =>
          rw [hx] at hs
          simp only [hs.2]
          show RefA w _ (setW t i (w a * w b) >>= _)
          rw [hx]
          exact htail t1 hs.1

theorem execAlu_ref (t : Array (Option K)) (w pub : Nat → K) (k : AluKind) (a b : Nat) (c : Option Nat)
    (out : Nat) (io : Option Nat) (h : Agree t w)
    (hh : (Op.alu k a b c out io : Op K).holds w pub)
    (hrw : RunnerWrites w (Op.alu k a b c out io : Op K)) :
    RefA w (execAluShape (shape t) k a b c out io) (execAlu t k a b c out io) := by
  cases k with
  | add =>
    simp only [execAlu, execAluShape]
    cases hsa : slot t a with
    | none =>
      obtain ⟨e1, e2⟩ := getW_none t a hsa
      rw [e1, e2]; exact ⟨trivial, by simp⟩
    | some av =>
      obtain ⟨e1, e2⟩ := getW_some t w a av h hsa
      rw [e1, e2]; simp only [ok_bind', Bool.not_true, Bool.false_eq_true, if_false]
      cases hsb : slot t b with
      | some bv =>
        have hbv := h b bv hsb
        have e3 : getS (shape t) b = true := by rw [getS_shape, hsb]; rfl
        rw [e3]; simp only [if_true]
        apply refA_of_setW
        exact setW_ref t w out _ h (by rw [hbv]; simpa [Op.holds] using hh)
      | none =>
        have e3 : getS (shape t) b = false := by rw [getS_shape, hsb]; rfl
        rw [e3]; simp only [Bool.false_eq_true, if_false]
        cases hso : slot t out with
        | none =>
          obtain ⟨e4, e5⟩ := getW_none t out hso
          rw [e4, e5]; exact ⟨trivial, by simp⟩
        | some ov =>
          obtain ⟨e4, e5⟩ := getW_some t w out ov h hso
          rw [e4, e5]; simp only [ok_bind', Bool.not_true, Bool.false_eq_true, if_false]
          apply refA_of_setW
          exact setW_ref t w b _ h (by simp only [Op.holds] at hh; rw [← hh]; ring)
  | mul =>
    simp only [execAlu, execAluShape]
    cases hsa : slot t a with
    | none =>
      obtain ⟨e1, e2⟩ := getW_none t a hsa
      rw [e1, e2]; exact ⟨trivial, by simp⟩
    | some av =>
      obtain ⟨e1, e2⟩ := getW_some t w a av h hsa
      rw [e1, e2]; simp only [ok_bind', Bool.not_true, Bool.false_eq_true, if_false]
      cases hsb : slot t b with
      | some bv =>
        have hbv := h b bv hsb
        have e3 : getS (shape t) b = true := by rw [getS_shape, hsb]; rfl
        rw [e3]; simp only [if_true]
        apply refA_of_setW
        exact setW_ref t w out _ h (by rw [hbv]; simpa [Op.holds] using hh)
      | none =>
        have e3 : getS (shape t) b = false := by rw [getS_shape, hsb]; rfl
        rw [e3]; simp only [Bool.false_eq_true, if_false]
        cases hso : slot t out with
        | none =>
          obtain ⟨e4, e5⟩ := getW_none t out hso
          rw [e4, e5]; exact ⟨trivial, by simp⟩
        | some ov =>
          obtain ⟨e4, e5⟩ := getW_some t w out ov h hso
          rw [e4, e5]; simp only [ok_bind', Bool.not_true, Bool.false_eq_true, if_false]
          have hne : w a ≠ 0 := hrw
          rw [if_neg hne]
          apply refA_of_setW
          exact setW_ref t w b _ h (by simp only [Op.holds] at hh; rw [← hh]; field_simp)
  | boolCheck =>
    simp only [execAlu, execAluShape]
    cases hsa : slot t a with
    | none =>
      obtain ⟨e1, e2⟩ := getW_none t a hsa
      rw [e1, e2]; exact ⟨trivial, by simp⟩
    | some av =>
      obtain ⟨e1, e2⟩ := getW_some t w a av h hsa
      rw [e1, e2]; simp only [ok_bind', Bool.not_true, Bool.false_eq_true, if_false]
      apply refA_of_setW
      exact setW_ref t w out _ h (by simpa [RunnerWrites] using hrw.symm)
  | mulAdd =>
    have hio : ∀ i, io = some i → w a * w b = w i := by
      intro i hi; subst hi; simpa [RunnerWrites] using hrw.symm
    cases c with
    | none =>
      have hout : w a * w b + 0 = w out := by simp only [Op.holds] at hh; rw [← hh]; ring
      exact mulAdd_front_ref t w a b io h hio (fun t1 => setS t1 out)
        (fun av bv t1 => do
          let w2 ← setW t1 out (av * bv + 0)
          pure (w2, (⟨.mulAdd, a, b, 0, out, av, bv, 0, av * bv + 0⟩ : AluRec K)))
        (fun t1 h1 => refA_of_setW w _ _ _ (setW_ref t1 w out _ h1 hout))
    | some ci =>
      have hout : w a * w b + w ci = w out := by simpa [Op.holds] using hh
      refine mulAdd_front_ref t w a b io h hio
        (fun t1 => if !getS t1 ci then none else setS t1 out)
        (fun av bv t1 => do
          let cv ← getW t1 ci
          let w2 ← setW t1 out (av * bv + cv)
          pure (w2, (⟨.mulAdd, a, b, ci, out, av, bv, cv, av * bv + cv⟩ : AluRec K)))
        (fun t1 h1 => ?_)
      cases hsc : slot t1 ci with
      | none =>
        obtain ⟨e1, e2⟩ := getW_none t1 ci hsc
        simp only [e1, e2, err_bind']; exact ⟨trivial, by simp⟩
      | some cv =>
        obtain ⟨e1, e2⟩ := getW_some t1 w ci cv h1 hsc
        simp only [e1, e2, ok_bind', Bool.not_true, Bool.false_eq_true, if_false]
        exact refA_of_setW w _ _ _ (setW_ref t1 w out _ h1 hout)
  | horner =>
    simp only [execAlu, execAluShape]
    cases io with
    | none => exact ⟨trivial, rfl⟩
    | some acc =>
      cases c with
      | none => exact ⟨trivial, rfl⟩
      | some cId =>
        simp only
        cases hs1 : slot t acc with
        | none =>
          obtain ⟨e1, e2⟩ := getW_none t acc hs1
          rw [e1, e2]; exact ⟨trivial, by simp⟩
        | some x1 =>
          obtain ⟨e1, e2⟩ := getW_some t w acc x1 h hs1
          rw [e1, e2]; simp only [ok_bind']
          cases hs2 : slot t a with
          | none =>
            obtain ⟨e3, e4⟩ := getW_none t a hs2
            rw [e3, e4]; exact ⟨trivial, by simp⟩
          | some x2 =>
            obtain ⟨e3, e4⟩ := getW_some t w a x2 h hs2
            rw [e3, e4]; simp only [ok_bind']
            cases hs3 : slot t b with
            | none =>
              obtain ⟨e5, e6⟩ := getW_none t b hs3
              rw [e5, e6]; exact ⟨trivial, by simp⟩
            | some x3 =>
              obtain ⟨e5, e6⟩ := getW_some t w b x3 h hs3
              rw [e5, e6]; simp only [ok_bind']
              cases hs4 : slot t cId with
              | none =>
                obtain ⟨e7, e8⟩ := getW_none t cId hs4
                rw [e7, e8]; exact ⟨trivial, by simp⟩
              | some x4 =>
                obtain ⟨e7, e8⟩ := getW_some t w cId x4 h hs4
                rw [e7, e8]
                simp only [ok_bind', Bool.not_true, Bool.or_self, Bool.false_eq_true, if_false]
                apply refA_of_setW
                exact setW_ref t w out _ h (by simpa [Op.holds] using hh)

theorem bind_ok3 {ε α β} {x : Except ε α} {f : α → Except ε β} {b : β}
    (h : x >>= f = .ok b) : ∃ a, x = .ok a ∧ f a = .ok b := by
  cases x with
  | error e => cases h
  | ok a => exact ⟨a, rfl, h⟩

def RefS (w : Nat → K) (sh : Option (Array Bool)) : Except RunErr (RState K) → Prop
  | .ok s => Agree s.w w ∧ sh = some (shape s.w)
  | .error e => Structural e ∧ sh = none

theorem foldlM_setW_ref {α} (w : Nat → K) (f : α → Nat) (g : α → K) :
    ∀ (l : List α) (t : Array (Option K)), Agree t w → (∀ x ∈ l, g x = w (f x)) →
      RefW w ((l.map f).foldlM (fun t o => setS t o) (shape t))
        (l.foldlM (fun t x => setW t (f x) (g x)) t) := by
  intro l
  induction l with
  | nil => intro t h _; exact ⟨h, rfl⟩
  | cons x xs ih =>
    intro t h hv
    simp only [List.foldlM_cons, List.map_cons]
    have h1 := setW_ref t w (f x) (g x) h (hv x (by simp))
    cases hx : setW t (f x) (g x) with
    | error e =>
      rw [hx] at h1
      rw [h1.2]
      exact ⟨h1.1, rfl⟩
    | ok t1 =>
      rw [hx] at h1
      rw [h1.2]
      exact ih t1 h1.1 (fun y hy => hv y (by simp [hy]))

theorem execOp_ref (canon : K → Nat) (s : RState K) (w pub : Nat → K) (op : Op K) (h : Agree s.w w)
    (hh : op.holds w pub) (hrw : RunnerWrites w op) (hhint : HintAgrees canon w op) :
    RefS w (execOpShape (shape s.w) op) (execOp canon s op) := by
  cases op with
  | const out v =>
    simp only [execOp, execOpShape]
    have := setW_ref s.w w out v h (by simpa [Op.holds] using hh.symm)
    cases hx : setW s.w out v with
    | error e => rw [hx] at this; exact this
    | ok t1 => rw [hx] at this; exact this
  | pub out pos =>
    simp only [execOp, execOpShape]
    rw [getS_shape]
    cases hs : slot s.w out with
    | some x => exact ⟨h, rfl⟩
    | none => exact ⟨trivial, rfl⟩
  | alu k a b c out io =>
    simp only [execOp, execOpShape]
    have := execAlu_ref s.w w pub k a b c out io h hh hrw
    cases hx : execAlu s.w k a b c out io with
    | error e => rw [hx] at this; exact this
    | ok tr => rw [hx] at this; exact this
  | npo _ _ _ _ => exact ⟨trivial, rfl⟩
  | hint ins outs kd =>
    cases kd with
    | table _ =>
      refine ⟨trivial, ?_⟩
      unfold execOpShape
      split <;> first | rfl | (rename_i h1; cases h1) | skip
      all_goals simp_all
    | hintBits =>
      match ins, hhint with
      | [], _ => exact ⟨trivial, rfl⟩
      | [x], hhint =>
        simp only [execOp, execHintBits, execOpShape]
        cases hsx : slot s.w x with
        | none =>
          obtain ⟨e1, e2⟩ := getW_none s.w x hsx
          rw [e1, e2]; exact ⟨trivial, by simp⟩
        | some xv =>
          obtain ⟨e1, e2⟩ := getW_some s.w w x xv h hsx
          rw [e1, e2]; simp only [ok_bind', Bool.not_true, Bool.false_eq_true, if_false]
          have := foldlM_setW_ref w (fun (oi : Nat × Nat) => oi.1)
            (fun oi => if (canon (w x) >>> oi.2) % 2 = 1 then (1 : K) else 0) outs.zipIdx s.w h
            (by intro oi hoi; exact hhint oi hoi)
          rw [List.zipIdx_map_fst] at this
          cases hx : (outs.zipIdx.foldlM (fun t (oi : Nat × Nat) =>
              setW t oi.1 (if (canon (w x) >>> oi.2) % 2 = 1 then (1 : K) else 0)) s.w) with
          | error e => rw [hx] at this; exact this
          | ok t1 => rw [hx] at this; exact this
      | _ :: _ :: _, _ => exact ⟨trivial, rfl⟩
    | hintExt =>
      match ins, outs, hhint with
      | [x], [o], hhint =>
        simp only [execOp, execHintExt, execOpShape]
        cases hsx : slot s.w x with
        | none =>
          obtain ⟨e1, e2⟩ := getW_none s.w x hsx
          rw [e1, e2]; exact ⟨trivial, by simp⟩
        | some xv =>
          obtain ⟨e1, e2⟩ := getW_some s.w w x xv h hsx
          rw [e1, e2]; simp only [ok_bind', Bool.not_true, Bool.false_eq_true, if_false]
          have := setW_ref s.w w o (w x) h hhint
          cases hx : setW s.w o (w x) with
          | error e => rw [hx] at this; exact this
          | ok t1 => rw [hx] at this; exact this
      | [], _, _ => exact ⟨trivial, rfl⟩
      | [_], [], _ => exact ⟨trivial, rfl⟩
      | [_], _ :: _ :: _, _ => exact ⟨trivial, rfl⟩
      | _ :: _ :: _, _, _ => exact ⟨trivial, rfl⟩

theorem execAll_ref (canon : K → Nat) (w pub : Nat → K) :
    ∀ (ops : List (Op K)) (s : RState K), Agree s.w w →
      (∀ op ∈ ops, op.holds w pub ∧ RunnerWrites w op ∧ HintAgrees canon w op) →
      RefS w (ops.foldlM execOpShape (shape s.w)) (ops.foldlM (execOp canon) s) := by
  intro ops
  induction ops with
  | nil => intro s h _; exact ⟨h, rfl⟩
  | cons op ops ih =>
    intro s h hall
    simp only [List.foldlM_cons]
    obtain ⟨h1, h2, h3⟩ := hall op (by simp)
    have := execOp_ref canon s w pub op h h1 h2 h3
    cases hx : execOp canon s op with
    | error e =>
      rw [hx] at this
      rw [this.2]
      exact ⟨this.1, rfl⟩
    | ok s1 =>
      rw [hx] at this
      rw [this.2]
      exact ih s1 this.1 (fun o ho => hall o (by simp [ho]))

theorem postpass_ref (w : Nat → K) (g : Nat → Nat) :
    ∀ (l : List (Nat × Nat)) (t : Array (Option K)), Agree t w → (∀ dc ∈ l, w dc.1 = w (g dc.2)) →
      RefW w
        (l.foldlM (fun t (dc : Nat × Nat) => if getS t (g dc.2) then setS t dc.1 else some t) (shape t))
        (l.foldlM (fun t (dc : Nat × Nat) =>
          match slot t (g dc.2) with
          | some v => setW t dc.1 v
          | none => pure t) t) := by
  intro l
  induction l with
  | nil => intro t h _; exact ⟨h, rfl⟩
  | cons dc rest ih =>
    intro t h hv
    simp only [List.foldlM_cons]
    rw [getS_shape]
    cases hs : slot t (g dc.2) with
    | none =>
      simp only [Option.isSome_none, Bool.false_eq_true, if_false, pure, Except.pure, ok_bind']
      exact ih t h (fun d hd => hv d (by simp [hd]))
    | some v =>
      simp only [Option.isSome_some, if_true]
      have hvw : v = w dc.1 := by rw [h _ v hs, hv dc (by simp)]
      have h1 := setW_ref t w dc.1 v h hvw
      cases hx : setW t dc.1 v with
      | error e =>
        rw [hx] at h1
        rw [h1.2]
        exact ⟨h1.1, rfl⟩
      | ok t1 =>
        rw [hx] at h1
        rw [h1.2]
        simp only [ok_bind']
        exact ih t1 h1.1 (fun d hd => hv d (by simp [hd]))

/-- The final scan: reading every slot succeeds iff every slot is set. -/
theorem mapM_slot_ok_iff (t : Array (Option K)) :
    (∃ vals, (List.range t.size).mapM (fun i => match slot t i with
      | some v => (pure v : Except RunErr K)
      | none => .error (.notSetForIndex i)) = .ok vals) ↔ (shape t).all id = true := by
  have key : ∀ (idx : List Nat),
      (∃ vals, idx.mapM (fun i => match slot t i with
        | some v => (pure v : Except RunErr K)
        | none => .error (.notSetForIndex i)) = .ok vals) ↔ ∀ i ∈ idx, (slot t i).isSome = true := by
    intro idx
    induction idx with
    | nil => simp [List.mapM_nil, pure, Except.pure]
    | cons i rest ih =>
      rw [List.mapM_cons]
      cases hs : slot t i with
      | none =>
        simp only [err_bind']
        constructor
        · rintro ⟨_, h⟩; cases h
        · intro h; have := h i (by simp); simp [hs] at this
      | some v =>
        simp only [pure, Except.pure, ok_bind']
        constructor
        · rintro ⟨vals, h⟩
          cases hr : rest.mapM (fun i => match slot t i with
              | some v => (Except.ok v : Except RunErr K)
              | none => .error (.notSetForIndex i)) with
          | error e => rw [hr] at h; simp only [err_bind'] at h; cases h
          | ok vs =>
            have := ih.mp ⟨vs, hr⟩
            intro j hj
            rcases List.mem_cons.mp hj with rfl | hj'
            · simp [hs]
            · exact this j hj'
        · intro h
          obtain ⟨vs, hvs⟩ := ih.mpr (fun j hj => h j (by simp [hj]))
          simp only [pure, Except.pure] at hvs
          exact ⟨v :: vs, by rw [hvs]; rfl⟩
  rw [key]
  constructor
  · intro h
    rw [Array.all_eq_true]
    intro i hi
    have := h i (List.mem_range.mpr (by simpa [shape] using hi))
    have hg := getS_shape t i
    unfold getS at hg
    simp only [id]
    rw [← this, ← hg]
    simp [Array.getD, hi]
  · intro h i hi
    rw [Array.all_eq_true] at h
    have hi' : i < (shape t).size := by simpa [shape] using List.mem_range.mp hi
    have := h i hi'
    have hg := getS_shape t i
    unfold getS at hg
    simp only [id] at this
    rw [← hg]
    simpa [Array.getD, hi'] using this

/-- **C02 / the run refines its shape.** -/
theorem run_refines_shape (canon : K → Nat) (c : Circuit K) (w0 : Array (Option K))
    (w pub : Nat → K) (h0 : Agree w0 w)
    (hall : ∀ op ∈ c.ops.toList, op.holds w pub ∧ RunnerWrites w op ∧ HintAgrees canon w op)
    (hrw : ∀ dc ∈ c.rewrite, w dc.1 = w (resolve c.rewrite dc.2)) :
    (∃ t, runFrom canon c w0 = .ok t) ↔ runShape c (shape w0) = true := by
  unfold runFrom runShape
  have h1 := execAll_ref canon w pub c.ops.toList { w := w0, recs := #[] } h0 hall
  cases hx : c.ops.toList.foldlM (execOp canon) ({ w := w0, recs := #[] } : RState K) with
  | error e =>
    rw [hx] at h1
    simp only at h1
    rw [h1.2]
    simp only [err_bind']
    constructor
    · rintro ⟨_, h⟩; cases h
    · intro h; cases h
  | ok s =>
    rw [hx] at h1
    simp only at h1
    rw [h1.2]
    simp only [ok_bind']
    have h2 := postpass_ref w (fun d => resolve c.rewrite d) c.rewrite s.w h1.1 hrw
    cases hy : (c.rewrite.foldlM (fun t (dc : Nat × Nat) =>
        match slot t (resolve c.rewrite dc.2) with
        | some v => setW t dc.1 v
        | none => pure t) s.w) with
    | error e =>
      rw [hy] at h2
      rw [h2.2]
      simp only [err_bind']
      constructor
      · rintro ⟨_, h⟩; cases h
      · intro h; cases h
    | ok w3 =>
      rw [hy] at h2
      rw [h2.2]
      simp only [ok_bind']
      rw [← mapM_slot_ok_iff w3]
      constructor
      · rintro ⟨t, ht⟩
        obtain ⟨vals, hv, _⟩ := bind_ok3 ht
        exact ⟨vals, hv⟩
      · rintro ⟨vals, hv⟩
        refine ⟨{ witness := vals.toArray, alu := s.recs }, ?_⟩
        erw [hv]
        rfl

/-- **C02 / second clause.** If the circuit's shape run succeeds for the definedness pattern of the
supplied inputs, the run succeeds on *every* satisfying assignment compatible with those inputs, and
returns that assignment. -/
theorem run_succeeds_on_every_satisfying_input (canon : K → Nat) (c : Circuit K) (w0 : Array (Option K))
    (w pub : Nat → K) (h0 : Agree w0 w)
    (hall : ∀ op ∈ c.ops.toList, op.holds w pub ∧ RunnerWrites w op ∧ HintAgrees canon w op)
    (hrw : ∀ dc ∈ c.rewrite, w dc.1 = w (resolve c.rewrite dc.2))
    (hshape : runShape c (shape w0) = true) :
    ∃ t, runFrom canon c w0 = .ok t ∧ ∀ j, j < t.witness.size → t.witness.getD j 0 = w j := by
  obtain ⟨t, ht⟩ := (run_refines_shape canon c w0 w pub h0 hall hrw).mpr hshape
  refine ⟨t, ht, ?_⟩
  have := run_satisfying_no_value_error canon c w0 w pub h0 hall hrw
  rw [ht] at this
  exact this

end P3R.C02
