//! Shape vector of a (mutated) input, printed as one driver line for the Lean model
//! (`lean/MainC15.lean`, grammar documented there). Only lengths / counts / options / small
//! integers are read — never field values.
use serde_json::Value;

use super::Kind;

/// machine / field constants of the environment the harness runs in
pub const VAL_BITS: usize = 31; // BabyBear::bits()
pub const TWO_ADICITY: usize = 27;
pub const WORD_BITS: usize = 64;
/// an allocation of more targets than this kills the worker under its address-space limit
/// (no allocation size is computed from a prover-supplied integer any more since /repo fc0321f; the
/// constant stays on the driver line, no step of the model reads it)
pub const MAX_ALLOC: usize = 1 << 26;

fn len(v: &Value) -> Option<usize> {
    v.as_array().map(Vec::len)
}
fn opt_len(v: &Value) -> Option<String> {
    if v.is_null() { Some("-".into()) } else { len(v).map(|n| n.to_string()) }
}
fn cap(v: &Value) -> Option<usize> {
    len(v.get("cap")?)
}
fn opt_cap(v: &Value) -> Option<String> {
    if v.is_null() { Some("-".into()) } else { cap(v).map(|n| n.to_string()) }
}
fn list(xs: &[usize]) -> String {
    let mut s = xs.len().to_string();
    for x in xs {
        s.push(' ');
        s.push_str(&x.to_string());
    }
    s
}
fn num(v: &Value) -> Option<u64> {
    v.as_u64()
}

pub fn env_line(air_width: usize, air_prep: usize, log_qd: usize, prep_commit: &Value, params: &Value) -> Option<String> {
    Some(format!(
        "{air_width} {air_prep} {log_qd} 4 {} {} {} {} {} {} {VAL_BITS} {TWO_ADICITY} {WORD_BITS} {MAX_ALLOC}",
        opt_cap(prep_commit)?,
        num(&params["log_blowup"])?,
        num(&params["log_final_poly_len"])?,
        num(&params["commit_pow_bits"])?,
        num(&params["query_pow_bits"])?,
        if params["mmcs"].as_bool()? { 1 } else { 0 },
    ))
}

pub fn fri_line(op: &Value) -> Option<String> {
    let caps: Vec<usize> = op["commit_phase_commits"].as_array()?.iter().map(cap).collect::<Option<_>>()?;
    let mut s = format!("{} {}", list(&caps), len(&op["commit_pow_witnesses"])?);
    let qs = op["query_proofs"].as_array()?;
    s.push_str(&format!(" {}", qs.len()));
    for q in qs {
        let batches = q["input_proof"].as_array()?;
        s.push_str(&format!(" {}", batches.len()));
        for b in batches {
            let rows: Vec<usize> = b["opened_values"].as_array()?.iter().map(len).collect::<Option<_>>()?;
            s.push_str(&format!(" {}", list(&rows)));
        }
        let steps: Vec<usize> = q["commit_phase_openings"].as_array()?.iter().map(|o| num(&o["log_arity"]).map(|x| x as usize)).collect::<Option<_>>()?;
        s.push_str(&format!(" {}", list(&steps)));
        // sibling count of every opening: since fc0321f the targets are allocated from it and
        // `verify_fri_circuit` compares it with `2^log_arity - 1`
        let sibs: Vec<usize> = q["commit_phase_openings"].as_array()?.iter().map(|o| len(&o["sibling_values"])).collect::<Option<_>>()?;
        s.push_str(&format!(" {}", list(&sibs)));
    }
    s.push_str(&format!(" {}", len(&op["final_poly"])?));
    Some(s)
}

fn uni_line(name: &str, air_width: usize, air_prep: usize, log_qd: usize, input: &Value) -> Option<String> {
    let p = &input["proof"];
    let ov = &p["opened_values"];
    let chunks: Vec<usize> = ov["quotient_chunks"].as_array()?.iter().map(len).collect::<Option<_>>()?;
    let trace_next = if ov["trace_next"].is_null() { 0 } else { len(&ov["trace_next"])? };
    Some(format!(
        "uni {name} {} {} {} {} {} {} {} {} {} {} {} {}",
        env_line(air_width, air_prep, log_qd, &input["prep_commit"], &input["params"])?,
        cap(&p["commitments"]["trace"])?,
        cap(&p["commitments"]["quotient_chunks"])?,
        opt_cap(&p["commitments"]["random"])?,
        len(&ov["trace_local"])?,
        trace_next,
        opt_len(&ov["preprocessed_local"])?,
        opt_len(&ov["preprocessed_next"])?,
        list(&chunks),
        opt_len(&ov["random"])?,
        num(&p["degree_bits"])?,
        fri_line(&p["opening_proof"])?,
    ))
}

pub fn shape_line(kind: Kind, cap_height: usize, input: &Value) -> Option<String> {
    match kind {
        // FibonacciAir: width 2, no preprocessed columns, 1 quotient chunk
        Kind::UniFib => uni_line(if cap_height == 0 { "uni-fib" } else { "uni-fib-cap1" }, 2, 0, 0, input),
        // MulAir (this harness): width REPETITIONS, preprocessed width 2*REPETITIONS
        Kind::UniMul => uni_line("uni-mul", super::REPETITIONS, 2 * super::REPETITIONS, 1, input),
        Kind::Batch | Kind::GBatch => None,
    }
}
