/-
L6b — the ALU table's Horner schedule and the scheduled preprocessed matrix.
Mirrors `circuit-prover/src/air/alu_air.rs`: `compute_schedule` (chains of consecutive HornerAcc
ops on lane 0, greedy packing of up to `pack_k` steps that share `b` and whose intermediate
outputs are bus-silent, separators before every chain, non-chain ops filling the other lanes)
and `build_scheduled_preprocessed_trace` (per entry: the op's 13 preprocessed lane columns; for a
packed row the last step's `out` lookup, the summed `b` multiplicity, the arity selector and the
per-step `(a, c)` lookups in the extra columns).

An op's preprocessed lane columns are a list of 13 values in the order of `AluPrepLaneCols`:
0 mult_a, 1 sel_add, 2 sel_bool, 3 sel_mul_add, 4 sel_horner, 5 a_idx, 6 b_idx, 7 c_idx,
8 out_idx, 9 mult_b, 10 mult_out, 11 a_reader, 12 c_reader.
-/
import P3R.Model.AluAir

namespace P3R

inductive SchedEntry where
  | op (i : Nat)
  | packed (first k : Nat)
  | sep
deriving Repr, DecidableEq

section
variable {K : Type} [Zero K] [One K] [Add K] [Mul K] [DecidableEq K]

def prepOf (preps : List (List K)) (i : Nat) : List K := preps.getD i []

def isHorner (preps : List (List K)) (i : Nat) : Bool := vget (prepOf preps i) 4 == (1 : K)

/-- Maximal runs of consecutive HornerAcc ops as `(start, length)`, and the other ops, in order.
State: finished chains, current run, non-chain ops. -/
def splitChains (preps : List (List K)) : List (Nat × Nat) × List Nat :=
  let st := (List.range preps.length).foldl
    (fun (acc : List (Nat × Nat) × Option (Nat × Nat) × List Nat) i =>
      let (chains, cur, nonChain) := acc
      if isHorner preps i then
        match cur with
        | some (s, l) => (chains, some (s, l + 1), nonChain)
        | none => (chains, some (i, 1), nonChain)
      else
        match cur with
        | some c => (chains ++ [c], none, nonChain ++ [i])
        | none => (chains, none, nonChain ++ [i]))
    ([], none, [])
  match st.2.1 with
  | some c => (st.1 ++ [c], st.2.2)
  | none => (st.1, st.2.2)

structure SchedState where
  sched : List SchedEntry
  nc : Nat

/-- `fill_row`: complete the current row with non-chain ops, then separators. -/
def fillRow (lanes : Nat) (nonChain : List Nat) : Nat → SchedState → SchedState
  | 0, s => s
  | fuel + 1, s =>
    if s.sched.length % lanes != 0 then
      match nonChain[s.nc]? with
      | some i => fillRow lanes nonChain fuel { sched := s.sched ++ [.op i], nc := s.nc + 1 }
      | none => fillRow lanes nonChain fuel { s with sched := s.sched ++ [.sep] }
    else s

def shareB (preps : List (List K)) (start k : Nat) : Bool :=
  (List.range k).all fun t => vget (prepOf preps (start + t)) 6 == vget (prepOf preps start) 6

def outsSilent (preps : List (List K)) (start k : Nat) : Bool :=
  (List.range k).all fun t => vget (prepOf preps (start + t)) 10 == (0 : K)

/-- Largest `k` in `2..=kTry` whose window may be packed, else 1. -/
def bestK (preps : List (List K)) (start kTry : Nat) : Nat :=
  match ((List.range (kTry + 1)).reverse.filter (· ≥ 2)).find?
      (fun k => shareB preps start k && outsSilent preps start (k - 1)) with
  | some k => k
  | none => 1

/-- The `while i < chain.len()` loop for one chain `(start, len)`, from offset `i`. -/
def placeChain (preps : List (List K)) (lanes packK : Nat) (nonChain : List Nat) (start len : Nat) :
    Nat → Nat → SchedState → SchedState
  | 0, _, s => s
  | fuel + 1, i, s =>
    if i < len then
      let kTry := min (len - i) packK
      let k := bestK preps (start + i) kTry
      let s1 : SchedState :=
        if k ≥ 2 then { s with sched := s.sched ++ [.packed (start + i) k] }
        else { s with sched := s.sched ++ [.op (start + i)] }
      placeChain preps lanes packK nonChain start len fuel (i + (if k ≥ 2 then k else 1))
        (fillRow lanes nonChain lanes s1)
    else s

/-- `AluAir::compute_schedule`. -/
def computeSchedule (preps : List (List K)) (lanes packK : Nat) : Option (List SchedEntry) :=
  if preps.length == 0 then none else
  if !((List.range preps.length).any (isHorner preps)) then none else
  let (chains, nonChain) := splitChains preps
  let fr := fillRow lanes nonChain lanes
  let s0 := fr { sched := [.sep], nc := 0 }
  let s1 := (chains.zipIdx).foldl (fun s (c : (Nat × Nat) × Nat) =>
      let s := if c.2 > 0 then
          let s := fr s
          fr { s with sched := s.sched ++ [.sep] }
        else s
      placeChain preps lanes packK nonChain c.1.1 c.1.2 c.1.2 0 s) s0
  let s2 := fr s1
  let rest := (nonChain.drop s2.nc).map SchedEntry.op
  let s3 := fr { sched := s2.sched ++ rest, nc := nonChain.length }
  some s3.sched

def setAt (l : List K) (i : Nat) (v : K) : List K := l.set i v

def natK : Nat → K
  | 0 => 0
  | n + 1 => natK n + 1

/-- Lane columns and extra columns contributed by one scheduled entry (extra: only lane 0, packed). -/
def entryCols (preps : List (List K)) (kmax : Nat) (lane : Nat) : SchedEntry → List K × List K
  | .sep => (List.replicate prepLaneWidth 0, List.replicate (extraPrepWidth kmax) 0)
  | .op i => ((prepOf preps i ++ List.replicate prepLaneWidth 0).take prepLaneWidth,
              List.replicate (extraPrepWidth kmax) 0)
  | .packed first k =>
    if lane != 0 then (List.replicate prepLaneWidth 0, List.replicate (extraPrepWidth kmax) 0) else
    let src0 := (prepOf preps first ++ List.replicate prepLaneWidth 0).take prepLaneWidth
    let last := prepOf preps (first + k - 1)
    let multB := (List.range k).foldl (fun acc t => acc + vget (prepOf preps (first + t)) 9) (0 : K)
    let laneCols := setAt (setAt (setAt src0 8 (vget last 8)) 10 (vget last 10)) 9 multB
    let multA := vget src0 0
    let extra0 := setAt (List.replicate (extraPrepWidth kmax) (0 : K)) (selKIdx k) 1
    let extra := (List.range (k - 1)).foldl (fun ex t0 =>
        let t := t0 + 1
        let src := prepOf preps (first + t)
        let p := stepIdx t kmax
        let ex := setAt ex p (vget src 5)
        let ex := setAt ex (p + 1) (vget src 7)
        let ex := setAt ex (p + 2) (vget src 11)
        let ex := setAt ex (p + 3) (vget src 12)
        let ex := setAt ex (p + 4) (multA * vget src 11)
        setAt ex (p + 5) (multA * vget src 12)) extra0
    (laneCols, extra)

/-- Rows of `build_scheduled_preprocessed_trace` before padding. -/
def scheduledPrepRows (preps : List (List K)) (lanes kmax : Nat) (sched : List SchedEntry) : List (List K) :=
  let rowCount := (sched.length + lanes - 1) / lanes
  (List.range rowCount).map fun r =>
    let cells := (List.range lanes).map fun lane =>
      match sched[r * lanes + lane]? with
      | some e => entryCols preps kmax lane e
      | none => (List.replicate prepLaneWidth 0, List.replicate (extraPrepWidth kmax) 0)
    let extra := match cells.head? with
      | some c => c.2
      | none => List.replicate (extraPrepWidth kmax) 0
    cells.flatMap (·.1) ++ extra

/-- The four interactions of one (unscheduled) op row. -/
def opInters (p : List K) : List (K × K) :=
  [(vget p 5, vget p 0 * vget p 11), (vget p 6, vget p 9), (vget p 7, vget p 0 * vget p 12),
   (vget p 8, vget p 10)]

/-- Interactions contributed by one scheduled entry. -/
def entryInters (preps : List (List K)) : SchedEntry → List (K × K)
  | .sep => []
  | .op i => opInters (prepOf preps i)
  | .packed f k =>
    let p0 := prepOf preps f
    let pl := prepOf preps (f + k - 1)
    [(vget p0 5, vget p0 0 * vget p0 11),
     (vget p0 6, ((List.range k).map fun t => vget (prepOf preps (f + t)) 9).sum),
     (vget p0 7, vget p0 0 * vget p0 12),
     (vget pl 8, vget pl 10)] ++
    (List.range (k - 1)).flatMap fun t0 =>
      let p := prepOf preps (f + (t0 + 1))
      [(vget p 5, vget p0 0 * vget p 11), (vget p 7, vget p0 0 * vget p 12)]

/-- Ops covered by an entry. -/
def entryOps : SchedEntry → List Nat
  | .sep => []
  | .op i => [i]
  | .packed f k => (List.range k).map (f + ·)


/-- `(index, multiplicity)` of every interaction of a scheduled preprocessed row, as the ALU table
declares them (`aluInteractions`, values dropped). -/
def rowIdxMults (lanes kmax : Nat) (pl : List K) : List (K × K) :=
  (aluInteractions 1 lanes kmax ([] : List K) pl).map fun im => (im.1.headD 0, im.2)

end

end P3R
