//! Poseidon1 circuit table configurations for the C11 control-part correspondence (see c11p.rs): the same
//! `Table` view over `Poseidon1CircuitAir` (arity 2 only; generic and compact `D = 1` layouts).

use std::borrow::Borrow;
use std::panic::{AssertUnwindSafe, catch_unwind};

use p3_air::{Air, BaseAir, RowWindow};
use p3_baby_bear::BabyBear;
use p3_field::{PrimeCharacteristicRing, PrimeField64};
use p3_koala_bear::KoalaBear;
use p3_matrix::Matrix;
use p3_poseidon1_air::{FullRoundConstants, PartialRoundConstants, Poseidon1Air, Poseidon1Cols};
use p3_poseidon1_circuit_air::{Poseidon1CircuitAir, Poseidon1CircuitCols, Poseidon1CircuitRow, extract_preprocessed_from_operations};

use super::{Cols, Evald, Layout, OpRow, Table, VB, filler, fv, uv};

struct P1<F: PrimeCharacteristicRing, const D: usize, const WIDTH: usize, const WE: usize, const RE: usize, const CE: usize, const SD: u64, const SR: usize, const HFR: usize, const PR: usize, const WD: usize> {
    field: &'static str,
    full: FullRoundConstants<F, WIDTH>,
    partial: PartialRoundConstants<F, WIDTH>,
}

fn conv_op<F: PrimeField64>(o: &OpRow) -> Poseidon1CircuitRow<F> {
    Poseidon1CircuitRow {
        new_start: o.new_start,
        merkle_path: o.merkle,
        mmcs_bit: o.bit,
        mmcs_index_sum: F::from_u64(o.sum),
        input_values: fv(&o.input),
        in_ctl: o.in_ctl.clone(),
        input_indices: o.in_idx.clone(),
        out_ctl: o.out_ctl.clone(),
        output_indices: o.out_idx.clone(),
        mmcs_index_sum_idx: o.sum_idx,
        mmcs_ctl_enabled: o.sum_ctl,
    }
}

impl<F: PrimeField64, const D: usize, const WIDTH: usize, const WE: usize, const RE: usize, const CE: usize, const SD: u64, const SR: usize, const HFR: usize, const PR: usize, const WD: usize>
    P1<F, D, WIDTH, WE, RE, CE, SD, SR, HFR, PR, WD>
{
    fn air(&self, prep: Vec<F>, min_h: usize) -> Poseidon1CircuitAir<F, D, WIDTH, WE, RE, CE, SD, SR, HFR, PR, WD> {
        Poseidon1CircuitAir::new_with_preprocessed(self.full.clone(), self.partial.clone(), prep).with_min_height(min_h)
    }
}

impl<F: PrimeField64, const D: usize, const WIDTH: usize, const WE: usize, const RE: usize, const CE: usize, const SD: u64, const SR: usize, const HFR: usize, const PR: usize, const WD: usize> Table
    for P1<F, D, WIDTH, WE, RE, CE, SD, SR, HFR, PR, WD>
{
    fn layout(&self) -> Layout {
        Layout { variant: "p1", field: self.field, modulus: F::ORDER_U64, d: D, we: WE, re: RE, ce: CE, wd: WD }
    }
    fn main_width(&self) -> usize {
        BaseAir::<F>::width(&self.air(vec![], 1))
    }
    fn prep_width(&self) -> usize {
        Poseidon1CircuitAir::<F, D, WIDTH, WE, RE, CE, SD, SR, HFR, PR, WD>::preprocessed_width()
    }
    fn cols(&self) -> Cols {
        let n = self.main_width();
        let idx: Vec<usize> = (0..n).collect();
        let perm_cols = p3_poseidon1_air::num_cols::<WIDTH, SD, SR, HFR, PR>();
        let c: &Poseidon1CircuitCols<usize, Poseidon1Cols<usize, WIDTH, SD, SR, HFR, PR>> = idx[..].borrow();
        Cols { inputs: c.perm.inputs.to_vec(), outputs: c.perm.ending_full_rounds[HFR - 1].post.to_vec(), bit: c.mmcs_bit, extra: vec![], sum: c.mmcs_index_sum, perm_cols }
    }
    fn eval(&self, tr: u64, ml: &[u64], mn: &[u64], pl: &[u64], pn: &[u64]) -> Option<Evald> {
        let (ml, mn, pl, pn): (Vec<F>, Vec<F>, Vec<F>, Vec<F>) = (fv(ml), fv(mn), fv(pl), fv(pn));
        let air = self.air(vec![], 1);
        let run = || {
            let mut b = VB { main: RowWindow::from_two_rows(&ml, &mn), prep: RowWindow::from_two_rows(&pl, &pn), tr: F::from_u64(tr), cons: vec![], inter: vec![] };
            air.eval(&mut b);
            (uv(&b.cons), b.inter.iter().map(|(f, m)| (uv(f), m.as_canonical_u64())).collect::<Vec<_>>())
        };
        catch_unwind(AssertUnwindSafe(run)).ok()
    }
    fn eval_inner(&self, tr: u64, ml: &[u64], mn: &[u64]) -> Option<Vec<u64>> {
        let pc = p3_poseidon1_air::num_cols::<WIDTH, SD, SR, HFR, PR>();
        let (ml, mn): (Vec<F>, Vec<F>) = (fv(&ml[..pc]), fv(&mn[..pc]));
        let inner: Poseidon1Air<F, WIDTH, SD, SR, HFR, PR> = Poseidon1Air::new(self.full.clone(), self.partial.clone());
        let e: Vec<F> = vec![];
        let run = || {
            let mut b = VB { main: RowWindow::from_two_rows(&ml, &mn), prep: RowWindow::from_two_rows(&e, &e), tr: F::from_u64(tr), cons: vec![], inter: vec![] };
            inner.eval(&mut b);
            uv(&b.cons)
        };
        catch_unwind(AssertUnwindSafe(run)).ok()
    }
    fn build(&self, ops: &[OpRow], min_h: usize) -> Option<(Vec<Vec<u64>>, Vec<Vec<u64>>)> {
        let run = || {
            let rows: Vec<Poseidon1CircuitRow<F>> = ops.iter().map(conv_op::<F>).collect();
            let prep = extract_preprocessed_from_operations::<WE, RE, F, F>(&rows, WD as u32, D);
            let air = self.air(prep, min_h);
            let pm = air.preprocessed_trace().unwrap();
            let h = pm.height();
            let mut padded = rows;
            padded.resize(h, conv_op::<F>(&filler(&self.layout())));
            let mm = air.generate_trace_rows(&padded, &self.full, &self.partial, 0);
            let main: Vec<Vec<u64>> = (0..h).map(|r| uv(&mm.row_slice(r).unwrap())).collect();
            let prep: Vec<Vec<u64>> = (0..h).map(|r| uv(&pm.row_slice(r).unwrap())).collect();
            (main, prep)
        };
        catch_unwind(AssertUnwindSafe(run)).ok()
    }
    fn perm(&self, input: &[u64]) -> Vec<u64> {
        let mut o = filler(&self.layout());
        o.input = input.to_vec();
        let air = self.air(vec![], 1);
        let mm = air.generate_trace_rows(&[conv_op::<F>(&o)], &self.full, &self.partial, 0);
        let row = uv::<F>(&mm.row_slice(0).unwrap());
        let c = self.cols();
        c.outputs.iter().map(|i| row[*i]).collect()
    }
    fn refill(&self, row: &mut [u64]) {
        let c = self.cols();
        let mut o = filler(&self.layout());
        o.input = c.inputs.iter().map(|i| row[*i]).collect();
        let air = self.air(vec![], 1);
        let mm = air.generate_trace_rows(&[conv_op::<F>(&o)], &self.full, &self.partial, 0);
        let fresh = uv::<F>(&mm.row_slice(0).unwrap());
        row[..c.perm_cols].copy_from_slice(&fresh[..c.perm_cols]);
    }
}

macro_rules! p1 {
    ($field:expr, $F:ty, $P:ty, $wd:expr) => {{
        use p3_poseidon1_circuit_air::Poseidon1Params as PP;
        let (full, partial) = <$P>::round_constants();
        Box::new(P1::<$F, { <$P as PP>::D }, { <$P as PP>::WIDTH }, { <$P as PP>::WIDTH_EXT }, { <$P as PP>::RATE_EXT }, { <$P as PP>::CAPACITY_EXT }, { <$P as PP>::SBOX_DEGREE }, { <$P as PP>::SBOX_REGISTERS }, { <$P as PP>::HALF_FULL_ROUNDS }, { <$P as PP>::PARTIAL_ROUNDS }, $wd> {
            field: $field,
            full,
            partial,
        }) as Box<dyn Table>
    }};
}

pub fn tables() -> Vec<Box<dyn Table>> {
    use p3_poseidon1_circuit_air as pa;
    vec![
        p1!("bb", BabyBear, pa::BabyBearD4Width16, 4),
        p1!("bb", BabyBear, pa::BabyBearD1Width16, 1),
        p1!("kb", KoalaBear, pa::KoalaBearD1Width16, 5),
        p1!("kb", KoalaBear, pa::KoalaBearD4Width24, 4),
    ]
}
