"""Per-property configuration for bin/check: Lean modules and theorem names, harness runs,
how harness reports are turned into violations and coverage."""
import json, os, itertools

COMMON_TRUSTED = [
    "Lean 4.33 kernel; axioms limited to propext, Classical.choice, Quot.sound (audited per theorem by #print axioms)",
    "hand-written models in lean/P3R/Model (tied to the Rust by the correspondence run of this check)",
    "the Rust harness (harness/) and bin/check: generators, canonicalisation, diffing",
]


def read_lines(p):
    with open(p) as fh:
        return [l.rstrip() for l in fh]


def split_blocks(lines, start="prog "):
    blocks, cur = [], []
    for l in lines:
        if l.startswith(start) and cur:
            blocks.append(cur); cur = []
        cur.append(l)
    if cur:
        blocks.append(cur)
    return blocks


def run_driver(ctx, cases, model_out):
    with open(cases) as fin:
        rc, out = ctx["sh"]([ctx["driver"]], stdin=fin, timeout=3600)
    with open(model_out, "w") as fh:
        fh.write(out)
    return rc


def diff_blocks(impl_path, model_path, cases_path, start="prog "):
    """Compare implementation and model streams block by block; return list of
    (block_index, first differing line pair, case block)."""
    ib = split_blocks(read_lines(impl_path), start)
    mb = split_blocks(read_lines(model_path), start)
    cb = split_blocks(read_lines(cases_path), start)
    diffs = []
    for k in range(max(len(ib), len(mb))):
        a = ib[k] if k < len(ib) else []
        b = mb[k] if k < len(mb) else []
        if a != b:
            first = next(((x, y) for x, y in itertools.zip_longest(a, b) if x != y), None)
            diffs.append((k, first, cb[k] if k < len(cb) else []))
    return diffs, len(ib)


# ---------------------------------------------------------------- C02 / C03 (compile pipeline)

def compile_run(ctx, want):
    """Shared by C02, C03: generated builder programs through the real compiler and runner,
    the Lean model of L1–L4 on the same programs, the two implementation oracles."""
    tier, seed, work = ctx["tier"], ctx["seed"], ctx["work"]
    if ctx.get("replay"):
        rp = json.load(open(ctx["replay"]))
        os.makedirs(f"{work}/replay_corpus", exist_ok=True)
        json.dump(rp.get("replay", rp), open(f"{work}/replay_corpus/r.json", "w"))
        runs = [dict(programs=0, max_calls=10, inputs=4, corpus=f"{work}/replay_corpus")]
    elif tier == "quick":
        runs = [dict(programs=6000, max_calls=30, inputs=4, corpus=f"{ctx['root']}/corpus/compile"),
                dict(programs=600, max_calls=150, inputs=4, corpus=None)]
    else:
        runs = [dict(programs=150000, max_calls=30, inputs=6, corpus=f"{ctx['root']}/corpus/compile"),
                dict(programs=20000, max_calls=150, inputs=6, corpus=None),
                dict(programs=1500, max_calls=600, inputs=4, corpus=None)]
    violations, hist, samples = [], {}, []
    programs = runs_n = distinct = disagreements = blocks = 0
    for n, r in enumerate(runs):
        out = f"{work}/run{n}"
        cmd = [ctx["harness"], "compile", "--seed", str(seed + 1000 * n), "--programs", str(r["programs"]),
               "--max-calls", str(r["max_calls"]), "--inputs", str(r["inputs"]), "--out", out]
        if r["corpus"]:
            cmd += ["--corpus", r["corpus"]]
        rc, o = ctx["sh"](cmd, timeout=7200)
        if rc != 0:
            violations.append({"class": "harness-crash", "what": f"harness compile exited {rc}: {o[-300:]}",
                               "replay": {"cmd": cmd}, "no_input": True})
            continue
        rep = json.load(open(f"{out}/compile.report.json"))
        programs += rep["programs"]; runs_n += rep["runs"]; distinct += rep["distinct_programs"]
        for k, v in rep["hist"].items():
            hist[k] = hist.get(k, 0) + v
        samples += rep["samples"][:2]
        for v in rep["violations"]:
            if v["property"] != want:
                continue
            violations.append({"class": v["kind"] + (":" + v["class"] if "class" in v else ""),
                               "what": f"{v['kind']} " + json.dumps({k: v[k] for k in v if k not in ('replay', 'property', 'kind')})[:200],
                               "replay": v.get("replay", v)})
        run_driver(ctx, f"{out}/compile.cases", f"{out}/compile.model.full")
        # `shape ok|no`: the model's value-free shape run. Not part of the line diff (the implementation has no such
        # notion); cross-examined instead: by theorem run_succeeds_on_every_satisfying_input a `shape ok` circuit never
        # fails structurally, and a `shape no` circuit fails on every input.
        STRUCT = ("WitnessNotSet", "PublicInputNotSet", "NonPrimitiveOpMissing", "WitnessIdOutOfBounds")
        mb = split_blocks(read_lines(f"{out}/compile.model.full"), "prog ")
        ib = split_blocks(read_lines(f"{out}/compile.impl"), "prog ")
        cbk = split_blocks(read_lines(f"{out}/compile.cases"), "prog ")
        shape_stats = {"ok": 0, "no": 0, "n/a": 0}
        for k, blk in enumerate(mb):
            sh = next((l.split(" ", 1)[1] for l in blk if l.startswith("shape ")), None)
            if sh is None:
                continue
            shape_stats[sh] = shape_stats.get(sh, 0) + 1
            runs_k = [l for l in (ib[k] if k < len(ib) else []) if l.startswith("run ")]
            bad = None
            if sh == "ok" and any(l.startswith("run err") and l.split()[2].startswith(STRUCT) for l in runs_k):
                bad = "shape ok but the real runner fails structurally"
            if sh == "no" and any(l.startswith("run ok") for l in runs_k):
                bad = "shape no but the real runner succeeds"
            if bad and want == "C02":
                violations.append({"class": "model-disagreement",
                                   "what": f"correspondence runShape (Model/RunnerShape) vs CircuitRunner::run no longer checks: {bad}",
                                   "replay": {"correspondence": "shape run vs real run", "case_block": cbk[k] if k < len(cbk) else []},
                                   "no_input": True})
        for kk, vv in shape_stats.items():
            hist[f"shape.{kk}"] = hist.get(f"shape.{kk}", 0) + vv
        # `fcheck <report> hyp=<0|1> lhyp=<0|1>`: the extra tokens say whether the hypothesis `fuseInputOk` of the
        # total theorem P3R.C03.fuse_passes_check holds on the input of the fusion pass (hyp) and on the lowering's
        # output (lhyp). They are counted, cross-examined with the report and stripped before the line diff.
        fstat = {"hyp": 0, "hyp_no": 0, "lhyp": 0, "lhyp_no": 0, "hyp_and_ok": 0, "sites_under_hyp": 0}
        with open(f"{out}/compile.model", "w") as fh:
            k = -1
            for l in read_lines(f"{out}/compile.model.full"):
                if l.startswith("prog "):
                    k += 1
                if l.startswith("fcheck ") and " hyp=" in l:
                    toks = l.split()
                    extra = dict(t.split("=", 1) for t in toks if t.startswith(("hyp=", "lhyp=")))
                    l = " ".join(t for t in toks if not t.startswith(("hyp=", "lhyp=")))
                    hyp, lhyp = extra.get("hyp") == "1", extra.get("lhyp") == "1"
                    fstat["hyp" if hyp else "hyp_no"] += 1
                    fstat["lhyp" if lhyp else "lhyp_no"] += 1
                    okrep = l.startswith("fcheck ok ")
                    if hyp and okrep:
                        fstat["hyp_and_ok"] += 1
                        fstat["sites_under_hyp"] += int(l.split()[2])
                    bad = None
                    if hyp and not okrep:
                        bad = "fuseInputOk holds but the certificate check fails (contradicts theorem fuse_passes_check)"
                    elif not hyp or not lhyp:
                        bad = ("the real compiler produced an op list outside the hypothesis fuseInputOk of fuse_passes_check "
                               "(a plain Add/Mul with an intermediate_out) - the total theorem does not cover it")
                    if bad:
                        fstat["flagged"] = fstat.get("flagged", 0) + 1
                    if bad and want == "C03" and fstat["flagged"] <= 3:
                        violations.append({"class": "fusion-hypothesis",
                                           "what": f"{bad}: {l!r}",
                                           "replay": {"correspondence": "fuseInputOk (Model/FusionCheck) on the compiled program",
                                                      "case_block": cbk[k] if 0 <= k < len(cbk) else []},
                                           "no_input": True})
                fh.write(("shape ?" if l.startswith("shape ") else l) + "\n")
        for kk, vv in fstat.items():
            hist[f"fusion.{kk}"] = hist.get(f"fusion.{kk}", 0) + vv
        diffs, nb = diff_blocks(f"{out}/compile.impl", f"{out}/compile.model", f"{out}/compile.cases")
        blocks += nb
        disagreements += len(diffs)
        for (k, first, case) in diffs[:3]:
            violations.append({"class": "model-disagreement",
                               "what": f"correspondence compile-model (L1-L4) no longer checks: impl={first[0]!r} model={first[1]!r}",
                               "replay": {"correspondence": "compile (builder/lowerer/optimizer/runner) vs lean/P3R/Model",
                                          "case_block": case, "first_difference": first},
                               "no_input": True})
    # a model disagreement is reported as no-failing-input-found only if no oracle failed
    cov = {"evaluations": runs_n, "programs": programs, "distinct_nontrivial": distinct,
           "rule": "random builder programs (aliasing-biased grammar, see harness/src/prog.rs) x input vectors "
                   "(base satisfying vector + single-input perturbations); distinct = distinct program texts; "
                   "every program has >=1 call and is compiled, run and compared line-by-line with the Lean model",
           "samples": samples[:3], "input_distribution": hist,
           "traces_validated_against_impl": blocks, "disagreements_checked": disagreements}
    return violations, cov


def roles_run(ctx):
    """C09: role / multiplicity columns of generated programs, real vs model, + balance oracle."""
    tier, seed, work = ctx["tier"], ctx["seed"], ctx["work"]
    import c09n
    npo_replay = None
    if ctx.get("replay"):
        rp = json.load(open(ctx["replay"]))
        rp = rp.get("replay", rp)
        if "npo_program" in rp:
            npo_replay = rp   # a circuit with non-primitive ops: replayed through the bus audit only
            runs = []
        else:
            os.makedirs(f"{work}/replay_corpus", exist_ok=True)
            json.dump(rp, open(f"{work}/replay_corpus/r.json", "w"))
            runs = [dict(programs=0, max_calls=10, corpus=f"{work}/replay_corpus")]
    elif tier == "quick":
        runs = [dict(programs=5000, max_calls=30, corpus=f"{ctx['root']}/corpus/compile"),
                dict(programs=400, max_calls=150, corpus=f"{ctx['root']}/corpus/roles")]
    else:
        runs = [dict(programs=100000, max_calls=30, corpus=f"{ctx['root']}/corpus/compile"),
                dict(programs=10000, max_calls=150, corpus=f"{ctx['root']}/corpus/roles"),
                dict(programs=1000, max_calls=500, corpus=None)]
    violations, hist, samples = [], {}, []
    defuse = {}
    programs = distinct = disagreements = blocks = 0
    for n, r in enumerate(runs):
        out = f"{work}/run{n}"
        cmd = [ctx["harness"], "roles", "--seed", str(seed + 1000 * n), "--programs", str(r["programs"]),
               "--max-calls", str(r["max_calls"]), "--out", out]
        if r["corpus"]:
            cmd += ["--corpus", r["corpus"]]
        rc, o = ctx["sh"](cmd, timeout=7200)
        if rc != 0:
            violations.append({"class": "harness-crash", "what": f"harness roles exited {rc}: {o[-300:]}",
                               "replay": {"cmd": cmd}, "no_input": True})
            continue
        rep = json.load(open(f"{out}/roles.report.json"))
        programs += rep["programs"]; distinct += rep["distinct_programs"]
        for k, v in rep["hist"].items():
            hist[k] = hist.get(k, 0) + v
        samples += rep["samples"][:1]
        for v in rep["violations"]:
            violations.append({"class": v["class"], "what": f"{v['kind']} {json.dumps(v.get('detail', {}))[:200]}",
                               "replay": v["replay"]})
        run_driver(ctx, f"{out}/roles.cases", f"{out}/roles.model.full")
        keep = ("prog ", "prep", "pc ", "pp ", "pa ", "reads ", "cmult ", "pmult ", "net ")
        with open(f"{out}/roles.model", "w") as fh:
            for l in read_lines(f"{out}/roles.model.full"):
                if l.startswith(keep) or l in ("pc", "pp", "cmult", "pmult", "reads", "net", "build err"):
                    fh.write(l + "\n")
        # def-before-use certificate (lean/P3R/Model/DefUse.lean; P3R.C09T.compiled_bus_balanced_of_defuse): evaluated by
        # the driver on the compiled circuit (c=) and on the two earlier stages (l= lowering output, d= de-duplicated list)
        cur_ok, cur_net = False, None
        for l in read_lines(f"{out}/roles.model.full"):
            if l.startswith("prog "):
                cur_ok, cur_net = False, None
            elif l == "prep ok":
                cur_ok = True
            elif l.startswith("net"):
                cur_net = l.split()[1:]
            elif l.startswith("defuse "):
                kv = dict(t.split("=") for t in l.split()[1:])
                for k, v in kv.items():
                    defuse[f"{k}={v}"] = defuse.get(f"{k}={v}", 0) + 1
                # P3R.C09C.lower_defuse: guarded builder state (g=1, p=1; generated programs are Reachable, hence Ok) => l=1
                if kv.get("g") == "1" and kv.get("p") == "1" and kv.get("l") == "0":
                    violations.append({"class": "model-disagreement",
                                       "what": "hintsGuarded and privOk hold but the lowered list is not certified "
                                               "(contradicts P3R.C09C.lower_defuse)",
                                       "replay": {"correspondence": "driver defuse line"}, "no_input": True})
                gk = f"guarded={kv.get('g')}.privOk={kv.get('p')}.optKeeps={kv.get('k')}.cert={kv.get('c')}"
                defuse[gk] = defuse.get(gk, 0) + 1
                # P3R.C09O.lower_dedup_defuse (total): g=1, p=1, a=1 (operandsGuarded) => d=1; with f=1 (fuseKeeps) => c=1
                # (P3R.C09O.compile_defuse_of_fuseKeeps); t = noTableOutputsUsed is tallied next to them
                if kv.get("g") == "1" and kv.get("p") == "1" and kv.get("a") == "1" and kv.get("d") == "0":
                    violations.append({"class": "model-disagreement",
                                       "what": "hintsGuarded, privOk and operandsGuarded hold but the de-duplicated list is not certified "
                                               "(contradicts P3R.C09O.lower_dedup_defuse)",
                                       "replay": {"correspondence": "driver defuse line"}, "no_input": True})
                if all(kv.get(x) == "1" for x in ("g", "p", "a", "f")) and kv.get("c") == "0":
                    violations.append({"class": "model-disagreement",
                                       "what": "all hypotheses of P3R.C09O.compile_defuse_of_fuseKeeps hold but the compiled circuit is not certified",
                                       "replay": {"correspondence": "driver defuse line"}, "no_input": True})
                # P3R.C09F.fuseKeeps_total / compile_defuse (total): g=1, p=1, a=1 => f=1 and c=1
                if all(kv.get(x) == "1" for x in ("g", "p", "a")) and (kv.get("f") == "0" or kv.get("c") == "0"):
                    violations.append({"class": "model-disagreement",
                                       "what": "hintsGuarded, privOk and operandsGuarded hold but fuseKeeps / the certificate of the compiled "
                                               f"circuit fails (f={kv.get('f')} c={kv.get('c')}; contradicts P3R.C09F.fuseKeeps_total / compile_defuse)",
                                       "replay": {"correspondence": "driver defuse line"}, "no_input": True})
                ok_ = f"opt.guarded={kv.get('g')}.privOk={kv.get('p')}.operandsGuarded={kv.get('a')}.noTableOutputsUsed={kv.get('t')}.fuseKeeps={kv.get('f')}.cert={kv.get('c')}"
                defuse[ok_] = defuse.get(ok_, 0) + 1
                # P3R.C09R.ReachablePrim.guarded / .privOk (total): r=1 (every id argument of every builder call was an id the
                # builder had handed out; the command vocabulary of the program text is the ReachablePrim API) => g=1, p=1, a=1,
                # and then c=1 (P3R.C09R.compile_defuse_reachable)
                rk = f"reach.prim={kv.get('r')}.guarded={kv.get('g')}.privOk={kv.get('p')}.operandsGuarded={kv.get('a')}.cert={kv.get('c')}"
                defuse[rk] = defuse.get(rk, 0) + 1
                if kv.get("r") == "1" and any(kv.get(x) == "0" for x in ("g", "p", "a", "c", "t")):
                    violations.append({"class": "model-disagreement",
                                       "what": "program is ReachablePrim (r=1) but a builder-side guard or the certificate fails "
                                               f"(g={kv.get('g')} p={kv.get('p')} a={kv.get('a')} c={kv.get('c')} t={kv.get('t')}; contradicts "
                                               "P3R.C09R.ReachablePrim.guarded / compile_defuse_reachable / noTableOutputsUsed)",
                                       "replay": {"correspondence": "driver defuse line"}, "no_input": True})
                if cur_ok and kv.get("r") == "1" and not (cur_net is not None and all(x == "0" for x in cur_net)):
                    violations.append({"class": "model-disagreement",
                                       "what": "program is ReachablePrim (r=1), prep ok, but the model's net multiplicities are not all zero "
                                               "(contradicts P3R.C09R.compiled_bus_balanced_reachable)",
                                       "replay": {"correspondence": "driver defuse line vs net line"}, "no_input": True})
                if cur_ok:
                    balanced = cur_net is not None and all(x == "0" for x in cur_net)
                    key = f"prep-ok.cert={kv.get('c')}.balanced={int(balanced)}"
                    defuse[key] = defuse.get(key, 0) + 1
                    if kv.get("c") == "1" and not balanced:
                        violations.append({"class": "model-disagreement",
                                           "what": "defUse certificate holds but the model's net multiplicities are not all zero "
                                                   "(contradicts P3R.C09T.compiled_bus_balanced_of_defuse)",
                                           "replay": {"correspondence": "driver defuse line vs net line"}, "no_input": True})
        diffs, nb = diff_blocks(f"{out}/roles.impl", f"{out}/roles.model", f"{out}/roles.cases")
        blocks += nb
        disagreements += len(diffs)
        for (k, first, case) in diffs[:3]:
            violations.append({"class": "model-disagreement",
                               "what": f"correspondence roles-model (L5) no longer checks: impl={first[0]!r} model={first[1]!r}",
                               "replay": {"correspondence": "generate_preprocessed_columns + common.rs conversion vs lean/P3R/Model/Roles",
                                          "case_block": case, "first_difference": first},
                               "no_input": True})
    # non-primitive ops: bus audit of the real AIRs (+ honest prove/verify sample, + extended role model)
    npo_cov = {}
    if npo_replay is not None or not ctx.get("replay"):
        nv, npo_cov = c09n.run(ctx, npo_replay)
        violations += nv
        programs += npo_cov.get("busaudit_programs", 0); distinct += npo_cov.get("busaudit_distinct", 0)
        blocks += npo_cov.get("busaudit_blocks_compared_with_model", 0)
        disagreements += npo_cov.get("busaudit_model_disagreements", 0)
        for k, v in npo_cov.get("busaudit_hist", {}).items():
            hist["npo." + k] = v
    cov = {"evaluations": programs, "programs": programs, "distinct_nontrivial": distinct,
           "rule": "random builder programs (as C02) compiled by the real builder; every preprocessed role / multiplicity "
                   "cell and the per-slot net multiplicity compared with the Lean model; distinct = distinct program texts; "
                   "plus generated circuits mixing primitive ops with Poseidon2 permutation rows (sponge / Merkle, D=4 generic and "
                   "D=1 compact layouts) and recompose rows (with / without coefficient lookups): every WitnessChecks interaction "
                   "of every row of every real table AIR evaluated and audited per slot (harness/src/c09n.rs), a sample proved and verified",
           "samples": samples[:2], "input_distribution": hist,
           "traces_validated_against_impl": blocks, "disagreements_checked": disagreements}
    cov["defuse_certificate"] = {"counts": defuse,
        "rule": "c = certificate of the compiled circuit (hypothesis of compiled_bus_balanced_of_defuse), l / d = of the lowering's output / "
                "the de-duplicated list; prep-ok.cert=1.balanced=1 are the circuits on which the theorem applies and the real columns "
                "(compared cell by cell above) balance; cert=0 on a compiled circuit would be a counterexample to the unproved "
                "step 'compile => defUse' (none expected from the public builder API with primitive tables); "
                "g / p = hintsGuarded / privOk of the builder state (hypotheses of P3R.C09C.lower_defuse, which is total: g=1,p=1 => l=1 is "
                "cross-checked), k = optKeeps (certificate of the lowered list => of the optimised list; the remaining per-program step of "
                "P3R.C09C.compiled_bus_balanced_of_optKeeps: guarded=1.privOk=1.optKeeps=1 are the programs on which that theorem applies); "
                "a / t = operandsGuarded / noTableOutputsUsed of the builder state, f = fuseKeeps (certificate of the de-duplicated list => of the fused list): "
                "P3R.C09O.lower_dedup_defuse is total (g=1,p=1,a=1 => d=1 is cross-checked); the fusion step f is a theorem too "
                "(P3R.C09F.fuseKeeps_total; g=1,p=1,a=1 => f=1 and c=1 are cross-checked): P3R.C09F.compiled_bus_balanced has no per-program "
                "hypothesis (opt.* counts: the programs on which it applies); r = the program text is a P3R.C09R.ReachablePrim derivation "
                "(its commands are exactly the ReachablePrim constructors; r=1 iff every id argument was an id handed out for a value, "
                "Model/DefUse.properId = C02T.proper): P3R.C09R.ReachablePrim.guarded / privOk / compiled_bus_balanced_reachable say r=1 => "
                "g=1, p=1, a=1, t=1, c=1 and a balanced bus with NO other hypothesis (reach.* counts; cross-checked, and the same programs' real "
                "columns are compared cell by cell above)"}
    for k in ("busaudit_class_counts", "busaudit_samples", "busaudit_proved", "busaudit_prove_notes"):
        if k in npo_cov:
            cov[k] = npo_cov[k]
    return violations, cov


CHECKS = {
    "C02": {
        "lean_modules": ["P3R.Props.C02", "P3R.Props.C02Run", "P3R.Props.C02Denote", "P3R.Props.C02Complete", "P3R.Props.C02Shape", "P3R.Lemmas.BuilderSound",
                         "P3R.Props.C02LowerTotal", "P3R.Props.C02BuilderOk", "P3R.Witness.C02LowerTotal",
                         "P3R.Props.C02ShapeMono", "P3R.Props.C02ShapeLower", "P3R.Props.C02ShapeTotal",
                         "P3R.Witness.C02ShapeTotal", "P3R.Props.C02ShapeOpt", "P3R.Props.C02ShapeOptLower", "P3R.Witness.C02ShapeOpt",
                         "P3R.Props.C02Reach", "P3R.Witness.C02Reach"],
        "theorems": ["P3R.C02.dedup_rewrite_terminates", "P3R.C02.setW_get", "P3R.C02.setW_mono",
                     "P3R.C02.execAlu_sound",
                     # whole-run soundness: run = ok => every Const/ALU relation holds on the returned witness
                     "P3R.C02.execAlu_establishes", "P3R.C02.execOp_establishes", "P3R.C02.execAll_establishes",
                     "P3R.C02.run_ok_sat",
                     # value preservation: run ok => every expression's slot holds its mathematical denotation
                     "P3R.C02.nodeRel_denote", "P3R.C02.run_values_denote", "P3R.C02.compile_ops_eq",
                     # converse: on a satisfying input the run can only fail structurally (never a conflict / division by zero)
                     "P3R.C02.execAlu_good", "P3R.C02.execOp_good", "P3R.C02.execAll_good", "P3R.C02.run_satisfying_no_value_error",
                     # ... and whether it can fail at all is decided by the value-free shape run (evaluated per program by the driver)
                     "P3R.C02.execAlu_ref", "P3R.C02.execOp_ref", "P3R.C02.run_refines_shape", "P3R.C02.run_succeeds_on_every_satisfying_input",
                     # builder rule soundness w.r.t. the denotation of Model/SymCompile (proved for C13, same builder model)
                     "P3R.binv_init", "P3R.defineConst_sound", "P3R.add_sound", "P3R.sub_sound", "P3R.mul_sound",
                     "P3R.mulAdd_sound",
                     # TOTAL lowering theorem: the modelled `lower` passes its certificate (and emits only well-formed ops)
                     # on every builder state whose connects are valid; fold invariants over the four passes + DSU + backfill
                     "P3R.C02T.alloc_spec", "P3R.C02T.pass_fold", "P3R.C02T.step_const", "P3R.C02T.step_pub",
                     "P3R.C02T.step_priv", "P3R.C02T.emitNpCall_spec", "P3R.C02T.step_emit",
                     "P3R.C02T.ofConnects_spec", "P3R.C02T.backfill_spec", "P3R.C02T.lower_eq",
                     "P3R.C02T.lower_total_core", "P3R.C02T.lower_passes_check", "P3R.C02T.lower_ops_wf",
                     # decidable builder invariant `BState.Ok`, preserved by every builder op; reachable => Ok
                     "P3R.C02T.init_ok", "P3R.C02T.defineConst_res", "P3R.C02T.allocPublic_res", "P3R.C02T.allocPrivate_res",
                     "P3R.C02T.add_res", "P3R.C02T.sub_res", "P3R.C02T.mul_res", "P3R.C02T.div_res", "P3R.C02T.horner_res",
                     "P3R.C02T.boolCheck_res", "P3R.C02T.mulAdd_res", "P3R.C02T.connect_ok", "P3R.C02T.assertZero_ok",
                     "P3R.C02T.assertBool_ok", "P3R.C02T.select_res", "P3R.C02T.mulMany_res", "P3R.C02T.innerProduct_res",
                     "P3R.C02T.expPow2_res", "P3R.C02T.pushNp_ok", "P3R.C02T.reconstructBits_res",
                     "P3R.C02T.decomposeToBits_ok", "P3R.C02T.Reachable.ok",
                     "P3R.BState.Ok.connectsOk", "P3R.BState.Ok.dagOk",
                     # total statements (no per-program lowering certificate)
                     "P3R.C02T.lower_passes_check_ok", "P3R.C02T.lower_sound_total", "P3R.C02T.lower_sound_reachable",
                     "P3R.C02T.run_values_denote_lower_total",
                     # necessity of `connectsOk` + non-vacuity
                     "P3R.Witness.C02LowerTotal.connect_out_of_range_fails", "P3R.Witness.C02LowerTotal.connect_two_calls_fails",
                     "P3R.Witness.C02LowerTotal.connect_call_with_value_ok", "P3R.Witness.C02LowerTotal.reachable_example",
                     "P3R.Witness.C02LowerTotal.lower_example_ok", "P3R.Witness.C02LowerTotal.ok_example_decide",
                     # second clause, lowering side TOTAL: the shape run of the lowered op list succeeds from "all public and
                     # private rows set" and sets every slot, for every builder state with Ok / privOk / pubOk / primOk
                     # (simulation algebra of the shape run; RunInv threaded through the four passes of `lower`)
                     "P3R.C02S.sim_step", "P3R.C02S.sim_run", "P3R.C02S.run_mono", "P3R.C02S.run_sub",
                     "P3R.C02S.alloc_run", "P3R.C02S.RunInv.extend", "P3R.C02S.run_fConst", "P3R.C02S.run_fPub",
                     "P3R.C02S.run_fPriv", "P3R.C02S.run_emit_alu", "P3R.C02S.prealloc_run", "P3R.C02S.run_emitNp",
                     "P3R.C02S.emitNp_mapped", "P3R.C02S.run_emit", "P3R.C02S.emit_pub", "P3R.C02S.fPub_QP",
                     "P3R.C02S.lower_shape_ok", "P3R.C02S.lowered_shape_ok", "P3R.C02S.compile_shape_ok_of_optKeeps",
                     "P3R.C02.lowered_run_total", "P3R.C02.run_total_on_satisfying_inputs_of_optKeeps",
                     "P3R.Witness.C02ShapeTotal.good_guards", "P3R.Witness.C02ShapeTotal.good_optKeeps",
                     "P3R.Witness.C02ShapeTotal.good_compiles", "P3R.Witness.C02ShapeTotal.bad_runs",
                     "P3R.Witness.C02ShapeTotal.tbl_needs_primOk", "P3R.Witness.C02ShapeTotal.own_reachable",
                     "P3R.Witness.C02ShapeTotal.own_needs_primOk",
                     # second clause, optimiser side: `dedup` and `fuse` keep the shape run (list level, every op list), hence
                     # optKeepsShape for every lowering; the compiled circuit of every builder state with Ok / privOk / pubOk /
                     # primOk / pubFull runs on every satisfying input: NO per-circuit hypothesis (pubsFirst, the syntactic fact
                     # the fusion argument needs, is proved for the lowering: lower_pubsFirst)
                     "P3R.C02O.exec_alu_cases", "P3R.C02O.run_written", "P3R.C02O.resolve_lt", "P3R.C02O.step_DS",
                     "P3R.C02O.dedup_keeps_shape", "P3R.C02O.postpass_ok", "P3R.C02O.surgery_keeps_run",
                     "P3R.C02O.RSim.step", "P3R.C02O.rsim_scanTo", "P3R.C02O.no_early_def", "P3R.C02O.ge_step",
                     "P3R.C02O.ge_scan", "P3R.C02O.cands_mul_inj", "P3R.C02O.chosenOf_sup", "P3R.C02O.chosen_run_facts",
                     "P3R.C02O.fuse_keeps_shape", "P3R.C02O.dedup_PreOk", "P3R.C02O.dedup_dshape", "P3R.C02O.lower_io",
                     "P3R.C02O.optKeeps_of_struct", "P3R.C02O.optKeepsShape_total", "P3R.C02O.compile_shape_ok_of_pubsFirst",
                     "P3R.C02.run_total_on_satisfying_inputs_of_pubsFirst",
                     "P3R.C02O.emitNode_append", "P3R.C02O.fPub_PA", "P3R.C02O.lower_pubsFirst",
                     "P3R.C02O.optKeepsShape_of_guards", "P3R.C02O.compile_shape_ok", "P3R.C02.run_total_on_satisfying_inputs",
                     "P3R.Witness.C02ShapeOpt.good_pubsFirst", "P3R.Witness.C02ShapeOpt.good_pubFull",
                     "P3R.Witness.C02ShapeOpt.good_fuses",
                     "P3R.Witness.C02ShapeOpt.pubsFirst_needed",
                     # builder side closed: every guard of run_total_on_satisfying_inputs (Ok, privOk, pubOk, primOk, pubFull)
                     # holds in every state reachable through the builder API (ReachablePrim, 20 constructors; invariant RI);
                     # caller side closed: a successful set_public_inputs / set_private_inputs on the fresh table yields the
                     # shape allInputsSet (aliased rows included), the input rows of a compiled circuit are < witnessCount,
                     # hence the usual session succeeds on every satisfying input vector
                     "P3R.C02R.RI.frame", "P3R.C02R.RI.allocPublic", "P3R.C02R.RI.pushHint", "P3R.C02R.RI.decomposeToBits",
                     "P3R.C02R.init_RI", "P3R.C02R.reachablePrim_RI", "P3R.C02R.pubOk_of_RI", "P3R.C02R.pubFull_of_RI",
                     "P3R.C02R.primOk_of_RI", "P3R.C02R.reachablePrim_guards", "P3R.C02.reachable_guards",
                     "P3R.C02.run_total_reachable",
                     "P3R.C02R.setPublics_shape", "P3R.C02R.setPrivates_shape", "P3R.C02R.applyCalls_shape",
                     "P3R.C02R.emitNode_closed", "P3R.C02R.lower_rows_lt", "P3R.C02R.compile_rows_lt",
                     "P3R.C02R.foldlM_setW_ok", "P3R.C02R.supply_ok", "P3R.C02.session_total_reachable",
                     "P3R.Witness.C02Reach.dec_guards", "P3R.Witness.C02Reach.dec_guards_eval",
                     "P3R.Witness.C02Reach.mul_reachable", "P3R.Witness.C02Reach.mul_session",
                     "P3R.Witness.C02Reach.ali_reachable", "P3R.Witness.C02Reach.ali_rows",
                     "P3R.Witness.C02Reach.ali_ok", "P3R.Witness.C02Reach.ali_conflict",
                     "P3R.Witness.C02Reach.raw_not_primOk", "P3R.Witness.C02Reach.raw_not_prim"],
        "run": lambda ctx: compile_run(ctx, "C02"),
        "trusted_base": ["executable prime-field instances PF p of the driver (validated against p3-field by the runs)"],
        "assumptions": ["zero divisors: no guarantee is checked when some divisor evaluates to 0 (as the property states)"],
    },
    "C09": {
        "lean_modules": ["P3R.Props.C09", "P3R.Model.DefUse", "P3R.Props.C09Total", "P3R.Witness.C09Total",
                         "P3R.Props.C09Compile", "P3R.Witness.C09Compile",
                         "P3R.Props.C09Opt", "P3R.Witness.C09Opt",
                         "P3R.Props.C09Fuse", "P3R.Witness.C09Fuse",
                         "P3R.Props.C09Reach", "P3R.Witness.C09Reach"],
        "lean_exes": ["p3r_driver_c09n"],
        "theorems": ["P3R.C09.one_creator", "P3R.C09.mult_eq_reads", "P3R.C09.created_iff_defined",
                     "P3R.C09.net_zero_iff", "P3R.C09.bus_balanced",
                     # the same invariant for the scan extended with table-backed non-primitive rows (generic row kind)
                     "P3R.C09.scanR_inv", "P3R.C09.one_creator_npo", "P3R.C09.mult_eq_reads_npo", "P3R.C09.net_zero_iff_npo",
                     # hwf discharged by a static def-before-use certificate of the op list (Model/DefUse.lean)
                     "P3R.C09T.serve_spec", "P3R.C09T.row_inv", "P3R.C09T.defuse_sound", "P3R.C09T.compiled_bus_balanced_of_defuse",
                     # exact order-free characterisation: balanced <=> every b-column slot ends up defined
                     "P3R.C09T.serveAll_gen", "P3R.C09T.reads_defined_iff", "P3R.C09T.bus_balanced_iff",
                     "P3R.Witness.C09Total.good_reachable", "P3R.Witness.C09Total.good_balanced",
                     "P3R.Witness.C09Total.bad_reachable", "P3R.Witness.C09Total.bad_unbalanced", "P3R.Witness.C09Total.bad_role",
                     "P3R.Witness.C09Total.defuse_hypothesis_needed", "P3R.Witness.C09Total.bad_then_a_balanced",
                     # compiler side (Props/C09Compile.lean): the lowering emits a certified list for EVERY guarded builder state
                     "P3R.C09C.sdu_defUse", "P3R.C09C.emit_shape", "P3R.C09C.guard_slot", "P3R.C09C.lower_sdu", "P3R.C09C.lower_defuse",
                     "P3R.C09C.compile_defuse_of_optKeeps", "P3R.C09C.compiled_bus_balanced_of_optKeeps",
                     "P3R.Witness.C09Compile.good_guarded", "P3R.Witness.C09Compile.good_optKeeps",
                     "P3R.Witness.C09Compile.bad_not_guarded", "P3R.Witness.C09Compile.tbl_reachable",
                     "P3R.Witness.C09Compile.tbl_dedup_breaks", "P3R.Witness.C09Compile.hnt_compiles_balanced",
                     # optimiser side (Props/C09Opt.lean): de-duplication keeps the hint-aware certificate for EVERY op list;
                     # the lowering emits it for every guarded builder state; the fusion step is the one remaining hypothesis
                     "P3R.C09O.hdu_defUse", "P3R.C09O.hdu_a_touched", "P3R.C09O.key_eq", "P3R.C09O.step_claimH",
                     "P3R.C09O.dedup_preserves_hdu", "P3R.C09O.dedup_preserves_defuse", "P3R.C09O.emit_shapeA",
                     "P3R.C09O.lower_hdu", "P3R.C09O.lower_dedup_defuse", "P3R.C09O.optKeeps_of_fuseKeeps",
                     "P3R.C09O.compile_defuse_of_fuseKeeps", "P3R.C09O.compiled_bus_balanced_of_fuseKeeps",
                     "P3R.Witness.C09Opt.good_operandsGuarded", "P3R.Witness.C09Opt.good_fuseKeeps", "P3R.Witness.C09Opt.good_fuses",
                     "P3R.Witness.C09Opt.tbl_excluded", "P3R.Witness.C09Opt.hnt_hdu",
                     "P3R.Witness.C09Opt.fuse_breaks_plain_defuse",
                     # fusion side (Props/C09Fuse.lean): the fusion pass keeps the certificate for EVERY op list that also carries the
                     # forward certificate fwdFrom (non-Add/Mul rows have b touched earlier); lowering emits it, dedup keeps it;
                     # fuseKeeps is a theorem, compile_defuse / compiled_bus_balanced are unconditional
                     "P3R.C09F.hdu_filterMap", "P3R.C09F.prod_read", "P3R.C09F.prod_write", "P3R.C09F.prod_touched",
                     "P3R.C09F.applyF_mul", "P3R.C09F.applyF_cases", "P3R.C09F.add_before_mul", "P3R.C09F.transfer",
                     "P3R.C09F.surgery_keeps_hdu", "P3R.C09F.defStep_pushed", "P3R.C09F.Sim.step", "P3R.C09F.sim_scanTo",
                     "P3R.C09F.defGe_scanTo", "P3R.C09F.tryFuse_full", "P3R.C09F.chosen_notIn", "P3R.C09F.chosen_addB",
                     "P3R.C09F.chosen_facts", "P3R.C09F.chosen_mul_before_add",
                     "P3R.C09F.fuse_preserves_hdu", "P3R.C09F.fuse_preserves_defuse",
                     "P3R.C09F.step_claimF", "P3R.C09F.dedup_preserves_fwd", "P3R.C09F.emit_shapeF", "P3R.C09F.lower_fwd",
                     "P3R.C09F.lower_dedup_certs", "P3R.C09F.lower_fuse_defuse", "P3R.C09F.fuseKeeps_total",
                     "P3R.C09F.compile_defuse", "P3R.C09F.compiled_bus_balanced",
                     "P3R.C09F.filterValid_fix", "P3R.C09F.filterValid_addend_before_mul",
                     "P3R.Witness.C09Fuse.good_certs", "P3R.Witness.C09Fuse.bwd_muladd_breaks",
                     "P3R.Witness.C09Fuse.fwd_list_certs", "P3R.Witness.C09Fuse.late_addend_not_fused",
                     # builder side (Props/C09Reach.lean): the three builder-side guards hold for every program built through the
                     # builder API (ReachablePrim = C02T.Reachable without raw pushNp; ReachableCov = with raw pushNp under the
                     # pending-set discipline): compiled_bus_balanced_reachable has no hypothesis other than reachability
                     "P3R.C09R.ofConnects_push", "P3R.C09R.flagsFrom_push", "P3R.C09R.SC_push", "P3R.C09R.SC_connect_mono",
                     "P3R.C09R.SC_connect_joined", "P3R.C09R.creatorFor_iff", "P3R.C09R.guards_of_HG", "P3R.C09R.HG_of_guards",
                     "P3R.C09R.pos_ext", "P3R.C09R.pos_mem", "P3R.C09R.InvU.push", "P3R.C09R.InvU.connect",
                     "P3R.C09R.defineConst_inv", "P3R.C09R.allocPublic_inv", "P3R.C09R.allocPrivate_inv", "P3R.C09R.add_inv",
                     "P3R.C09R.sub_inv", "P3R.C09R.mul_inv", "P3R.C09R.div_inv", "P3R.C09R.horner_inv", "P3R.C09R.boolCheck_inv",
                     "P3R.C09R.mulAdd_inv", "P3R.C09R.assertBool_inv", "P3R.C09R.select_inv", "P3R.C09R.mulMany_inv",
                     "P3R.C09R.innerProduct_inv", "P3R.C09R.expPow2_inv", "P3R.C09R.pushNp_inv", "P3R.C09R.reconLoop_inv",
                     "P3R.C09R.reconstructBits_inv", "P3R.C09R.decomposeToBits_inv", "P3R.C09R.init_inv",
                     "P3R.C09R.ReachablePrim.reachable", "P3R.C09R.ReachablePrim.inv", "P3R.C09R.ReachablePrim.guarded",
                     "P3R.C09R.ReachablePrim.privOk", "P3R.C09R.ReachableCov.reachable", "P3R.C09R.ReachableCov.inv",
                     "P3R.C09R.ReachableCov.guarded", "P3R.C09R.ReachablePrim.cov", "P3R.C09R.properId_eq",
                     "P3R.C09R.ReachablePrim.hintOnly", "P3R.C09R.ReachablePrim.noTableOutputsUsed",
                     "P3R.C09R.compiled_bus_balanced_reachable", "P3R.C09R.compile_defuse_reachable",
                     "P3R.C09R.compiled_bus_balanced_cov", "P3R.C09R.not_cov_of_unguarded",
                     "P3R.Witness.C09Reach.dec_shape", "P3R.Witness.C09Reach.dec_reachable", "P3R.Witness.C09Reach.dec_balanced",
                     "P3R.Witness.C09Reach.dec2_reachable", "P3R.Witness.C09Reach.good_cov", "P3R.Witness.C09Reach.pend_cov",
                     "P3R.Witness.C09Reach.pend_balanced", "P3R.Witness.C09Reach.bad_not_cov", "P3R.Witness.C09Reach.bad_not_prim",
                     "P3R.Witness.C09Reach.tbl_not_cov", "P3R.Witness.C09Reach.tbl_not_prim", "P3R.Witness.C09Reach.hnt_not_cov"],
        "run": roles_run,
        "trusted_base": ["non-primitive rows: the theorems cover the role scan of generate_preprocessed_columns for ANY per-plug-in request function; "
                         "the concrete request functions (posRow / recRow / sumExposed: Poseidon2 sponge + arity-2/arity-4 Merkle rows, recompose with / without "
                         "coefficient lookups) and the plug-in conversions (npoMult / freeMult: dup_npo_outputs, recompose/coeff sends) are tied to the real code "
                         "by the per-slot comparison with the bus audit of the real AIRs on every generated circuit; the conversions are NOT covered by the "
                         "invariant (they break it: F-C09N-1, F-C09N-3)",
                         "bus audit (harness/src/c09n.rs): symbolic evaluation of the real AIRs by p3_lookup::InteractionSymbolicBuilder, resolved row by row on "
                         "the AIRs' own preprocessed traces; op -> row attribution assumes lanes = 1 for the non-primitive tables (TablePacking::new(1,1))"],
        "assumptions": ["extension degree D and lane count do not enter the role logic (indices are scaled by D, lanes only reshape rows); runs use D=1, lanes 1..3"],
    },
    "C03": {
        "lean_modules": ["P3R.Props.C03", "P3R.Props.C03Dedup", "P3R.Props.C03Fusion", "P3R.Props.C03FusionTotal", "P3R.Witness.C03FusionTotal", "P3R.Props.C03LowerShape", "P3R.Props.C03Lower", "P3R.Props.C03Chain"],
        "theorems": ["P3R.C03.dedup_key_sound", "P3R.C03.rewrite_holds", "P3R.C03.fusion_sound",
                     "P3R.C03.fusion_complete", "P3R.C03.dedup_sat_back", "P3R.C03.holds_congr_relSlots",
                     "P3R.C03.fusion_check_sound", "P3R.C03.node_ok_sound", "P3R.C03.lower_check_sound", "P3R.C03.opWF_sound", "P3R.C03.compile_chain_sound",
                     "P3R.C03.new_props", "P3R.C03.candidates_ok", "P3R.C03.chosenFor_ok", "P3R.C03.sep_orig", "P3R.C03.sep_fused",
                     "P3R.C03.fuse_check_c1", "P3R.C03.fuse_check_c2", "P3R.C03.fuse_check_c3", "P3R.C03.fuse_check_c4",
                     "P3R.C03.fuse_check_c5", "P3R.C03.fuse_passes_check", "P3R.C03.fuse_sound_total",
                     "P3R.C03.optimize_fusion_sound", "P3R.C03.dedup_preserves_shape",
                     "P3R.C03.lower_shape", "P3R.C03.compile_fusion_total", "P3R.C03.compile_chain_sound_total"],
        "run": lambda ctx: compile_run(ctx, "C03"),
        "trusted_base": [],
        "assumptions": [],
    },
}


# ---------------------------------------------------------------- plug-in checks
# bin/checks_cXX.py files define CHECK (same shape as the entries above) for one property.
import glob, importlib.util
for _f in sorted(glob.glob(os.path.join(os.path.dirname(os.path.abspath(__file__)), "checks_c*.py"))):
    _spec = importlib.util.spec_from_file_location(os.path.basename(_f)[:-3], _f)
    _m = importlib.util.module_from_spec(_spec)
    _spec.loader.exec_module(_m)
    CHECKS[_m.PROPERTY] = _m.CHECK
