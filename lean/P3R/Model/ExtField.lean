/-
Executable binomial extension fields `F_p[X]/(X^D - W)` for the C20 driver. Import-free.

Like `PF p`, these instances are *not* proved to satisfy the field axioms: the C20 theorems are
stated for an arbitrary Mathlib `Field`, the gadget models are polymorphic in the arithmetic
instances, and the arithmetic below is validated against p3-field's
`BinomialExtensionField` by the C20 correspondence run (every case compares values computed
here with values computed by p3).
-/
namespace P3R

/-- Element of `F_p[X]/(X^D - W)`: `D` canonical coefficients (`< p`), ascending. -/
structure Ext (p W D : Nat) where
  c : Array Nat
deriving DecidableEq

namespace Ext
variable {p W D : Nat}

/-- Canonical form: exactly `D` coefficients, each reduced mod `p`. -/
def norm (a : Array Nat) : Ext p W D := ⟨(Array.range D).map fun i => (a.getD i 0) % p⟩

def ofNat (n : Nat) : Ext p W D := norm #[n]

instance : Zero (Ext p W D) := ⟨norm #[]⟩
instance : One (Ext p W D) := ⟨norm #[1]⟩
instance : Add (Ext p W D) := ⟨fun a b => norm ((Array.range D).map fun i => a.c.getD i 0 + b.c.getD i 0)⟩
instance : Sub (Ext p W D) := ⟨fun a b => norm ((Array.range D).map fun i => a.c.getD i 0 + p - (b.c.getD i 0) % p)⟩
instance : Neg (Ext p W D) := ⟨fun a => norm ((Array.range D).map fun i => p - (a.c.getD i 0) % p)⟩

/-- Schoolbook product followed by the reduction `X^(D+k) = W * X^k`. -/
def mul (a b : Ext p W D) : Ext p W D := Id.run do
  let mut prod : Array Nat := Array.replicate (2 * D) 0
  for i in [0:D] do
    for j in [0:D] do
      prod := prod.modify (i + j) (· + a.c.getD i 0 * b.c.getD j 0)
  let mut res : Array Nat := Array.replicate D 0
  for k in [0:D] do
    res := res.set! k ((prod.getD k 0 + W * (prod.getD (k + D) 0 % p)) % p)
  return norm res

instance : Mul (Ext p W D) := ⟨mul⟩

def pow (a : Ext p W D) (n : Nat) : Ext p W D := Id.run do
  let mut r : Ext p W D := 1
  let mut b := a
  let mut e := n
  for _ in [0:400] do
    if e == 0 then break
    if e % 2 == 1 then r := r * b
    b := b * b
    e := e / 2
  return r

/-- Inverse by Fermat in the field of order `p^D`; `0⁻¹ = 0` as in Mathlib. -/
instance : Inv (Ext p W D) := ⟨fun a => pow a (p ^ D - 2)⟩

instance : ToString (Ext p W D) := ⟨fun a => ",".intercalate (a.c.toList.map toString)⟩

/-- Parse `c0,c1,…` (missing coefficients are 0). -/
def parse? (s : String) : Option (Ext p W D) := do
  let parts ← (s.splitOn ",").mapM String.toNat?
  if parts.length > D then none else some (norm parts.toArray)

end Ext
end P3R
