/-
C03 — compilation never drops an asserted relation.
Property theorems only.

Proved here for every commutative ring `K` and every assignment `w`:
* `dedup_key_sound` — two ALU ops with equal de-duplication keys impose the same relation
  once their outputs are identified: dropping the second and rewriting its output to the
  first one's loses nothing (this is exactly what failed before the accumulator was part of
  the key, finding F1);
* `rewrite_holds` — an op rewritten by a slot map `r` holds under `w` iff the original op
  holds under `w ∘ r` (de-duplication's global rewrite, finding F2, is a pull-back);
* `fusion_sound`, `fusion_complete` — a fused `MulAdd` row holds iff the original `mul` and
  `add` both hold after choosing the product slot's value, provided the product slot is
  private to the pair (`m` differs from every other operand). The side condition is the
  hypothesis `FusedSlotsPrivate` of DESIGN §4/C03.
-/
import P3R.Lemmas.Sat
import Mathlib.Tactic.Ring
import Mathlib.Tactic.Linarith

namespace P3R.C03
open P3R

variable {K : Type} [CommRing K]

/-- Lowering only emits `MulAdd` / `HornerAcc` with all their operands present. -/
def AluWF (k : AluKind) (c io : Option Nat) : Prop :=
  match k with
  | .mulAdd => c.isSome
  | .horner => c.isSome ∧ io.isSome
  | _ => True

/-- **C03 / de-duplication key.** Equal keys ⇒ equal relations on a common output. -/
theorem dedup_key_sound (w pub : Nat → K) (k : AluKind) (a b a' b' : Nat) (c io c' io' : Option Nat)
    (out : Nat) (hwf : AluWF k c io) (hwf' : AluWF k c' io')
    (hk : aluKey k a b c io = aluKey k a' b' c' io') :
    (Op.alu k a b c out io).holds w pub ↔ (Op.alu k a' b' c' out io').holds w pub := by
  cases k with
  | add =>
    simp only [aluKey, Prod.mk.injEq, true_and, and_true] at hk
    have : (a = a' ∧ b = b') ∨ (a = b' ∧ b = a') := by omega
    rcases this with ⟨rfl, rfl⟩ | ⟨rfl, rfl⟩
    · rfl
    · simp only [Op.holds]; rw [add_comm]
  | mul =>
    simp only [aluKey, Prod.mk.injEq, true_and, and_true] at hk
    have : (a = a' ∧ b = b') ∨ (a = b' ∧ b = a') := by omega
    rcases this with ⟨rfl, rfl⟩ | ⟨rfl, rfl⟩
    · rfl
    · simp only [Op.holds]; rw [mul_comm]
  | boolCheck =>
    simp only [aluKey, Prod.mk.injEq, true_and, and_true] at hk
    obtain ⟨rfl, rfl⟩ := hk
    simp [Op.holds]
  | mulAdd =>
    simp only [aluKey, Prod.mk.injEq, true_and, and_true] at hk
    obtain ⟨rfl, rfl, hc⟩ := hk
    cases c with
    | none => simp [AluWF] at hwf
    | some cv =>
      cases c' with
      | none => simp [AluWF] at hwf'
      | some cv' =>
        simp only [Option.getD_some] at hc
        subst hc
        simp [Op.holds]
  | horner =>
    simp only [aluKey, Prod.mk.injEq, true_and] at hk
    obtain ⟨rfl, rfl, hc, hio⟩ := hk
    cases c with
    | none => simp [AluWF] at hwf
    | some cv =>
      cases c' with
      | none => simp [AluWF] at hwf'
      | some cv' =>
        cases io with
        | none => simp [AluWF] at hwf
        | some i =>
          cases io' with
          | none => simp [AluWF] at hwf'
          | some i' =>
            simp only [Option.getD_some] at hc hio
            subst hc; subst hio
            simp [Op.holds]

/-- **C03 / rewriting is a pull-back.** For any slot map `r` (here: `resolve rw`), the
rewritten op holds under `w` iff the original holds under `w ∘ r`. -/
theorem rewrite_holds (w pub : Nat → K) (rw : Rewrite) (op : Op K) :
    (op.rewrite rw).holds w pub ↔ op.holds (fun s => w (resolve rw s)) pub := by
  cases op with
  | const out v => simp [Op.rewrite, Op.holds]
  | pub out pos => simp [Op.rewrite, Op.holds]
  | hint _ _ _ => simp [Op.rewrite, Op.holds]
  | npo _ _ _ _ => simp [Op.rewrite, Op.holds]
  | alu k a b c out io =>
    cases k <;> cases c <;> cases io <;> simp [Op.rewrite, Op.holds]

/-- **C03 / fusion, soundness.** If the fused row holds then, giving the product slot the
value `w a * w b`, the original `mul` and `add` hold and nothing else moved. -/
theorem fusion_sound (w pub : Nat → K) (a b c out m : Nat)
    (hma : m ≠ a) (hmb : m ≠ b) (hmc : m ≠ c) (hmo : m ≠ out)
    (h : (Op.alu .mulAdd a b (some c) out (some m) : Op K).holds w pub) :
    ∃ w' : Nat → K, (∀ s, s ≠ m → w' s = w s) ∧
      (Op.mul a b m : Op K).holds w' pub ∧ (Op.add m c out : Op K).holds w' pub := by
  refine ⟨fun s => if s = m then w a * w b else w s, ?_, ?_, ?_⟩
  · intro s hs; simp [hs]
  · simp [Op.mul, Op.holds, hma.symm, hmb.symm]
  · simp only [Op.add, Op.holds] at h ⊢
    simp [hmc.symm, hmo.symm, h]

/-- **C03 / fusion, completeness.** Conversely the two original relations imply the fused row. -/
theorem fusion_complete (w pub : Nat → K) (a b c out m : Nat) (io : Option Nat)
    (h1 : (Op.mul a b m : Op K).holds w pub) (h2 : (Op.add m c out : Op K).holds w pub) :
    (Op.alu .mulAdd a b (some c) out io : Op K).holds w pub := by
  simp only [Op.mul, Op.add, Op.holds] at h1 h2 ⊢
  rw [h1, h2]

/-- Non-vacuity: the hypotheses of `fusion_sound` are met by a concrete row over `ℤ`. -/
example : (Op.alu .mulAdd 1 2 (some 3) 4 (some 5) : Op ℤ).holds
    (fun s => if s = 1 then 2 else if s = 2 then 3 else if s = 3 then 4 else if s = 4 then 10 else 0)
    (fun _ => 0) := by
  simp [Op.holds]

end P3R.C03
