/-
L14 — proof metadata of a circuit proof (`BatchStarkProof`) and what native verification
(`BatchStarkProver::verify_all_tables` → `verify` → `p3_batch_stark::verify_batch`) does with it.
Import-free (core only).

Mirrors, in the order of the Rust code:
* `BatchStarkProof::validate` (`UnsupportedExtDegree`, `RowCounts::validate`,
  `TablePacking::validate`, `NonPrimitiveTableEntry::validate`);
* the three field-parameter comparisons of `verify_all_tables` against the verifier's trace
  field (`ExtDegreeMismatch`, `BinomialWMismatch`, `QuinticReductionMismatch`);
* `AluExtMulKind::resolve`;
* AIR reconstruction in `verify` (Const, Public, ALU from `rows`/`table_packing`, one dynamic
  AIR per `non_primitives` entry through the registered plug-in, unknown op ⇒ error);
* the declared-width check of `verify` (fix of F-C16-1): the preprocessed width `stark_common`
  declares for every instance must be the width the rebuilt AIR reads, else `Err`;
* the metadata-dependent part of `verify_batch`: instance-count check, the symbolic evaluation
  of every AIR against the *declared* preprocessed width (an AIR that reads more preprocessed
  columns than declared would index out of bounds: distinguished outcome `panic`, kept in the
  model so that its unreachability is a theorem, `P3R.C16.verify_never_panics`), the
  opened-values shape checks, the preprocessed metadata checks;
* everything cryptographic (PCS opening, out-of-domain evaluation, LogUp terminal sum) is a
  *parameter* `crypto : Sys → Bool` of the verifier model ("does the fixed proof body verify
  against this constraint system, these public values and this preprocessed binding").

Plug-in AIRs are parameters as well (`Plugin`): Poseidon permutation tables ignore the entry
(`fixed`), the recompose table takes its lane count from the entry (`perLane`).

Op-type names are byte lists (the codec below works on tokens; the driver converts).
-/
namespace P3R.Metadata

abbrev Name := List Nat

structure Packing where
  publicLanes : Nat
  aluLanes : Nat
  npoLanes : List (Name × Nat)
  minHeight : Nat
  hornerK : Nat
deriving DecidableEq, Repr

structure Entry where
  op : Name
  rows : Nat
  lanes : Nat
  pvs : List Nat
  variant : Nat
deriving DecidableEq, Repr

structure InstMeta where
  matrixIndex : Nat
  width : Nat
  degreeBits : Nat
deriving DecidableEq, Repr

structure Common where
  /-- Merkle cap: digests of `digestLen` field elements each -/
  commitment : List (List Nat)
  instances : List (Option InstMeta)
  m2i : List Nat
deriving DecidableEq, Repr

/-- Everything in a `BatchStarkProof` except the STARK proof body, in field order. -/
structure Meta where
  packing : Packing
  rows : Nat × Nat × Nat
  aluVariant : Nat
  d : Nat
  w : Option Nat
  quintic : Bool
  entries : List Entry
  common : Option Common
deriving DecidableEq, Repr

/-- The verifier's trace field `EF`: `EF::DIMENSION`, `EF::extract_w()` (for `D > 1`),
`D == 5 && EF::alu_is_quintic_trinomial()`. -/
structure Expected where
  d : Nat
  w : Option Nat
  quintic : Bool
deriving DecidableEq, Repr

inductive PluginKind
  | fixed (mainW prepW : Nat)
  | perLane (mainPer prepPer : Nat)
deriving DecidableEq, Repr

structure Plugin where
  name : Name
  kind : PluginKind
deriving DecidableEq, Repr

inductive Red
  | base
  | binomial (w : Nat)
  | quintic
deriving DecidableEq, Repr

/-- What `verify` rebuilds for one table: exactly the parameters the AIR's `eval`, widths and
bus interactions depend on (`rows` and `min_height` only size the verifier-side preprocessed
vector, which `verify_batch` never asks for). -/
inductive AirDesc
  | const (d : Nat)
  | pub (d lanes : Nat)
  | alu (d lanes k : Nat) (red : Red)
  | npoFixed (name : Name) (mainW prepW : Nat)
  | npoLanes (name : Name) (lanes mainPer prepPer : Nat)
deriving DecidableEq, Repr

/-- `(k-1)/2` stored intermediates + `2(k-1)` packed operands + 1 accumulator. -/
def hornerExtraMain (k : Nat) : Nat := (k - 1) / 2 + 2 * (k - 1) + 1

/-- `(k-1)` arity selectors + `(k-1)` step blocks of 6 columns. -/
def hornerExtraPrep (k : Nat) : Nat := (k - 1) + 6 * (k - 1)

def AirDesc.mainW : AirDesc → Nat
  | .const d => d
  | .pub d lanes => lanes * d
  | .alu d lanes k _ => lanes * (4 * d) + hornerExtraMain k * d
  | .npoFixed _ m _ => m
  | .npoLanes _ lanes m _ => lanes * m

def AirDesc.prepW : AirDesc → Nat
  | .const _ => 2
  | .pub _ lanes => lanes * 2
  | .alu _ lanes k _ => lanes * 13 + hornerExtraPrep k
  | .npoFixed _ _ p => p
  | .npoLanes _ lanes _ p => lanes * p

/-- `AluExtMulKind::resolve(d, w, quintic)`. -/
def resolve (d : Nat) (w : Option Nat) (quintic : Bool) : Option Red :=
  if d = 1 then some .base
  else if d = 5 ∧ quintic = true then some .quintic
  else w.map .binomial

def supportedDegree (d : Nat) : Bool :=
  d == 1 || d == 2 || d == 4 || d == 5 || d == 6 || d == 8

def isPow2 (n : Nat) : Bool := n != 0 && (n &&& (n - 1)) == 0

/-- `BatchStarkProof::validate`, first error. -/
def validate (m : Meta) : Except String Unit := do
  if !supportedDegree m.d then throw "UnsupportedExtDegree"
  if m.rows.1 = 0 ∨ m.rows.2.1 = 0 ∨ m.rows.2.2 = 0 then throw "ZeroRowCount"
  if m.packing.publicLanes = 0 then throw "ZeroLanes"
  if m.packing.aluLanes = 0 then throw "ZeroLanes"
  if m.packing.npoLanes.any (fun e => e.2 == 0) then throw "ZeroNpoLanes"
  if !isPow2 m.packing.minHeight then throw "BadMinTraceHeight"
  if m.packing.hornerK < 2 then throw "BadHornerPackedSteps"
  if m.entries.any (fun e => e.lanes == 0) then throw "ZeroNpoLanes"
  pure ()

/-- The metadata checks of `verify_all_tables` before any AIR is rebuilt. -/
def checkMeta (exp : Expected) (m : Meta) : Except String Unit := do
  validate m
  if m.d ≠ exp.d then throw "ExtDegreeMismatch"
  if m.w ≠ exp.w then throw "BinomialWMismatch"
  if m.quintic ≠ exp.quintic then throw "QuinticReductionMismatch"
  pure ()

def findPlugin (reg : List Plugin) (n : Name) : Option Plugin := reg.find? (fun p => p.name == n)

def npoAir (reg : List Plugin) (e : Entry) : Option AirDesc :=
  match findPlugin reg e.op with
  | none => none
  | some p =>
    match p.kind with
    | .fixed mw pw => some (.npoFixed p.name mw pw)
    | .perLane mp pp => some (.npoLanes p.name e.lanes mp pp)

def npoAirs (reg : List Plugin) : List Entry → Option (List AirDesc)
  | [] => some []
  | e :: es =>
    match npoAir reg e, npoAirs reg es with
    | some a, some as => some (a :: as)
    | _, _ => none

/-- The AIR list `verify` rebuilds (given the reduction chosen from the verifier's field). -/
def airsOf (reg : List Plugin) (red : Red) (m : Meta) : Option (List AirDesc) :=
  (npoAirs reg m.entries).map fun dyn =>
    .const m.d :: .pub m.d m.packing.publicLanes :: .alu m.d m.packing.aluLanes m.packing.hornerK red :: dyn

/-- What the cryptographic part of `verify_batch` is run against. -/
structure Sys where
  airs : List AirDesc
  pvs : List (List Nat)
  common : Option Common
deriving DecidableEq, Repr

/-- Shape of the fixed STARK proof body, as far as the metadata-dependent checks read it. -/
structure Body where
  n : Nat
  mainW : List Nat
  prepOpened : List Nat
  degreeBits : List Nat
deriving DecidableEq, Repr

inductive Verdict
  | accept
  | metaErr (e : String)
  | unknownOp
  | reject (stage : String)
  | panic
deriving DecidableEq, Repr

def declaredWidth (c : Option Common) (i : Nat) : Nat :=
  match c with
  | none => 0
  | some c => match c.instances[i]? with
    | some (some im) => im.width
    | _ => 0

/-- number of public values each AIR declares (0 for every table of this code base) -/
def AirDesc.npv : AirDesc → Nat := fun _ => 0

/-- `matrix_to_instance` walk of `verify_batch`. -/
def m2iOk (c : Common) (body : Body) : Bool :=
  (List.range c.m2i.length).all fun k =>
    match c.m2i[k]? with
    | none => false
    | some inst =>
      match c.instances[inst]? with
      | some (some im) => im.width != 0 && im.matrixIndex == k && im.degreeBits == body.degreeBits.getD inst 0
      | _ => false

/-- Declared preprocessed width of every instance. -/
def declaredWidths (c : Option Common) (n : Nat) : List Nat := (List.range n).map (declaredWidth c)

/-- Some rebuilt AIR reads more preprocessed columns than `stark_common` declares for it. -/
def underDeclared : List AirDesc → List Nat → Bool
  | a :: as, w :: ws => decide (w < a.prepW) || underDeclared as ws
  | _, _ => false

/-- The declared-width check of `verify` followed by the metadata-dependent checks of
`verify_batch` before the cryptographic part. `none` = all pass.
(`body.mainW`, `body.prepOpened` have one entry per instance of the proof body.) -/
def shapeStage (s : Sys) (body : Body) : Option Verdict :=
  let n := s.airs.length
  -- `verify`, before `verify_batch`: declared preprocessed widths are the widths the AIRs read
  if declaredWidths s.common n ≠ s.airs.map AirDesc.prepW then some (.reject "prep-width")
  else if n ≠ body.n ∨ s.pvs.length ≠ n then some (.reject "shape")
  else if (match s.common with | some c => c.instances.length != n | none => false) then some (.reject "shape")
  -- first loop: symbolic evaluation of every AIR against the declared preprocessed width
  else if underDeclared s.airs (declaredWidths s.common n) then some .panic
  -- second loop: public values, opened main row, opened preprocessed row
  else if s.pvs.map List.length ≠ s.airs.map AirDesc.npv then some (.reject "shape")
  else if s.airs.map AirDesc.mainW ≠ body.mainW then some (.reject "shape")
  else if declaredWidths s.common n ≠ body.prepOpened then some (.reject "shape")
  else if (match s.common with | some c => !m2iOk c body | none => false) then some (.reject "shape")
  else none

/-- Native verification as a function of the metadata, for a fixed proof body. -/
def verify (crypto : Sys → Bool) (body : Body) (exp : Expected) (reg : List Plugin) (m : Meta) : Verdict :=
  match checkMeta exp m with
  | .error e => .metaErr e
  | .ok _ =>
    match resolve exp.d exp.w m.quintic with
    | none => .reject "missing-w"
    | some red =>
      match airsOf reg red m with
      | none => .unknownOp
      | some airs =>
        let s : Sys := ⟨airs, (List.replicate 3 []) ++ m.entries.map (·.pvs), m.common⟩
        match shapeStage s body with
        | some v => v
        | none => if crypto s then .accept else .reject "crypto"

/-- The constraint system a metadata record selects (when it passes the metadata checks). -/
def sysOf (exp : Expected) (reg : List Plugin) (m : Meta) : Option Sys :=
  match checkMeta exp m with
  | .error _ => none
  | .ok _ =>
    match resolve exp.d exp.w m.quintic with
    | none => none
    | some red => (airsOf reg red m).map fun airs => ⟨airs, (List.replicate 3 []) ++ m.entries.map (·.pvs), m.common⟩

/-- Body shape of a proof produced for `s` (what an honest prover's proof body looks like). -/
def bodyOf (s : Sys) : Body :=
  { n := s.airs.length
    mainW := s.airs.map (·.mainW)
    prepOpened := declaredWidths s.common s.airs.length
    degreeBits := (List.range s.airs.length).map fun i =>
      match s.common with
      | some c => (match c.instances[i]? with | some (some im) => im.degreeBits | _ => 0)
      | none => 0 }

/-! ### Serialization (postcard) at the token level

A token is one varint of the byte stream (lengths, option tags, booleans, enum indices, field
elements, and the bytes of ASCII op-type names are all single varints). `encodeMeta` is the
tail of `postcard::to_allocvec(&proof)` after the `proof` field. -/

def encName (n : Name) : List Nat := n.length :: n

def encList {α} (f : α → List Nat) (l : List α) : List Nat := l.length :: l.flatMap f

def encOpt {α} (f : α → List Nat) : Option α → List Nat
  | none => [0]
  | some a => 1 :: f a

def encBool (b : Bool) : List Nat := [if b then 1 else 0]

def encPacking (p : Packing) : List Nat :=
  [p.publicLanes, p.aluLanes] ++ encList (fun e => encName e.1 ++ [e.2]) p.npoLanes ++ [p.minHeight, p.hornerK]

def encEntry (e : Entry) : List Nat :=
  encName e.op ++ [e.rows, e.lanes] ++ encList (fun x => [x]) e.pvs ++ [e.variant]

def encInst (i : InstMeta) : List Nat := [i.matrixIndex, i.width, i.degreeBits]

def encCommon (c : Common) : List Nat :=
  encList id c.commitment ++ encList (encOpt encInst) c.instances ++ encList (fun x => [x]) c.m2i

def encodeMeta (m : Meta) : List Nat :=
  encPacking m.packing ++ [m.rows.1, m.rows.2.1, m.rows.2.2] ++ [m.aluVariant, m.d] ++ encOpt (fun x => [x]) m.w
    ++ encBool m.quintic ++ encList encEntry m.entries ++ encOpt encCommon m.common

abbrev Parser (α : Type) := List Nat → Option (α × List Nat)

def pNat : Parser Nat
  | [] => none
  | t :: r => some (t, r)

def pBool : Parser Bool
  | 0 :: r => some (false, r)
  | 1 :: r => some (true, r)
  | _ => none

def pOpt {α} (p : Parser α) : Parser (Option α)
  | 0 :: r => some (none, r)
  | 1 :: r => match p r with
    | some (a, r') => some (some a, r')
    | none => none
  | _ => none

def pRep {α} (p : Parser α) : Nat → Parser (List α)
  | 0, r => some ([], r)
  | n + 1, r =>
    match p r with
    | none => none
    | some (a, r1) =>
      match pRep p n r1 with
      | none => none
      | some (as, r2) => some (a :: as, r2)

def pList {α} (p : Parser α) : Parser (List α) := fun r =>
  match pNat r with
  | none => none
  | some (n, r1) => pRep p n r1

def pName : Parser Name := pList pNat

def pPair : Parser (Name × Nat) := fun r =>
  match pName r with
  | none => none
  | some (n, r1) => match pNat r1 with
    | none => none
    | some (k, r2) => some ((n, k), r2)

def pPacking : Parser Packing := fun r =>
  match pNat r with
  | none => none
  | some (pl, r) => match pNat r with
    | none => none
    | some (al, r) => match pList pPair r with
      | none => none
      | some (nl, r) => match pNat r with
        | none => none
        | some (mh, r) => match pNat r with
          | none => none
          | some (hk, r) => some (⟨pl, al, nl, mh, hk⟩, r)

def pEntry : Parser Entry := fun r =>
  match pName r with
  | none => none
  | some (op, r) => match pNat r with
    | none => none
    | some (rows, r) => match pNat r with
      | none => none
      | some (lanes, r) => match pList pNat r with
        | none => none
        | some (pvs, r) => match pNat r with
          | none => none
          | some (v, r) => some (⟨op, rows, lanes, pvs, v⟩, r)

def pInst : Parser InstMeta := fun r =>
  match pNat r with
  | none => none
  | some (a, r) => match pNat r with
    | none => none
    | some (b, r) => match pNat r with
      | none => none
      | some (c, r) => some (⟨a, b, c⟩, r)

/-- `digestLen` is a type-level constant of the Rust commitment type. -/
def pCommon (digestLen : Nat) : Parser Common := fun r =>
  match pList (pRep pNat digestLen) r with
  | none => none
  | some (cm, r) => match pList (pOpt pInst) r with
    | none => none
    | some (inst, r) => match pList pNat r with
      | none => none
      | some (m2i, r) => some (⟨cm, inst, m2i⟩, r)

def decodeMeta (digestLen : Nat) : Parser Meta := fun r =>
  match pPacking r with
  | none => none
  | some (pk, r) => match pNat r with
    | none => none
    | some (r0, r) => match pNat r with
      | none => none
      | some (r1, r) => match pNat r with
        | none => none
        | some (r2, r) => match pNat r with
          | none => none
          | some (av, r) => match pNat r with
            | none => none
            | some (d, r) => match pOpt pNat r with
              | none => none
              | some (w, r) => match pBool r with
                | none => none
                | some (q, r) => match pList pEntry r with
                  | none => none
                  | some (es, r) => match pOpt (pCommon digestLen) r with
                    | none => none
                    | some (c, r) => some (⟨pk, (r0, r1, r2), av, d, w, q, es, c⟩, r)

end P3R.Metadata
