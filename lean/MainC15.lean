/-
C15 line-protocol driver: one (environment, shape vector) per stdin line, one outcome line out.
Runs the *model* `P3R.Shape.verifyUni` / `verifyBatch` of `P3R/Model/Shape.lean`.

  uni <base> <env> <uni shape>      → err | panic | ok same | ok different
  batch <base> <env> <batch shape>  → err | panic | ok same | ok different

`ok same` / `ok different`: the first line carrying a given <base> name is the honest input of
that base; a later accepted line is `same` iff its (env, shape) equals that first line's.
Everything is on the line (no defaults). Numbers are decimal; an option is `-` or a number; a
list is its length followed by its items. Unknown / malformed command → `bad-op`.

  <env>  = airWidth airPrepWidth logQd dim prepCommit? logBlowup logFinalPolyLen commitPowBits
           queryPowBits mmcs(0|1) valBits twoAdicity wordBits maxAlloc
  <fri>  = commitCaps[] powWitnesses nQueries { nBatches { rows[] }* steps[] }* finalPolyLen
  <uni shape> = traceCap quotientCap randomCap? traceLocal traceNext prepLocal? prepNext?
           quotientChunks[] random? degreeBits <fri>
-/
import P3R.Model.Shape

open P3R.Shape

namespace C15Driver

abbrev P := StateT (List String) Option

def tok : P String := do
  match (← get) with
  | [] => failure
  | t :: ts => set ts; pure t

def nat : P Nat := do
  let t ← tok
  match t.toNat? with
  | some n => pure n
  | none => failure

def opt : P (Option Nat) := do
  let t ← tok
  if t == "-" then pure none else
  match t.toNat? with
  | some n => pure (some n)
  | none => failure

def rep {α} (p : P α) : Nat → P (List α)
  | 0 => pure []
  | n + 1 => do let a ← p; let as ← rep p n; pure (a :: as)

def list {α} (p : P α) : P (List α) := do let n ← nat; rep p n

def bool : P Bool := do let n ← nat; pure (n != 0)

def env : P Env := do
  let airWidth ← nat; let airPrepWidth ← nat; let logQd ← nat; let dim ← nat
  let prepCommit ← opt; let logBlowup ← nat; let logFinalPolyLen ← nat
  let commitPowBits ← nat; let queryPowBits ← nat; let mmcs ← bool
  let valBits ← nat; let twoAdicity ← nat; let wordBits ← nat; let maxAlloc ← nat
  pure { airWidth, airPrepWidth, logQd, dim, prepCommit, logBlowup, logFinalPolyLen,
         commitPowBits, queryPowBits, mmcs, valBits, twoAdicity, wordBits, maxAlloc }

def query : P QueryShape := do
  let inputProof ← list (list nat)
  let steps ← list nat
  pure { inputProof, steps }

def fri : P FriShape := do
  let commitCaps ← list nat
  let powWitnesses ← nat
  let queries ← list query
  let finalPolyLen ← nat
  pure { commitCaps, powWitnesses, queries, finalPolyLen }

def uni : P UniShape := do
  let traceCap ← nat; let quotientCap ← nat; let randomCap ← opt
  let traceLocal ← nat; let traceNext ← nat; let prepLocal ← opt; let prepNext ← opt
  let quotientChunks ← list nat; let random ← opt; let degreeBits ← nat
  let f ← fri
  pure { traceCap, quotientCap, randomCap, traceLocal, traceNext, prepLocal, prepNext,
         quotientChunks, random, degreeBits, fri := f }

inductive Input
  | uni (e : Env) (s : UniShape)
  deriving DecidableEq

def Input.verify : Input → Out
  | .uni e s => verifyUni e s

def parseLine (ts : List String) : Option (String × Input) :=
  match ts with
  | "uni" :: base :: rest =>
    match (do let e ← env; let s ← uni; pure (Input.uni e s)).run rest with
    | some (i, []) => some (base, i)
    | _ => none
  | _ => none

def step (honest : List (String × Input)) (line : String) : List (String × Input) × String :=
  match parseLine (line.splitOn " " |>.filter (· ≠ "")) with
  | none => (honest, "bad-op")
  | some (base, i) =>
    let (honest, h) := match honest.lookup base with
      | some h => (honest, h)
      | none => ((base, i) :: honest, i)
    let out := match i.verify with
      | .err => "err"
      | .panic => "panic"
      | .ok => if i = h then "ok same" else "ok different"
    (honest, out)

partial def loop (h : IO.FS.Stream) (out : IO.FS.Stream) (honest : List (String × Input)) : IO Unit := do
  let line ← h.getLine
  if line.isEmpty then return
  let (honest, o) := step honest (line.trimRight)
  out.putStrLn o
  loop h out honest

end C15Driver

def main : IO Unit := do
  let stdin ← IO.getStdin
  let stdout ← IO.getStdout
  C15Driver.loop stdin stdout []
