/-
Witnesses for `P3R.C09C` (Props/C09Compile.lean).

* `good_*` — the reachable example of `Witness.C09Total` satisfies `privOk` and `hintsGuarded`
  (the hint output is range-checked by `assert_bool`, whose `BoolCheck` node shares its connect
  class), so `lower_defuse` applies; the optimiser keeps the certificate (`optKeeps`) and
  `compiled_bus_balanced_of_optKeeps` gives the balance of every slot.
* `bad_not_guarded` — the excluded point (`h = hint(x); y = x + h`) fails `hintsGuarded`:
  the guard is necessary (`Witness.C09Total.bad_unbalanced`: net multiplicity −1).
* `tbl_*` — the optimiser step does not preserve the certificate in general: `t` the output of a
  table-backed call, `u = t + y`, `w = u − y` connected to `t` (row `add y t u`, a backward row, the
  only row with `t` in `b`), `q = z + t`. The program is reachable and guarded, the lowered list is
  certified; de-duplication removes the backward row as a commutative duplicate of `add t y u`, after
  which `t` occurs in `b` of `add z t q` with no creator: certificate false, model net −1.
  (Model-level: `genPrep` gives table-backed outputs no creator — the NPO table is the creator in
  the real system, `P3R.C09.*_npo` —, so this is a limit of the statement, not a defect of /repo.)
  With a *hint* executor instead (`hnt_*`) the kept row creates the slot through its `a` request and
  the compiled circuit is certified and balanced.
-/
import P3R.Props.C09Compile
import P3R.Witness.C09Total
open P3R P3R.C02T P3R.Witness.C09Total

namespace P3R.Witness.C09Compile

theorem good_guarded : privOk bGood = true ∧ hintsGuarded bGood = true := by decide +kernel

theorem good_optKeeps :
    (match lower bGood with
     | .ok l => P3R.optKeeps l
     | .error _ => false) = true := by decide +kernel

/-- `lower_defuse` applies to the example. -/
example (l : Lowered Int) (hl : lower bGood = .ok l) :
    defUse l.privRows.toList l.ops.toList = true :=
  P3R.C09C.lower_defuse bGood good_reachable.ok good_guarded.1 good_guarded.2 l hl

/-- The excluded point is excluded by the guard. -/
theorem bad_not_guarded : hintsGuarded bBad = false ∧ privOk bBad = true := by decide +kernel

/-! ### The optimiser does not preserve the certificate in general -/

def mk (kind : NpKind) : BState Int :=
  let t1 : BState Int := (BState.init : BState Int).allocPublic.1     -- y = e1
  let t2 := t1.allocPublic.1                                           -- z = e2
  let t3 := (t2.pushNp kind [[1]] 1).1                                 -- call e3, t = e4
  let t4 := (t3.add 4 1).1                                             -- u = e5 = t + y
  let t5 := (t4.sub 5 1).1                                             -- w = e6 = u - y
  let t6 := t5.connect 6 4                                             -- w == t
  (t6.add 2 4).1                                                       -- q = e7 = z + t

def bTbl : BState Int := mk (.table 7)
def bHnt : BState Int := mk .hintBits

theorem tbl_reachable : Reachable bTbl := by
  have r1 : Reachable ((BState.init : BState Int).allocPublic.1) := Reachable.allocPublic Reachable.init
  have r2 := Reachable.allocPublic r1
  have r3 := Reachable.pushNp r2 (.table 7) [[1]] 1
  have r4 := Reachable.add r3 (l := 4) (r := 1) (by decide +kernel) (by decide +kernel)
  have r5 := Reachable.sub r4 (l := 5) (r := 1) (by decide +kernel) (by decide +kernel)
  have r6 := Reachable.connect r5 (x := 6) (y := 4) (by decide +kernel) (by decide +kernel)
  exact Reachable.add r6 (l := 2) (r := 4) (by decide +kernel) (by decide +kernel)

/-- Guarded, lowered list certified, optimised list NOT certified, one slot with net −1. -/
theorem tbl_dedup_breaks :
    privOk bTbl = true ∧ hintsGuarded bTbl = true ∧
    (match lower bTbl with
     | .ok l => defUse l.privRows.toList l.ops.toList && !P3R.optKeeps l &&
         !defUse (l.privRows.toList.map (resolve (dedup l.ops).2)) (dedup l.ops).1.toList
     | .error _ => false) = true ∧
    (match compile bTbl with
     | .ok c => !c.defUse &&
       (match genPrep c with
        | some p => (List.range c.witnessCount).any fun s => p.net s == -1
        | none => false)
     | .error _ => false) = true := by
  decide +kernel

/-- The same program with a hint executor: certified and balanced after compilation. -/
theorem hnt_compiles_balanced :
    hintsGuarded bHnt = true ∧
    (match compile bHnt with
     | .ok c => c.defUse &&
       (match genPrep c with
        | some p => (List.range c.witnessCount).all fun s => p.net s == 0
        | none => false)
     | .error _ => false) = true := by
  decide +kernel

end P3R.Witness.C09Compile
