/-
C07 — in-circuit FRI verification agrees with native FRI verification.

Property theorems over the models `P3R.Model.FriNative` (p3-fri 0.6.3 `verify_fri`,
`verify_query`, `open_input`, `fold_row`), `P3R.Model.FriCircuit` (value semantics of the
circuit emitted by `verify_fri_circuit`) and `P3R.Model.FriShape` (shape validation). Every
theorem is for an arbitrary field `K` and quantifies over all sizes (no bound on the number of
phases, bits, columns, matrices or the arity).

Full-strength statement (kept visible; *false of the current code* — findings C07-F2, F3, F5 —
see `P3R/Witness/C07.lean`):

    ∀ parameters, statement, proof, challenges:
      circuitOutcome env p α βs batches pf = .ok  ↔  verifyFri env p α βs batches pf = .ok ()

Outside this arithmetic model: Merkle caps. The commit-phase loop of `verify_fri_circuit` skips
the MMCS check only for `log_folded_height = 0`; for a cap of height `h` and a folded codeword of
log height `h` the Merkle path is empty but the leaf hash is still compared with the cap entry the
index selects. That is the subject of C14 (`friPhases_eq_replicate`) and C08; here it is exercised
on the real code only (harness `fri`, modes `full` and `fixch`, cap heights 0-4 for the input and
the commit-phase MMCS independently, seed C07-d).

What is proved instead, piece by piece (each piece is one mechanism of the property text):

* shape validation       `fri_shape_iff` (under hypotheses H1–H6; H1, H2, H4 shown necessary; no
                         "at least one fold phase" hypothesis any more),
                         `height_above_two_adicity_rejected_by_both`,
                         `sibling_count_mismatch_rejected_by_both`
* no fold phase          `fold_chain_zero_phase`, `subgroup_starts_zero_phase`, `final_point_zero_phase`,
                         `verify_query_zero_phase`, `query_tail_zero_phase`, `query_check_zero_phase`,
                         `zero_phase_query_agree`
* query indices          `selChain_eq_pow`, `reverseBits_eq_bitsToNat`, `query_index_eq`,
                         `query_index_prefix_eq`, `expPow2_eq`
* row reconstruction     `reconstruct_arity2_eq`, `reconstruct_arity4_eq`, `reconstruct_arity8_eq`
* folding                `fold_arity2_eq`, `fold_arity4_eq` (= native Lagrange formula incl. its early
                         return; arity 4 with a symbolic primitive 4th root of unity),
                         `fold_arity2_path_eq`, `fold_general_eq` (every arity: sequential folds of
                         the evaluations of a polynomial of degree < 2^k give its value at β)
* reduced openings       `horner_cols_eq`, `native_cols_eq`, `open_input_fast_path_eq`
* final polynomial       `final_poly_eq`, `final_point_eq` (the point it is evaluated at, every schedule)

Not proved (stated in design_notes/C07.md): equality of the general-arity fold with native's
*barycentric formula* for arity ≥ 8 (native side of `fold_general_eq`), the roll-in schedule as a
list-level theorem, and the composition into one `fri_agree` statement; these rest on the
correspondence runs.
-/
import P3R.Lemmas.FriFold
import P3R.Model.FriShape

namespace P3R.C07
open P3R.Fri

variable {K : Type} [Field K]

/-! ### Folding -/

/-- Arity 2: the circuit's `arity2_fold_at_point` equals native `lagrange_interpolate_at` on the
points `(x₀, −x₀)` for *every* `β`, including native's early return when `β` is one of the points. -/
theorem fold_arity2_eq [DecidableEq K] (e0 e1 β x0 : K) (hx : x0 ≠ 0) (h2 : (2 : K) ≠ 0) :
    lagrangeAt [x0, -x0] [e0, e1] β = fold2 e0 e1 β x0 := by
  have h11 : (1 : K) + 1 ≠ 0 := by rwa [one_add_one_eq_two]
  rw [fold2_eq _ _ _ _ hx h2]
  unfold lagrangeAt
  simp only [List.length_cons, List.length_nil, List.zip_cons_cons, List.zip_nil_right]
  by_cases h1 : β - x0 = 0
  · have : β = x0 := sub_eq_zero.mp h1
    subst this
    simp [List.find?]
    field_simp
    ring
  · by_cases h3 : β - -x0 = 0
    · have : β = -x0 := sub_eq_zero.mp h3
      subst this
      simp [List.find?, h1]
      field_simp
      ring
    · simp only [List.find?, h1, h3, decide_false]
      simp only [Nat.reduceAdd, OfNat.ofNat_ne_zero, ↓reduceIte, List.headD_cons, List.map_cons,
        List.map_nil, prodList, List.foldl_cons, List.foldl_nil, ofNat, npow]
      have h3' : β + x0 ≠ 0 := by simpa using h3
      simp only [sub_neg_eq_add, zero_add, one_add_one_eq_two, one_mul, mul_one]
      field_simp
      ring

/-- The dedicated `log_arity = 1` branch of `fold_one_phase` (which never materialises the row)
equals `arity2_fold_at_point` on the reconstructed row, for a boolean index bit. -/
theorem fold_arity2_path_eq (folded sib β x0 : K) (b : Bool) :
    foldArity2Path folded sib (toK b) β x0 =
      (match reconstructEvals folded [sib] [toK b] with
       | [e0, e1] => fold2 e0 e1 β x0
       | _ => 0) := by
  cases b <;> simp [foldArity2Path, reconstructEvals, fold2, sel, toK]

theorem lag4_generic (e0 e1 e2 e3 β s t ws : K) (hs : s ≠ 0) (ht : t ≠ 0) (h2 : (2 : K) ≠ 0)
    (h1 : β - s ≠ 0) (h3 : β + s ≠ 0) (h4 : β - t ≠ 0) (h5 : β + t ≠ 0) :
    (0 + e0 * (s * ws) * (β - s)⁻¹ + e1 * (-s * ws) * (β + s)⁻¹ + e2 * (t * ws) * (β - t)⁻¹ +
        e3 * (-t * ws) * (β + t)⁻¹) * ((β - s) * ((β + s) * ((β - t) * ((β + t) * 1)))) =
      ws * ((β * β - t * t) * (2 * (s * s)) * ((e0 + e1) / 2 + β * ((e0 - e1) / (2 * s))) +
            (β * β - s * s) * (2 * (t * t)) * ((e2 + e3) / 2 + β * ((e2 - e3) / (2 * t)))) := by
  field_simp
  ring

theorem brPoints2 (s ω : K) (hω : ω * ω = -1) : brPoints s ω 2 = [s, -s, s * ω, -(s * ω)] := by
  simp [brPoints, reverseBitsLen, npow, List.range_succ, hω]

theorem seqFold2 (e0 e1 e2 e3 β s ω : K) :
    seqFold 2 [e0, e1, e2, e3] β s ω = fold2 (fold2 e0 e1 β s) (fold2 e2 e3 β (s * ω)) (β * β) (s * s) := by
  simp [seqFold, foldStep, reverseBitsLen, npow, List.range_succ]

/-- Arity 4: the circuit's unrolled two-level fold equals native `lagrange_interpolate_at` on the
bit-reversed coset `s·⟨ω⟩` for a symbolic primitive 4th root of unity (`ω² = −1`) and *every* `β`,
including native's early return when `β` hits one of the four points. -/
theorem fold_arity4_eq [DecidableEq K] (e0 e1 e2 e3 β s ω : K) (hs : s ≠ 0) (h2 : (2 : K) ≠ 0)
    (hω : ω * ω = -1) :
    lagrangeAt (brPoints s ω 2) [e0, e1, e2, e3] β = seqFold 2 [e0, e1, e2, e3] β s ω := by
  have hω0 : ω ≠ 0 := by
    intro h; rw [h] at hω; simp at hω
  rw [brPoints2 s ω hω, seqFold2]
  generalize ht' : s * ω = t
  have ht0 : t ≠ 0 := by rw [← ht']; exact mul_ne_zero hs hω0
  have htt : t * t = -(s * s) := by rw [← ht']; linear_combination (s * s) * hω
  have hss : s * s ≠ 0 := mul_ne_zero hs hs
  have h4 : (4 : K) ≠ 0 := by
    have : (4 : K) = 2 * 2 := by norm_num
    rw [this]; exact mul_ne_zero h2 h2
  unfold lagrangeAt
  simp only [List.length_cons, List.length_nil, List.zip_cons_cons, List.zip_nil_right]
  by_cases c1 : β - s = 0
  · have : β = s := sub_eq_zero.mp c1
    subst this
    simp [List.find?]
    rw [fold2_eq _ _ _ _ hs h2, fold2_eq _ _ _ _ ht0 h2, fold2_eq _ _ _ _ hss h2]
    field_simp
    ring
  by_cases c2 : β - -s = 0
  · have : β = -s := sub_eq_zero.mp c2
    subst this
    simp [List.find?, c1]
    rw [fold2_eq _ _ _ _ hs h2, fold2_eq _ _ _ _ ht0 h2, fold2_eq _ _ _ _ hss h2]
    field_simp
    ring
  by_cases c3 : β - t = 0
  · have hβ : β = t := sub_eq_zero.mp c3
    simp only [List.find?, c1, c2, c3, decide_false, decide_true, Nat.reduceAdd, OfNat.ofNat_ne_zero, ↓reduceIte]
    rw [hβ, fold2_eq _ _ _ _ hs h2, fold2_eq _ _ _ _ ht0 h2, fold2_eq _ _ _ _ hss h2, htt]
    field_simp
    ring
  by_cases c4 : β - -t = 0
  · have hβ : β = -t := sub_eq_zero.mp c4
    simp only [List.find?, c1, c2, c3, c4, decide_false, decide_true, Nat.reduceAdd, OfNat.ofNat_ne_zero, ↓reduceIte]
    have hnn : -t * -t = -(s * s) := by rw [neg_mul_neg]; exact htt
    rw [hβ, fold2_eq _ _ _ _ hs h2, fold2_eq _ _ _ _ ht0 h2, fold2_eq _ _ _ _ hss h2, hnn]
    field_simp
    ring
  · simp only [List.find?, c1, c2, c3, c4, decide_false]
    simp only [Nat.reduceAdd, OfNat.ofNat_ne_zero, ↓reduceIte, List.headD_cons, List.map_cons,
      List.map_nil, prodList, List.foldl_cons, List.foldl_nil, sub_neg_eq_add]
    rw [sub_neg_eq_add] at c2 c4
    rw [lag4_generic e0 e1 e2 e3 β s t _ hs ht0 h2 c1 c2 c3 c4, htt,
      fold2_eq _ _ _ _ hs h2, fold2_eq _ _ _ _ ht0 h2, fold2_eq _ _ _ _ hss h2]
    simp only [ofNat, npow, zero_add, one_mul]
    have h1111 : (1 : K) + 1 + 1 + 1 = 4 := by norm_num
    rw [h1111]
    field_simp
    ring

/-- **Every arity.** See `seqFold_evals`. `brPoints s ω k` are native `fold_row`'s points
(`xs`, bit-reversed), `seqFold` is the circuit's fold for `log_arity = k`. -/
theorem fold_general_eq (k : Nat) (a : List K) (β s ω : K) (hlen : a.length ≤ 2 ^ k) (hs : s ≠ 0)
    (h2 : (2 : K) ≠ 0) (hω : k = 0 ∨ ω ^ (2 ^ (k - 1)) = -1) :
    seqFold k ((brPoints s ω k).map (evalPoly a)) β s ω = evalPoly a β :=
  seqFold_evals k a β s ω hlen hs h2 hω

/-! ### Row reconstruction -/

/-- Arity 2: `[select(b,s,f), select(b,f,s)]` is native's placement. -/
theorem reconstruct_arity2_eq (folded s0 : K) (b0 : Bool) :
    reconstructEvals folded [s0] [toK b0] = placeEvals folded [s0] b0.toNat 2 := by
  cases b0 <;> simp [reconstructEvals, placeEvals, sel, toK]

/-- Arity 4 closed form = native placement, for every boolean bit pair. -/
theorem reconstruct_arity4_eq (folded s0 s1 s2 : K) (b0 b1 : Bool) :
    reconstructEvals folded [s0, s1, s2] [toK b0, toK b1] =
      placeEvals folded [s0, s1, s2] (b0.toNat + 2 * b1.toNat) 4 := by
  cases b0 <;> cases b1 <;> simp [reconstructEvals, placeEvals, toK]

/-- Arity 8 closed form (`e_j = h_j·folded + s_j·Σ_{k>j}h_k + s_{j−1}·Σ_{k<j}h_k`) = native
placement, for every boolean bit triple. -/
theorem reconstruct_arity8_eq (folded s0 s1 s2 s3 s4 s5 s6 : K) (b0 b1 b2 : Bool) :
    reconstructEvals folded [s0, s1, s2, s3, s4, s5, s6] [toK b0, toK b1, toK b2] =
      placeEvals folded [s0, s1, s2, s3, s4, s5, s6] (b0.toNat + 2 * b1.toNat + 4 * b2.toNat) 8 := by
  cases b0 <;> cases b1 <;> cases b2 <;>
    simp [reconstructEvals, placeEvals, oneHot, toK, List.range_succ, List.zipIdx]

/-! ### Final polynomial -/

theorem hornerFold_eq (x : K) (cs : List K) :
    cs.reverse.foldl (fun acc c => hornerStep acc x c 0) 0 = evalPoly cs x := by
  induction cs with
  | nil => simp [evalPoly]
  | cons c cs ih =>
    simp only [List.reverse_cons, List.foldl_append, List.foldl_cons, List.foldl_nil, ih, evalPoly]
    simp only [hornerStep]
    ring

/-- `evaluate_polynomial` (with its length-1 shortcut, `HornerAcc` steps with `p_at_x = 0`)
equals native `final_poly.iter().horner(x)`. -/
theorem final_poly_eq (coeffs : List K) (x : K) : evalPolyCircuit coeffs x = evalPoly coeffs x := by
  unfold evalPolyCircuit
  split
  · simp [evalPoly]
  · exact hornerFold_eq x coeffs


/-! ### Reduced openings -/

/-- `Σᵢ αⁱ·(p(z)ᵢ − p(x)ᵢ)` over the zipped columns of one (matrix, point). -/
def wsum (α : K) : List (K × K) → K
  | [] => 0
  | c :: l => (c.2 - c.1) + α * wsum α l

theorem hornerPairs_eq (α inner : K) (l : List (K × K)) :
    l.reverse.foldl (fun acc c => hornerStep acc α c.2 c.1) inner = inner * α ^ l.length + wsum α l := by
  induction l with
  | nil => simp [wsum]
  | cons c l ih =>
    simp only [List.reverse_cons, List.foldl_append, List.foldl_cons, List.foldl_nil, ih, wsum,
      List.length_cons]
    simp only [hornerStep]
    ring

/-- The circuit's reverse Horner chain of `HornerAcc` steps over the columns of a matrix,
started from `inner`, is `inner·αⁿ + Σᵢ αⁱ (p(z)ᵢ − p(x)ᵢ)`. -/
theorem horner_cols_eq (α inner : K) (pxs pzs : List K) :
    hornerCols α inner pxs pzs = inner * α ^ (pxs.zip pzs).length + wsum α (pxs.zip pzs) :=
  hornerPairs_eq α inner (pxs.zip pzs)

/-- Native accumulation over the columns of one (matrix, point). -/
theorem native_cols_eq (α q : K) (pxs pzs : List K) (ap ro : K) :
    accumCols α q pxs pzs (ap, ro) =
      (ap * α ^ (pxs.zip pzs).length, ro + ap * q * wsum α (pxs.zip pzs)) := by
  induction pxs generalizing pzs ap ro with
  | nil => simp [accumCols, wsum]
  | cons px pxs ih =>
    cases pzs with
    | nil => simp [accumCols, wsum]
    | cons pz pzs =>
      simp only [accumCols, ih, List.zip_cons_cons, List.length_cons, wsum, Prod.mk.injEq]
      constructor <;> ring

/-- Inner value of the shared-opening-point fast path: one Horner chain across all matrices of a
height group (last matrix first). -/
def fastInner (α : K) (ms : List (List K × List K)) : K :=
  ms.reverse.foldl (fun inner m => hornerCols α inner m.1 m.2) 0

def totalCols (ms : List (List K × List K)) : Nat := (ms.map fun m => (m.1.zip m.2).length).foldl (· + ·) 0

theorem fastInner_cons (α : K) (m : List K × List K) (ms : List (List K × List K)) :
    fastInner α (m :: ms) = wsum α (m.1.zip m.2) + α ^ (m.1.zip m.2).length * fastInner α ms := by
  simp only [fastInner, List.reverse_cons, List.foldl_append, List.foldl_cons, List.foldl_nil,
    horner_cols_eq]
  ring

theorem foldl_add_shift (l : List Nat) (a : Nat) : l.foldl (· + ·) a = a + l.foldl (· + ·) 0 := by
  induction l generalizing a with
  | nil => simp
  | cons x l ih => simp only [List.foldl_cons]; rw [ih, ih (0 + x)]; omega

/-- **Shared-opening-point fast path.** For a height group whose matrices all open at the same
point (one `1/(z−x)`), the single update of the fast path
`(αᵖ, ro) ↦ (αᵖ·α^N, (αᵖ·inv)·inner + ro)` equals (a) the per-matrix fallback updates of the
circuit and (b) native's column-by-column accumulation over the same matrices in the same order,
from every starting state — for any number of matrices and any widths (width 0 included). -/
theorem open_input_fast_path_eq (α inv : K) (ms : List (List K × List K)) (ap ro : K) :
    (ms.foldl (fun (st : K × K) m => (st.1 * α ^ (m.1.zip m.2).length,
        st.2 + (st.1 * hornerCols α 0 m.1 m.2) * inv)) (ap, ro)
      = (ap * α ^ totalCols ms, (ap * inv) * fastInner α ms + ro)) ∧
    (ms.foldl (fun (st : K × K) m => accumCols α inv m.1 m.2 st) (ap, ro)
      = (ap * α ^ totalCols ms, (ap * inv) * fastInner α ms + ro)) := by
  induction ms generalizing ap ro with
  | nil => simp [totalCols, fastInner]
  | cons m ms ih =>
    have ht : totalCols (m :: ms) = (m.1.zip m.2).length + totalCols ms := by
      simp only [totalCols, List.map_cons, List.foldl_cons]
      rw [foldl_add_shift]; omega
    constructor
    · rw [List.foldl_cons, (ih _ _).1, ht, fastInner_cons]
      simp only [horner_cols_eq, Prod.mk.injEq]
      constructor <;> ring
    · rw [List.foldl_cons, native_cols_eq, (ih _ _).2, ht, fastInner_cons]
      simp only [Prod.mk.injEq]
      constructor <;> ring

/-! ### Shape validation -/

/-- **Shape validation.** The circuit accepts exactly the shapes the native verifier accepts,
*provided*: (H1) the proof has the verifier's number of queries — the circuit has no such
parameter; (H2) the schedule's log-arities are at most `max_log_arity` — the circuit has no upper
bound (the lower bound `1 ≤ log_arity` is checked by both since fixes/C07-2); (H3) every matrix has an opening point; (H4) every matrix height is the
maximum or one reached by a fold phase — otherwise the circuit constrains that reduced opening
to zero where native rejects; (H5) one beta per commitment; (H6) the field's two-adicity is at
most the 31 index bits the circuit allows (a fact about the field, not about the proof).
Each of H1, H2, H4 is necessary: `P3R.C07.Witness.*`, and the corresponding inputs are replayed on
the real code.

Two former hypotheses are gone because the code now establishes them itself: "at least one fold
phase" (old H7; repo fix 0e5036a for C07-F4 — the statement now covers proofs without fold
phase) and "`log_max_height ≤` two-adicity" (second half of the old H6; repo fix c030fca for F9i —
`verify_circuit` checks it, see `height_above_two_adicity_rejected_by_both`). -/
theorem fri_shape_iff (sv : ShapeVec)
    (H1 : sv.queries.length = sv.p.numQueries)
    (H2 : ∀ la ∈ sv.firstArities, la ≤ sv.p.maxLogArity)
    (H3 : ∀ b ∈ sv.batches, ∀ m ∈ b, m.2 ≠ [])
    (H4 : ∀ h ∈ sv.heights, h = sv.logMax ∨ h ∈ sv.foldedHeights)
    (H5 : sv.numBetas = sv.numCommits)
    (H6 : sv.twoAdicity ≤ 31) :
    CircuitShapeOk sv ↔ NativeShapeOk sv := by
  constructor
  · rintro ⟨_, ctwo, _, c3, _, cpos, c5, c7, c8, c9, c10, c11⟩
    refine ⟨?_, ?_, ?_, ?_, ctwo, c10, c11, ?_, c8, H1, c9, H3, ?_, H4⟩
    · intro h
      rw [h] at H1
      exact c5 (List.eq_nil_of_length_eq_zero H1)
    · intro q hq; rw [(c7 q hq).1, H5]
    · intro q hq la hla; rw [(c7 q hq).2.1] at hla; exact ⟨cpos la hla, H2 la hla⟩
    · intro q hq; exact (c7 q hq).2.1
    · rw [← c3, H5]
    · intro q hq; exact (c7 q hq).2.2
  · rintro ⟨n1, n2, n3, n4, n5, n6, n7, n8, n9, n10, n11, _, n13, _⟩
    have hne : sv.queries ≠ [] := by
      intro h
      rw [h] at n10
      exact n1 n10.symm
    obtain ⟨q0, rest, hq⟩ := List.exists_cons_of_ne_nil hne
    have hfa : sv.firstArities = q0.arities := by simp [ShapeVec.firstArities, hq]
    have hq0 : q0 ∈ sv.queries := by rw [hq]; exact List.mem_cons_self
    refine ⟨le_trans n5 H6, n5, H5, by rw [H5, n8], ?_, ?_, hne, ?_, n9, n11, n6, n7⟩
    · rw [hfa, H5]
      exact n2 q0 hq0
    · intro la hla
      rw [hfa] at hla
      exact (n3 q0 hq0 la hla).1
    · intro q hq
      exact ⟨by rw [H5]; exact n2 q hq, n4 q hq, n13 q hq⟩

/-- Regression for F9i (repo fix c030fca), for *every* shape vector: a `log_max_height` above the
field's two-adicity is refused by the circuit side (`InvalidProofShape` in `verify_circuit`; it
used to reach `two_adic_generator`'s assertion for 28..=31 on BabyBear) as by native
(`GlobalMaxHeightTooLarge`). -/
theorem height_above_two_adicity_rejected_by_both (sv : ShapeVec) (h : sv.twoAdicity < sv.logMax) :
    ¬ CircuitShapeOk sv ∧ ¬ NativeShapeOk sv := by
  constructor
  · rintro ⟨_, c, _⟩; omega
  · rintro ⟨_, _, _, _, n5, _⟩; omega

/-- Regression for F9d (repo fix fc0321f), for *every* shape vector: a query whose sibling counts
do not match its schedule (`2^log_arity − 1` values per phase) is refused by the circuit side
(`verify_fri_circuit`'s checked comparison; the targets are now allocated from the proof's own
count, not from `2^log_arity`) as by native (`SiblingValuesLengthMismatch`). -/
theorem sibling_count_mismatch_rejected_by_both (sv : ShapeVec) (q : QShape) (hq : q ∈ sv.queries)
    (h : ¬ SibsOk q) : ¬ CircuitShapeOk sv ∧ ¬ NativeShapeOk sv := by
  constructor
  · rintro ⟨_, _, _, _, _, _, _, c7, _⟩; exact h (c7 q hq).2.2
  · rintro ⟨_, _, _, _, _, _, _, _, _, _, _, _, n13, _⟩; exact h (n13 q hq)

/-! ### Final query point -/

theorem reverseBitsLen_zero (t : Nat) : reverseBitsLen 0 t = 0 := by
  induction t with
  | zero => rfl
  | succ t ih => simp [reverseBitsLen, ih]

/-- Reversing a number of `len` bits inside a window of `len + t` bits shifts the reversal up. -/
theorem reverseBitsLen_widen (n len t : Nat) (h : n < 2 ^ len) :
    reverseBitsLen n (len + t) = reverseBitsLen n len * 2 ^ t := by
  induction len generalizing n with
  | zero =>
    have : n = 0 := by simpa using h
    subst this
    simp [reverseBitsLen_zero, reverseBitsLen]
  | succ len ih =>
    have h2 : n / 2 < 2 ^ len := by
      rw [pow_succ] at h; omega
    have e : len + 1 + t = (len + t) + 1 := by omega
    rw [e]
    simp only [reverseBitsLen]
    rw [ih _ h2, pow_add]
    ring

theorem selChain_replicate_zero [DecidableEq K] (g : K) (t : Nat) (l : List K) :
    selChain g (List.replicate t (0 : K) ++ l) = selChain (g ^ 2 ^ t) l := by
  induction t generalizing g with
  | zero => simp
  | succ t ih =>
    simp only [List.replicate_succ, List.cons_append, selChain, ih]
    have : sel (0 : K) g 1 = 1 := by simp [sel]
    rw [this, one_mul, ← pow_two, ← pow_mul, pow_succ, Nat.mul_comm]

/-- **`compute_final_query_point`, every arity schedule.** With `total = Σ log_arities` bits consumed
by folding, the circuit's chain (zeros for the consumed positions, then the remaining index bits
reversed) is native's `two_adic_generator(log_max)^{reverse_bits_len(index >> total, log_max)}` —
the point at which `verify_fri` evaluates the final polynomial. (`total = 0`, no fold phase:
`final_point_zero_phase`, which needs no bound on the index.) -/
theorem final_point_eq [DecidableEq K] (env : Env K) (logMax total index : Nat) (ht : total ≤ logMax)
    (hi : index < 2 ^ logMax) :
    finalPointC env (indexBits logMax index) logMax total =
      env.tw logMax ^ reverseBitsLen (index / 2 ^ total) logMax := by
  obtain ⟨L, rfl⟩ : ∃ L, logMax = L + total := ⟨logMax - total, by omega⟩
  have hlen : (indexBits (L + total) index : List K).length = L + total := by simp [indexBits]
  have hn : index / 2 ^ total < 2 ^ L := by
    rw [Nat.div_lt_iff_lt_mul (by positivity), ← pow_add]; exact hi
  rw [reverseBitsLen_widen _ _ _ hn, Nat.mul_comm, pow_mul]
  have h := query_index_eq (env.tw (L + total) ^ 2 ^ total) index total L
  rw [← h]
  unfold finalPointC
  simp only [Nat.add_sub_cancel]
  rw [List.take_of_length_le (l := List.drop total _) (by simp [hlen]),
    List.take_of_length_le (by simp [hlen]; omega), selChain_replicate_zero]
  congr 1
  unfold indexBits
  rw [← List.map_drop]
  apply List.ext_getElem
  · simp
  · intro i h1 h2
    simp only [List.length_reverse, List.length_map, List.length_drop, List.length_range] at h1
    simp only [List.getElem_reverse, List.getElem_map, List.getElem_drop, List.getElem_range,
      List.length_map, List.length_drop, List.length_range, bitK]
    have : total + (L + total - total - 1 - i) = total + L - 1 - i := by omega
    rw [this]

/-! ### A proof without fold phase (repo fix 0e5036a, finding C07-F4)

When every committed matrix already has the final polynomial's height the honest proof has no
commit phase. Both verifiers then compare the first reduced opening with the final polynomial
directly; the theorems below say so for the two models, for every field, final polynomial,
index and height. -/

/-- The circuit's fold chain over no phase is the initial reduced opening, no constraint added. -/
theorem fold_chain_zero_phase [DecidableEq K] (env : Env K) (bits betas starts : List K)
    (rollIns : List (Nat × K)) (consumed : Nat) (ro0 : K) :
    foldChainC env bits betas starts rollIns [] consumed ro0 = pure ro0 := rfl

/-- `precompute_subgroup_starts` over the empty schedule: no start (the code returns early). -/
theorem subgroup_starts_zero_phase [DecidableEq K] (env : Env K) (bits : List K) (logMax : Nat) :
    subgroupStartsC env bits logMax [] = [] := by
  simp [subgroupStartsC]

theorem range_map_reverse {α : Type} (f : Nat → α) (L : Nat) :
    ((List.range L).map f).reverse = (List.range L).map fun j => f (L - 1 - j) := by
  apply List.ext_getElem
  · simp
  · intro i h1 h2
    simp only [List.length_reverse, List.length_map, List.length_range] at h1
    simp only [List.getElem_reverse, List.getElem_map, List.getElem_range, List.length_map,
      List.length_range]

/-- `compute_final_query_point` with no bit consumed by folding: the chain over all index bits is
native's `g^{reverse_bits_len(index, log_max)}` (`domain_index = index >> 0`). -/
theorem final_point_zero_phase [DecidableEq K] (env : Env K) (logMax index : Nat) :
    finalPointC env (indexBits logMax index) logMax 0 = env.tw logMax ^ reverseBitsLen index logMax := by
  have hlen : (indexBits logMax index : List K).length = logMax := by simp [indexBits]
  have h := query_index_eq (env.tw logMax) index 0 logMax
  simp only [Nat.zero_add, pow_zero, Nat.div_one] at h
  rw [← h]
  unfold finalPointC
  simp only [List.replicate_zero, List.nil_append, List.drop_zero, Nat.sub_zero]
  rw [List.take_of_length_le (l := indexBits logMax index) (by rw [hlen]),
    List.take_of_length_le (by simp [hlen])]
  congr 1
  unfold indexBits
  rw [range_map_reverse]
  rfl

/-- Native `verify_query` over no round: the checks left are the initial height, the final height
and "no reduced opening left over"; the folded value is the first reduced opening. -/
theorem verify_query_zero_phase [DecidableEq K] (env : Env K) (p : Params) (index logMax logFinal : Nat)
    (ro0 : K) :
    verifyQuery env p index [] [(logMax, ro0)] logMax logFinal =
      if logMax ≠ logFinal then .error .finalFoldHeightMismatch else .ok ro0 := by
  unfold verifyQuery
  by_cases h : logMax = logFinal <;> simp [h] <;> rfl

theorem need_run (b : Bool) (s : CS) : (need b).run s = .ok ((), { unsat := s.unsat || !b }) := rfl

/-- Roll-in map with no fold phase: every reduced opening below the maximum height is constrained
to zero, no roll-in. -/
theorem roll_ins_zero_phase [DecidableEq K] (rest acc : List (Nat × K)) (s : CS) :
    (rollInsC [] rest acc).run s = .ok (acc, { unsat := s.unsat || rest.any (fun e => decide (e.2 ≠ 0)) }) := by
  induction rest generalizing s with
  | nil => simp [rollInsC]; rfl
  | cons e rest ih =>
    obtain ⟨h, ro⟩ := e
    simp only [rollInsC, List.idxOf?_nil]
    show (do need (decide (ro = 0)); rollInsC [] rest acc : CM _).run s = _
    rw [StateT.run_bind, need_run]
    simp only [ih]
    show Except.ok _ = Except.ok _
    simp [Bool.or_assoc]

/-- Circuit side, no fold phase, any list of further reduced openings: each of those is forced to
zero (no phase can take it), and the one at the maximum height must equal the final polynomial at
`g^{reverse_bits_len(index, log_max)}`. (Native instead *rejects* a non-empty `rest` —
`UnconsumedReducedOpenings`, finding C07-F5, independent of the number of phases.) -/
theorem query_tail_zero_phase [DecidableEq K] (env : Env K) (logMax index : Nat) (finalPoly : List K)
    (phases : List (Phase K)) (ro0 : K) (rest : List (Nat × K)) (s : CS) :
    (queryTailC env logMax 0 [] [] finalPoly (indexBits logMax index) phases ((logMax, ro0) :: rest)).run s =
      .ok ((), { unsat := s.unsat || rest.any (fun e => decide (e.2 ≠ 0)) ||
                  !decide (ro0 = evalPoly finalPoly (env.tw logMax ^ reverseBitsLen index logMax)) }) := by
  unfold queryTailC
  simp only [List.length_nil, List.range_zero, List.map_nil, List.zip_nil_left, ne_eq, not_true_eq_false,
    ↓reduceIte]
  rw [StateT.run_bind, roll_ins_zero_phase]
  show StateT.run (do
      let folded ← foldChainC env (indexBits logMax index) [] (subgroupStartsC env (indexBits logMax index) logMax [])
        [] [] 0 ro0
      need (decide (folded = evalPolyCircuit finalPoly (finalPointC env (indexBits logMax index) logMax 0))) : CM Unit)
      { unsat := s.unsat || rest.any fun e => decide (e.2 ≠ 0) } = _
  rw [fold_chain_zero_phase, pure_bind, need_run, final_poly_eq, final_point_zero_phase]

/-- Native side, no commit phase: the final polynomial at the query's domain point against the
first reduced opening. -/
theorem query_check_zero_phase [DecidableEq K] (env : Env K) (p : Params) (logMax index : Nat) (finalPoly : List K)
    (phases : List (Phase K)) (ro0 : K) :
    queryCheckN env p [] 0 finalPoly 0 logMax logMax index phases [(logMax, ro0)] =
      if evalPoly finalPoly (env.tw logMax ^ reverseBitsLen index logMax) ≠ ro0 then .error .finalPolyMismatch
      else .ok () := by
  unfold queryCheckN
  simp only [List.range_zero, List.map_nil, List.zip_nil_left, verify_query_zero_phase, ne_eq,
    not_true_eq_false, ↓reduceIte, pow_zero, Nat.div_one, npow_eq]
  rfl

/-- **No fold phase: the two verifiers make the same comparison.** For a proof without commit
phase whose only reduced opening sits at the maximum height (`log_max = log_blowup +
log_final_poly_len`, what `fri_shape_iff`'s H4 gives for an empty schedule), the circuit's query
tail adds no violated constraint exactly when native's per-query check passes — for every field,
index, final polynomial (any length) and reduced opening. With `open_input` (theorems
`open_input_fast_path_eq`, `horner_cols_eq`, `native_cols_eq`) this is the whole arithmetic of such
a proof; `Witness.zero_phase_altered_final_poly_rejected_by_both` instantiates the rejection. -/
theorem zero_phase_query_agree [DecidableEq K] (env : Env K) (p : Params) (logMax index : Nat) (finalPoly : List K)
    (phases : List (Phase K)) (ro0 : K) :
    (queryTailC env logMax 0 [] [] finalPoly (indexBits logMax index) phases [(logMax, ro0)]).run {} =
        .ok ((), { unsat := false }) ↔
      queryCheckN env p [] 0 finalPoly 0 logMax logMax index phases [(logMax, ro0)] = .ok () := by
  rw [query_tail_zero_phase, query_check_zero_phase]
  by_cases h : ro0 = evalPoly finalPoly (env.tw logMax ^ reverseBitsLen index logMax)
  · simp [h]
  · have h' : ¬ evalPoly finalPoly (env.tw logMax ^ reverseBitsLen index logMax) = ro0 := fun e => h e.symm
    simp [h, h']

end P3R.C07
