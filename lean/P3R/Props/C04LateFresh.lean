/-
C04 / C09 — `compile_lateFresh`: the one syntactic hypothesis that `C04NoSkip` left open.

`C04N.lateFresh ops`: no `Const` / `Public` row placed after the first ALU row carries the slot of a hint
output.  This file derives it for the compiled op list of every builder state with `connectsOk`
(a consequence of `BState.Ok`), in three steps:

(A) an invariant through the four passes of `lower` (`Inv`): the slot of every `Const` row emitted by
    `emit_operations` (pass 4; the only one is the `mul − const` fast-path constant, allocated for the synthetic
    id `nodes.len()`) is below `next` and *unused*: not in the range of `expr_to_widx`, not in the range of the
    connect-class table, not an ALU `out`, not a hint output; no `Public` row is emitted by pass 4;
    passes 1–3 emit no ALU row.  (`lower_lateP`)
(B) `dedup`: keys and values of every rewrite map it builds are `out` slots of ALU rows (closed under the
    maps), so an unused slot is a fixed point of every map and nothing is mapped onto it; non-ALU rows are
    all kept, in order.  (`dedup_lateP`)
(C) `fuse`: rows that are not ALU rows are kept verbatim and in order; a fused row is an ALU row.
    (`fuse_lateP`)

Then `compile_lateFresh`, and the capstones of `C04NoSkip` without the `_partial` suffix:
`compiled_no_skip`, `e2e_soundness_reachable'`, `e2e_roundtrip_reachable'`.
-/
import P3R.Props.C04NoSkip

set_option linter.unusedSectionVars false

namespace P3R.C04L
open P3R P3R.C02T P3R.C02S P3R.C02O P3R.C09C P3R.C03 P3R.C04N

variable {K : Type}

/-! ### Slots named as the `out` of an ALU row -/

def aluOut : Op K → List Nat
  | .alu _ _ _ _ out _ => [out]
  | _ => []

def aluOuts (l : List (Op K)) : List Nat := l.flatMap aluOut

theorem aluOuts_append (l1 l2 : List (Op K)) : aluOuts (l1 ++ l2) = aluOuts l1 ++ aluOuts l2 := by
  simp [aluOuts]

theorem Hall_append (l1 l2 : List (Op K)) : Hall (l1 ++ l2) = Hall l1 ++ Hall l2 := by
  simp [Hall]

theorem mem_aluOuts {l : List (Op K)} {x : Nat} :
    x ∈ aluOuts l ↔ ∃ op ∈ l, x ∈ aluOut op := by
  simp [aluOuts]

theorem mem_Hall {l : List (Op K)} {x : Nat} :
    x ∈ Hall l ↔ ∃ op ∈ l, x ∈ hintOuts op := by
  simp [Hall]

/-- The list-level statement that is carried through `lower`, `dedup` and `fuse`: a leading block without
ALU rows; behind it, the `out` of a `Const` / `Public` row is no hint output (and not in `A`). -/
def LateP (A : Nat → Prop) (L : List (Op K)) : Prop :=
  ∃ pre body, L = pre ++ body ∧ (∀ op ∈ pre, isAluOp op = false) ∧
    ∀ op ∈ body, isAluOp op = false → ∀ x, outSlot op = some x → x ∉ Hall L ∧ ¬ A x

/-! ### (A) The lowering -/

/-- A slot that something names: an entry of `expr_to_widx`, of the connect-class table, a hint output
or the `out` of an ALU row. -/
def Used (s : LState K) (x : Nat) : Prop :=
  (∃ e, s.e2w.getD e none = some x) ∨ (∃ r, s.rootW.getD r none = some x) ∨
  x ∈ Hall s.ops.toList ∨ x ∈ aluOuts s.ops.toList

structure Bnd (n : Nat) (s : LState K) : Prop where
  ub : ∀ x, Used s x → x < s.next
  esz : s.e2w.size = n + 1
  nc : s.inConnect.getD n false = false

/-- The rows from position `m` on: no `Public` row; the slot of a `Const` row is allocated and unused. -/
structure Late (m : Nat) (s : LState K) : Prop where
  le : m ≤ s.ops.toList.length
  np : ∀ o p, (.pub o p : Op K) ∉ s.ops.toList.drop m
  fr : ∀ x v, (.const x v : Op K) ∈ s.ops.toList.drop m → x < s.next ∧ ¬ Used s x

def Inv (n m : Nat) (s : LState K) : Prop := Bnd n s ∧ Late m s

/-- An allocated slot that is not the slot of a late `Const` row: it may be named. -/
def Safe (m : Nat) (s : LState K) (w : Nat) : Prop :=
  w < s.next ∧ ∀ v, (.const w v : Op K) ∉ s.ops.toList.drop m

theorem Bnd.step {n : Nat} {s s' : LState K} (hB : Bnd n s) (hnext : s.next ≤ s'.next)
    (hesz : s'.e2w.size = s.e2w.size) (hnc : s'.inConnect = s.inConnect)
    (hused : ∀ x, Used s' x → Used s x ∨ x < s'.next) : Bnd n s' := by
  refine ⟨fun x hx => ?_, hesz.trans hB.esz, by rw [hnc]; exact hB.nc⟩
  rcases hused x hx with h | h
  · exact Nat.lt_of_lt_of_le (hB.ub x h) hnext
  · exact h

theorem Inv.step {n m : Nat} {s s' : LState K} (hI : Inv n m s) (added : List (Op K))
    (hops : s'.ops.toList = s.ops.toList ++ added) (hnext : s.next ≤ s'.next)
    (hesz : s'.e2w.size = s.e2w.size) (hnc : s'.inConnect = s.inConnect)
    (hused : ∀ x, Used s' x → Used s x ∨ (x < s'.next ∧
      (∀ v, (.const x v : Op K) ∉ s.ops.toList.drop m) ∧ ∀ v, (.const x v : Op K) ∉ added))
    (hnp : ∀ o p, (.pub o p : Op K) ∉ added)
    (hfr : ∀ x v, (.const x v : Op K) ∈ added → x < s'.next ∧ ¬ Used s' x) : Inv n m s' := by
  have hdrop : s'.ops.toList.drop m = s.ops.toList.drop m ++ added := by
    rw [hops, List.drop_append_of_le_length hI.2.le]
  refine ⟨hI.1.step hnext hesz hnc (fun x hx => ?_), ?_, ?_, ?_⟩
  · rcases hused x hx with h | h
    · exact Or.inl h
    · exact Or.inr h.1
  · rw [hops, List.length_append]
    exact Nat.le_trans hI.2.le (Nat.le_add_right _ _)
  · intro o p hm
    rw [hdrop] at hm
    rcases List.mem_append.mp hm with h | h
    · exact hI.2.np o p h
    · exact hnp o p h
  · intro x v hm
    rw [hdrop] at hm
    rcases List.mem_append.mp hm with h | h
    · refine ⟨Nat.lt_of_lt_of_le (hI.2.fr x v h).1 hnext, fun hu => ?_⟩
      rcases hused x hu with h1 | h1
      · exact (hI.2.fr x v h).2 h1
      · exact h1.2.1 v h
    · exact hfr x v h

theorem Safe.of_used {n m : Nat} {s : LState K} (hI : Inv n m s) {x : Nat} (hu : Used s x) :
    Safe m s x :=
  ⟨hI.1.ub x hu, fun v hv => (hI.2.fr x v hv).2 hu⟩

theorem Inv.congr {n m : Nat} {s s' : LState K} (hI : Inv n m s) (h1 : s'.e2w = s.e2w)
    (h2 : s'.rootW = s.rootW) (h3 : s'.next = s.next) (h4 : s'.ops = s.ops)
    (h5 : s'.inConnect = s.inConnect) : Inv n m s' := by
  refine hI.step [] (by rw [h4, List.append_nil]) (Nat.le_of_eq h3.symm) (by rw [h1]) h5 ?_ (by simp) (by simp)
  intro x hx
  left
  unfold Used at hx ⊢
  rw [h1, h2, h4] at hx
  exact hx

theorem Bnd.congr {n : Nat} {s s' : LState K} (hB : Bnd n s) (h1 : s'.e2w = s.e2w)
    (h2 : s'.rootW = s.rootW) (h3 : s'.next = s.next) (h4 : s'.ops = s.ops)
    (h5 : s'.inConnect = s.inConnect) : Bnd n s' := by
  refine hB.step (Nat.le_of_eq h3.symm) (by rw [h1]) h5 ?_
  intro x hx
  left
  unfold Used at hx ⊢
  rw [h1, h2, h4] at hx
  exact hx

/-- `alloc_witness`, structurally: the slot of the class (already in the table) or the next free slot. -/
theorem alloc_cases {s s1 : LState K} {e w : Nat} (h : s.allocWitness e = (s1, w)) :
    s1.ops = s.ops ∧ s1.e2w = s.e2w ∧ s1.inConnect = s.inConnect ∧
    ((s1 = s ∧ ∃ r, s.rootW.getD r none = some w) ∨
     (w = s.next ∧ s1.next = s.next + 1 ∧
       ∀ r x, s1.rootW.getD r none = some x → s.rootW.getD r none = some x ∨ x = s.next)) := by
  unfold LState.allocWitness at h
  by_cases hc : s.inConnect.getD e false = true
  · simp only [hc, if_true] at h
    cases hr : s.rootW.getD (s.rep.getD e e) none with
    | some w0 =>
      simp only [hr] at h
      obtain ⟨rfl, rfl⟩ := Prod.mk.inj h
      exact ⟨rfl, rfl, rfl, Or.inl ⟨rfl, _, hr⟩⟩
    | none =>
      simp only [hr] at h
      obtain ⟨rfl, rfl⟩ := Prod.mk.inj h
      refine ⟨rfl, rfl, rfl, Or.inr ⟨rfl, rfl, ?_⟩⟩
      intro r x hx
      simp only at hx
      rw [getD_setIfInBounds] at hx
      split at hx
      · cases hx; exact Or.inr rfl
      · exact Or.inl hx
  · simp only [hc] at h
    obtain ⟨rfl, rfl⟩ := Prod.mk.inj h
    exact ⟨rfl, rfl, rfl, Or.inr ⟨rfl, rfl, fun r x hx => Or.inl hx⟩⟩

/-- The synthetic id `nodes.len()` is in no connect class: its slot is the next free one. -/
theorem alloc_fresh {n : Nat} {s s1 : LState K} {w : Nat} (hnc : s.inConnect.getD n false = false)
    (h : s.allocWitness n = (s1, w)) :
    w = s.next ∧ s1.next = s.next + 1 ∧ s1.rootW = s.rootW := by
  unfold LState.allocWitness at h
  simp only [hnc, Bool.false_eq_true, if_false] at h
  obtain ⟨rfl, rfl⟩ := Prod.mk.inj h
  exact ⟨rfl, rfl, rfl⟩

theorem used_alloc {s s1 : LState K} {e w : Nat} (h : s.allocWitness e = (s1, w)) :
    ∀ x, Used s1 x → Used s x ∨ (x = s.next ∧ s1.next = s.next + 1) := by
  obtain ⟨h1, h2, _, hc⟩ := alloc_cases h
  intro x hx
  rcases hc with ⟨rfl, _⟩ | ⟨_, hn, hr⟩
  · exact Or.inl hx
  · unfold Used at hx ⊢
    rw [h1, h2] at hx
    rcases hx with hx | ⟨r, hx⟩ | hx
    · exact Or.inl (Or.inl hx)
    · rcases hr r x hx with h' | h'
      · exact Or.inl (Or.inr (Or.inl ⟨r, h'⟩))
      · exact Or.inr ⟨h', hn⟩
    · exact Or.inl (Or.inr (Or.inr hx))

theorem next_alloc {s s1 : LState K} {e w : Nat} (h : s.allocWitness e = (s1, w)) :
    s.next ≤ s1.next := by
  obtain ⟨_, _, _, hc⟩ := alloc_cases h
  rcases hc with ⟨rfl, _⟩ | ⟨_, hn, _⟩
  · exact Nat.le_refl _
  · omega

theorem Bnd.alloc {n : Nat} {s s1 : LState K} {e w : Nat} (hB : Bnd n s)
    (h : s.allocWitness e = (s1, w)) :
    Bnd n s1 ∧ w < s1.next ∧ s1.ops = s.ops ∧ s1.e2w = s.e2w := by
  obtain ⟨h1, h2, h3, hc⟩ := alloc_cases h
  refine ⟨hB.step (next_alloc h) (by rw [h2]) h3 (fun x hx => ?_), ?_, h1, h2⟩
  · rcases used_alloc h x hx with h' | ⟨h', hn⟩
    · exact Or.inl h'
    · exact Or.inr (by omega)
  · rcases hc with ⟨rfl, r, hr⟩ | ⟨hw, hn, _⟩
    · exact hB.ub w (Or.inr (Or.inl ⟨r, hr⟩))
    · omega

theorem Inv.alloc {n m : Nat} {s s1 : LState K} {e w : Nat} (hI : Inv n m s)
    (h : s.allocWitness e = (s1, w)) :
    Inv n m s1 ∧ Safe m s1 w ∧ s1.ops = s.ops ∧ s1.e2w = s.e2w ∧
      (∀ a, Safe m s a → Safe m s1 a) := by
  obtain ⟨h1, h2, h3, hc⟩ := alloc_cases h
  have hlate : ∀ x v, (.const x v : Op K) ∈ s.ops.toList.drop m → x ≠ s.next := by
    intro x v hm he
    have := (hI.2.fr x v hm).1
    omega
  have hI1 : Inv n m s1 := by
    refine hI.step [] (by rw [h1]; simp) (next_alloc h) (by rw [h2]) h3 (fun x hx => ?_) (by simp) (by simp)
    rcases used_alloc h x hx with h' | ⟨h', hn⟩
    · exact Or.inl h'
    · exact Or.inr ⟨by omega, fun v hm => hlate x v hm h', by simp⟩
  refine ⟨hI1, ?_, h1, h2, ?_⟩
  · rcases hc with ⟨rfl, r, hr⟩ | ⟨hw, hn, _⟩
    · exact Safe.of_used hI (Or.inr (Or.inl ⟨r, hr⟩))
    · refine ⟨by omega, fun v hm => ?_⟩
      rw [h1] at hm
      exact hlate w v hm hw
  · intro a ha
    refine ⟨Nat.lt_of_lt_of_le ha.1 (next_alloc h), fun v hm => ?_⟩
    rw [h1] at hm
    exact ha.2 v hm

theorem used_setW {s : LState K} {e w : Nat} :
    ∀ x, Used (s.setW e w) x → Used s x ∨ x = w := by
  intro x hx
  unfold Used at hx ⊢
  rcases hx with ⟨e', hx⟩ | hx
  · simp only [LState.setW] at hx
    rw [getD_setIfInBounds] at hx
    split at hx
    · cases hx; exact Or.inr rfl
    · exact Or.inl (Or.inl ⟨e', hx⟩)
  · exact Or.inl (Or.inr hx)

theorem Bnd.setW {n : Nat} {s : LState K} (hB : Bnd n s) {e w : Nat} (hw : w < s.next) :
    Bnd n (s.setW e w) := by
  refine hB.step (Nat.le_refl _) (by simp [LState.setW]) rfl (fun x hx => ?_)
  rcases used_setW x hx with h | rfl
  · exact Or.inl h
  · exact Or.inr hw

theorem Inv.setW {n m : Nat} {s : LState K} (hI : Inv n m s) {e w : Nat} (hw : Safe m s w) :
    Inv n m (s.setW e w) := by
  refine hI.step [] (by simp [LState.setW]) (Nat.le_refl _) (by simp [LState.setW]) rfl
    (fun x hx => ?_) (by simp) (by simp)
  rcases used_setW x hx with h | rfl
  · exact Or.inl h
  · exact Or.inr ⟨hw.1, hw.2, by simp⟩

theorem used_push {s : LState K} {op : Op K} :
    ∀ x, Used (s.pushOp op) x → Used s x ∨ x ∈ hintOuts op ∨ x ∈ aluOut op := by
  intro x hx
  unfold Used at hx ⊢
  simp only [LState.pushOp, Array.toList_push, Hall_append, aluOuts_append, List.mem_append] at hx
  rcases hx with hx | hx | hx | hx
  · exact Or.inl (Or.inl hx)
  · exact Or.inl (Or.inr (Or.inl hx))
  · rcases hx with hx | hx
    · exact Or.inl (Or.inr (Or.inr (Or.inl hx)))
    · exact Or.inr (Or.inl (by simpa [Hall] using hx))
  · rcases hx with hx | hx
    · exact Or.inl (Or.inr (Or.inr (Or.inr hx)))
    · exact Or.inr (Or.inr (by simpa [aluOuts] using hx))

/-- Pushing a row whose named slots (hint outputs, ALU `out`) are allocated. -/
theorem Bnd.push {n : Nat} {s : LState K} (hB : Bnd n s) (op : Op K)
    (ho : ∀ x, x ∈ hintOuts op ∨ x ∈ aluOut op → x < s.next) : Bnd n (s.pushOp op) := by
  refine hB.step (Nat.le_refl _) rfl rfl (fun x hx => ?_)
  rcases used_push x hx with h | h
  · exact Or.inl h
  · exact Or.inr (ho x h)

/-- Pushing a row that is neither `Const` nor `Public` and whose named slots are safe. -/
theorem Inv.push {n m : Nat} {s : LState K} (hI : Inv n m s) (op : Op K)
    (hc : ∀ x v, op ≠ .const x v) (hp : ∀ o p, op ≠ .pub o p)
    (ho : ∀ x, x ∈ hintOuts op ∨ x ∈ aluOut op → Safe m s x) : Inv n m (s.pushOp op) := by
  refine hI.step [op] (by simp [LState.pushOp]) (Nat.le_refl _) rfl rfl (fun x hx => ?_) ?_ ?_
  · rcases used_push x hx with h | h
    · exact Or.inl h
    · refine Or.inr ⟨(ho x h).1, (ho x h).2, fun v hm => ?_⟩
      exact hc x v (List.mem_singleton.mp hm).symm
  · intro o p hm
    exact hp o p (List.mem_singleton.mp hm).symm
  · intro x v hm
    exact absurd (List.mem_singleton.mp hm).symm (hc x v)

theorem Inv.pushAlu {n m : Nat} {s : LState K} (hI : Inv n m s) (k : AluKind) (a b : Nat) (c : Option Nat)
    {out : Nat} (io : Option Nat) (ho : Safe m s out) : Inv n m (s.pushOp (.alu k a b c out io)) := by
  refine hI.push _ (fun _ _ h => by cases h) (fun _ _ h => by cases h) (fun x hx => ?_)
  rcases hx with hx | hx
  · simp [hintOuts] at hx
  · simp only [aluOut, List.mem_singleton] at hx
    rw [hx]; exact ho

/-- Pushing the fast-path constant on a slot that is allocated and unused. -/
theorem Inv.pushConst {n m : Nat} {s : LState K} (hI : Inv n m s) {x : Nat} (v : K) (hlt : x < s.next)
    (hnu : ¬ Used s x) : Inv n m (s.pushOp (.const x v)) := by
  have hu : ∀ y, Used (s.pushOp (.const x v)) y → Used s y := by
    intro y hy
    rcases used_push y hy with h | h | h
    · exact h
    · simp [hintOuts] at h
    · simp [aluOut] at h
  refine hI.step [.const x v] (by simp [LState.pushOp]) (Nat.le_refl _) rfl rfl
    (fun y hy => Or.inl (hu y hy)) ?_ ?_
  · intro o p hm
    cases List.mem_singleton.mp hm
  · intro y v' hm
    have := List.mem_singleton.mp hm
    cases this
    exact ⟨hlt, fun h => hnu (hu x h)⟩

theorem Safe.push {m : Nat} {s : LState K} {a : Nat} (ha : Safe m s a) (op : Op K)
    (hc : ∀ v, op ≠ .const a v) : Safe m (s.pushOp op) a := by
  refine ⟨ha.1, fun v hm => ?_⟩
  simp only [LState.pushOp, Array.toList_push, List.drop_append] at hm
  rcases List.mem_append.mp hm with h | h
  · exact ha.2 v h
  · have := List.mem_of_mem_drop h
    exact hc v (List.mem_singleton.mp this).symm

theorem Safe.setW {m : Nat} {s : LState K} {a : Nat} (ha : Safe m s a) (e w : Nat) :
    Safe m (s.setW e w) a := ha

/-- One allocation for node `i`, one ALU row whose `out` is safe, `i ↦ w` recorded. -/
theorem Inv.aluStep {n m : Nat} {s s1 : LState K} {i w : Nat} (hI : Inv n m s)
    (hal : s.allocWitness i = (s1, w)) (k : AluKind) (a b : Nat) (c : Option Nat) {o : Nat}
    (io : Option Nat) (ho : Safe m s1 o) :
    Inv n m ((s1.pushOp (.alu k a b c o io)).setW i w) := by
  obtain ⟨hI1, hsw, _⟩ := hI.alloc hal
  exact (hI1.pushAlu k a b c io ho).setW (hsw.push _ (fun _ h => by cases h))

theorem Safe.of_resolve [Neg K] {n m : Nat} {s : LState K} (hI : Inv n m s) {l a : Nat}
    (h : s.resolve l = .ok a) : Safe m s a :=
  Safe.of_used hI (Or.inl ⟨l, resolve_ok.mp h⟩)

/-! #### Pass 4 -/

section emit
variable [Neg K]

theorem prealloc_inv {n m : Nat} (outs : List (Nat × Nat)) :
    ∀ s : LState K, Inv n m s → (∀ o ∈ outs, o.2 < n + 1) →
      let sb := outs.foldl (fun (st : LState K) (o : Nat × Nat) =>
        match st.e2w.getD o.2 none with
        | some _ => st
        | none => let (st', w) := st.allocWitness o.2; st'.setW o.2 w) s
      Inv n m sb ∧ (∀ x, (∃ v, s.e2w.getD x none = some v) → ∃ v, sb.e2w.getD x none = some v) ∧
        ∀ o ∈ outs, ∃ v, sb.e2w.getD o.2 none = some v := by
  induction outs with
  | nil => intro s hI _; exact ⟨hI, fun _ h => h, by simp⟩
  | cons o rest ih =>
    intro s hI hsz
    simp only [List.foldl_cons]
    cases hv : s.e2w.getD o.2 none with
    | some w0 =>
      simp only []
      obtain ⟨a1, a2, a3⟩ := ih s hI (fun o' ho' => hsz o' (List.mem_cons_of_mem _ ho'))
      refine ⟨a1, a2, fun o' ho' => ?_⟩
      rcases List.mem_cons.mp ho' with rfl | ho'
      · exact a2 _ ⟨w0, hv⟩
      · exact a3 o' ho'
    | none =>
      simp only []
      cases hal : s.allocWitness o.2 with
      | mk s1 w =>
        simp only []
        obtain ⟨hI1, hsw, _, he1, _⟩ := hI.alloc hal
        have hI2 : Inv n m (s1.setW o.2 w) := hI1.setW hsw
        obtain ⟨a1, a2, a3⟩ := ih (s1.setW o.2 w) hI2 (fun o' ho' => hsz o' (List.mem_cons_of_mem _ ho'))
        have hself : (s1.setW o.2 w).e2w.getD o.2 none = some w := by
          simp only [LState.setW]
          rw [getD_setIfInBounds, if_pos ⟨rfl, by rw [hI1.1.esz]; exact hsz o List.mem_cons_self⟩]
        have hmono : ∀ x, (∃ v, s.e2w.getD x none = some v) →
            ∃ v, (s1.setW o.2 w).e2w.getD x none = some v := by
          intro x ⟨v, hx⟩
          simp only [LState.setW]
          rw [getD_setIfInBounds, he1]
          split
          · exact ⟨w, rfl⟩
          · exact ⟨v, hx⟩
        refine ⟨a1, fun x hx => a2 x (hmono x hx), fun o' ho' => ?_⟩
        rcases List.mem_cons.mp ho' with rfl | ho'
        · exact a2 _ ⟨w, hself⟩
        · exact a3 o' ho'

theorem Inv.emitNp {nodes : Array (Expr K)} {npOps : Array NpData} {m opId : Nat} {s s' : LState K}
    (hI : Inv nodes.size m s) (h : s.emitNpCall nodes npOps opId = .ok s') : Inv nodes.size m s' := by
  unfold LState.emitNpCall at h
  split_ifs at h
  · simp only [Except.ok.injEq] at h; subst h; exact hI
  · split at h
    · simp at h
    · dsimp only at h
      split at h
      · simp at h
      · next outs houts =>
        have hmem := npOutputsOf_own houts
        have hI0 : Inv nodes.size m { s with emitted := s.emitted.setIfInBounds opId true } :=
          hI.congr rfl rfl rfl rfl rfl
        obtain ⟨p1, _, p3⟩ := prealloc_inv (n := nodes.size) (m := m) outs _ hI0
          (fun o ho => by have := (hmem o ho).2; omega)
        simp only at p1 p3
        generalize (outs.foldl (fun (st : LState K) (o : Nat × Nat) =>
          match st.e2w.getD o.2 none with
          | some _ => st
          | none => let (st', w) := st.allocWitness o.2; st'.setW o.2 w)
          { s with emitted := s.emitted.setIfInBounds opId true }) = sb at h p1 p3
        split at h
        · split at h
          · simp at h
          · simp only [Except.ok.injEq] at h; subst h
            refine p1.push _ (fun _ _ h => by cases h) (fun _ _ h => by cases h) (fun x hx => ?_)
            rcases hx with hx | hx
            · simp [hintOuts] at hx
            · simp [aluOut] at hx
        · split at h
          · split at h
            · simp at h
            · simp only [Except.ok.injEq] at h; subst h
              refine p1.push _ (fun _ _ h => by cases h) (fun _ _ h => by cases h) (fun x hx => ?_)
              rcases hx with hx | hx
              · simp only [hintOuts, List.mem_map] at hx
                obtain ⟨o, ho, rfl⟩ := hx
                obtain ⟨v, hv⟩ := p3 o ho
                rw [hv]
                exact Safe.of_used p1 (Or.inl ⟨o.2, hv⟩)
              · simp [aluOut] at hx
          · simp at h

theorem Inv.emit {nodes : Array (Expr K)} {npOps : Array NpData} {m i : Nat} {e : Expr K}
    {s s' : LState K} (hI : Inv nodes.size m s) (h : s.emitNode nodes npOps i e = .ok s') :
    Inv nodes.size m s' := by
  unfold LState.emitNode at h
  cases e with
  | const _ => simp only [Except.ok.injEq] at h; subst h; exact hI
  | pub _ => simp only [Except.ok.injEq] at h; subst h; exact hI
  | priv _ => simp only [Except.ok.injEq] at h; subst h; exact hI
  | add l r =>
    dsimp only at h
    cases hal : s.allocWitness i with
    | mk s1 out =>
      rw [hal] at h
      dsimp only at h
      obtain ⟨_, hsw, _⟩ := hI.alloc hal
      split at h <;> try (simp at h; done)
      simp only [Except.ok.injEq] at h; subst h
      exact hI.aluStep hal _ _ _ _ _ hsw
  | mul l r =>
    dsimp only at h
    cases hal : s.allocWitness i with
    | mk s1 out =>
      rw [hal] at h
      dsimp only at h
      obtain ⟨_, hsw, _⟩ := hI.alloc hal
      split at h <;> try (simp at h; done)
      simp only [Except.ok.injEq] at h; subst h
      exact hI.aluStep hal _ _ _ _ _ hsw
  | div l r =>
    dsimp only at h
    cases hal : s.allocWitness i with
    | mk s1 out =>
      rw [hal] at h
      dsimp only at h
      obtain ⟨hI1, hsw, _⟩ := hI.alloc hal
      split at h <;> try (simp at h; done)
      rename_i lw rw' hl hr
      simp only [Except.ok.injEq] at h; subst h
      exact hI.aluStep hal _ _ _ _ _ (Safe.of_resolve hI1 hl)
  | horner acc alpha pz px =>
    dsimp only at h
    cases hal : s.allocWitness i with
    | mk s1 out =>
      rw [hal] at h
      dsimp only at h
      obtain ⟨_, hsw, _⟩ := hI.alloc hal
      split at h <;> try (simp at h; done)
      simp only [Except.ok.injEq] at h; subst h
      exact hI.aluStep hal _ _ _ _ _ hsw
  | boolCheck v =>
    dsimp only at h
    cases hal : s.allocWitness i with
    | mk s1 out =>
      rw [hal] at h
      dsimp only at h
      obtain ⟨_, hsw, _⟩ := hI.alloc hal
      split at h <;> try (simp at h; done)
      simp only [Except.ok.injEq] at h; subst h
      exact hI.aluStep hal _ _ _ _ _ hsw
  | mulAdd a b c =>
    dsimp only at h
    cases hal : s.allocWitness i with
    | mk s1 out =>
      rw [hal] at h
      dsimp only at h
      obtain ⟨_, hsw, _⟩ := hI.alloc hal
      split at h <;> try (simp at h; done)
      simp only [Except.ok.injEq] at h; subst h
      exact hI.aluStep hal _ _ _ _ _ hsw
  | sub l r =>
    dsimp only at h
    cases hal : s.allocWitness i with
    | mk s1 res =>
      rw [hal] at h
      dsimp only at h
      obtain ⟨hI1, hsw, _⟩ := hI.alloc hal
      split at h
      · simp at h
      · rename_i lw hl
        split at h
        · -- the `mul − const` fast path: a fresh slot for the synthetic id `nodes.len()`
          rename_i _ _ _ _ cv _ _
          cases hal2 : s1.allocWitness nodes.size with
          | mk s2 nw =>
            rw [hal2] at h
            dsimp only at h
            simp only [Except.ok.injEq] at h; subst h
            obtain ⟨hI2, _, ho2, he2, hsafe2⟩ := hI1.alloc hal2
            obtain ⟨hnw, hn2, hr2⟩ := alloc_fresh hI1.1.nc hal2
            have hnu : ¬ Used s2 nw := by
              intro hu
              have : Used s1 nw := by
                unfold Used at hu ⊢
                rw [he2, hr2, ho2] at hu
                exact hu
              have := hI1.1.ub nw this
              omega
            have hI3 := hI2.pushConst (-cv) (by omega : nw < s2.next) hnu
            have hres2 : Safe m s2 res := hsafe2 res hsw
            have hne : res ≠ nw := by have := hsw.1; omega
            have hres3 := hres2.push (.const nw (-cv)) (fun v hv => by
              simp only [Op.const.injEq] at hv; exact hne hv.1.symm)
            exact (hI3.pushAlu _ _ _ _ _ hres3).setW (hres3.push _ (fun _ h => by cases h))
        · split at h
          · simp at h
          · simp only [Except.ok.injEq] at h; subst h
            exact hI.aluStep hal _ _ _ _ _ (Safe.of_resolve hI1 hl)
  | npCall op _ => exact hI.emitNp h
  | npOut call _ =>
    dsimp only at h
    split at h
    · split at h
      · simp at h
      · next s1 hnp =>
        have h1 := hI.emitNp hnp
        split at h
        · simp only [Except.ok.injEq] at h; subst h; exact h1
        · cases hal : s1.allocWitness i with
          | mk s2 w =>
            rw [hal] at h
            simp only [Except.ok.injEq] at h; subst h
            obtain ⟨hI2, hsw, _⟩ := h1.alloc hal
            exact hI2.setW hsw
    · simp at h

end emit

/-! #### Passes 1–3, assembly -/

/-- Passes 1–3: the bounds, and no ALU row yet. -/
def P13 (n : Nat) (s : LState K) : Prop := Bnd n s ∧ ∀ op ∈ s.ops.toList, isAluOp op = false

theorem fConst_P13 {n : Nat} {s s' : LState K} {i : Nat} {e : Expr K} (hP : P13 n s)
    (h : fConst s i e = .ok s') : P13 n s' := by
  cases e with
  | const v =>
    simp only [fConst] at h
    cases hal : s.allocWitness i with
    | mk s1 w =>
      rw [hal] at h
      simp only [Except.ok.injEq] at h
      subst h
      obtain ⟨hB1, hw, ho, _⟩ := hP.1.alloc hal
      refine ⟨(hB1.push (.const w v) (by simp [hintOuts, aluOut])).setW hw, ?_⟩
      intro op hop
      simp only [LState.setW, LState.pushOp, Array.toList_push, ho, List.mem_append,
        List.mem_singleton] at hop
      rcases hop with h | rfl
      · exact hP.2 op h
      · rfl
  | _ => simp only [fConst, Except.ok.injEq] at h; subst h; exact hP

theorem fPub_P13 {n : Nat} {s s' : LState K} {i : Nat} {e : Expr K} (hP : P13 n s)
    (h : fPub s i e = .ok s') : P13 n s' := by
  cases e with
  | pub pos =>
    simp only [fPub] at h
    cases hal : s.allocWitness i with
    | mk s1 w =>
      rw [hal] at h
      simp only [Except.ok.injEq] at h
      subst h
      obtain ⟨hB1, hw, ho, _⟩ := hP.1.alloc hal
      refine ⟨((hB1.push (.pub w pos) (by simp [hintOuts, aluOut])).setW (e := i) hw).congr
        rfl rfl rfl rfl rfl, ?_⟩
      intro op hop
      simp only [LState.setW, LState.pushOp, Array.toList_push, ho, List.mem_append,
        List.mem_singleton] at hop
      rcases hop with h | rfl
      · exact hP.2 op h
      · rfl
  | _ => simp only [fPub, Except.ok.injEq] at h; subst h; exact hP

theorem fPriv_P13 {n : Nat} {s s' : LState K} {i : Nat} {e : Expr K} (hP : P13 n s)
    (h : fPriv s i e = .ok s') : P13 n s' := by
  cases e with
  | priv pos =>
    simp only [fPriv] at h
    cases hal : s.allocWitness i with
    | mk s1 w =>
      rw [hal] at h
      simp only [Except.ok.injEq] at h
      subst h
      obtain ⟨hB1, hw, ho, _⟩ := hP.1.alloc hal
      refine ⟨(hB1.setW (e := i) hw).congr rfl rfl rfl rfl rfl, ?_⟩
      intro op hop
      simp only [LState.setW, ho] at hop
      exact hP.2 op hop
  | _ => simp only [fPriv, Except.ok.injEq] at h; subst h; exact hP

theorem inC_not (n : Nat) (cs : List (Nat × Nat)) (hcs : ∀ ab ∈ cs, ab.1 ≠ n ∧ ab.2 ≠ n) :
    ∀ m : Array Bool, m.getD n false = false →
      (cs.foldl (fun (m : Array Bool) ab =>
        (m.setIfInBounds ab.1 true).setIfInBounds ab.2 true) m).getD n false = false := by
  induction cs with
  | nil => intro m hm; exact hm
  | cons ab rest ih =>
    intro m hm
    simp only [List.foldl_cons]
    apply ih (fun ab' h' => hcs ab' (List.mem_cons_of_mem _ h'))
    obtain ⟨h1, h2⟩ := hcs ab List.mem_cons_self
    rw [getD_setIfInBounds, if_neg (fun h => h2 h.1), getD_setIfInBounds, if_neg (fun h => h1 h.1)]
    exact hm

section lower
variable [Neg K]

theorem init_P13 (b : BState K) (hc : connectsOk b = true) : P13 b.nodes.size (lowerInit b) := by
  refine ⟨⟨?_, by simp [lowerInit], ?_⟩, by intro op hop; simp [lowerInit] at hop⟩
  · intro x hx
    rcases hx with ⟨e, hx⟩ | ⟨r, hx⟩ | hx | hx
    · simp only [lowerInit, getD_replicate] at hx; cases hx
    · simp only [lowerInit, getD_replicate] at hx; cases hx
    · simp [lowerInit, Hall] at hx
    · simp [lowerInit, aluOuts] at hx
  · show (inCOf b).getD b.nodes.size false = false
    unfold inCOf
    apply inC_not
    · intro ab hab
      have := List.all_eq_true.mp hc ab hab
      simp only [Bool.and_eq_true, decide_eq_true_eq] at this
      omega
    · simp [Array.getD_eq_getD_getElem?]

/-- **(A) The lowered list**: a leading block without ALU rows (passes 1–3); behind it, no `Public` row, and
the slot of a `Const` row (the `mul − const` fast-path constant) is neither a hint output nor the `out` of an
ALU row. -/
theorem lower_lateP (b : BState K) (hc : connectsOk b = true) (l : Lowered K) (hl : lower b = .ok l) :
    LateP (fun x => x ∈ aluOuts l.ops.toList) l.ops.toList := by
  have h := hl
  rw [lower_eq] at h
  simp only [bind, Except.bind, forNodes] at h
  split at h
  · cases h
  · rename_i s1 hs1
    have J1 := fold_inv b.nodes fConst (lowerInit b) (fun _ s => P13 b.nodes.size s) (init_P13 b hc)
      (fun k s s' hk _ hI hf => fConst_P13 hI hf) _ (Nat.le_refl _) s1 hs1
    split at h
    · cases h
    · rename_i s2 hs2
      have J2 := fold_inv b.nodes fPub s1 (fun _ s => P13 b.nodes.size s) J1
        (fun k s s' hk _ hI hf => fPub_P13 hI hf) _ (Nat.le_refl _) s2 hs2
      split at h
      · cases h
      · rename_i s3 hs3
        have J3 := fold_inv b.nodes fPriv s2 (fun _ s => P13 b.nodes.size s) J2
          (fun k s s' hk _ hI hf => fPriv_P13 hI hf) _ (Nat.le_refl _) s3 hs3
        have I3 : Inv b.nodes.size s3.ops.toList.length s3 := by
          refine ⟨J3.1, Nat.le_refl _, ?_, ?_⟩
          · intro o p hm; rw [List.drop_length] at hm; cases hm
          · intro x v hm; rw [List.drop_length] at hm; cases hm
        split at h
        · cases h
        · rename_i s4 hs4
          have J4 := fold_inv b.nodes (fun st i e => st.emitNode b.nodes b.npOps i e) s3
            (fun _ s => (∃ rest, s.ops.toList = s3.ops.toList ++ rest) ∧
              Inv b.nodes.size s3.ops.toList.length s)
            ⟨⟨[], by simp⟩, I3⟩
            (fun k s s' hk _ hI hf => by
              obtain ⟨added, ha⟩ := emitNode_append hf
              obtain ⟨rest, hr⟩ := hI.1
              exact ⟨⟨rest ++ added, by rw [ha, hr, List.append_assoc]⟩, hI.2.emit hf⟩)
            _ (Nat.le_refl _) s4 hs4
          split at h
          · cases h
          · simp only [Except.ok.injEq] at h
            obtain ⟨hbo, _⟩ := backfill_fields (List.range (b.nodes.size + 1)) s4
            subst h
            simp only []
            rw [hbo]
            obtain ⟨⟨rest, hr⟩, hI4⟩ := J4
            have hdrop : s4.ops.toList.drop s3.ops.toList.length = rest := by
              rw [hr, List.drop_left]
            refine ⟨s3.ops.toList, rest, hr, J3.2, ?_⟩
            intro op hop hna x hx
            rw [← hdrop] at hop
            cases op with
            | alu _ _ _ _ _ _ => simp [isAluOp] at hna
            | hint _ _ _ => simp [outSlot] at hx
            | npo _ _ _ _ => simp [outSlot] at hx
            | pub o p => exact absurd hop (hI4.2.np o p)
            | const o v =>
              simp only [outSlot, Option.some.injEq] at hx
              subst hx
              have := (hI4.2.fr o v hop).2
              exact ⟨fun h1 => this (Or.inr (Or.inr (Or.inl h1))),
                fun h1 => this (Or.inr (Or.inr (Or.inr h1)))⟩

end lower

/-! ### (B) `dedup` -/

theorem mem_of_lookup {α β : Type} [BEq α] [LawfulBEq α] (l : List (α × β)) (a : α) (b : β)
    (h : l.lookup a = some b) : (a, b) ∈ l := by
  induction l with
  | nil => simp [List.lookup] at h
  | cons p l ih =>
    obtain ⟨k, v⟩ := p
    rw [List.lookup_cons] at h
    by_cases hk : (a == k) = true
    · simp only [hk] at h
      have : a = k := by simpa using hk
      subst this
      cases h
      exact List.mem_cons_self
    · have hk' : (a == k) = false := by simpa using hk
      simp only [hk'] at h
      exact List.mem_cons_of_mem _ (ih h)

theorem lookup_none {α β : Type} [BEq α] [LawfulBEq α] (l : List (α × β)) (a : α)
    (h : ∀ p ∈ l, p.1 ≠ a) : l.lookup a = none := by
  induction l with
  | nil => rfl
  | cons p l ih =>
    obtain ⟨k, v⟩ := p
    rw [List.lookup_cons]
    have hk : (a == k) = false := by
      have := h (k, v) List.mem_cons_self
      simpa using fun e : a = k => this e.symm
    simp only [hk]
    exact ih (fun p hp => h p (List.mem_cons_of_mem _ hp))

theorem resolveFuel_mem (rw : Rewrite) : ∀ (fuel w v : Nat), resolveFuel rw fuel w = some v →
    v = w ∨ ∃ p ∈ rw, p.2 = v := by
  intro fuel
  induction fuel with
  | zero => intro w v h; simp [resolveFuel] at h
  | succ fuel ih =>
    intro w v h
    unfold resolveFuel at h
    cases hl : rw.lookup w with
    | none => rw [hl] at h; cases h; exact Or.inl rfl
    | some w' =>
      rw [hl] at h
      simp only at h
      rcases ih w' v h with h1 | h1
      · exact Or.inr ⟨(w, w'), mem_of_lookup _ _ _ hl, h1.symm⟩
      · exact Or.inr h1

/-- `WitnessId::resolve` returns its argument or a value of the map. -/
theorem resolve_mem (rw : Rewrite) (w : Nat) : resolve rw w = w ∨ ∃ p ∈ rw, p.2 = resolve rw w := by
  unfold resolve
  cases h : resolveFuel rw (rw.length + 1) w with
  | none => exact Or.inl rfl
  | some v =>
    simp only [Option.getD_some]
    rcases resolveFuel_mem rw _ w v h with h1 | h1
    · exact Or.inl h1
    · exact Or.inr h1

/-- A slot that is no key is a fixed point. -/
theorem resolve_fix (rw : Rewrite) (w : Nat) (h : ∀ p ∈ rw, p.1 ≠ w) : resolve rw w = w := by
  unfold resolve resolveFuel
  rw [lookup_none rw w h]
  rfl

/-- Keys and values of the map lie in `A`. -/
def RwIn (A : Nat → Prop) (r : Rewrite) : Prop := ∀ p ∈ r, A p.1 ∧ A p.2

theorem resolve_A {A : Nat → Prop} {r : Rewrite} (hr : RwIn A r) {w : Nat} (hw : A w) :
    A (resolve r w) := by
  rcases resolve_mem r w with h | ⟨p, hp, h⟩
  · rw [h]; exact hw
  · rw [← h]; exact (hr p hp).2

theorem resolve_notA {A : Nat → Prop} {r : Rewrite} (hr : RwIn A r) {x : Nat} (hx : ¬ A x) :
    resolve r x = x :=
  resolve_fix r x (fun p hp he => hx (he ▸ (hr p hp).1))

theorem resolve_eq_notA {A : Nat → Prop} {r : Rewrite} (hr : RwIn A r) {x y : Nat} (hx : ¬ A x)
    (h : resolve r y = x) : y = x := by
  rcases resolve_mem r y with h1 | ⟨p, hp, h1⟩
  · rw [← h1]; exact h
  · exact absurd (by rw [← h, ← h1]; exact (hr p hp).2) hx

theorem aluOut_rewrite (r : Rewrite) (op : Op K) : aluOut (op.rewrite r) = (aluOut op).map (resolve r) := by
  cases op <;> rfl

theorem hintOuts_rewrite (r : Rewrite) (op : Op K) :
    hintOuts (op.rewrite r) = (hintOuts op).map (resolve r) := by
  cases op <;> rfl

/-- Invariant of `Deduplicator::run`: the rewrite map and the `seen` table only name ALU `out` slots. -/
def DInv (A : Nat → Prop) (s : DedupState K) : Prop := RwIn A s.rw ∧ ∀ q ∈ s.seen, A q.2

theorem step_DInv {A : Nat → Prop} {s : DedupState K} {op : Op K} (hA : ∀ x ∈ aluOut op, A x)
    (hs : DInv A s) : DInv A (s.step op) := by
  cases op with
  | const _ _ => exact hs
  | pub _ _ => exact hs
  | hint _ _ _ => exact hs
  | npo _ _ _ _ => exact hs
  | alu k a b c out io =>
    have hout : A (resolve s.rw out) := resolve_A hs.1 (hA out (by simp [aluOut]))
    simp only [DedupState.step, Op.rewrite]
    split
    · rename_i canonical hlk
      have hcan : A canonical := hs.2 _ (mem_of_lookup _ _ _ hlk)
      split
      · refine ⟨fun p hp => ?_, hs.2⟩
        rcases List.mem_cons.mp hp with rfl | hp
        · exact ⟨hout, resolve_A hs.1 hcan⟩
        · exact hs.1 p hp
      · exact hs
    · refine ⟨hs.1, fun q hq => ?_⟩
      rcases List.mem_cons.mp hq with rfl | hq
      · exact hout
      · exact hs.2 q hq

/-- The kept rows of a block: appended in order, each the rewrite of a row of the block along a map
that only names ALU `out` slots. -/
theorem fold_split (A : Nat → Prop) (body : List (Op K)) (hA : ∀ op ∈ body, ∀ x ∈ aluOut op, A x) :
    ∀ s : DedupState K, DInv A s → ∃ rest,
      (body.foldl DedupState.step s).out.toList = s.out.toList ++ rest ∧
      DInv A (body.foldl DedupState.step s) ∧
      ∀ o ∈ rest, ∃ op ∈ body, ∃ r, RwIn A r ∧ o = op.rewrite r := by
  induction body with
  | nil => intro s hs; exact ⟨[], by simp, hs, by simp⟩
  | cons op body ih =>
    intro s hs
    simp only [List.foldl_cons]
    obtain ⟨rest, h1, h2, h3⟩ := ih (fun o ho => hA o (List.mem_cons_of_mem _ ho)) (s.step op)
      (step_DInv (hA op List.mem_cons_self) hs)
    rcases step_out s op with e | e
    · refine ⟨rest, by rw [h1, e], h2, fun o ho => ?_⟩
      obtain ⟨op', hop', r, hr, he⟩ := h3 o ho
      exact ⟨op', List.mem_cons_of_mem _ hop', r, hr, he⟩
    · refine ⟨op.rewrite s.rw :: rest, by rw [h1, e]; simp, h2, fun o ho => ?_⟩
      rcases List.mem_cons.mp ho with rfl | ho
      · exact ⟨op, List.mem_cons_self, s.rw, hs.1, rfl⟩
      · obtain ⟨op', hop', r, hr, he⟩ := h3 o ho
        exact ⟨op', List.mem_cons_of_mem _ hop', r, hr, he⟩

/-- **(B) `dedup` keeps `LateP`**: the slot of a late `Const` / `Public` row is not an ALU `out`, hence a fixed
point of every rewrite map, and no hint output is mapped onto it. -/
theorem dedup_lateP (A : Nat → Prop) (ops : Array (Op K))
    (hA : ∀ op ∈ ops.toList, ∀ x ∈ aluOut op, A x) (h : LateP A ops.toList) :
    LateP (fun _ => False) (dedup ops).1.toList := by
  obtain ⟨pre, body, hl, hna, hlate⟩ := h
  have hApre : ∀ op ∈ pre, ∀ x ∈ aluOut op, A x :=
    fun op hop => hA op (by rw [hl]; exact List.mem_append_left _ hop)
  have hAbody : ∀ op ∈ body, ∀ x ∈ aluOut op, A x :=
    fun op hop => hA op (by rw [hl]; exact List.mem_append_right _ hop)
  unfold dedup
  simp only [Array.toList_map]
  rw [← Array.foldl_toList, hl, List.foldl_append]
  have hs0 : DInv A ({ rw := [], seen := [], out := #[] } : DedupState K) :=
    ⟨fun p hp => (by cases hp), fun q hq => (by cases hq)⟩
  obtain ⟨_, h2⟩ := fold_pre pre hna ({ rw := [], seen := [], out := #[] } : DedupState K)
  obtain ⟨_, _, hsP, _⟩ := fold_split A pre hApre _ hs0
  obtain ⟨rest, hr, hsF, hrest⟩ := fold_split A body hAbody _ hsP
  generalize (body.foldl DedupState.step (pre.foldl DedupState.step
    ({ rw := [], seen := [], out := #[] } : DedupState K))) = sF at hr hsF
  rw [hr, h2]
  simp only [List.nil_append, List.map_append, List.map_map]
  -- every row of the result is a twice rewritten row of the input
  have hsrc : ∀ o ∈ List.map (Op.rewrite sF.rw ∘ Op.rewrite []) pre ++ List.map (Op.rewrite sF.rw) rest,
      ∃ op ∈ pre ++ body, ∃ r, RwIn A r ∧ o = (op.rewrite r).rewrite sF.rw := by
    intro o ho
    rcases List.mem_append.mp ho with ho | ho
    · obtain ⟨op, hop, rfl⟩ := List.mem_map.mp ho
      exact ⟨op, List.mem_append_left _ hop, [], fun p hp => (by cases hp), rfl⟩
    · obtain ⟨o1, ho1, rfl⟩ := List.mem_map.mp ho
      obtain ⟨op, hop, r, hr', rfl⟩ := hrest o1 ho1
      exact ⟨op, List.mem_append_right _ hop, r, hr', rfl⟩
  refine ⟨_, _, rfl, ?_, ?_⟩
  · intro o ho
    obtain ⟨o', ho', rfl⟩ := List.mem_map.mp ho
    simp only [Function.comp, isAluOp_rewrite]
    exact hna o' ho'
  · intro o ho hno x hx
    obtain ⟨o1, ho1, rfl⟩ := List.mem_map.mp ho
    obtain ⟨op, hop, r, hr', rfl⟩ := hrest o1 ho1
    simp only [isAluOp_rewrite] at hno
    simp only [outSlot_rewrite] at hx
    cases hos : outSlot op with
    | none => rw [hos] at hx; cases hx
    | some x0 =>
      rw [hos] at hx
      simp only [Option.map_some, Option.some.injEq] at hx
      obtain ⟨hnH, hnA⟩ := hlate op hop hno x0 hos
      have hx0 : x = x0 := by
        rw [← hx, resolve_notA hr' hnA, resolve_notA hsF.1 hnA]
      subst hx0
      refine ⟨fun hH => ?_, fun hf => hf⟩
      obtain ⟨o2, ho2, hx2⟩ := mem_Hall.mp hH
      obtain ⟨op2, hop2, r2, hr2, rfl⟩ := hsrc o2 ho2
      simp only [hintOuts_rewrite, List.mem_map] at hx2
      obtain ⟨z, ⟨y, hy, rfl⟩, hz⟩ := hx2
      have h1 := resolve_eq_notA hsF.1 hnA hz
      have h3 := resolve_eq_notA hr2 hnA h1
      subst h3
      exact hnH (mem_Hall.mpr ⟨op2, by rw [hl]; exact hop2, hy⟩)

/-! ### (C) `fuse` -/

open P3R.C09F in
/-- **(C) `fuse` keeps `LateP`**: rows that are not ALU rows are kept verbatim, in order; a fused row is an ALU
row and carries no hint output. -/
theorem fuse_lateP (D : Array (Op K)) (P' : List Nat) (h : LateP (fun _ => False) D.toList) :
    LateP (fun _ => False) (fuse D P').toList := by
  obtain ⟨pre, body, hl, hna, hlate⟩ := h
  have hch := chosenFor_ok D P'
  have hmulAdd : ∀ c ∈ chosenFor D P', isAluOp c.op = true ∧ hintOuts c.op = [] := by
    intro c hc
    obtain ⟨ma, mb, m, x', y, ioA, ioM, h_op, _⟩ := (hch.ok c hc).ex
    rw [h_op]; exact ⟨rfl, rfl⟩
  have hHall : ∀ x ∈ Hall (fuse D P').toList, x ∈ Hall D.toList := by
    intro x hx
    obtain ⟨o, ho, hxo⟩ := mem_Hall.mp hx
    rw [fuse_eq_filterMap] at ho
    rcases fused_row ho with ⟨c, hc, rfl, _⟩ | ⟨n, hn, _⟩
    · rw [(hmulAdd c hc).2] at hxo; cases hxo
    · exact mem_Hall.mpr ⟨o, List.mem_of_getElem? hn, hxo⟩
  rw [fuse_eq_filterMap] at hHall ⊢
  generalize chosenFor D P' = ch at hch hHall hmulAdd ⊢
  rw [hl] at hch hHall hlate ⊢
  rw [List.zipIdx_append, List.filterMap_append] at hHall ⊢
  refine ⟨_, _, rfl, ?_, ?_⟩
  · intro o ho
    obtain ⟨p, hp, hg⟩ := List.mem_filterMap.mp ho
    have hp' := List.mem_zipIdx_iff_getElem?.mp hp
    have hpna := hna p.1 (List.mem_of_getElem? hp')
    have hlt : p.2 < pre.length := by
      by_contra hge
      rw [List.getElem?_eq_none (by omega)] at hp'
      cases hp'
    have := applyF_nonalu hch (n := p.2) (op := p.1)
      (by rw [List.getElem?_append_left hlt]; exact hp') hpna
    rw [this] at hg
    cases hg
    exact hpna
  · intro o ho hno x hx
    obtain ⟨p, hp, hg⟩ := List.mem_filterMap.mp ho
    rcases applyF_cases ch p.1 p.2 with ⟨c, hc, he, hnone⟩ | ⟨c, hc, he, hsome⟩ | ⟨hno', hsame⟩
    · rw [hnone] at hg; cases hg
    · rw [hsome] at hg
      cases hg
      rw [(hmulAdd c hc).1] at hno
      cases hno
    · rw [hsame] at hg
      cases hg
      have hpb : p.1 ∈ body := by
        have := List.mem_zipIdx_iff_le_and_getElem?_sub.mp hp
        exact List.mem_of_getElem? this.2
      obtain ⟨h1, _⟩ := hlate p.1 hpb hno x hx
      exact ⟨fun hH => h1 (hHall x hH), fun hf => hf⟩

/-! ### (D) The compiled circuit; the capstones -/

theorem dropWhile_append_all {α} (p : α → Bool) (l1 l2 : List α) (h : ∀ a ∈ l1, p a = true) :
    (l1 ++ l2).dropWhile p = l2.dropWhile p := by
  induction l1 with
  | nil => rfl
  | cons a l1 ih =>
    rw [List.cons_append, List.dropWhile_cons, if_pos (h a List.mem_cons_self)]
    exact ih (fun x hx => h x (List.mem_cons_of_mem _ hx))

/-- `LateP` implies the decidable condition `C04N.lateFresh`. -/
theorem lateFresh_of_lateP {A : Nat → Prop} (L : List (Op K)) (h : LateP A L) : lateFresh L = true := by
  obtain ⟨pre, body, hl, hna, hlate⟩ := h
  unfold lateFresh
  rw [List.all_eq_true]
  intro op hop
  have hop' : op ∈ body := by
    have h1 : L.dropWhile (fun op => !isAluOp op) = body.dropWhile (fun op => !isAluOp op) := by
      rw [hl]; exact dropWhile_append_all _ _ _ (fun a ha => by simp [hna a ha])
    rw [h1] at hop
    exact (List.dropWhile_sublist _).subset hop
  cases hal : isAluOp op with
  | true => rfl
  | false =>
    simp only [Bool.false_or]
    cases ho : outSlot op with
    | none => rfl
    | some x =>
      have hnot := (hlate op hop' hal x ho).1
      simp only [Bool.not_eq_true']
      cases hcx : (Hall L).contains x with
      | false => rfl
      | true => exact absurd (List.contains_iff_mem.mp hcx) hnot

section compile
variable [Neg K] [Zero K] [DecidableEq K]

/-- **`compile_lateFresh`** — the lemma `C04NoSkip` named as missing: in the compiled op list of every builder
state whose connects name existing expressions (`connectsOk`, a consequence of `BState.Ok`), no `Const` /
`Public` row placed after the first ALU row carries the slot of a hint output. -/
theorem compile_lateFresh (b : BState K) (hcn : connectsOk b = true) (c : Circuit K)
    (hc : compile b = .ok c) : lateFresh c.ops.toList = true := by
  obtain ⟨l, hl, rfl⟩ := compile_eq_compiledOf b c hc
  have hc4 : (compiledOf l).ops = fuse (dedup l.ops).1 (l.privRows.toList.map (resolve (dedup l.ops).2)) := by
    simp [compiledOf, optimize]
  rw [hc4]
  apply lateFresh_of_lateP (A := fun _ => False)
  apply fuse_lateP
  exact dedup_lateP _ l.ops (fun op hop x hx => mem_aluOuts.mpr ⟨op, hop, hx⟩) (lower_lateP b hcn l hl)

/-- `compiled_no_skip` in guards form (`BState.Ok` + the decidable guards), no `lateFresh` hypothesis. -/
theorem compiled_no_skip_of_guards (b : BState K) (hok : b.Ok) (hpo : privOk b = true)
    (hpu : pubOk b = true) (hprim : primOk b = true) (hpf : pubFull b = true)
    (hg : hintsGuarded b = true) (hag : operandsGuarded b = true) (c : Circuit K)
    (hc : compile b = .ok c) (p : Prep) (hp : genPrep c = some p) : noSkip p :=
  compiled_no_skip_of_lateFresh b hok hpo hpu hprim hpf hg hag c hc p hp
    (compile_lateFresh b hok.connectsOk c hc)

end compile

section final
variable {F : Type} [Field F] [DecidableEq F]
open P3R.E2E P3R.C09R

/-- **`compiled_no_skip`.** For every `ReachablePrim` program: whenever it compiles and the role scan of the
compiled circuit succeeds, the scan puts no operand off the WitnessChecks bus (`noSkip p`, the `hnoskip` of
`E2E.e2e_soundness`). `ReachablePrim b` is the only hypothesis on the program. -/
theorem compiled_no_skip (b : BState F) (hb : ReachablePrim b) (c : Circuit F)
    (hc : compile b = .ok c) (p : Prep) (hp : genPrep c = some p) : noSkip p :=
  compiled_no_skip_partial b hb c hc p hp (compile_lateFresh b hb.reachable.ok.connectsOk c hc)

/-- **END TO END / soundness for `ReachablePrim` programs** — full conclusion of `E2E.e2e_soundness`; neither
`hnoskip` nor `lateFresh` is assumed: an accepted trace of the compiled circuit attests an assignment that
satisfies the SOURCE program. -/
theorem e2e_soundness_reachable' (b : BState F) (hb : ReachablePrim b) (c : Circuit F)
    (hc : compile b = .ok c) (p : Prep) (hp : genPrep c = some p)
    (pub : Nat → F) (vs : List F) (hacc : Accepted pub c p vs) :
    ∃ l : Lowered F, lower b = .ok l ∧
      (∀ e, l.mapped e = true → c.e2w.getD e none = some (eslot c.rewrite l e)) ∧
      ∃ w w' : Nat → F,
        vs = (p.events.map Prod.fst).map w ∧
        Sat w pub c.ops.toList ∧
        (∀ x, (∀ s ∈ fusedSites l, s.m ≠ x) → w' x = w x) ∧
        SourceSat b pub (fun e => w' (eslot c.rewrite l e)) ∧
        ((∀ (i a d : Nat), b.nodes[i]? = some (Expr.div a d : Expr F) → w' (eslot c.rewrite l d) ≠ 0) →
          ∀ i, i < b.nodes.size → w' (eslot c.rewrite l i) =
            (C02.denote b.nodes pub (fun e => w' (eslot c.rewrite l e)) b.nodes.size).getD i 0) :=
  e2e_soundness_reachable_partial b hb c hc p hp (compile_lateFresh b hb.reachable.ok.connectsOk c hc)
    pub vs hacc

/-- **`e2e_roundtrip_reachable` without `hnoskip`**: `ReachablePrim b` is the only hypothesis on the program. -/
theorem e2e_roundtrip_reachable' (canon : F → Nat) (b : BState F)
    (hb : ReachablePrim b) (c : Circuit F) (hc : compile b = .ok c) (p : Prep) (hp : genPrep c = some p)
    (w0 : Array (Option F)) (w pub : Nat → F) (h0 : C02.Agree w0 w)
    (hsh : C02.shape w0 = C02S.allInputsSet c)
    (hall : ∀ op ∈ c.ops.toList, op.holds w pub ∧ C02.RunnerWrites w op ∧ C02.HintAgrees canon w op)
    (hrw : ∀ dc ∈ c.rewrite, w dc.1 = w (resolve c.rewrite dc.2)) :
    ∃ (t : Traces F) (l : Lowered F) (w' : Nat → F), runFrom canon c w0 = .ok t ∧ lower b = .ok l ∧
      (∀ x ∈ p.events.map Prod.fst, (∀ s ∈ fusedSites l, s.m ≠ x) → w' x = t.witness.getD x 0) ∧
      SourceSat b pub (fun e => w' (eslot c.rewrite l e)) :=
  e2e_roundtrip_reachable_partial canon b hb c hc p hp
    (compile_lateFresh b hb.reachable.ok.connectsOk c hc) w0 w pub h0 hsh hall hrw

end final

end P3R.C04L

#print axioms P3R.C04L.lower_lateP
#print axioms P3R.C04L.dedup_lateP
#print axioms P3R.C04L.fuse_lateP
#print axioms P3R.C04L.lateFresh_of_lateP
#print axioms P3R.C04L.compile_lateFresh
#print axioms P3R.C04L.compiled_no_skip_of_guards
#print axioms P3R.C04L.compiled_no_skip
#print axioms P3R.C04L.e2e_soundness_reachable'
#print axioms P3R.C04L.e2e_roundtrip_reachable'
