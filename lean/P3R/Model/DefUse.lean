/-
L5 — def-before-use certificate of an op list with respect to the role scan of
`generate_preprocessed_columns` (`P3R.Model.Roles`).

The scan makes an ALU operand in the `b` column a bus *reader* whenever it cannot make it a creator
(`b` is not a private input and the row is not a backward row) — also when nothing has created the
slot. `defUse` is the static (scan-state free) condition under which that never happens: walking the
ops in order and collecting the slots that are certainly defined after each row (`touch`), the `b`
slot of every ALU row is already collected, or is created in the row itself (`rowOk`).
`P3R.C09T.defuse_sound` proves that the condition discharges the hypothesis `hwf` of
`P3R.C09.bus_balanced`; the driver evaluates it on every compiled circuit (`defuse` line).
-/
import P3R.Model.Roles

namespace P3R

/-- Slots of Const / Public rows (`const_public_wids`). -/
def constPubSlots {K} (ops : List (Op K)) : List Nat :=
  ops.filterMap fun
    | .const out _ => some out
    | .pub out _ => some out
    | _ => none

/-- `hint_output_wids`: outputs of hint ops that no Const / Public row names. -/
def hintSlots {K} (ops : List (Op K)) : List Nat :=
  (ops.flatMap fun
    | .hint _ outs _ => outs
    | _ => []).filter fun w => !(constPubSlots ops).contains w

/-- Slots that are certainly defined after the row, given those (`T`) defined before it: the row's
`out` and `b`, and an `a` / `c` operand that is a private input or a hint output. -/
def touch {K} (privs hints : List Nat) (T : List Nat) : Op K → List Nat
  | .const out _ => out :: T
  | .pub out _ => out :: T
  | .alu _ a b c out _ =>
    let elig := fun x => privs.contains x || hints.contains x
    out :: b :: ((a :: c.toList).filter elig ++ T)
  | .hint _ _ _ => T
  | .npo _ _ _ _ => T

/-- The `b` operand of the row does not dangle: it is defined before the row, or a private input,
or created earlier in the same row (by `out`, or by an eligible `a` / `c`), or the row is a backward
row (`out` defined before the row, a hint output or a private input). -/
def rowOk {K} (privs hints : List Nat) (T : List Nat) : Op K → Bool
  | .alu _ a b c out _ =>
    let elig := fun x => privs.contains x || hints.contains x
    T.contains b || privs.contains b || b == out || (elig a && b == a) ||
    (match c with
     | some cw => elig cw && b == cw
     | none => false) ||
    T.contains out || hints.contains out || privs.contains out
  | _ => true

def defUseFrom {K} (privs hints : List Nat) : List Nat → List (Op K) → Bool
  | _, [] => true
  | T, op :: ops => rowOk privs hints T op && defUseFrom privs hints (touch privs hints T op) ops

/-- The def-before-use certificate of an op list. -/
def defUse {K} (privs : List Nat) (ops : List (Op K)) : Bool :=
  defUseFrom privs (hintSlots ops) [] ops

/-- The certificate of a compiled circuit (private rows and hint outputs as the scan sees them). -/
def Circuit.defUse {K} (c : Circuit K) : Bool := P3R.defUse c.privRows.toList c.ops.toList

end P3R
