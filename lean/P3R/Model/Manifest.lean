/-
L14b — `VerifierManifest::matches` (circuit-prover/src/manifest.rs): the comparison of a
verifier's *expected* structural description (extension degree, reduction, ALU variant, the list
of non-primitive tables with op type / AIR variant / number of public values, in proof order) with
the metadata a `BatchStarkProof` declares about itself. Import-free (core + Model/Metadata).

Mirrors the Rust in source order; the result is the first failing comparison
(`ProofMetadataError` variant, with the index for the per-entry ones):

  proof.ext_degree            != self.ext_degree              → ExtDegreeMismatch
  proof.w_binomial            != expected_w(self.reduction)   → BinomialWMismatch
  proof.alu_quintic_trinomial != expected_q(self.reduction)   → QuinticReductionMismatch
  proof.alu_variant           != self.alu_variant             → AluVariantMismatch
  proof.non_primitives.len()  != self.expected_npo.len()      → NpoCountMismatch
  for (i, (entry, expected)) in zip:
    entry.op_type             != expected.op_type             → NpoOpTypeMismatch{i}
    entry.air_variant         != expected.air_variant         → NpoAirVariantMismatch{i}
    entry.public_values.len() != expected.public_values_len   → NpoPublicValueLenMismatch{i}

Op types are `NpoTypeId`s, i.e. strings compared as *whole strings* (`Name = List Nat`, the bytes):
`poseidon2_perm/koala_bear_d1_w16` and `poseidon2_perm/koala_bear_d4_w16` are different tables,
so are `recompose` and `recompose/coeff`.
-/
import P3R.Model.Metadata

namespace P3R.Metadata

/-- `ExpectedNpoEntry`. -/
structure ExpEntry where
  op : Name
  variant : Nat
  pvLen : Nat
deriving DecidableEq, Repr

/-- `VerifierManifest<F>`; `red` is `AluExtMulKind<F>` (`Base`, `Binomial{w}`, `QuinticTrinomial`). -/
structure Manifest where
  d : Nat
  red : Red
  aluVariant : Nat
  npo : List ExpEntry
deriving DecidableEq, Repr

/-- The `ProofMetadataError` variants `matches` can return. -/
inductive ManErr
  | extDegree
  | binomialW
  | quintic
  | aluVariant
  | npoCount
  | npoOp (i : Nat)
  | npoVariant (i : Nat)
  | npoPvLen (i : Nat)
deriving DecidableEq, Repr

/-- `expected_w` of `matches`: `Binomial{w} ↦ Some(w)`, otherwise `None`. -/
def Red.expW : Red → Option Nat
  | .binomial w => some w
  | _ => none

/-- `expected_quintic` of `matches`. -/
def Red.expQuintic : Red → Bool
  | .quintic => true
  | _ => false

/-- The `zip().enumerate()` loop of `matches`, started at index `i`. -/
def entriesMatch : Nat → List Entry → List ExpEntry → Except ManErr Unit
  | i, e :: es, x :: xs =>
    if e.op ≠ x.op then .error (.npoOp i)
    else if e.variant ≠ x.variant then .error (.npoVariant i)
    else if e.pvs.length ≠ x.pvLen then .error (.npoPvLen i)
    else entriesMatch (i + 1) es xs
  | _, _, _ => .ok ()

/-- `VerifierManifest::matches`. -/
def manifestMatches (man : Manifest) (m : Meta) : Except ManErr Unit :=
  if m.d ≠ man.d then .error .extDegree
  else if m.w ≠ man.red.expW then .error .binomialW
  else if m.quintic ≠ man.red.expQuintic then .error .quintic
  else if m.aluVariant ≠ man.aluVariant then .error .aluVariant
  else if m.entries.length ≠ man.npo.length then .error .npoCount
  else entriesMatch 0 m.entries man.npo

/-- What a manifest entry is compared with: the part of a proof entry `matches` reads. -/
def Entry.key (e : Entry) : Name × Nat × Nat := (e.op, e.variant, e.pvs.length)

def ExpEntry.key (x : ExpEntry) : Name × Nat × Nat := (x.op, x.variant, x.pvLen)

/-- The manifest a verifier derives for a proof it trusts (the harness derives the expected manifest
of every honest base proof like this; the repository has no constructor, callers write the literal). -/
def manifestOf (red : Red) (m : Meta) : Manifest :=
  { d := m.d, red := red, aluVariant := m.aluVariant,
    npo := m.entries.map fun e => ⟨e.op, e.variant, e.pvs.length⟩ }

end P3R.Metadata
