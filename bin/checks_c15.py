"""C15 — malformed proofs are rejected with an error, never a panic or a weaker circuit.

Plug-in for bin/check (see bin/checks.py). One harness run (`p3r-harness malformed`) builds honest
proofs (uni-STARK Fibonacci with Merkle cap height 0 and 1, uni-STARK with a preprocessed trace,
batch-STARK of a small circuit through the circuit prover), enumerates *every* single structural
alteration of the proof + companion data + parameters (generic walk over the serialised input:
each list shortened / lengthened / emptied, each count / degree / parameter set to 0, v-1, v+1, 28,
63, 64, usize::MAX, each optional part toggled) plus seeded pairs of alterations, and calls the real
circuit builders on each mutant in worker processes under catch_unwind and an address-space limit.
Implementation oracle: panic / process death => violation; accepted with a circuit different from
the well-formed one => violation. The Lean driver `p3r_driver_c15` evaluates the model
`P3R.Shape.verifyUni` on the shape vector of the same mutants; outcome lines are compared.

Batch path (round 2): five more honest bases — two circuit-prover proofs through
`verify_p3_batch_proof_circuit` (`batch`: equal table heights, `batch-h`: different heights; lookups,
preprocessed data, table metadata) and three proofs of plain AIRs through the generic
`verify_batch_circuit` (`gbatch-1/2/4`: 1, 2, 4 instances, with / without preprocessed columns, next-row
opening, public values, different degrees) — get the same complete enumeration; every mutant also yields a
`batch …` driver line (shape vector + the AIR facts the real `RecursiveAir` methods return on the mutant's
preprocessed width / lookups, harness/src/c15_batch.rs) and the model `P3R.Shape.verifyBatch` /
`verifyP3Batch` (lean/P3R/Model/BatchShape.lean) must print the implementation's outcome.
"""
import json, os

PROPERTY = "C15"

CORRESPONDENCE = ("proof-shape control flow of verify_p3_uni_proof_circuit + FRI/MMCS circuit builders "
                  "(recursion/src/verifier/stark.rs, types/proof.rs, pcs/fri/{targets,verifier}.rs, pcs/mmcs.rs) "
                  "vs lean/P3R/Model/Shape.lean (verifyUni)")
CORRESPONDENCE_BATCH = ("proof-shape control flow of verify_p3_batch_proof_circuit / verify_batch_circuit + "
                        "BatchStarkVerifierInputsBuilder::allocate + BatchStarkProof::validate "
                        "(recursion/src/verifier/batch_stark.rs, public_inputs.rs, types/proof.rs, "
                        "circuit-prover/src/batch_stark_prover.rs) vs lean/P3R/Model/BatchShape.lean "
                        "(verifyBatch / verifyP3Batch; FRI/MMCS part shared with Shape.lean)")


def _read(p):
    with open(p) as fh:
        return [l.rstrip("\n") for l in fh]


def run(ctx):
    tier, seed, work = ctx["tier"], ctx["seed"], ctx["work"]
    out = f"{work}/run0"
    violations = []
    if ctx.get("replay"):
        rp = json.load(open(ctx["replay"]))
        os.makedirs(f"{work}/replay_corpus", exist_ok=True)
        r = rp.get("replay", rp)
        json.dump(r.get("case", r), open(f"{work}/replay_corpus/r.json", "w"))
        corpus, generate, pairs = f"{work}/replay_corpus", 0, 0
    else:
        corpus, generate = f"{ctx['root']}/corpus/c15", 1
        pairs = 3000 if tier == "quick" else 100000
    cmd = [ctx["harness"], "malformed", "--seed", str(seed), "--out", out, "--corpus", corpus,
           "--generate", str(generate), "--per-class", "0", "--pairs", str(pairs), "--threads", "8"]
    rc, o = ctx["sh"](cmd, timeout=7200)
    empty = {"evaluations": 0, "distinct_nontrivial": 0, "rule": "", "samples": [], "input_distribution": {},
             "traces_validated_against_impl": 0, "disagreements_checked": 0}
    if rc != 0 or not os.path.exists(f"{out}/c15.report.json"):
        violations.append({"class": "harness-crash", "what": f"harness malformed exited {rc}: {o[-300:]}",
                           "replay": {"cmd": cmd}, "no_input": True})
        return violations, empty
    rep = json.load(open(f"{out}/c15.report.json"))
    for v in rep["violations"]:
        d = v.get("detail", {})
        violations.append({"class": v["class"],
                           "what": f"{v['kind']} on altered {v['site']} ({v['alteration']}) "
                                   f"base={v['replay']['base']} path={v['replay']['generic_path']} {json.dumps(d)[:200]}",
                           "replay": v["replay"]})
    # regression cases of repaired findings (corpus files with "expect_outcome")
    for r in rep.get("corpus_regressions_failed", []):
        violations.append({"class": f"regression:{r.get('finding') or r['file']}",
                           "what": f"repaired finding {r.get('finding')} is back: corpus/c15/{r['file']} expected {r['expected']!r}, "
                                   f"the real builder gave {r['got']!r}",
                           "replay": {"case": r["replay"]}})
    # model side
    driver = os.path.join(ctx["driver_dir"], "p3r_driver_c15")
    with open(f"{out}/c15.cases") as fin:
        rc, mo = ctx["sh"]([driver], stdin=fin, timeout=3600)
    with open(f"{out}/c15.model", "w") as fh:
        fh.write(mo)
    impl, model, cases = _read(f"{out}/c15.impl"), _read(f"{out}/c15.model"), _read(f"{out}/c15.cases")
    # one description per driver line (base, generic path, alteration[, second], detail) for reading a disagreement
    desc = _read(f"{out}/c15.desc") if os.path.exists(f"{out}/c15.desc") else []
    while model and model[-1] == "":
        model.pop()
    disagreements = 0
    reported = {"uni": 0, "batch": 0}
    lines_by_kind = {}
    outcome_by_base = {}
    for k in range(max(len(impl), len(model))):
        a = impl[k] if k < len(impl) else None
        b = model[k] if k < len(model) else None
        case = cases[k] if k < len(cases) else ""
        toks = case.split(" ", 2)
        kind = "batch" if toks and toks[0] == "batch" else "uni"
        lines_by_kind[kind] = lines_by_kind.get(kind, 0) + 1
        if len(toks) > 1:
            ob = outcome_by_base.setdefault(toks[1], {})
            ob[str(a)] = ob.get(str(a), 0) + 1
        if a != b:
            disagreements += 1
            if reported[kind] < 3:
                reported[kind] += 1
                corr = CORRESPONDENCE_BATCH if kind == "batch" else CORRESPONDENCE
                violations.append({"class": "model-disagreement",
                                   "what": f"correspondence {corr} no longer checks: impl={a!r} model={b!r}",
                                   "replay": {"correspondence": corr, "case_line": case,
                                              "alteration": desc[k] if k < len(desc) else None,
                                              "first_difference": [a, b]},
                                   "no_input": True})
    hist = dict(rep["hist"])
    hist["outcome_by_site"] = rep.get("outcome_by_site", {})
    cov = {"evaluations": rep["evaluations"], "distinct_nontrivial": rep["distinct"],
           "rule": "one real circuit-builder call (target allocation + verify_*_circuit + CircuitBuilder::build, in a worker "
                   "process under catch_unwind and an address-space limit) per structurally altered input; alterations = "
                   "ALL single alterations found by a generic walk over the serialised (proof, companion data, parameters) of "
                   "9 honest bases (3 uni, 2 circuit-prover batch, 3 generic batch of plain AIRs + the uni cap-height-1 variant) (every list shortened by one / lengthened by one / emptied; every count, degree, size and "
                   "parameter integer set to 0, v-1, v+1, 28, 63, 64, usize::MAX (log_arity: ..7, 8, 255; degree_bits: +26, 27, 29..32); "
                   "every optional part removed or added; booleans flipped) + seeded pairs of alterations; mutants the typed "
                   "proof cannot hold (fixed-size digests / extension elements) are counted as unrepresentable and not "
                   "evaluated; distinct = distinct (base, generic path, alteration[, second alteration]) keys, each of which "
                   "changes the input structurally (none trivial)",
           "samples": rep["samples"][:6], "input_distribution": hist,
           "traces_validated_against_impl": len(impl), "disagreements_checked": disagreements,
           "enumerated_alterations": rep.get("enumerated_alterations"), "unrepresentable": rep.get("unrepresentable"),
           "pair_cases": rep.get("pair_cases"), "bases": rep.get("bases"),
           "model_lines": rep.get("model_lines"),
           "model_lines_by_kind": lines_by_kind,
           "model_outcomes_by_base": outcome_by_base,
           "violation_class_counts": rep.get("violation_classes"),
           "corpus_witnesses_reproduced": rep.get("corpus_witnesses_reproduced", []),
           "corpus_regression_cases_passed": rep.get("corpus_regressions_passed", []),
           "known_not_reproduced": []}
    return violations, cov


CHECK = {
    "lean_modules": ["P3R.Props.C15", "P3R.Witness.C15", "P3R.Props.C15Batch", "P3R.Witness.C15Batch"],
    "lean_exes": ["p3r_driver_c15"],
    "theorems": [
        "P3R.C15.run_ok_iff", "P3R.C15.run_panic_iff", "P3R.C15.run_no_panic",
        "P3R.C15.uni_ok_validated", "P3R.C15.uni_ok_fri_validated", "P3R.C15.uni_no_panic_partial",
        "P3R.C15.panicGuards_necessary", "P3R.C15.uni_malformed_rejected_partial", "P3R.C15.honest_shapes_ok",
        "P3R.Witness.C15.malformed_rejected_full_false", "P3R.Witness.C15.no_panic_full_false",
        "P3R.C15.run_append", "P3R.C15.run_err_of_must_prefix", "P3R.C15.fri_pow_mismatch_err",
        "P3R.C15.fri_height_overflow_err", "P3R.C15.open_input_height_err", "P3R.C15.uni_pow_mismatch_err",
        "P3R.C15.uni_pow_mismatch_outcome",
        # after /repo ca07f07 (F9a part), fc0321f (F9d), 069da9d (F9e), c030fca (F9i), 0e5036a (C07-F4)
        "P3R.C15.run_err_of_guarded_prefix", "P3R.C15.capChecks_allErr", "P3R.C15.openInputChecks_allErr",
        "P3R.C15.commitPhaseChecks_allErr", "P3R.C15.queryScheduleChecks_allErr",
        "P3R.C15.friVerifyChecks_partial_steps", "P3R.C15.fri_no_panic", "P3R.C15.fri_err_of_failing_step",
        "P3R.C15.fri_height_above_two_adicity_err", "P3R.C15.fri_sibling_mismatch_err",
        "P3R.C15.fri_log_arity_out_of_range_err", "P3R.C15.open_input_bad_cap_err",
        "P3R.C15.uni_degree_out_of_range_err", "P3R.C15.uni_prefix_panic_iff", "P3R.C15.panicGuards_iff",
        "P3R.C15.uni_no_panic",
        "P3R.Witness.C15.degree_bits_panics", "P3R.Witness.C15.degree_bits_out_of_range_rejected",
        "P3R.Witness.C15.degree_bits_64_record",
        "P3R.Witness.C15.log_arity_out_of_range_rejected", "P3R.Witness.C15.log_arity_record",
        "P3R.Witness.C15.pow_witnesses_short_rejected", "P3R.Witness.C15.pow_witnesses_short_record",
        "P3R.Witness.C15.commit_extra_rejected", "P3R.Witness.C15.commit_extra_record",
        "P3R.Witness.C15.log_final_poly_len_max_rejected", "P3R.Witness.C15.schedule_too_short_rejected",
        "P3R.Witness.C15.schedule_too_short_record", "P3R.Witness.C15.degree_bits_plus1_rejected",
        "P3R.Witness.C15.degree_bits_plus1_record",
        "P3R.Witness.C15.domain_below_cap_panics",
        "P3R.Witness.C15.cap_empty_rejected", "P3R.Witness.C15.cap_not_pow2_rejected", "P3R.Witness.C15.cap_record",
        "P3R.Witness.C15.prep_short_panics", "P3R.Witness.C15.log_blowup_28_rejected",
        "P3R.Witness.C15.log_blowup_28_record", "P3R.Witness.C15.zero_phase_accepted",
        "P3R.Witness.C15.query_dropped_accepted", "P3R.Witness.C15.cap_resized_accepted",
        "P3R.Witness.C15.witnesses_falsify_guards",
        # batch path (Model/BatchShape.lean)
        "P3R.C15Batch.allHold_of_verifyBatch", "P3R.C15Batch.allHold_of_verifyP3",
        "P3R.C15Batch.batch_ok_counts", "P3R.C15Batch.batch_ok_instance", "P3R.C15Batch.batch_ok_lookup_commit",
        "P3R.C15Batch.batch_ok_prep", "P3R.C15Batch.batch_ok_fri_validated", "P3R.C15Batch.batch_ok_zips",
        "P3R.C15Batch.batch_no_panic_partial", "P3R.C15Batch.batchPanicGuards_necessary",
        "P3R.C15Batch.batch_malformed_rejected_partial", "P3R.C15Batch.batch_wellformed_accepted",
        "P3R.C15Batch.p3_ok_verifyBatch", "P3R.C15Batch.p3_ok_meta", "P3R.C15Batch.p3_no_panic_partial",
        "P3R.C15Batch.p3PanicGuards_iff",
        "P3R.C15Batch.batch_terminals_mismatch_err", "P3R.C15Batch.batch_instances_mismatch_err",
        "P3R.C15Batch.p3_instances_mismatch_err", "P3R.C15Batch.honest_batch_shapes_ok",
        "P3R.C15Batch.batchChecks_partial_steps", "P3R.C15Batch.batchPanicGuards_iff", "P3R.C15Batch.batch_no_panic",
        "P3R.C15Batch.batch_degree_out_of_range_err",
        "P3R.Witness.C15Batch.degree_bits_panics", "P3R.Witness.C15Batch.degree_bits_out_of_range_rejected",
        "P3R.Witness.C15Batch.quotient_domain_panics",
        "P3R.Witness.C15Batch.air_eval_panics", "P3R.Witness.C15Batch.log_arity_rejected",
        "P3R.Witness.C15Batch.cap_rejected", "P3R.Witness.C15Batch.log_blowup_rejected",
        "P3R.Witness.C15Batch.airs_build_panics", "P3R.Witness.C15Batch.query_dropped_accepted",
        "P3R.Witness.C15Batch.cap_resized_accepted", "P3R.Witness.C15Batch.free_degree_accepted",
        "P3R.Witness.C15Batch.pinned_degree_rejected", "P3R.Witness.C15Batch.terminals_short_rejected",
        "P3R.Witness.C15Batch.terminals_long_rejected", "P3R.Witness.C15Batch.instances_long_rejected",
        "P3R.Witness.C15Batch.single_alterations_rejected", "P3R.Witness.C15Batch.no_panic_full_false",
        "P3R.Witness.C15Batch.malformed_rejected_full_false", "P3R.Witness.C15Batch.witnesses_falsify_guards",
    ],
    "run": run,
    "trusted_base": [
        "the shape vector extracted by the harness (harness/src/c15_shape.rs) is the builder-visible shape of the mutant: "
        "lengths / counts / options read from the same serialised input the typed proof is deserialised from",
        "environment constants of the model (usize = 64 bits with overflow checks as in the dev profile the harness is built "
        "in, BabyBear bits = 31, two-adicity = 27) are parameters of the theorems and fixed only in the driver lines "
        "(the allocation bound 2^26 targets is still printed but no step reads it since /repo fc0321f: no allocation size is "
        "computed from a prover-supplied integer any more)",
        "batch path: the AIR facts of the batch model's environment (width, opens_trace_next, declares_interactions(pre_w), "
        "get_log_num_quotient_chunks(pre_w, lookups[i])) are what the real RecursiveAir methods return for the mutant's common "
        "data, called by the harness under catch_unwind (harness/src/c15_batch.rs; `-` = the AIR's eval panics); for the "
        "circuit-prover path the three table AIRs are rebuilt from the mutant's metadata by a transcription of "
        "batch_stark.rs:220-249 (`airsBuild` = no panic) — the arithmetic inside the AIR constructors is not modelled",
        "batch path: the `tag` of a batch driver line (hash of the lookup contexts) only takes part in the same/different "
        "comparison of accepted shapes",
    ],
    "assumptions": [
        "AIR-dependent step: an AIR that declares preprocessed width w indexes w preprocessed columns in eval "
        "(true of the harness AIR transcribed from recursion/tests/common MulAir); the uni verifier evaluates the AIR with the "
        "proof's width before validating it",
        "non-ZK TwoAdicFriPcs with Merkle-tree MMCS (arity 2), extension degree 4, all matrices of one round of the "
        "uni-STARK share the trace height (single height group; the batch bases exercise several heights per round with the same "
        "step lists); hiding PCS / arity-4 MMCS / WHIR shapes are not enumerated",
        "batch path: non-ZK PCS (config.is_zk() = 0), LogUp gadget with 2 challenges, TRACE_D = 1, no non-primitive tables "
        "(numProvers = 0: a manifest entry is rejected by the count check; the op-type / batch_air_from_table_entry step is the "
        "environment Boolean npoEntriesOk); `degree_bits[i]` of an instance without preprocessed metadata is the prover's "
        "declared trace height (native validate_degree_bits accepts every in-range value), so an accepted change of it is "
        "the well-formed circuit for that height and not a violation (counted in the histogram); a pinned one is",
        "fixes C15-1/2/3 and /repo ca07f07, fc0321f, 069da9d, c030fca, 0e5036a applied: F9b, F9c, F9d, F9e, F9i, F9j, F9k, F9l, "
        "F9o, F9p and the shift / bit-width part of F9a (F9a-1) are repaired; their corpus cases are regression cases "
        "(expect_outcome = err; C07-F4: a proof shape without fold phase must be accepted, expect_outcome = ok different) and "
        "a return of the old behaviour is a VIOLATION (class regression:<id>, plus the unlisted panic class, plus a model "
        "disagreement for the modelled ones)",
        "F9a is only partly repaired: a crash on an altered degree_bits is the known finding only when it is the unwrap() "
        "inside a PCS domain constructor and the largest declared degree_bits lies in TWO_ADICITY-1 ..= Val::bits() (class "
        "panic:degree_bits:above-two-adicity-within-field-bits, harness/src/c15.rs panic_class; the bases have "
        "log_quotient_degree <= 1, so this is TWO_ADICITY < degree_bits + log_quotient_degree <= Val::bits()); every other "
        "crash there keeps the class panic:degree_bits, which no known finding matches",
        "full statements are still false: the negations are proved on concrete shape vectors (P3R.Witness.C15) and every "
        "witness is replayed on the real builders each run (corpus/c15); the _partial theorems carry the decidable "
        "hypothesis PanicGuards (no-panic; proved equal to three arithmetic facts by panicGuards_iff / batchPanicGuards_iff) "
        "and additionally quantify the accepted family (any query count >= 1, any power-of-two cap sizes) in uni_ok_validated",
    ],
}

MANIFEST_ENTRY = {
    "property_id": "C15",
    "quick_cmd": "bin/check C15 --tier quick",
    "thorough_cmd": "bin/check C15 --tier thorough",
    "evidence_file": "evidence/C15.json",
    "replay_cmd_template": "bin/check C15 --replay {path}",
    "engine": "lean-models",
    "technique": "Lean 4 theorems over an ordered guarded-step model of the circuit builders' shape control flow "
                 "(every shape vector, every environment) + complete single-alteration enumeration on real proofs "
                 "(real builders under catch_unwind in worker processes) + line-exact outcome correspondence",
    "level_claimed": {
        "category": "proof",
        "text": "for every shape vector and environment: accepted => every validated component has its expected value "
                "(uni-STARK + FRI + MMCS caps), no panic under the explicit guard hypothesis, well-formed shapes accepted; the "
                "full statements (never panics / every malformed shape rejected) are refuted on concrete witnesses replayed on "
                "the real code (6 known findings left: F9a narrowed to the two-adicity window, F9f, F9g, F9h, F9m, F9n; the "
                "repaired ones are proved rejected for every shape: fri_pow_mismatch_err, fri_height_overflow_err, "
                "open_input_height_err, fri_sibling_mismatch_err, fri_log_arity_out_of_range_err, open_input_bad_cap_err, "
                "fri_height_above_two_adicity_err, uni_degree_out_of_range_err, batch_degree_out_of_range_err; the guard "
                "hypothesis is proved to be exactly three arithmetic facts (panicGuards_iff, batchPanicGuards_iff) and the FRI + "
                "MMCS part to have a single partial step left (fri_no_panic)); model tied to the Rust by outcome-exact comparison on every single "
                "alteration of 3 uni bases and on seeded pairs; batch path modelled (Model/BatchShape.lean: verify_p3_batch_proof_circuit "
                "metadata validation + allocate + verify_batch_circuit, generic in the AIRs' facts): accepted => instance / degree / "
                "terminal / lookup / metadata counts equal the AIR count, every per-instance opening has its expected length, "
                "preprocessed metadata pins matrix index, width and degree, every named zip has equal sides (batch_ok_*), no panic "
                "under BatchPanicGuards (each guard shown necessary by a witness), F9j/F9k/F9l and the repaired part of F9a proved rejected for every shape, conversely "
                "every shape with the expected STARK-layer components whose PCS part passes is accepted (batch_wellformed_accepted), honest "
                "shapes accepted; tied to the Rust by outcome-exact comparison on every single alteration of 5 batch bases "
                "(2 circuit-prover, 3 generic: 1/2/4 instances, with/without preprocessed data, lookups, next-row opening) and on pairs",
        "design_ref": "4/C15",
    },
    "level_note": "Lean kernel + 3 standard axioms; the model is a hand transcription of the builders' shape-dependent "
                  "statements (order included) and covers the uni-STARK path and the batch path (batch path modelled with the "
                  "AIRs' symbolic-evaluation results and the AIR reconstruction from table metadata as environment facts "
                  "supplied by the real code; non-primitive tables, ZK PCS and the AIR constructors' arithmetic not modelled); "
                  "overflow panics are profile dependent (dev profile observed)",
}
