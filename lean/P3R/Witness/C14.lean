/-
C14 — the malformed-sibling-count shape, after the repair /repo fc0321f.

History. `CommitPhaseProofStepTargets::new` used to allocate `(2^log_arity − 1)·D`
sibling-coefficient inputs while `get_private_values` packs `sibling_values.len()·D` values; for a
proof whose step carries `log_arity = 1` but two siblings the packed private vector was longer than
`private_flat_len` (D = 4: 18 values for 14 targets), `packing_aligned_*` needed the hypothesis
`PcsShape.wf`, and this file proved that the hypothesis could not be dropped (`wf_needed`).

Now `new` allocates `sibling_values.len()·D` targets: the same shape is *aligned* (`bad_lengths`:
18 values for 18 targets; `packing_aligned_*` hold unconditionally, which makes the old `wf_needed`
false), and it is refused when the verifier circuit is built:

* `bad_rejected` — this shape: `friSibCheck` answers `siblings 0 0` (query 0, phase 0);
* `P3R.C14.malformed_siblings_rejected` (`Props/C14Siblings.lean`) — every shape that is not `wf`,
  every `D ≥ 1`: error;
* `sib_check_needed` — why the build-time check matters for "every input matters": on this shape
  the surplus sibling's four coefficients are allocated and packed, and the verifier model consumes
  none of them (the fold of an arity-2 phase reads one sibling). So `no_dead_input_uni` is false
  without its hypothesis (`wf`, or `friSibCheck = ok` in `no_dead_input_uni_built`).

The harness replays exactly this shape on the real code every run
(`corpus/c14/malformed_siblings.json`): allocate / pack / run accepts the vectors (lengths agree),
`verify_p3_uni_proof_circuit`-level construction (`RecursivePcs::verify_circuit`) must fail with
the sibling-count `InvalidProofShape`.
-/
import P3R.Props.C14

namespace P3R.Witness.C14
open P3R.Packing P3R.C14

/-- One query, one arity-2 commit-phase step that carries two siblings instead of one. -/
def badPcs : PcsShape := ⟨none, ⟨[1], 1, [⟨[⟨[3], []⟩], [⟨1, 2, []⟩]⟩], 1⟩⟩
def badUni : UniShape := ⟨0, ⟨1, none, 1, none⟩, ⟨3, some 3, none, none, [1], none⟩, badPcs, none⟩

theorem bad_not_wf : badPcs.wf = false := by decide

/-- Lengths agree now: 18 private values are packed for 18 private targets (D = 4, E = 8);
    before the repair: 18 for 14. -/
theorem bad_lengths :
    (uniPriv 4 badUni).length = 18 ∧ privateFlatLen (uniAlloc 4 8 badUni) = 18 := by
  constructor <;> decide

/-- **Rejected at build time**: the verifier model refuses the shape at query 0, phase 0. -/
theorem bad_rejected : friSibCheck 4 badPcs.fri = .error (.siblings 0 0) := by rfl

/-- The general statement specialised to this shape (the route every malformed shape takes). -/
theorem bad_rejected' : ∃ e, friSibCheck 4 badPcs.fri = .error e :=
  malformed_siblings_rejected 4 (by decide) badPcs.fri bad_not_wf

/-- **The hypothesis of `no_dead_input_uni(_built)` cannot be dropped**: the last coefficient of
    the surplus sibling (flat position 7 of `fri.q0.ph0.sib`) is allocated and consumed by nothing. -/
theorem sib_check_needed :
    ¬ ∀ (D E : Nat) (s : UniShape), s.validated = true →
        ∀ sl ∈ uniAlloc D E s, sl.lab ∈ uniUses D E s := by
  intro h
  have h1 : (⟨Vis.priv, "fri.q0.ph0.sib.7"⟩ : Slot) ∈ uniAlloc 4 8 badUni := by decide
  have h2 := h 4 8 badUni (by decide) _ h1
  revert h2
  decide

/-- Both halves of the alignment need no hypothesis at all (kept under its old name for the public
    half; the private half is `P3R.C14.packing_aligned_uni`). -/
theorem pub_aligned_unconditional (D E : Nat) (s : UniShape) :
    pubOf (uniAlloc D E s) = uniPub E s := (packing_aligned_uni D E s).1

/-- The formerly failing instance, now a theorem: the malformed shape is packed in allocation order. -/
theorem bad_aligned :
    pubOf (uniAlloc 4 8 badUni) = uniPub 8 badUni ∧ privOf (uniAlloc 4 8 badUni) = uniPriv 4 badUni :=
  packing_aligned_uni 4 8 badUni

end P3R.Witness.C14

#print axioms P3R.Witness.C14.bad_lengths
#print axioms P3R.Witness.C14.bad_rejected
#print axioms P3R.Witness.C14.bad_rejected'
#print axioms P3R.Witness.C14.sib_check_needed
#print axioms P3R.Witness.C14.pub_aligned_unconditional
#print axioms P3R.Witness.C14.bad_aligned
