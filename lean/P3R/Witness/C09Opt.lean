/-
Witnesses for `P3R.C09O` (Props/C09Opt.lean).

* `good_*` — the reachable example of `Witness.C09Total` (pub, priv, a hint range-checked by
  `assert_bool` then used in `b`, a fusable mul + add — a `MulAdd` row is really produced —, a
  backward `sub` row) satisfies `operandsGuarded` and `noTableOutputsUsed`; `lower_hdu`,
  `lower_dedup_defuse` apply; `fuseKeeps` holds, so `compiled_bus_balanced_of_fuseKeeps` gives the
  balance of every slot (non-vacuity of every hypothesis).
* `tbl_*` — necessity: the program of `Witness.C09Compile.tbl_dedup_breaks` (a table-backed output
  consumed by arithmetic) fails `noTableOutputsUsed` and `operandsGuarded`; its lowered list fails the
  strengthened certificate `hduFrom … []` although it carries `sduFrom` / `defUse`.
* `hnt_*` — the same program with a hint executor fails `operandsGuarded` (the hint output is the `a`
  operand of `add t y u` with no other creator) but carries `hduFrom` with `H` = the hint's output
  slot: the list-level theorems `dedup_preserves_hdu` / `dedup_preserves_defuse` apply to it with a
  non-empty `H` (non-vacuity of the hint-aware part).
-/
import P3R.Props.C09Opt
import P3R.Witness.C09Compile
open P3R P3R.C02T P3R.Witness.C09Total P3R.Witness.C09Compile

namespace P3R.Witness.C09Opt

theorem good_operandsGuarded :
    operandsGuarded bGood = true ∧ noTableOutputsUsed bGood = true := by decide +kernel

theorem good_fuseKeeps :
    (match lower bGood with
     | .ok l => P3R.fuseKeeps l
     | .error _ => false) = true := by decide +kernel

/-- `lower_hdu` and `lower_dedup_defuse` apply to the example. -/
example (l : Lowered Int) (hl : lower bGood = .ok l) :
    defUse (l.privRows.toList.map (resolve (dedup l.ops).2)) (dedup l.ops).1.toList = true :=
  P3R.C09O.lower_dedup_defuse bGood good_reachable.ok good_guarded.1 good_guarded.2
    good_operandsGuarded.1 l hl

/-- The example compiles, and the fusion step really fuses (a `MulAdd` row is produced). -/
theorem good_fuses :
    (match lower bGood with
     | .ok l => (fuse (dedup l.ops).1 (l.privRows.toList.map (resolve (dedup l.ops).2))).toList.any
         fun op => match op with
           | .alu .mulAdd _ _ _ _ _ => true
           | _ => false
     | .error _ => false) = true := by decide +kernel

/-- Necessity: the table-backed program is excluded by both guards, and its lowered list does not
carry the strengthened certificate (it does carry the plain one: `tbl_dedup_breaks`). -/
theorem tbl_excluded :
    noTableOutputsUsed bTbl = false ∧ operandsGuarded bTbl = false ∧
    (match lower bTbl with
     | .ok l => P3R.C09O.hduFrom l.privRows.toList [] [] l.ops.toList
     | .error _ => true) = false := by decide +kernel

/-- The hint-aware part is not vacuous: with a hint executor the lowered list carries `hduFrom` for
`H` = the hint outputs of the list, and fails it for `H = []`. -/
theorem hnt_hdu :
    (match lower bHnt with
     | .ok l => P3R.C09O.hduFrom l.privRows.toList (hintSlots l.ops.toList) [] l.ops.toList &&
         !(P3R.C09O.hduFrom l.privRows.toList [] [] l.ops.toList)
     | .error _ => false) = true := by decide +kernel

/-! ### Fusion does not preserve the *plain* certificate at the list level

`mul 0 1 → 3; add 3 4 → 5; hint → [5]; add 2 4 → 6`: the `add` is a backward row for the role scan
(its `out` is a hint output — of a hint op that comes *later*), so its `b` request creates slot 4;
`scan_defs` sees no writer of slot 5 before the add, the add is fused into the mul's position, slot 4
moves to the `c` column (never a creator for a non-hint slot) and the `b` of the last row dangles.
The list is not `sduFrom` / `hduFrom`-certified (and the runner already fails on it: slot 5 is not
set when the add executes), and the lowering never emits it (`lower_sdu`); it shows that a proof of
`fuseKeeps` has to start from the strengthened certificate, not from `defUse`. -/

def fuseList : Array (Op Int) :=
  #[.pub 0 0, .pub 1 1, .pub 2 2, Op.mul 0 1 3, Op.add 3 4 5, .hint [0] [5] .hintBits, Op.add 2 4 6]

theorem fuse_breaks_plain_defuse :
    defUse [] fuseList.toList = true ∧ defUse [] (fuse fuseList []).toList = false ∧
    P3R.C09C.sduFrom [] [] fuseList.toList = false := by decide +kernel

end P3R.Witness.C09Opt
