/-
L1 — expression graph and expression builder.
Mirrors `circuit/src/expr.rs`, `circuit/src/builder/expression_builder.rs` and the
arithmetic part of `circuit/src/builder/circuit_builder.rs`.

Hash maps of the Rust code are association lists here (`List.lookup`); only membership /
lookup is ever used on these pools, never iteration, so the representation is faithful.
-/
namespace P3R

/-- `circuit/src/expr.rs::Expr`. Children are indices of earlier nodes. -/
inductive Expr (K : Type) where
  | const (v : K)
  | pub (pos : Nat)
  | priv (pos : Nat)
  | add (l r : Nat)
  | sub (l r : Nat)
  | mul (l r : Nat)
  | div (l r : Nat)
  | horner (acc alpha pz px : Nat)
  | boolCheck (v : Nat)
  | mulAdd (a b c : Nat)
  | npCall (op : Nat) (ins : List Nat)
  | npOut (call idx : Nat)
deriving Repr, DecidableEq

inductive BinKind where
  | add | mul | sub | div
deriving Repr, DecidableEq

/-- Which executor a non-primitive call carries (only what the models need). -/
inductive NpKind where
  /-- `BinaryDecompositionHint`, unconstrained. -/
  | hintBits
  /-- `ExtDecompositionHint`, unconstrained. -/
  | hintExt
  /-- table-backed op identified by a small tag (recompose, permutation, …). -/
  | table (tag : Nat)
deriving Repr, DecidableEq

/-- `NonPrimitiveOperationData` (without the executor closure). -/
structure NpData where
  kind : NpKind
  ins : List (List Nat)
  outs : List (List Nat)
deriving Repr, DecidableEq

/-- `ExpressionBuilder` + the counters of `CircuitBuilder` that lowering reads. -/
structure BState (K : Type) where
  nodes : Array (Expr K)
  constPool : List (K × Nat)
  cse : List ((BinKind × Nat × Nat) × Nat)
  mulAddPool : List ((Nat × Nat × Nat) × Nat)
  hornerPool : List ((Nat × Nat × Nat × Nat) × Nat)
  boolPool : List (Nat × Nat)
  connects : List (Nat × Nat)
  pubCount : Nat
  privCount : Nat
  npOps : Array NpData

section
variable {K : Type} [Zero K] [One K] [Add K] [Sub K] [Mul K] [DecidableEq K]

/-- `ExpressionBuilder::new`: node 0 is the constant zero and is pooled. -/
def BState.init : BState K :=
  { nodes := #[Expr.const 0], constPool := [((0 : K), 0)], cse := [], mulAddPool := [],
    hornerPool := [], boolPool := [], connects := [], pubCount := 0, privCount := 0,
    npOps := #[] }

def BState.push (s : BState K) (e : Expr K) : BState K × Nat :=
  ({ s with nodes := s.nodes.push e }, s.nodes.size)

def BState.constVal? (s : BState K) (id : Nat) : Option K :=
  match s.nodes[id]? with
  | some (Expr.const v) => some v
  | _ => none

def BState.isZero (s : BState K) (id : Nat) : Bool :=
  match s.constVal? id with
  | some v => decide (v = 0)
  | none => false

def BState.isOne (s : BState K) (id : Nat) : Bool :=
  match s.constVal? id with
  | some v => decide (v = 1)
  | none => false

/-- `define_const`. -/
def BState.defineConst (s : BState K) (v : K) : BState K × Nat :=
  match s.constPool.lookup v with
  | some id => (s, id)
  | none =>
    let (s', id) := s.push (Expr.const v)
    ({ s' with constPool := (v, id) :: s'.constPool }, id)

def BState.allocPublic (s : BState K) : BState K × Nat :=
  let (s', id) := s.push (Expr.pub s.pubCount)
  ({ s' with pubCount := s.pubCount + 1 }, id)

def BState.allocPrivate (s : BState K) : BState K × Nat :=
  let (s', id) := s.push (Expr.priv s.privCount)
  ({ s' with privCount := s.privCount + 1 }, id)

def commKey (k : BinKind) (l r : Nat) : BinKind × Nat × Nat :=
  if l ≤ r then (k, l, r) else (k, r, l)

/-- shared tail of add/sub/mul/div: CSE lookup, else push node and pool it. -/
def BState.cseOrPush (s : BState K) (key : BinKind × Nat × Nat) (e : Expr K) : BState K × Nat :=
  match s.cse.lookup key with
  | some id => (s, id)
  | none =>
    let (s', id) := s.push e
    ({ s' with cse := (key, id) :: s'.cse }, id)

/-- `ExpressionBuilder::add`. -/
def BState.add (s : BState K) (l r : Nat) : BState K × Nat :=
  if s.isZero l then (s, r)
  else if s.isZero r then (s, l)
  else match s.constVal? l, s.constVal? r with
    | some a, some b => s.defineConst (a + b)
    | _, _ => s.cseOrPush (commKey .add l r) (Expr.add l r)

/-- `ExpressionBuilder::sub`. -/
def BState.sub (s : BState K) (l r : Nat) : BState K × Nat :=
  if s.isZero r then (s, l)
  else if l = r then (s, 0)
  else match s.constVal? l, s.constVal? r with
    | some a, some b => s.defineConst (a - b)
    | _, _ => s.cseOrPush (.sub, l, r) (Expr.sub l r)

/-- `ExpressionBuilder::mul`. -/
def BState.mul (s : BState K) (l r : Nat) : BState K × Nat :=
  if s.isZero l || s.isZero r then (s, 0)
  else if s.isOne l then (s, r)
  else if s.isOne r then (s, l)
  else match s.constVal? l, s.constVal? r with
    | some a, some b => s.defineConst (a * b)
    | _, _ => s.cseOrPush (commKey .mul l r) (Expr.mul l r)

/-- `ExpressionBuilder::div`. -/
def BState.div (s : BState K) (l r : Nat) : BState K × Nat :=
  if s.isOne r then (s, l)
  else if s.isZero l then (s, 0)
  else if l = r then s.defineConst 1
  else s.cseOrPush (.div, l, r) (Expr.div l r)

/-- `add_horner_acc`: `acc * alpha + p_at_z - p_at_x`. -/
def BState.horner (s : BState K) (acc alpha pz px : Nat) : BState K × Nat :=
  match s.constVal? acc, s.constVal? alpha, s.constVal? pz, s.constVal? px with
  | some va, some vb, some vz, some vx => s.defineConst (va * vb + vz - vx)
  | _, _, _, _ =>
    match s.hornerPool.lookup (acc, alpha, pz, px) with
    | some id => (s, id)
    | none =>
      let (s', id) := s.push (Expr.horner acc alpha pz px)
      ({ s' with hornerPool := ((acc, alpha, pz, px), id) :: s'.hornerPool }, id)

/-- `add_bool_check`. -/
def BState.boolCheck (s : BState K) (v : Nat) : BState K × Nat :=
  if s.isZero v || s.isOne v then (s, v)
  else match s.boolPool.lookup v with
    | some id => (s, id)
    | none =>
      let (s', id) := s.push (Expr.boolCheck v)
      ({ s' with boolPool := (v, id) :: s'.boolPool }, id)

def mulAddKey (a b c : Nat) : Nat × Nat × Nat := if a ≤ b then (a, b, c) else (b, a, c)

/-- `add_mul_add`: `a * b + c`. -/
def BState.mulAdd (s : BState K) (a b c : Nat) : BState K × Nat :=
  match s.constVal? a, s.constVal? b, s.constVal? c with
  | some va, some vb, some vc => s.defineConst (va * vb + vc)
  | _, _, _ =>
    match s.mulAddPool.lookup (mulAddKey a b c) with
    | some id => (s, id)
    | none =>
      let (s', id) := s.push (Expr.mulAdd a b c)
      ({ s' with mulAddPool := (mulAddKey a b c, id) :: s'.mulAddPool }, id)

/-- `connect` (expression level; provenance caches are not part of this layer). -/
def BState.connect (s : BState K) (a b : Nat) : BState K :=
  if a = b then s else { s with connects := s.connects ++ [(a, b)] }

def BState.assertZero (s : BState K) (e : Nat) : BState K := s.connect e 0

/-- `assert_bool`. -/
def BState.assertBool (s : BState K) (b : Nat) : BState K :=
  let (s', chk) := s.boolCheck b
  s'.connect b chk

/-- `select(b, t, s) = s + b·(t − s)`. -/
def BState.select (st : BState K) (b t s : Nat) : BState K × Nat :=
  if t = s then (st, s)
  else if st.isZero b then (st, s)
  else if st.isOne b then (st, t)
  else
    let (st1, d) := st.sub t s
    st1.mulAdd b d s

/-- `mul_many`. -/
def BState.mulMany (s : BState K) (xs : List Nat) : BState K × Nat :=
  match xs with
  | [] => s.defineConst 1
  | x :: rest => rest.foldl (fun (acc : BState K × Nat) y => acc.1.mul acc.2 y) (s, x)

/-- `inner_product` (caller guarantees equal lengths; the Rust `zip_eq` panics otherwise). -/
def BState.innerProduct (s : BState K) (xs ys : List Nat) : BState K × Nat :=
  (xs.zip ys).foldl (fun (acc : BState K × Nat) xy => acc.1.mulAdd xy.1 xy.2 acc.2) (s.defineConst 0)

/-- `exp_power_of_2`. -/
def BState.expPow2 (s : BState K) (base k : Nat) : BState K × Nat :=
  (List.range k).foldl (fun (acc : BState K × Nat) _ => acc.1.mul acc.2 acc.2) (s, base)

/-- `push_non_primitive_op_with_outputs` with every output labelled (all outputs exist). -/
def BState.pushNp (s : BState K) (kind : NpKind) (ins : List (List Nat)) (nOut : Nat) :
    BState K × List Nat :=
  let opId := s.npOps.size
  let (s1, call) := s.push (Expr.npCall opId ins.flatten)
  let (s2, outs) := (List.range nOut).foldl
    (fun (acc : BState K × List Nat) i =>
      let (st, id) := acc.1.push (Expr.npOut call i)
      (st, acc.2 ++ [id])) (s1, [])
  ({ s2 with npOps := s2.npOps.push { kind := kind, ins := ins, outs := outs.map fun o => [o] } },
   outs)

end

section
variable {K : Type} [Zero K] [One K] [Add K] [Sub K] [Mul K] [DecidableEq K]

/-- `reconstruct_index_from_bits` for a degree-1 field (`F = BF`): `Σ bᵢ·2ⁱ` as a mul-add
chain, each bit asserted boolean. `pow2 i` is the constant `2^i` of the field. -/
def BState.reconstructBits (s : BState K) (pow2 : Nat → K) (bits : List Nat) : BState K × Nat :=
  let start := s.defineConst 0
  (bits.zipIdx).foldl (fun (acc : BState K × Nat) (bi : Nat × Nat) =>
      let (st, p2) := acc.1.defineConst (pow2 bi.2)
      let st := st.assertBool bi.1
      st.mulAdd bi.1 p2 acc.2) start

/-- `decompose_to_bits` for a degree-1 field. -/
def BState.decomposeToBits (s : BState K) (pow2 : Nat → K) (x n : Nat) : BState K × List Nat :=
  let (s1, bits) := s.pushNp .hintBits [[x]] n
  let (s2, rec) := s1.reconstructBits pow2 bits
  (s2.connect x rec, bits)

end

end P3R
