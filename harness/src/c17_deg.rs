//! C17, every extension degree the FRI backend offers.
//!
//! `recursion/src/backend/fri.rs` has one `impl PcsRecursionBackend<SC, A, D>` per degree
//! (`FriRecursionBackendForExt<2>`, `FriRecursionBackendForExt<4>`, `FriRecursionBackendD5`), and
//! each hands out THREE lists that have to describe one table set:
//! `non_primitive_provers(D)`, `non_primitive_preprocessors()`, `non_primitive_air_builders()`.
//! The lists meet in two places of the real code:
//!
//! * proving step k: `get_airs_and_degrees_with_prep` turns (preprocessors, air builders) into the
//!   committed AIR list; `prove_all_tables` keeps, in order, the provers that find a trace
//!   (`batch_instance_d{2,4,5}`), and that filtered list becomes `proof.non_primitives`;
//! * building step k+1: `verify_p3_batch_proof_circuit` demands
//!   `proof.non_primitives.len() == non_primitive_provers(proof.ext_degree).len()` and pairwise equal
//!   `op_type`s.
//!
//! So the *chaining condition* is: the verifier-side table list of step k+1 (the full prover list)
//! equals the prover-side table list of step k (the provers that found a trace). This file checks
//! it for every (field, degree, challenger permutation) the library is instantiated for in
//! `recursion/examples/*` — the configuration plumbing below is that of
//! `recursion/examples/common/mod.rs`, as `c17_cfg.rs` is for KoalaBear D = 4 —
//!
//! * `tables` leg (cheap, every run, all configurations, recompose NPO on and off): build the real
//!   verification circuit of a base proof, run it, ask the real plugins; no proof is made;
//! * `chain` leg (real proofs): base -> layer 1 -> layer 2 (-> aggregation(l1, l1) -> layer 3), every
//!   output verified natively and offered to the next step.
//!
//! Lines for the Lean driver (`lean/MainC17.lean`, model `P3R.Tables`):
//!   `tabs <name> P=.. T=.. K=.. B=..`   answered `tabs <name> carried=.. air=.. accept=0|1 aligned=0|1`
//!   `tabsacc <name> P=.. proof=..`      answered `tabsacc <name> accept=0|1`

use std::collections::BTreeMap;

use serde_json::{Value, json};

pub struct DegOut {
    pub cases: Vec<String>,
    pub impl_: Vec<String>,
    pub violations: Vec<Value>,
    pub hist: BTreeMap<String, u64>,
    pub records: Vec<Value>,
    pub evaluations: u64,
}

impl DegOut {
    pub fn new() -> Self {
        DegOut { cases: vec![], impl_: vec![], violations: vec![], hist: BTreeMap::new(), records: vec![], evaluations: 0 }
    }
    pub fn bump(&mut self, k: &str) {
        *self.hist.entry(k.to_string()).or_insert(0) += 1;
    }
}

pub fn csv(v: &[String]) -> String {
    if v.is_empty() { "-".into() } else { v.join(",") }
}

/// What the real plugins of one backend say about one verification circuit.
#[derive(Clone, Debug, Default)]
pub struct TableLists {
    /// `non_primitive_provers(D)`: op types in order (what step k+1 expects of a step-k proof)
    pub provers: Vec<String>,
    pub prover_lanes: Vec<usize>,
    /// op types with a non-empty trace after running the circuit (sorted)
    pub traced: Vec<String>,
    /// provers whose `batch_instance_d{D}` is `Some` on those traces, in order (= `proof.non_primitives`)
    pub carried: Vec<String>,
    /// (main width, preprocessed width) of each carried instance's AIR
    pub carried_widths: Vec<(usize, usize)>,
    /// keys of the map the preprocessors produce (sorted)
    pub prep_keys: Vec<String>,
    /// for every air builder: the keys it accepts (`try_build` is `Some`), in sorted key order
    pub builder_accepts: Vec<Vec<String>>,
    pub builder_lanes: Vec<usize>,
    /// (main width, preprocessed width) of the dynamic AIRs `get_airs_and_degrees_with_prep` returned
    pub air_widths: Vec<(usize, usize)>,
}

impl TableLists {
    /// the loop at the end of `get_airs_and_degrees_with_prep`: per builder the first accepted key
    pub fn air_list(&self) -> Vec<String> {
        self.builder_accepts.iter().filter_map(|a| a.first().cloned()).collect()
    }
    pub fn case_line(&self, name: &str) -> String {
        let b: Vec<String> = self.builder_accepts.iter().map(|a| if a.is_empty() { "-".into() } else { a.join("+") }).collect();
        format!(
            "tabs {name} P={} T={} K={} B={}",
            csv(&self.provers),
            csv(&self.traced),
            csv(&self.prep_keys),
            if b.is_empty() { "-".into() } else { b.join(";") }
        )
    }
    pub fn accepted_by_next(&self) -> bool {
        self.carried == self.provers
    }
    pub fn aligned(&self) -> bool {
        self.air_list() == self.carried
    }
    pub fn impl_line(&self, name: &str) -> String {
        format!(
            "tabs {name} carried={} air={} accept={} aligned={}",
            csv(&self.carried),
            csv(&self.air_list()),
            self.accepted_by_next() as u8,
            self.aligned() as u8
        )
    }
    pub fn json(&self) -> Value {
        json!({"provers": self.provers, "prover_lanes": self.prover_lanes, "traced": self.traced, "carried": self.carried,
            "prep_keys": self.prep_keys, "air_builders_accept": self.builder_accepts, "air_builder_lanes": self.builder_lanes,
            "air_list": self.air_list(), "air_widths": self.air_widths, "carried_widths": self.carried_widths})
    }
}

/// Judge one set of lists. `name` = configuration, `recompose_on` = the integrator enabled the
/// recompose NPO in `prepare_circuit_for_verification` (the library default; with it off the
/// backend still lists the recompose tables, see `observations`).
pub fn judge(name: &str, input: &Value, l: &TableLists, recompose_on: bool, out: &mut DegOut) {
    out.evaluations += 1;
    out.bump(&format!("tables.{name}.provers-{}.carried-{}", l.provers.len(), l.carried.len()));
    let replay = json!({"family": "tables", "config": name, "recompose_npo": recompose_on, "input": input, "lists": l.json()});
    let mut found: Vec<Value> = vec![];
    let mut observations: Vec<String> = vec![];
    let mut v = |class: &str, what: String| {
        found.push(json!({"property": "C17", "kind": "oracle", "class": class, "family": format!("tables:{name}"),
            "config": name, "detail": what, "replay": replay.clone()}));
    };
    if recompose_on {
        if !l.accepted_by_next() {
            v(
                "backend-table-lists-inconsistent:provers-vs-proof",
                format!(
                    "non_primitive_provers(D) names {:?}, a proof of this backend's own verification circuit carries {:?}: \
                     verify_p3_batch_proof_circuit refuses it as the next input",
                    l.provers, l.carried
                ),
            );
        }
    } else if !l.accepted_by_next() {
        observations.push(format!("tables.{name}.observation.recompose-off-output-not-chainable"));
    }
    if !l.aligned() {
        v(
            "backend-table-lists-inconsistent:air-builders-vs-provers",
            format!(
                "non_primitive_air_builders() commit AIRs for {:?}, the provers produce instances for {:?}",
                l.air_list(),
                l.carried
            ),
        );
    } else if l.air_widths != l.carried_widths {
        v(
            "backend-table-lists-inconsistent:air-shapes",
            format!("(width, preprocessed width) of the committed AIRs {:?} vs of the proven instances {:?}", l.air_widths, l.carried_widths),
        );
    }
    if l.air_widths.len() != l.air_list().len() {
        v(
            "backend-table-lists-inconsistent:air-count",
            format!("get_airs_and_degrees_with_prep returned {} dynamic AIRs, the builders accept {:?}", l.air_widths.len(), l.builder_accepts),
        );
    }
    for t in &l.traced {
        if !l.provers.contains(t) {
            v("backend-table-lists-inconsistent:trace-without-prover", format!("the verification circuit has a {t} trace, no prover is listed for it"));
        }
        if !l.prep_keys.contains(t) {
            v("backend-table-lists-inconsistent:trace-without-preprocessor", format!("the verification circuit has a {t} trace, no preprocessor emits it"));
        }
    }
    // lanes: an air builder's default lane count must be that of the prover of the same table
    for (k, key) in l.air_list().iter().enumerate() {
        let bi = l.builder_accepts.iter().enumerate().filter(|(_, a)| !a.is_empty()).nth(k).map(|(i, _)| i);
        if let (Some(bi), Some(pi)) = (bi, l.provers.iter().position(|p| p == key)) {
            if l.builder_lanes[bi] != l.prover_lanes[pi] {
                v(
                    "backend-table-lists-inconsistent:lanes",
                    format!("table {key}: air builder packs {} ops per row, prover {}", l.builder_lanes[bi], l.prover_lanes[pi]),
                );
            }
        }
    }
    drop(v);
    out.violations.extend(found);
    for o in observations {
        out.bump(&o);
    }
    out.cases.push(l.case_line(name));
    out.impl_.push(l.impl_line(name));
    out.records.push(json!({"config": name, "recompose_npo": recompose_on, "lists": l.json(),
        "accepted_by_next": l.accepted_by_next(), "aligned": l.aligned()}));
}

/// One configuration: types as in `recursion/examples/common/mod.rs`, then the two legs.
macro_rules! deg_cfg {
    (
        $modname:ident, $label:expr, $field:ty, $challenge:ty, $d:expr,
        $perm:ty, $default_perm:expr, $pcfg:expr, $ccfg:ty,
        $width:expr, $rate:expr, $digest:expr,
        $enable_fn:ident, $circuit_perm:expr, $gen_trace:ident, $params_trait:path,
        $backend:expr, $register_fn:ident, $inst_fn:ident
    ) => {
        pub mod $modname {
            #![allow(dead_code, unused_imports)]
            use std::panic::{AssertUnwindSafe, catch_unwind};
            use std::rc::Rc;
            use std::sync::Arc;

            use p3_air::BaseAir;
            use p3_batch_stark::ProverData;
            use p3_challenger::DuplexChallenger;
            use p3_circuit::ops::{generate_poseidon1_trace, generate_poseidon2_trace, generate_recompose_trace};
            use p3_circuit::{CircuitBuilder, CircuitRunner, NonPrimitiveOpId};
            use p3_circuit_prover::common::{CircuitTableAir, get_airs_and_degrees_with_prep};
            use p3_circuit_prover::{BatchStarkProver, CircuitProverData, ConstraintProfile, TablePacking, TableProver};
            use p3_commit::{ExtensionMmcs, Pcs};
            use p3_dft::Radix2DitParallel;
            use p3_field::extension::{BinomialExtensionField, QuinticTrinomialExtensionField};
            use p3_field::{Field, PrimeCharacteristicRing};
            use p3_fri::{FriParameters, TwoAdicFriPcs};
            use p3_lookup::logup::LogUpGadget;
            use p3_merkle_tree::MerkleTreeMmcs;
            use p3_recursion::pcs::{InputProofTargets, MerkleCapTargets, RecValMmcs, set_fri_mmcs_private_data};
            use p3_recursion::traits::{RecursiveAir, RecursivePcs};
            use p3_recursion::verifier::VerificationError;
            use p3_recursion::{
                BatchOnly, FriRecursionBackend, FriRecursionConfig, FriVerifierParams, PcsRecursionBackend, Poseidon2Config,
                ProveNextLayerParams, RecursionInput, RecursionOutput, VerifierCircuitResult, build_and_prove_aggregation_layer,
                build_next_layer_circuit, prove_next_layer,
            };
            use p3_symmetric::{PaddingFreeSponge, TruncatedPermutation};
            use p3_uni_stark::{StarkConfig, StarkGenericConfig, Val};
            use serde_json::{Value, json};

            use super::{DegOut, TableLists, judge};

            pub const LABEL: &str = $label;
            pub type F = $field;
            pub const D: usize = $d;
            const WIDTH: usize = $width;
            const RATE: usize = $rate;
            const DIGEST_ELEMS: usize = $digest;
            pub const LOG_BLOWUP: usize = 2;
            pub const LOG_FINAL_POLY_LEN: usize = 0;

            pub type Challenge = $challenge;
            type Dft = Radix2DitParallel<F>;
            type Perm = $perm;
            type MyHash = PaddingFreeSponge<Perm, WIDTH, RATE, DIGEST_ELEMS>;
            type MyCompress = TruncatedPermutation<Perm, 2, DIGEST_ELEMS, WIDTH>;
            type MyMmcs = MerkleTreeMmcs<<F as Field>::Packing, <F as Field>::Packing, MyHash, MyCompress, 2, DIGEST_ELEMS>;
            type ChallengeMmcs = ExtensionMmcs<F, Challenge, MyMmcs>;
            type Challenger = DuplexChallenger<F, Perm, WIDTH, RATE>;
            type MyPcs = TwoAdicFriPcs<F, Dft, MyMmcs, ChallengeMmcs>;
            type MyConfig = StarkConfig<MyPcs, Challenge, Challenger>;
            type InnerFri = p3_recursion::pcs::FriProofTargets<
                F,
                Challenge,
                p3_recursion::pcs::RecExtensionValMmcs<F, Challenge, DIGEST_ELEMS, RecValMmcs<F, DIGEST_ELEMS, MyHash, MyCompress>>,
                InputProofTargets<F, Challenge, RecValMmcs<F, DIGEST_ELEMS, MyHash, MyCompress>>,
                p3_recursion::pcs::Witness<F>,
            >;

            #[derive(Clone)]
            pub struct Cfg {
                config: Arc<MyConfig>,
                fri: FriVerifierParams,
                disable_recompose_npo: bool,
            }

            impl StarkGenericConfig for Cfg {
                type Challenge = Challenge;
                type Challenger = Challenger;
                type Pcs = MyPcs;
                fn pcs(&self) -> &MyPcs {
                    self.config.pcs()
                }
                fn initialise_challenger(&self) -> Challenger {
                    self.config.initialise_challenger()
                }
            }

            impl FriRecursionConfig for Cfg
            where
                MyPcs: RecursivePcs<
                        Cfg,
                        InputProofTargets<F, Challenge, RecValMmcs<F, DIGEST_ELEMS, MyHash, MyCompress>>,
                        InnerFri,
                        MerkleCapTargets<F, DIGEST_ELEMS>,
                        <MyPcs as Pcs<Challenge, Challenger>>::Domain,
                    >,
            {
                type Commitment = MerkleCapTargets<F, DIGEST_ELEMS>;
                type InputProof = InputProofTargets<F, Challenge, RecValMmcs<F, DIGEST_ELEMS, MyHash, MyCompress>>;
                type OpeningProof = InnerFri;
                type RawOpeningProof = <MyPcs as Pcs<Challenge, Challenger>>::Proof;
                const DIGEST_ELEMS: usize = $digest;

                fn with_fri_opening_proof<'a, A, R>(prev: &RecursionInput<'a, Self, A>, f: impl FnOnce(&Self::RawOpeningProof) -> R) -> R
                where
                    A: RecursiveAir<Val<Self>, Self::Challenge, LogUpGadget>,
                {
                    match prev {
                        RecursionInput::UniStark { proof, .. } => f(&proof.opening_proof),
                        RecursionInput::BatchStark { proof, .. } => f(&proof.proof.opening_proof),
                    }
                }

                fn prepare_circuit_for_verification(&self, circuit: &mut CircuitBuilder<Challenge>) -> Result<(), VerificationError> {
                    let perm = ($circuit_perm)();
                    circuit.$enable_fn::<$ccfg, _>($gen_trace::<Challenge, $ccfg>, perm);
                    if self.disable_recompose_npo {
                        circuit.noop_enable_recompose::<F>(generate_recompose_trace::<F, Challenge>);
                    } else {
                        circuit.enable_recompose::<F>(generate_recompose_trace::<F, Challenge>);
                    }
                    if <$ccfg as $params_trait>::D == 1 && <Challenge as ::p3_field::BasedVectorSpace<F>>::DIMENSION > 1 {
                        circuit.set_recompose_coeff_ctl_for_decompose_links(true);
                    }
                    Ok(())
                }

                fn pcs_verifier_params(&self) -> &FriVerifierParams {
                    &self.fri
                }

                fn set_fri_private_data(
                    runner: &mut CircuitRunner<'_, Challenge>,
                    op_ids: &[NonPrimitiveOpId],
                    opening_proof: &Self::RawOpeningProof,
                ) -> Result<(), &'static str> {
                    set_fri_mmcs_private_data::<F, Challenge, ChallengeMmcs, MyMmcs, MyHash, MyCompress, DIGEST_ELEMS>(
                        runner,
                        op_ids,
                        opening_proof,
                        $pcfg,
                    )
                }
            }

            pub fn make_cfg(disable_recompose_npo: bool) -> Cfg {
                let perm = ($default_perm)();
                let hash = MyHash::new(perm.clone());
                let compress = MyCompress::new(perm.clone());
                let val_mmcs = MyMmcs::new(hash, compress, 0);
                let challenge_mmcs = ChallengeMmcs::new(val_mmcs.clone());
                let fri_params = FriParameters {
                    max_log_arity: 1,
                    log_blowup: LOG_BLOWUP,
                    log_final_poly_len: LOG_FINAL_POLY_LEN,
                    num_queries: 2,
                    commit_proof_of_work_bits: 1,
                    query_proof_of_work_bits: 1,
                    mmcs: challenge_mmcs,
                };
                let pcs = MyPcs::new(Dft::default(), val_mmcs, fri_params);
                let config = MyConfig::new(pcs, Challenger::new(perm));
                Cfg {
                    config: Arc::new(config),
                    fri: FriVerifierParams::with_mmcs(LOG_BLOWUP, LOG_FINAL_POLY_LEN, 1, 1, $pcfg),
                    disable_recompose_npo,
                }
            }

            pub fn packing() -> TablePacking {
                TablePacking::new(1, 1).with_fri_params(LOG_FINAL_POLY_LEN, LOG_BLOWUP)
            }
            pub fn params() -> ProveNextLayerParams {
                ProveNextLayerParams { table_packing: packing(), constraint_profile: ConstraintProfile::Standard }
            }

            /// The native verifier an integrator builds for a layer output (as in `recursive_fibonacci`).
            pub fn native_verify(cfg: &Cfg, out: &RecursionOutput<Cfg>, recompose_on: bool) -> Result<(), String> {
                let r = catch_unwind(AssertUnwindSafe(|| {
                    let mut v = BatchStarkProver::new(cfg.clone()).with_table_packing(packing());
                    v.$register_fn::<D>($pcfg);
                    if recompose_on {
                        v.register_recompose_table::<D>($pcfg.d() != D);
                    }
                    v.verify_all_tables::<Challenge>(&out.0).map_err(|e| format!("{e:?}"))
                }));
                match r {
                    Ok(x) => x,
                    Err(p) => Err(format!("panic: {}", p.downcast_ref::<String>().cloned().unwrap_or_default())),
                }
            }

            /// `recursive_aggregation.rs::prove_dummy_circuit`: a constant connected to a public input,
            /// proven over the base field (ext_degree 1, no non-primitive tables).
            pub fn prove_base(cfg: &Cfg, constant: u32, adds: usize) -> RecursionOutput<Cfg> {
                let table_packing = packing();
                let mut builder = CircuitBuilder::new();
                let mut acc = builder.alloc_const(F::from_u32(constant), "c");
                let one = builder.alloc_const(F::ONE, "one");
                let mut val = F::from_u32(constant);
                for _ in 0..adds {
                    acc = builder.add(acc, one);
                    val += F::ONE;
                }
                let expected = builder.alloc_public_input("expected");
                builder.connect(acc, expected);
                let circuit = builder.build().unwrap();
                let (airs_degrees, prim, nonprim) =
                    get_airs_and_degrees_with_prep::<Cfg, F, 1>(&circuit, &table_packing, &[], &[], ConstraintProfile::Standard).unwrap();
                let (airs, degrees): (Vec<_>, Vec<usize>) = airs_degrees.into_iter().unzip();
                let mut runner = circuit.runner();
                runner.set_public_inputs(&[val]).unwrap();
                let traces = runner.run().unwrap();
                let pd = ProverData::from_airs_and_degrees(cfg, &airs, &degrees);
                let cpd = CircuitProverData::new(pd, prim, nonprim);
                let prover = BatchStarkProver::new(cfg.clone()).with_table_packing(table_packing);
                let proof = prover.prove_all_tables(&traces, &cpd).expect("base circuit must prove");
                prover.verify_all_tables::<F>(&proof).expect("base proof must verify");
                RecursionOutput(proof, Rc::new(cpd))
            }

            fn widths(a: &CircuitTableAir<Cfg, D>) -> (usize, usize) {
                match a {
                    CircuitTableAir::Dynamic(e) => (
                        <_ as BaseAir<F>>::width(e),
                        <_ as BaseAir<F>>::preprocessed_trace(e).map(|m| p3_matrix::Matrix::width(&m)).unwrap_or(0),
                    ),
                    _ => (0, 0),
                }
            }

            /// The real plugins of `backend` on the real verification circuit of `prev`: the front half of
            /// `prove_next_layer` (same calls, same order) up to and without `prove_all_tables`.
            pub fn table_lists<B>(prev: &RecursionOutput<Cfg>, cfg: &Cfg, backend: &B) -> Result<TableLists, String>
            where
                B: PcsRecursionBackend<Cfg, BatchOnly, D>,
            {
                let r = catch_unwind(AssertUnwindSafe(|| -> Result<TableLists, String> {
                    let input = prev.into_recursion_input::<BatchOnly>();
                    let (circuit, vr) =
                        build_next_layer_circuit::<Cfg, BatchOnly, B, D>(&input, cfg, backend).map_err(|e| format!("build: {e:?}"))?;
                    let p = params();
                    let preprocessors = backend.non_primitive_preprocessors();
                    let air_builders = backend.non_primitive_air_builders();
                    let (airs_degrees, _prim, npo) = get_airs_and_degrees_with_prep::<Cfg, Challenge, D>(
                        &circuit,
                        &p.table_packing,
                        &preprocessors,
                        &air_builders,
                        p.constraint_profile,
                    )
                    .map_err(|e| format!("prep: {e:?}"))?;
                    let mut l = TableLists::default();
                    l.air_widths = airs_degrees.iter().skip(3).map(|(a, _)| widths(a)).collect();
                    let mut keys: Vec<_> = npo.iter().collect();
                    keys.sort_unstable_by(|a, b| a.0.cmp(b.0));
                    l.prep_keys = keys.iter().map(|(k, _)| k.to_string()).collect();
                    let min_height = p.table_packing.min_trace_height();
                    for b in &air_builders {
                        let mut acc = vec![];
                        for &(op, prep) in &keys {
                            let lanes = p.table_packing.npo_lanes(op).unwrap_or_else(|| b.lanes());
                            if b.try_build(op, prep, min_height, lanes, p.constraint_profile).is_some() {
                                acc.push(op.to_string());
                            }
                        }
                        l.builder_accepts.push(acc);
                        l.builder_lanes.push(b.lanes());
                    }
                    let traces = {
                        let public_inputs = vr.pack_public_inputs(&input).map_err(|e| format!("pack: {e:?}"))?;
                        let private_inputs = vr.pack_private_inputs(&input).map_err(|e| format!("pack: {e:?}"))?;
                        let mut runner = circuit.runner();
                        runner.set_public_inputs(&public_inputs).map_err(|e| format!("run: {e:?}"))?;
                        runner.set_private_inputs(&private_inputs).map_err(|e| format!("run: {e:?}"))?;
                        backend.set_private_data(cfg, &mut runner, vr.op_ids(), &input).map_err(|e| format!("private: {e}"))?;
                        runner.run().map_err(|e| format!("run: {e:?}"))?
                    };
                    let mut traced: Vec<String> =
                        traces.non_primitive_traces.iter().filter(|(_, t)| t.rows() > 0).map(|(k, _)| k.to_string()).collect();
                    traced.sort();
                    l.traced = traced;
                    for pr in backend.non_primitive_provers(D) {
                        l.provers.push(pr.op_type().to_string());
                        l.prover_lanes.push(pr.lanes());
                        if let Some(inst) = pr.$inst_fn(cfg, &p.table_packing, &traces) {
                            l.carried.push(inst.op_type.to_string());
                            l.carried_widths.push((
                                <_ as BaseAir<F>>::width(&inst.air),
                                <_ as BaseAir<F>>::preprocessed_trace(&inst.air).map(|m| p3_matrix::Matrix::width(&m)).unwrap_or(0),
                            ));
                        }
                    }
                    Ok(l)
                }));
                match r {
                    Ok(x) => x,
                    Err(p) => Err(format!("panic: {}", p.downcast_ref::<String>().cloned().unwrap_or_default())),
                }
            }

            /// `tables` leg for this configuration.
            pub fn tables(out: &mut DegOut) {
                let backend = $backend;
                for recompose_on in [true, false] {
                    let name = format!("{}{}", LABEL, if recompose_on { "" } else { "/recompose-off" });
                    let cfg = make_cfg(!recompose_on);
                    let base = prove_base(&make_cfg(true), 11, 0);
                    let input = json!({"base": "const 11 == public", "backend": stringify!($backend), "challenger_config": stringify!($pcfg), "D": D});
                    match table_lists(&base, &cfg, &backend) {
                        Ok(l) => judge(&name, &input, &l, recompose_on, out),
                        Err(e) => {
                            out.violations.push(json!({"property": "C17", "kind": "oracle", "class": "verified-proof-not-accepted-as-layer-input",
                                "family": format!("tables:{name}"), "config": name, "detail": e.chars().take(300).collect::<String>(),
                                "replay": {"family": "tables", "config": name, "input": input}}));
                        }
                    }
                }
            }

            fn op_types(o: &RecursionOutput<Cfg>) -> Vec<String> {
                o.0.non_primitives.iter().map(|e| e.op_type.to_string()).collect()
            }

            /// One step of the `chain` leg. `Ok(None)`: an input was missing.
            fn step(
                cfg: &Cfg,
                left: &RecursionOutput<Cfg>,
                right: Option<&RecursionOutput<Cfg>>,
            ) -> Result<RecursionOutput<Cfg>, (bool, String)> {
                let backend = $backend;
                let r = catch_unwind(AssertUnwindSafe(|| -> Result<RecursionOutput<Cfg>, (bool, String)> {
                    let li = left.into_recursion_input::<BatchOnly>();
                    match right {
                        None => {
                            // refused at circuit build = "not accepted as input"; afterwards = prove failure
                            let (c, vr) = build_next_layer_circuit::<Cfg, BatchOnly, _, D>(&li, cfg, &backend).map_err(|e| (true, format!("{e:?}")))?;
                            prove_next_layer::<Cfg, BatchOnly, _, D>(&li, &c, &vr, cfg, &backend, &params(), None).map_err(|e| (false, format!("{e:?}")))
                        }
                        Some(r) => {
                            let ri = r.into_recursion_input::<BatchOnly>();
                            build_and_prove_aggregation_layer::<Cfg, BatchOnly, BatchOnly, _, D>(&li, &ri, cfg, &backend, &params(), None)
                                .map_err(|e| {
                                    let s = format!("{e:?}");
                                    (s.contains("InvalidProofShape"), s)
                                })
                        }
                    }
                }));
                match r {
                    Ok(x) => x,
                    Err(p) => Err((false, format!("panic: {}", p.downcast_ref::<String>().cloned().unwrap_or_default()))),
                }
            }

            /// `chain` leg: `plan` entries are (left, right) with `usize::MAX` = the base proof, k = output
            /// of step k. Every output is verified natively and must be accepted wherever it is used.
            pub fn chain(name: &str, plan: &[(usize, Option<usize>)], base_adds: usize, recompose_on: bool, out: &mut DegOut) {
                let label = format!("{}{}:{}", LABEL, if recompose_on { "" } else { "/recompose-off" }, name);
                let cfg = make_cfg(!recompose_on);
                let base = prove_base(&make_cfg(true), 11, base_adds);
                let replay = json!({"family": "chain", "config": LABEL, "name": name, "backend": stringify!($backend),
                    "challenger_config": stringify!($pcfg), "D": D, "base_adds": base_adds, "recompose_npo": recompose_on,
                    "plan": plan.iter().map(|(l, r)| json!([if *l == usize::MAX { json!("base") } else { json!(l) },
                        r.map(|r| if r == usize::MAX { json!("base") } else { json!(r) })])).collect::<Vec<_>>()});
                let provers: Vec<String> = {
                    let b = $backend;
                    <_ as PcsRecursionBackend<Cfg, BatchOnly, D>>::non_primitive_provers(&b, D).iter().map(|p| p.op_type().to_string()).collect()
                };
                let mut outs: Vec<Option<RecursionOutput<Cfg>>> = vec![];
                for (i, (l, r)) in plan.iter().enumerate() {
                    let get = |k: usize| -> Option<&RecursionOutput<Cfg>> { if k == usize::MAX { Some(&base) } else { outs.get(k).and_then(|o| o.as_ref()) } };
                    let (Some(left), right) = (get(*l), r.map(|r| get(r))) else {
                        out.bump("chain.step-skipped-input-missing");
                        outs.push(None);
                        continue;
                    };
                    if let Some(None) = right {
                        out.bump("chain.step-skipped-input-missing");
                        outs.push(None);
                        continue;
                    }
                    let right = right.flatten();
                    out.evaluations += 1;
                    // what the real `build_verifier_circuit` is about to compare (only layer outputs carry tables)
                    for (side, inp) in [("left", Some(left)), ("right", right)] {
                        if let Some(inp) = inp {
                            if inp.0.ext_degree == D {
                                out.cases.push(format!("tabsacc {label}.{i}.{side} P={} proof={}", super::csv(&provers), super::csv(&op_types(inp))));
                            }
                        }
                    }
                    let res = step(&cfg, left, right);
                    let refused_at_build = matches!(&res, Err((true, _)));
                    for (side, inp) in [("left", Some(left)), ("right", right)] {
                        if let Some(inp) = inp {
                            if inp.0.ext_degree == D {
                                // with two children a refusal is attributed to the one whose list differs
                                let acc = if refused_at_build { op_types(inp) == provers } else { true };
                                out.impl_.push(format!("tabsacc {label}.{i}.{side} accept={}", acc as u8));
                            }
                        }
                    }
                    match res {
                        Err((at_build, e)) if !recompose_on => {
                            // the integrator switched the recompose NPO off, the backend still lists its table:
                            // recorded (observation), not judged
                            out.bump(&format!("chain.{}.step-{}.{}", label, i, if at_build { "refused" } else { "prove-failed" }));
                            out.records.push(json!({"observation": "recompose-off-output-not-chainable", "chain": label, "step": i,
                                "refused_at_circuit_build": at_build, "detail": e.chars().take(240).collect::<String>(), "replay": replay.clone()}));
                            outs.push(None);
                        }
                        Err((at_build, e)) => {
                            out.bump(&format!("chain.{}.step-{}.{}", LABEL, i, if at_build { "refused" } else { "prove-failed" }));
                            out.violations.push(json!({"property": "C17", "kind": "oracle",
                                "class": if at_build { "verified-proof-not-accepted-as-layer-input" } else { "layer-over-verified-input-not-provable" },
                                "family": format!("chain:{LABEL}"), "config": LABEL, "step": i,
                                "inputs": [*l as i64, r.map(|r| r as i64)],
                                "detail": e.chars().take(240).collect::<String>(), "replay": replay.clone()}));
                            outs.push(None);
                        }
                        Ok(o) => match native_verify(&cfg, &o, recompose_on) {
                            Ok(()) => {
                                out.bump(&format!("chain.{}.step-{}.{}.verifies", label, i, if r.is_some() { "agg" } else { "next" }));
                                outs.push(Some(o));
                            }
                            Err(e) => {
                                out.bump(&format!("chain.{}.step-{}.rejected", LABEL, i));
                                out.violations.push(json!({"property": "C17", "kind": "oracle", "class": "layer-output-rejected-natively",
                                    "family": format!("chain:{LABEL}"), "config": LABEL, "step": i,
                                    "detail": e.chars().take(240).collect::<String>(), "replay": replay.clone()}));
                                outs.push(None);
                            }
                        },
                    }
                }
                out.records.push(json!({"chain": label, "steps": plan.len(),
                    "completed": outs.iter().filter(|o| o.is_some()).count()}));
            }
        }
    };
}

fn gl_p2_8() -> p3_goldilocks::Poseidon2Goldilocks<8> {
    use rand::SeedableRng;
    let mut rng = rand::rngs::SmallRng::seed_from_u64(1);
    p3_goldilocks::Poseidon2Goldilocks::<8>::new_from_rng_128(&mut rng)
}

const BASE: usize = usize::MAX;

// ---- D = 4 (binomial): KoalaBear, BabyBear; Poseidon2 and Poseidon1 challengers
deg_cfg!(
    kb4p2, "kb4/poseidon2", p3_koala_bear::KoalaBear, BinomialExtensionField<F, 4>, 4,
    p3_koala_bear::Poseidon2KoalaBear<16>, p3_koala_bear::default_koalabear_poseidon2_16, Poseidon2Config::KOALA_BEAR_D4_W16,
    p3_poseidon2_circuit_air::KoalaBearD4Width16, 16, 8, 8,
    enable_poseidon2_perm, p3_koala_bear::default_koalabear_poseidon2_16, generate_poseidon2_trace, p3_circuit::ops::Poseidon2Params,
    FriRecursionBackend::<16, 8, _>::new(Poseidon2Config::KOALA_BEAR_D4_W16).for_extension_degree::<4>(),
    register_poseidon2_table, batch_instance_d4
);
deg_cfg!(
    kb4p1, "kb4/poseidon1", p3_koala_bear::KoalaBear, BinomialExtensionField<F, 4>, 4,
    p3_koala_bear::Poseidon1KoalaBear<16>, p3_koala_bear::default_koalabear_poseidon1_16, p3_circuit::ops::Poseidon1Config::KOALA_BEAR_D4_W16,
    p3_circuit::ops::poseidon1_perm::KoalaBearD4Width16, 16, 8, 8,
    enable_poseidon1_perm, p3_koala_bear::default_koalabear_poseidon1_16, generate_poseidon1_trace, p3_circuit::ops::Poseidon1Params,
    FriRecursionBackend::<16, 8, _>::new(p3_circuit::ops::Poseidon1Config::KOALA_BEAR_D4_W16).for_extension_degree::<4>(),
    register_poseidon1_table, batch_instance_d4
);
deg_cfg!(
    bb4p2, "bb4/poseidon2", p3_baby_bear::BabyBear, BinomialExtensionField<F, 4>, 4,
    p3_baby_bear::Poseidon2BabyBear<16>, p3_baby_bear::default_babybear_poseidon2_16, Poseidon2Config::BABY_BEAR_D4_W16,
    p3_poseidon2_circuit_air::BabyBearD4Width16, 16, 8, 8,
    enable_poseidon2_perm, p3_baby_bear::default_babybear_poseidon2_16, generate_poseidon2_trace, p3_circuit::ops::Poseidon2Params,
    FriRecursionBackend::<16, 8, _>::new(Poseidon2Config::BABY_BEAR_D4_W16).for_extension_degree::<4>(),
    register_poseidon2_table, batch_instance_d4
);
deg_cfg!(
    bb4p1, "bb4/poseidon1", p3_baby_bear::BabyBear, BinomialExtensionField<F, 4>, 4,
    p3_baby_bear::Poseidon1BabyBear<16>, p3_baby_bear::default_babybear_poseidon1_16, p3_circuit::ops::Poseidon1Config::BABY_BEAR_D4_W16,
    p3_circuit::ops::poseidon1_perm::BabyBearD4Width16, 16, 8, 8,
    enable_poseidon1_perm, p3_baby_bear::default_babybear_poseidon1_16, generate_poseidon1_trace, p3_circuit::ops::Poseidon1Params,
    FriRecursionBackend::<16, 8, _>::new(p3_circuit::ops::Poseidon1Config::BABY_BEAR_D4_W16).for_extension_degree::<4>(),
    register_poseidon1_table, batch_instance_d4
);
// ---- D = 2: Goldilocks
deg_cfg!(
    gl2p2, "gl2/poseidon2", p3_goldilocks::Goldilocks, BinomialExtensionField<F, 2>, 2,
    p3_goldilocks::Poseidon2Goldilocks<8>, super::gl_p2_8, Poseidon2Config::GOLDILOCKS_D2_W8,
    p3_circuit::ops::GoldilocksD2Width8, 8, 4, 4,
    enable_poseidon2_perm_width_8, super::gl_p2_8, generate_poseidon2_trace, p3_circuit::ops::Poseidon2Params,
    FriRecursionBackend::<8, 4, _>::new(Poseidon2Config::GOLDILOCKS_D2_W8).for_extension_degree::<2>(),
    register_poseidon2_table, batch_instance_d2
);
deg_cfg!(
    gl2p1, "gl2/poseidon1", p3_goldilocks::Goldilocks, BinomialExtensionField<F, 2>, 2,
    p3_goldilocks::poseidon1::Poseidon1Goldilocks<8>, p3_goldilocks::poseidon1::default_goldilocks_poseidon1_8,
    p3_circuit::ops::Poseidon1Config::GOLDILOCKS_D2_W8,
    p3_circuit::ops::poseidon1_perm::GoldilocksD2Width8, 8, 4, 4,
    enable_poseidon1_perm_width_8, p3_goldilocks::poseidon1::default_goldilocks_poseidon1_8, generate_poseidon1_trace,
    p3_circuit::ops::Poseidon1Params,
    FriRecursionBackend::<8, 4, _>::new(p3_circuit::ops::Poseidon1Config::GOLDILOCKS_D2_W8).for_extension_degree::<2>(),
    register_poseidon1_table, batch_instance_d2
);
// ---- D = 5: KoalaBear quintic trinomial (challenger permutation over the base field, lifted)
deg_cfg!(
    kb5p2, "kb5/poseidon2", p3_koala_bear::KoalaBear, QuinticTrinomialExtensionField<F>, 5,
    p3_koala_bear::Poseidon2KoalaBear<16>, p3_koala_bear::default_koalabear_poseidon2_16, Poseidon2Config::KOALA_BEAR_D1_W16,
    p3_poseidon2_circuit_air::KoalaBearD1Width16, 16, 8, 8,
    enable_poseidon2_perm_base,
    || ::p3_test_utils::LiftPermToQuintic::<F, Perm, 16>::new(p3_koala_bear::default_koalabear_poseidon2_16()),
    generate_poseidon2_trace, p3_circuit::ops::Poseidon2Params,
    FriRecursionBackend::<16, 8, _>::new_d5(Poseidon2Config::KOALA_BEAR_D1_W16),
    register_poseidon2_table, batch_instance_d5
);
deg_cfg!(
    kb5p1, "kb5/poseidon1", p3_koala_bear::KoalaBear, QuinticTrinomialExtensionField<F>, 5,
    p3_koala_bear::Poseidon1KoalaBear<16>, p3_koala_bear::default_koalabear_poseidon1_16, p3_circuit::ops::Poseidon1Config::KOALA_BEAR_D1_W16,
    p3_circuit::ops::poseidon1_perm::KoalaBearD1Width16, 16, 8, 8,
    enable_poseidon1_perm_base,
    || ::p3_test_utils::LiftPermToQuintic::<F, Perm, 16>::new(p3_koala_bear::default_koalabear_poseidon1_16()),
    generate_poseidon1_trace, p3_circuit::ops::Poseidon1Params,
    FriRecursionBackend::<16, 8, _>::new_d5(p3_circuit::ops::Poseidon1Config::KOALA_BEAR_D1_W16),
    register_poseidon1_table, batch_instance_d5
);

pub const CONFIGS: &[&str] =
    &["kb4/poseidon2", "kb4/poseidon1", "bb4/poseidon2", "bb4/poseidon1", "gl2/poseidon2", "gl2/poseidon1", "kb5/poseidon2", "kb5/poseidon1"];

pub type Plan = Vec<(usize, Option<usize>)>;

pub fn chain_of(config: &str, name: &str, plan: &[(usize, Option<usize>)], base_adds: usize, recompose_on: bool, out: &mut DegOut) -> bool {
    match config {
        "kb4/poseidon2" => kb4p2::chain(name, plan, base_adds, recompose_on, out),
        "kb4/poseidon1" => kb4p1::chain(name, plan, base_adds, recompose_on, out),
        "bb4/poseidon2" => bb4p2::chain(name, plan, base_adds, recompose_on, out),
        "bb4/poseidon1" => bb4p1::chain(name, plan, base_adds, recompose_on, out),
        "gl2/poseidon2" => gl2p2::chain(name, plan, base_adds, recompose_on, out),
        "gl2/poseidon1" => gl2p1::chain(name, plan, base_adds, recompose_on, out),
        "kb5/poseidon2" => kb5p2::chain(name, plan, base_adds, recompose_on, out),
        "kb5/poseidon1" => kb5p1::chain(name, plan, base_adds, recompose_on, out),
        _ => return false,
    }
    true
}

/// A `chain` replay (the `replay` object of a violation of this leg).
pub fn replay_chain(v: &Value, out: &mut DegOut) -> bool {
    let Some(cfg) = v["config"].as_str() else { return false };
    let Some(plan) = v["plan"].as_array() else { return false };
    let idx = |x: &Value| -> Option<usize> { if x.as_str() == Some("base") { Some(BASE) } else { x.as_u64().map(|k| k as usize) } };
    let mut p: Plan = vec![];
    for st in plan {
        let Some(l) = idx(&st[0]) else { return false };
        let r = if st[1].is_null() { None } else { idx(&st[1]) };
        p.push((l, r));
    }
    chain_of(cfg, v["name"].as_str().unwrap_or("replay"), &p, v["base_adds"].as_u64().unwrap_or(0) as usize,
        v["recompose_npo"].as_bool().unwrap_or(true), out)
}

/// Both legs. `tier`: "quick" | "thorough" | "tables" (tables leg only) | "none".
pub fn run(tier: &str, out: &mut DegOut) -> BTreeMap<String, f64> {
    let mut secs = BTreeMap::new();
    if tier == "none" {
        return secs;
    }
    let t0 = std::time::Instant::now();
    kb4p2::tables(out);
    kb4p1::tables(out);
    bb4p2::tables(out);
    bb4p1::tables(out);
    gl2p2::tables(out);
    gl2p1::tables(out);
    kb5p2::tables(out);
    kb5p1::tables(out);
    secs.insert("tables".to_string(), t0.elapsed().as_secs_f64());
    if tier == "tables" {
        return secs;
    }
    // depth 2 = base -> layer 1 -> layer 2: the second step is the first whose input carries non-primitive
    // tables. `mid` adds the aggregation of two layer outputs and a layer over it; `full` mixes depths.
    let depth2: Plan = vec![(BASE, None), (0, None)];
    let mid: Plan = vec![(BASE, None), (0, None), (0, Some(0)), (2, None)];
    let full: Plan = vec![(BASE, None), (0, None), (0, Some(0)), (2, None), (1, Some(0)), (4, Some(3))];
    let mut timed = |cfg: &str, name: &str, plan: &Plan, adds: usize, on: bool, out: &mut DegOut| {
        let t = std::time::Instant::now();
        chain_of(cfg, name, plan, adds, on, out);
        *secs.entry(format!("chain.{cfg}")).or_insert(0.0) += t.elapsed().as_secs_f64();
    };
    if tier == "thorough" {
        for cfg in CONFIGS {
            timed(cfg, "full", &full, 3, true, out);
            timed(cfg, "depth2", &depth2, 0, true, out);
            timed(cfg, "depth2", &depth2, 0, false, out);
        }
    } else {
        // every configuration at depth 2; aggregation variants for a second and a third degree
        for cfg in CONFIGS {
            if *cfg == "gl2/poseidon2" || *cfg == "kb5/poseidon2" {
                timed(cfg, "mid", &mid, 0, true, out);
            } else {
                timed(cfg, "depth2", &depth2, 0, true, out);
            }
        }
        // observation (not judged): recompose NPO switched off by the integrator
        timed("kb4/poseidon2", "depth2", &depth2, 0, false, out);
        timed("gl2/poseidon2", "depth2", &depth2, 0, false, out);
    }
    secs
}
