/-
C06 — sampled challenges are bound to the entire transcript.
(Variant for the tree with fixes/C06-1.diff applied: finding F5c repaired.)

Full statement (FALSE of the current code for D ≥ 2, see `P3R.Witness.C06`):

  challenges_bound : ∀ cfg π w h (cells : trace cells not fixed by the verifier),
      accepted cfg π w cells (emit cfg h).rows →
      (sampled slots of emit cfg h).map w = native cfg π (observed values under w) h

What is proved here:

* `challenges_bound_partial` — the statement for every D = 1 (compact, in-table capacity)
  configuration, every permutation function, every history, every assignment **and every value
  of the committed capacity cells of table row 0**: the start-of-chain constraint now also
  applies to row 0 (`firstRowOk`), so the former hypothesis `cap0 = 0` is a consequence of
  acceptance (`first_row_zero`). Partial only in `d = 1`.
* `accDn_congr`, `accDn_ignores` — for D ≥ 2 with the recompose table, acceptance depends on the
  assignment only through the slots that a permutation row reads or exposes and the operands of
  the tag additions: every slot that is only a hint output / recompose coefficient — which
  includes every sampled slot — can be changed freely.  (Negation of the full statement on
  concrete assignments: `Witness.C06`.)

Missing for the full statement: D ≥ 2 (false today, findings F5 / F5b).
-/
import Mathlib.Algebra.Field.Basic
import P3R.Model.Transcript

namespace P3R.C06
open P3R.Transcript

variable {K : Type} [Field K] [DecidableEq K]

/-- Simulation relation between the symbolic circuit challenger (under the assignment `w`, with
the in-table capacity chain `ch`) and the native challenger. -/
structure Rel (c : Cfg) (w : Slot → K) (ch : Chain K) (σ : CS) (ν : NS K) : Prop where
  rate : ν.rate = σ.rate.map (ev1 w)
  inBuf : ν.inBuf = σ.inBuf.map (ev1 w)
  outBuf : ν.outBuf = σ.outBuf.map (ev1 w)
  nobs : ν.nobs = σ.nobs
  cap : match ch with
    | .first _ => ν.cap = List.replicate (c.width - c.rate) 0 ∧ σ.duplexed = false
    | .prev out => ν.cap = out.drop c.rate ∧ σ.duplexed = true

omit [DecidableEq K] in
theorem addHead_zero (l : List K) : addHead (0 : K) l = l := by
  cases l <;> simp [addHead]

omit [DecidableEq K] in
theorem ev1_zeroK (w : Slot → K) (d : Nat) : ev1 w (zeroK d) = 0 := by
  cases d <;> simp [zeroK, ev1, ofNat, List.replicate]

omit [DecidableEq K] in
theorem map_ev1_s (w : Slot → K) (l : List Slot) : (l.map Sym.s).map (ev1 w) = l.map w := by
  simp [List.map_map, Function.comp_def, ev1]

/-- Acceptance of a chain-start row 0 forces its committed capacity cells to be zero
(the hypothesis `cap0 = 0` of the pre-fix theorem, now a fact). -/
theorem first_row_zero (c : Cfg) (c0 : List K) (h : firstRowOk c (.first c0) true = true) :
    c0 = List.replicate (c.width - c.rate) 0 := by
  simpa [firstRowOk] using h

/-- One duplexing: the permutation row's acceptance makes the new symbolic state evaluate to the
native state. -/
theorem duplex_sim (c : Cfg) (hd : c.d = 1) (π : List K → List K) (w : Slot → K)
    (ch : Chain K) (σ : CS) (ν : NS K) (rest : List Row) (hrel : Rel c w ch σ ν)
    (hacc : accD1 c π w ch ((duplex c σ).2 ++ rest) = true) :
    ∃ ch', Rel c w ch' (duplex c σ).1 (NS.duplex c π ν) ∧ accD1 c π w ch' rest = true := by
  have hlen : ν.inBuf.length = σ.inBuf.length := by rw [hrel.inBuf, List.length_map]
  simp only [duplex, hd, if_true, duplexD1, List.cons_append, List.nil_append,
    accD1, Bool.and_eq_true, decide_eq_true_eq] at hacc ⊢
  obtain ⟨⟨hfirst, hex⟩, hrest⟩ := hacc
  -- the committed capacity cells of this row are the native capacity
  have hcap : capIn c ch (!σ.duplexed) = ν.cap := by
    cases ch with
    | first c0 =>
      have h := hrel.cap; simp only at h
      rw [h.2] at hfirst
      have hz := first_row_zero c c0 (by simpa using hfirst)
      simp [capIn, h.1, hz]
    | prev out => have := hrel.cap; simp only at this; simp [capIn, this.1, this.2]
  -- the rate limbs read from the bus are the native rate
  have hrate : (rateAfter c σ).map (ev1 w)
      = if ν.inBuf.length = 0 then ν.rate else ν.inBuf ++ List.replicate (c.rate - ν.inBuf.length) 0 := by
    unfold rateAfter
    rw [hlen]
    split
    · rw [hrel.rate]
    · rw [hrel.inBuf]; simp [List.map_append, List.map_replicate, ev1_zeroK]
  have hcapTag : addHead (ofNat σ.inBuf.length) (capIn c ch (!σ.duplexed))
      = if ν.inBuf.length = 0 then ν.cap else addHead (ofNat ν.inBuf.length) ν.cap := by
    rw [hcap, hlen]
    split
    · next h0 => rw [h0]; simp [ofNat, addHead_zero]
    · rfl
  rw [hrate, hcapTag] at hex hrest
  refine ⟨_, ?_, hrest⟩
  constructor
  · simp only [NS.duplex]; rw [map_ev1_s]; exact hex.symm
  · simp [NS.duplex]
  · simp only [NS.duplex]; rw [map_ev1_s]; exact hex.symm
  · simp [NS.duplex, hrel.nobs]
  · simp [NS.duplex]

omit [DecidableEq K] in
theorem getLast?_map_ev1 (w : Slot → K) (l : List Sym) :
    (l.map (ev1 w)).getLast? = l.getLast?.map (ev1 w) := by
  simp [List.getLast?_map]

omit [DecidableEq K] in
theorem dropLast_map_ev1 (w : Slot → K) (l : List Sym) :
    (l.map (ev1 w)).dropLast = l.dropLast.map (ev1 w) := by
  simp [List.map_dropLast]

/-- One history step preserves the relation and yields equal samples. -/
theorem step_sim (c : Cfg) (hd : c.d = 1) (π : List K → List K) (w : Slot → K)
    (ch : Chain K) (σ : CS) (ν : NS K) (op : HOp) (rest : List Row) (hrel : Rel c w ch σ ν)
    (hacc : accD1 c π w ch ((stepC c σ op).2.1 ++ rest) = true) :
    ∃ ch', Rel c w ch' (stepC c σ op).1 (stepN c π (fun i => w (.o i)) ν op).1
      ∧ accD1 c π w ch' rest = true
      ∧ (stepC c σ op).2.2.map (ev1 w) = (stepN c π (fun i => w (.o i)) ν op).2 := by
  cases op with
  | obs =>
    -- state after buffering the observation
    have hrel1 : Rel c w ch
        { σ with outBuf := [], inBuf := σ.inBuf ++ [Sym.s (.o σ.nobs)], nobs := σ.nobs + 1 }
        { ν with outBuf := [], inBuf := ν.inBuf ++ [w (.o ν.nobs)], nobs := ν.nobs + 1 } := by
      constructor
      · exact hrel.rate
      · simp [hrel.inBuf, hrel.nobs, ev1]
      · simp
      · simp [hrel.nobs]
      · have := hrel.cap; cases ch <;> simpa using this
    have hlen : (ν.inBuf ++ [w (.o ν.nobs)]).length = (σ.inBuf ++ [Sym.s (.o σ.nobs)]).length := by
      simp [hrel.inBuf]
    by_cases hfull : (σ.inBuf ++ [Sym.s (.o σ.nobs)]).length = c.rate
    · have hfullN : (ν.inBuf ++ [w (.o ν.nobs)]).length = c.rate := by rw [hlen]; exact hfull
      simp only [stepC, hfull, if_true, stepN, hfullN] at hacc ⊢
      obtain ⟨ch', h1, h2⟩ := duplex_sim c hd π w ch _ _ rest hrel1 hacc
      exact ⟨ch', h1, h2, by simp⟩
    · have hfullN : ¬ (ν.inBuf ++ [w (.o ν.nobs)]).length = c.rate := by rw [hlen]; exact hfull
      simp only [stepC, hfull, if_false, stepN, hfullN, List.nil_append] at hacc ⊢
      exact ⟨ch, hrel1, hacc, by simp⟩
  | smp =>
    have hcond : (ν.inBuf.length ≠ 0 ∨ ν.outBuf.length = 0) ↔ (σ.inBuf.length ≠ 0 ∨ σ.outBuf.length = 0) := by
      rw [hrel.inBuf, hrel.outBuf]; simp
    by_cases hdup : σ.inBuf.length ≠ 0 ∨ σ.outBuf.length = 0
    · have hdupN := hcond.mpr hdup
      simp only [stepC, hdup, if_true, stepN, hdupN] at hacc ⊢
      have hacc' : accD1 c π w ch ((duplex c σ).2 ++ rest) = true := by
        revert hacc
        cases (duplex c σ).1.outBuf.getLast? <;> simp
      obtain ⟨ch', h1, h2⟩ := duplex_sim c hd π w ch σ ν rest hrel hacc'
      have hob := h1.outBuf
      cases hl : (duplex c σ).1.outBuf.getLast? with
      | none =>
        have : (NS.duplex c π ν).outBuf.getLast? = none := by rw [hob, getLast?_map_ev1, hl]; rfl
        simp only [this]
        exact ⟨ch', h1, h2, by simp⟩
      | some y =>
        have : (NS.duplex c π ν).outBuf.getLast? = some (ev1 w y) := by rw [hob, getLast?_map_ev1, hl]; rfl
        simp only [this]
        refine ⟨ch', ?_, h2, by simp⟩
        constructor
        · exact h1.rate
        · exact h1.inBuf
        · simp only; rw [hob, dropLast_map_ev1]
        · exact h1.nobs
        · have := h1.cap; cases ch' <;> simpa using this
    · have hdupN : ¬ (ν.inBuf.length ≠ 0 ∨ ν.outBuf.length = 0) := fun h => hdup (hcond.mp h)
      simp only [stepC, hdup, if_false, stepN, hdupN] at hacc ⊢
      have hob := hrel.outBuf
      have hacc' : accD1 c π w ch rest = true := by
        revert hacc
        cases σ.outBuf.getLast? <;> simp
      cases hl : σ.outBuf.getLast? with
      | none =>
        have : ν.outBuf.getLast? = none := by rw [hob, getLast?_map_ev1, hl]; rfl
        simp only [this]
        exact ⟨ch, hrel, hacc', by simp⟩
      | some y =>
        have : ν.outBuf.getLast? = some (ev1 w y) := by rw [hob, getLast?_map_ev1, hl]; rfl
        simp only [this]
        refine ⟨ch, ?_, hacc', by simp⟩
        constructor
        · exact hrel.rate
        · exact hrel.inBuf
        · simp only; rw [hob, dropLast_map_ev1]
        · exact hrel.nobs
        · have := hrel.cap; cases ch <;> simpa using this

theorem emit_sim (c : Cfg) (hd : c.d = 1) (π : List K → List K) (w : Slot → K) (h : List HOp) :
    ∀ (ch : Chain K) (σ : CS) (ν : NS K), Rel c w ch σ ν →
      accD1 c π w ch (emitFrom c σ h).1 = true →
      (emitFrom c σ h).2.map (ev1 w) = nativeFrom c π (fun i => w (.o i)) ν h := by
  induction h with
  | nil => intro ch σ ν _ _; simp [emitFrom, nativeFrom]
  | cons op rest ih =>
    intro ch σ ν hrel hacc
    simp only [emitFrom] at hacc ⊢
    obtain ⟨ch', h1, h2, h3⟩ := step_sim c hd π w ch σ ν op _ hrel hacc
    simp only [nativeFrom, List.map_append]
    rw [h3, ih ch' _ _ h1 h2]

/-- **C06 for the D = 1 configurations.**
For every width/rate, every permutation function, every history, every assignment and every
value `cap0` of the committed capacity cells of table row 0: if the emitted permutation rows are
accepted, every sampled slot carries the native challenge of the observed slots' values.
(Partial only because `d = 1`; the first-row hypothesis of the pre-fix theorem is discharged by
`firstRowOk`.) -/
theorem challenges_bound_partial (c : Cfg) (hd : c.d = 1) (π : List K → List K) (w : Slot → K)
    (h : List HOp) (cap0 : List K)
    (hacc : accD1 c π w (.first cap0) (emit c h).1 = true) :
    (emit c h).2.map (ev1 w) = native c π (fun i => w (.o i)) h := by
  unfold emit native at *
  apply emit_sim c hd π w h _ _ _ _ hacc
  constructor
  · simp [CS.init, NS.init, List.map_replicate, ev1_zeroK]
  · simp [CS.init, NS.init]
  · simp [CS.init, NS.init]
  · simp [CS.init, NS.init]
  · simp [CS.init, NS.init]

/-! ### D ≥ 2: what acceptance depends on -/

/-- Slots an accepted D ≥ 2 row list constrains: limbs read or exposed by permutation rows and
the operands of tag additions. Hint outputs and recompose coefficients are not among them. -/
def busSlots : List Row → List Slot
  | [] => []
  | Row.perm _ _ ins ex _ :: rs =>
    ins.filterMap (fun s => match s with | .s x => some x | .k _ => none) ++ ex ++ busSlots rs
  | Row.addk a _ y :: rs => a :: y :: busSlots rs
  | _ :: rs => busSlots rs

omit [Field K] [DecidableEq K] in
theorem evN_congr [Zero K] [One K] [Add K] (w w' : Slot → List K) (l : List Sym)
    (hl : ∀ x, Sym.s x ∈ l → w x = w' x) : l.map (evN w) = l.map (evN w') := by
  apply List.map_congr_left
  intro s hs
  cases s with
  | k cs => rfl
  | s x => simp [evN, hl x hs]

/-- Acceptance for D ≥ 2 reads the assignment only at `busSlots`. -/
theorem accDn_congr (c : Cfg) (π : List K → List K) (w w' : Slot → List K) (rows : List Row)
    (hagree : ∀ x ∈ busSlots rows, w x = w' x) : accDn c π w rows = accDn c π w' rows := by
  induction rows with
  | nil => rfl
  | cons r rs ih =>
    cases r with
    | perm ns al ins ex hid =>
      have hins : ins.map (evN w) = ins.map (evN w') := by
        apply evN_congr
        intro x hx
        apply hagree
        simp only [busSlots, List.mem_append, List.mem_filterMap]
        exact Or.inl (Or.inl ⟨Sym.s x, hx, rfl⟩)
      have hex : ex.map w = ex.map w' := by
        apply List.map_congr_left
        intro x hx
        apply hagree
        simp only [busSlots, List.mem_append]
        exact Or.inl (Or.inr hx)
      have hrs := ih (fun x hx => hagree x (by simp only [busSlots, List.mem_append]; exact Or.inr hx))
      simp only [accDn, hins, hex, hrs]
    | recomp cs out =>
      simpa [accDn] using ih (fun x hx => hagree x (by simpa [busSlots] using hx))
    | hint x outs =>
      simpa [accDn] using ih (fun x hx => hagree x (by simpa [busSlots] using hx))
    | addk a n y =>
      have ha : w a = w' a := hagree a (by simp [busSlots])
      have hy : w y = w' y := hagree y (by simp [busSlots])
      have hrs := ih (fun x hx => hagree x (by simp [busSlots, hx]))
      simp only [accDn, ha, hy, hrs]

/-- A slot that no permutation row reads or exposes and no tag addition touches (every
decomposition-hint output that is only sampled) can take any value in an accepted proof. -/
theorem accDn_ignores (c : Cfg) (π : List K → List K) (w : Slot → List K) (rows : List Row)
    (s : Slot) (v : List K) (hs : s ∉ busSlots rows) :
    accDn c π (fun x => if x = s then v else w x) rows = accDn c π w rows := by
  apply accDn_congr
  intro x hx
  have : x ≠ s := fun h => hs (h ▸ hx)
  simp [this]

/-- Non-vacuity of the hypotheses of `challenges_bound_partial`: the honest assignment of a
one-observation, one-sample history over ℚ with the identity "permutation". -/
example : accD1 (K := ℚ) ⟨4, 2, 1⟩ id
    (fun s => match s with | .o _ => 5 | .v 0 => 5 | .v 1 => 0 | _ => 0)
    (.first (List.replicate (4 - 2) 0)) (emit ⟨4, 2, 1⟩ [.obs, .smp]).1 = true := by
  decide

end P3R.C06

#print axioms P3R.C06.challenges_bound_partial
#print axioms P3R.C06.first_row_zero
#print axioms P3R.C06.accDn_congr
#print axioms P3R.C06.accDn_ignores
