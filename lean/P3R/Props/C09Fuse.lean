/-
C09 — the mul+add fusion pass keeps the def-before-use certificate: the last per-program hypothesis
(`fuseKeeps`) of `C09O.compiled_bus_balanced_of_fuseKeeps` is discharged.

What is true, and what is proved (see the section headers):

* the fused row is placed at the MUL position (Rust `apply`: `mul_replacements`, model `Fusion.apply`),
  the add is removed. For the role scan only the `b` column and the `out` column of a row matter
  (`rowH`); the fused row's `b` is the mul's `b`, its `out` the add's `out`; the addend moves into the
  `c` column, which the scan never turns into a creator. So the certificate does not need the addend to
  be touched before the mul (that is what `filter_valid` guarantees for the *runner*, C02); it needs
  that a removed add was not the row that created its addend (`addend_touched`, from the scan-time
  `track_backwards_op` + the "addend must already be computed" test of `try_fuse`).
* That last fact is FALSE for the plain `hduFrom` certificate (`Witness.C09Fuse.bwd_muladd_breaks`: a
  `MulAdd` row whose `out` is already defined creates its `b` in the role scan, but `scan_defs` tracks
  backward rows only for `Add` / `Mul` with `c = None`). The extra certificate `fwdFrom` — every ALU row
  that is not a plain `Add` / `Mul` has its `b` touched earlier or private — is established by the
  lowering (`lower_fwd`: `hintsGuarded` covers exactly those `b` positions) and kept by `dedup`
  (`dedup_preserves_fwd`).
-/
import P3R.Props.C09Opt
import P3R.Props.C03FusionTotal

namespace P3R.C09F
open P3R P3R.C09C P3R.C09O P3R.C03

variable {K : Type}

/-! ### Positions: what is touched before a row -/

/-- `x` is touched (`out` of a Const / Public / ALU row, `b` of an ALU row) by a row before position `n`. -/
def Told (l : List (Op K)) (n : Nat) (x : Nat) : Prop :=
  ∃ j op, j < n ∧ l[j]? = some op ∧ x ∈ touchH [] op

/-- The same for the list `l.zipIdx.filterMap g`, in terms of the positions of `l`. -/
def Tnew (g : Op K × Nat → Option (Op K)) (l : List (Op K)) (n : Nat) (x : Nat) : Prop :=
  ∃ j op op', j < n ∧ l[j]? = some op ∧ g (op, j) = some op' ∧ x ∈ touchH [] op'

theorem Told_mono {l : List (Op K)} {n n' x : Nat} (h : Told l n x) (hn : n ≤ n') : Told l n' x := by
  obtain ⟨j, op, hj, h1, h2⟩ := h
  exact ⟨j, op, by omega, h1, h2⟩

theorem Tnew_mono {g : Op K × Nat → Option (Op K)} {l : List (Op K)} {n n' x : Nat}
    (h : Tnew g l n x) (hn : n ≤ n') : Tnew g l n' x := by
  obtain ⟨j, op, op', hj, h1, h2, h3⟩ := h
  exact ⟨j, op, op', by omega, h1, h2, h3⟩

theorem mem_accH_take (l : List (Op K)) (n x : Nat) : x ∈ accH [] [] (l.take n) ↔ Told l n x := by
  rw [mem_accH]
  simp only [List.not_mem_nil, false_or]
  constructor
  · rintro ⟨op, hop, hx⟩
    obtain ⟨j, hj⟩ := List.mem_iff_getElem?.mp hop
    rw [List.getElem?_take] at hj
    split at hj
    · rename_i hlt; exact ⟨j, op, hlt, hj, hx⟩
    · cases hj
  · rintro ⟨j, op, hj, h1, h2⟩
    refine ⟨op, List.mem_iff_getElem?.mpr ⟨j, ?_⟩, h2⟩
    rw [List.getElem?_take, if_pos hj]; exact h1

theorem mem_accH_new (g : Op K × Nat → Option (Op K)) (l : List (Op K)) (n x : Nat) :
    x ∈ accH [] [] ((l.take n).zipIdx.filterMap g) ↔ Tnew g l n x := by
  rw [mem_accH]
  simp only [List.not_mem_nil, false_or]
  constructor
  · rintro ⟨op', hop, hx⟩
    obtain ⟨p, hp, hg⟩ := List.mem_filterMap.mp hop
    have hp' := List.mem_zipIdx_iff_getElem?.mp hp
    rw [List.getElem?_take] at hp'
    split at hp'
    · rename_i hlt; exact ⟨p.2, p.1, op', hlt, hp', hg, hx⟩
    · cases hp'
  · rintro ⟨j, op, op', hj, h1, h2, h3⟩
    refine ⟨op', List.mem_filterMap.mpr ⟨(op, j), List.mem_zipIdx_iff_getElem?.mpr ?_, h2⟩, h3⟩
    show (l.take n)[j]? = some op
    rw [List.getElem?_take, if_pos hj]; exact h1

/-- Row condition in `Prop` form. -/
def rowP (P : List Nat) (T : Nat → Prop) : Op K → Prop
  | .alu k a b _ out _ => ((T b ∨ b ∈ P) ∨ (T out ∨ out ∈ P)) ∧ (isAM k = true → T a ∨ a ∈ P)
  | _ => True

theorem rowH_iff (P T : List Nat) (op : Op K) : rowH P [] T op = true ↔ rowP P (· ∈ T) op := by
  cases op with
  | alu k a b c out io =>
    simp only [rowH, rowP, Bool.and_eq_true, Bool.or_eq_true, List.contains_iff_mem, Bool.not_eq_true',
      List.not_mem_nil, or_false]
    constructor
    · rintro ⟨h1, h2⟩
      refine ⟨by tauto, fun hk => ?_⟩
      rcases h2 with (h2 | h2) | h2
      · rw [hk] at h2; cases h2
      · exact Or.inl h2
      · exact Or.inr h2
    · rintro ⟨h1, h2⟩
      refine ⟨by tauto, ?_⟩
      by_cases hk : isAM k = true
      · rcases h2 hk with h | h
        · exact Or.inl (Or.inr h)
        · exact Or.inr h
      · exact Or.inl (Or.inl (by simpa using hk))
  | const _ _ => simp [rowH, rowP]
  | pub _ _ => simp [rowH, rowP]
  | hint _ _ _ => simp [rowH, rowP]
  | npo _ _ _ _ => simp [rowH, rowP]

/-- Every row of a certified list satisfies its row condition with respect to the rows before it. -/
theorem hdu_rows (P H : List Nat) (l : List (Op K)) (h : hduFrom P H [] l = true) (n : Nat) (op : Op K)
    (hn : l[n]? = some op) : rowH P H (accH H [] (l.take n)) op = true := by
  obtain ⟨hlt, heq⟩ := List.getElem?_eq_some_iff.mp hn
  have hl : l = l.take n ++ op :: l.drop (n + 1) := by
    rw [← heq, ← List.drop_eq_getElem_cons hlt, List.take_append_drop]
  rw [hl, hduFrom_append] at h
  simp only [Bool.and_eq_true, hduFrom] at h
  exact h.2.1

theorem hdu_rowP (P : List Nat) (l : List (Op K)) (h : hduFrom P [] [] l = true) (n : Nat) (op : Op K)
    (hn : l[n]? = some op) : rowP P (Told l n) op := by
  have := (rowH_iff P _ op).mp (hdu_rows P [] l h n op hn)
  cases op with
  | alu k a b c out io =>
    simp only [rowP, mem_accH_take] at this ⊢
    exact this
  | _ => trivial

/-- A list obtained by a position-wise `filterMap` is certified when every produced row satisfies its
row condition with respect to the rows produced before it. -/
theorem hdu_filterMap (P : List Nat) (g : Op K × Nat → Option (Op K)) (l : List (Op K))
    (h : ∀ n op op', l[n]? = some op → g (op, n) = some op' → rowP P (Tnew g l n) op') :
    hduFrom P [] [] (l.zipIdx.filterMap g) = true := by
  have key : ∀ n, n ≤ l.length → hduFrom P [] [] ((l.take n).zipIdx.filterMap g) = true := by
    intro n
    induction n with
    | zero => intro _; rfl
    | succ n ih =>
      intro hn
      have hlt : n < l.length := hn
      have ih' := ih (Nat.le_of_lt hlt)
      rw [List.take_succ_eq_append_getElem hlt, List.zipIdx_append, List.filterMap_append, hduFrom_append, ih']
      simp only [Bool.true_and, List.zipIdx_cons, List.zipIdx_nil, List.filterMap_cons, List.filterMap_nil,
        Nat.zero_add, List.length_take, Nat.min_eq_left (Nat.le_of_lt hlt)]
      cases hg : g (l[n], n) with
      | none => rfl
      | some op' =>
        simp only [hduFrom, Bool.and_true]
        have h1 := h n l[n] op' (List.getElem?_eq_getElem hlt) hg
        rw [rowH_iff]
        cases op' with
        | alu k a b c out io =>
          simp only [rowP, mem_accH_new] at h1 ⊢
          exact h1
        | _ => trivial
  have := key l.length (Nat.le_refl _)
  rwa [List.take_length] at this

/-! ### The chosen candidates: what the surgery argument uses -/

/-- `x` is the product slot of a chosen candidate. -/
def isProd (ch : List (Cand K)) (x : Nat) : Prop :=
  ∃ c ∈ ch, ∃ ma mb ad o, c.op = .alu .mulAdd ma mb (some ad) o (some x)

/-- What the argument needs of the chosen candidates: `C03.ChosenOk` (rows at the recorded positions,
product read once / written once, one candidate per add and per mul position), plus: the product slot
is not a private input, and the `b` operand of a consumed add is touched before the add, private, or
the product itself (the add is not the row that creates its addend). -/
structure FuseFacts (P : List Nat) (l : List (Op K)) (ch : List (Cand K)) : Prop where
  ok : ChosenOk l ch
  notIn : ∀ x, isProd ch x → x ∉ P
  addB : ∀ c ∈ ch, ∀ x y io, l[c.addIdx]? = some (.alu .add x y none c.out io) →
    Told l c.addIdx y ∨ y ∈ P ∨ isProd ch y

theorem cand_rows {l : List (Op K)} {c : Cand K} (hc : CandOk l c) {ma mb ad o m : Nat}
    (hop : c.op = .alu .mulAdd ma mb (some ad) o (some m)) :
    ad = c.addend ∧ o = c.out ∧ (∃ ioM, l[c.mulIdx]? = some (.alu .mul ma mb none m ioM)) ∧
    (∃ x y ioA, l[c.addIdx]? = some (.alu .add x y none c.out ioA) ∧
      ((x = m ∧ y = c.addend) ∨ (x = c.addend ∧ y = m))) ∧
    (l.map fun op => (reads op).count m).sum = 1 ∧ (l.map (wOut m)).sum ≤ 1 := by
  obtain ⟨ma', mb', m', x, y, ioA, ioM, h_op, h_mul, h_add, h_or, h_r, h_w⟩ := hc.ex
  rw [hop] at h_op
  simp only [Op.alu.injEq, Option.some.injEq, true_and] at h_op
  obtain ⟨rfl, rfl, rfl, rfl, rfl⟩ := h_op
  exact ⟨rfl, rfl, ⟨ioM, h_mul⟩, ⟨x, y, ioA, h_add, h_or⟩, h_r, h_w⟩

/-- (2a) **The product slot is read by the consumed add only** (use count 1). -/
theorem prod_read {l : List (Op K)} {c : Cand K} (hc : CandOk l c) {ma mb ad o m : Nat}
    (hop : c.op = .alu .mulAdd ma mb (some ad) o (some m)) {q : Nat} {k : AluKind} {a b : Nat}
    {c' : Option Nat} {out : Nat} {io : Option Nat} (hq : l[q]? = some (.alu k a b c' out io))
    (hab : a = m ∨ b = m) : q = c.addIdx := by
  obtain ⟨_, _, _, ⟨x, y, ioA, h_add, h_or⟩, h_r, _⟩ := cand_rows hc hop
  by_contra hne
  have h1 : 1 ≤ (reads (.alu .add x y none c.out ioA : Op K)).count m := by
    rw [reads_add]; rcases h_or with ⟨rfl, _⟩ | ⟨_, rfl⟩ <;> simp [List.count_cons]
  have := sum_sep (fun op => (reads op).count m) l c.addIdx q _ _ (fun h => hne h.symm) h_add hq
    (by omega) h1
  have hin : m ∈ reads (.alu k a b c' out io : Op K) := by
    simp only [reads, List.cons_append, List.nil_append, List.mem_cons]
    rcases hab with rfl | rfl
    · exact Or.inl rfl
    · exact Or.inr (Or.inl rfl)
  exact (List.count_eq_zero.mp this) hin

/-- (2b) **The product slot is written by the mul only** (writer count 1). -/
theorem prod_write {l : List (Op K)} {c : Cand K} (hc : CandOk l c) {ma mb ad o m : Nat}
    (hop : c.op = .alu .mulAdd ma mb (some ad) o (some m)) {q : Nat} {op : Op K}
    (hq : l[q]? = some op) (ho : outSlot op = some m) : q = c.mulIdx := by
  obtain ⟨_, _, ⟨ioM, h_mul⟩, _, _, h_w⟩ := cand_rows hc hop
  by_contra hne
  have h1 : 1 ≤ wOut m (.alu .mul ma mb none m ioM : Op K) := by simp [wOut, outSlot]
  have := sum_sep (wOut m) l c.mulIdx q _ _ (fun h => hne h.symm) h_mul hq h_w h1
  simp [wOut, ho] at this

theorem touch_cases {op : Op K} {x : Nat} (h : x ∈ touchH [] op) :
    outSlot op = some x ∨ ∃ k a c out io, op = .alu k a x c out io := by
  cases op with
  | const out v => simp only [touchH, List.mem_singleton] at h; subst h; exact Or.inl rfl
  | pub out v => simp only [touchH, List.mem_singleton] at h; subst h; exact Or.inl rfl
  | alu k a b c out io =>
    simp only [touchH, List.contains_nil, Bool.and_false, Bool.false_eq_true, if_false, List.mem_cons,
      List.not_mem_nil, or_false] at h
    rcases h with rfl | rfl
    · exact Or.inl rfl
    · exact Or.inr ⟨k, a, c, out, io, rfl⟩
  | hint _ _ _ => simp [touchH] at h
  | npo _ _ _ _ => simp [touchH] at h

theorem touch_alu (k : AluKind) (a b : Nat) (c : Option Nat) (out : Nat) (io : Option Nat) (x : Nat) :
    x ∈ touchH [] (.alu k a b c out io : Op K) ↔ x = out ∨ x = b := by
  simp [touchH]

/-- The product slot is touched by its mul and by its consumed add only. -/
theorem prod_touched {l : List (Op K)} {c : Cand K} (hc : CandOk l c) {ma mb ad o m : Nat}
    (hop : c.op = .alu .mulAdd ma mb (some ad) o (some m)) {n : Nat} (h : Told l n m) :
    c.mulIdx < n ∨ c.addIdx < n := by
  obtain ⟨j, op, hj, hl, hx⟩ := h
  rcases touch_cases hx with ho | ⟨k, a, c', out, io, rfl⟩
  · left; rw [← prod_write hc hop hl ho]; exact hj
  · right; rw [← prod_read hc hop hl (Or.inr rfl)]; exact hj

/-! ### `apply`, position by position -/

theorem applyF_add {ch : List (Cand K)} {c : Cand K} (hc : c ∈ ch) (op : Op K) :
    applyF ch (op, c.addIdx) = none := by
  unfold applyF
  have : ch.any (fun c' => decide (c'.addIdx = c.addIdx)) = true :=
    List.any_eq_true.mpr ⟨c, hc, by simp⟩
  simp only [this, if_true]

theorem no_add_at_mul {l : List (Op K)} {ch : List (Cand K)} (hch : ChosenOk l ch) {c c' : Cand K}
    (hc : c ∈ ch) (hc' : c' ∈ ch) : c'.addIdx ≠ c.mulIdx := by
  intro he
  obtain ⟨_, _, _, _, _, _, _, _, h_mul, _⟩ := (hch.ok c hc).ex
  obtain ⟨_, _, _, _, _, _, _, _, _, h_add', _⟩ := (hch.ok c' hc').ex
  rw [he, h_mul] at h_add'
  simp at h_add'

/-- (4a) **`apply_spec`, mul position**: the row at the mul position of a chosen candidate is its MulAdd. -/
theorem applyF_mul {l : List (Op K)} {ch : List (Cand K)} (hch : ChosenOk l ch) {c : Cand K}
    (hc : c ∈ ch) (op : Op K) : applyF ch (op, c.mulIdx) = some c.op := by
  unfold applyF
  have hany : ¬ ch.any (fun c' => decide (c'.addIdx = c.mulIdx)) = true := by
    intro h
    obtain ⟨c', hc', he⟩ := List.any_eq_true.mp h
    simp only [decide_eq_true_eq] at he
    exact no_add_at_mul hch hc hc' he
  dsimp only
  rw [if_neg hany, find_chosen l ch hch c hc]

/-- (4b) **`apply_spec`**: every position is a consumed add (dropped), the mul of a chosen candidate
(replaced by its MulAdd), or untouched by the pass (kept as is). -/
theorem applyF_cases (ch : List (Cand K)) (op : Op K) (n : Nat) :
    (∃ c ∈ ch, c.addIdx = n ∧ applyF ch (op, n) = none) ∨
    (∃ c ∈ ch, c.mulIdx = n ∧ applyF ch (op, n) = some c.op) ∨
    ((∀ c ∈ ch, c.addIdx ≠ n ∧ c.mulIdx ≠ n) ∧ applyF ch (op, n) = some op) := by
  unfold applyF
  dsimp only
  by_cases hany : ch.any (fun c => decide (c.addIdx = n)) = true
  · obtain ⟨c, hc, he⟩ := List.any_eq_true.mp hany
    simp only [decide_eq_true_eq] at he
    exact Or.inl ⟨c, hc, he, by rw [if_pos hany]⟩
  · rw [if_neg hany]
    cases hf : ch.find? (fun c => decide (c.mulIdx = n)) with
    | some c =>
      have h1 := List.find?_some hf
      simp only [decide_eq_true_eq] at h1
      exact Or.inr (Or.inl ⟨c, List.mem_of_find?_eq_some hf, h1, rfl⟩)
    | none =>
      rw [List.find?_eq_none] at hf
      refine Or.inr (Or.inr ⟨fun c hc => ⟨?_, ?_⟩, rfl⟩)
      · intro he
        exact hany (List.any_eq_true.mpr ⟨c, hc, by simpa using he⟩)
      · intro he
        exact hf c hc (by simpa using he)

/-! ### The surgery keeps the certificate -/

section surgery
variable {P : List Nat} {l : List (Op K)} {ch : List (Cand K)}

/-- The `out` of an ALU / Const / Public row that is not the mul of a candidate is no product slot;
an operand of a row that is not a consumed add is no product slot. -/
theorem not_prod_out (hF : FuseFacts P l ch) {q : Nat} {op : Op K} (hq : l[q]? = some op) {x : Nat}
    (ho : outSlot op = some x) (hne : ∀ c ∈ ch, c.mulIdx ≠ q) : ¬ isProd ch x := by
  rintro ⟨c, hc, ma, mb, ad, o, hop⟩
  exact hne c hc (prod_write (hF.ok.ok c hc) hop hq ho).symm

theorem not_prod_operand (hF : FuseFacts P l ch) {q : Nat} {k : AluKind} {a b : Nat} {c' : Option Nat}
    {out : Nat} {io : Option Nat} (hq : l[q]? = some (.alu k a b c' out io)) {x : Nat}
    (hx : a = x ∨ b = x) (hne : ∀ c ∈ ch, c.addIdx ≠ q) : ¬ isProd ch x := by
  rintro ⟨c, hc, ma, mb, ad, o, hop⟩
  exact hne c hc (prod_read (hF.ok.ok c hc) hop hq hx).symm

/-- (1)/(3) A consumed add whose mul does not precede it is a backward row: its `out` is touched before it
or private (the product in its `b` column is first touched there). For a def-before-use list this is the
only way the mul can come after the add; otherwise `mulIdx < addIdx`. -/
theorem add_before_mul (hF : FuseFacts P l ch) (h : hduFrom P [] [] l = true) {c : Cand K} (hc : c ∈ ch)
    (hle : ¬ c.mulIdx < c.addIdx) : Told l c.addIdx c.out ∨ c.out ∈ P := by
  obtain ⟨ma, mb, m, x, y, ioA, ioM, h_op, h_mul, h_add, h_or, _⟩ := (hF.ok.ok c hc).ex
  have hrow := hdu_rowP P l h c.addIdx _ h_add
  simp only [rowP] at hrow
  have hm : ¬ (Told l c.addIdx m ∨ m ∈ P) := by
    rintro (ht | hp)
    · rcases prod_touched (hF.ok.ok c hc) h_op ht with h1 | h1
      · exact hle h1
      · exact Nat.lt_irrefl _ h1
    · exact hF.notIn m ⟨c, hc, ma, mb, _, _, h_op⟩ hp
  rcases h_or with ⟨rfl, rfl⟩ | ⟨rfl, rfl⟩
  · exact absurd (hrow.2 rfl) hm
  · rcases hrow.1 with h1 | h1
    · exact absurd h1 hm
    · exact h1

/-- (5) **Transfer**: a slot touched before position `n` of the input list that is no product slot is
touched before the image of position `n` in the fused list, or private. -/
theorem transfer (hF : FuseFacts P l ch) (h : hduFrom P [] [] l = true) :
    ∀ n x, Told l n x → ¬ isProd ch x → Tnew (applyF ch) l n x ∨ x ∈ P := by
  intro n
  induction n using Nat.strong_induction_on with
  | _ n ih =>
    intro x ⟨j, op, hj, hl, hx⟩ hnp
    rcases applyF_cases ch op j with ⟨c, hc, he, _⟩ | ⟨c, hc, he, hap⟩ | ⟨hno, hap⟩
    · -- a consumed add
      obtain ⟨ma, mb, m, x', y', ioA, ioM, h_op, h_mul, h_add, h_or, _⟩ := (hF.ok.ok c hc).ex
      rw [he, hl] at h_add
      simp only [Option.some.injEq] at h_add
      subst h_add
      rw [touch_alu] at hx
      rcases hx with rfl | rfl
      · -- its out: touched by the MulAdd at the mul position, or already before the add
        by_cases hlt : c.mulIdx < c.addIdx
        · left
          refine ⟨c.mulIdx, _, c.op, by omega, h_mul, applyF_mul hF.ok hc _, ?_⟩
          rw [h_op, touch_alu]; exact Or.inl rfl
        · rcases add_before_mul hF h hc hlt with h1 | h1
          · rcases ih c.addIdx (by omega) _ h1 hnp with h2 | h2
            · exact Or.inl (Tnew_mono h2 (by omega))
            · exact Or.inr h2
          · exact Or.inr h1
      · -- its b: the addend, touched before the add
        rcases hF.addB c hc x' x ioA (by rw [he]; exact hl) with h1 | h1 | h1
        · rcases ih c.addIdx (by omega) _ h1 hnp with h2 | h2
          · exact Or.inl (Tnew_mono h2 (by omega))
          · exact Or.inr h2
        · exact Or.inr h1
        · exact absurd h1 hnp
    · -- a fused mul
      obtain ⟨ma, mb, m, x', y', ioA, ioM, h_op, h_mul, _⟩ := (hF.ok.ok c hc).ex
      rw [he, hl] at h_mul
      simp only [Option.some.injEq] at h_mul
      subst h_mul
      rw [touch_alu] at hx
      rcases hx with rfl | rfl
      · exact absurd ⟨c, hc, ma, mb, _, _, h_op⟩ hnp
      · left
        refine ⟨j, _, c.op, hj, hl, hap, ?_⟩
        rw [h_op, touch_alu]; exact Or.inr rfl
    · exact Or.inl ⟨j, op, op, hj, hl, hap, hx⟩

/-- **C09 / the fusion surgery keeps the certificate** — list level, for every family of chosen
candidates with `FuseFacts`. -/
theorem surgery_keeps_hdu (hF : FuseFacts P l ch) (h : hduFrom P [] [] l = true) :
    hduFrom P [] [] (l.zipIdx.filterMap (applyF ch)) = true := by
  apply hdu_filterMap
  intro n op op' hl hap
  have hrow := hdu_rowP P l h n op hl
  have tr := transfer hF h n
  rcases applyF_cases ch op n with ⟨c, hc, he, hnone⟩ | ⟨c, hc, he, hsome⟩ | ⟨hno, hsame⟩
  · rw [hnone] at hap; cases hap
  · -- the MulAdd row at the mul position
    rw [hsome] at hap
    simp only [Option.some.injEq] at hap
    subst hap
    obtain ⟨ma, mb, m, x', y', ioA, ioM, h_op, h_mul, h_add, h_or, _⟩ := (hF.ok.ok c hc).ex
    rw [he, hl] at h_mul
    simp only [Option.some.injEq] at h_mul
    subst h_mul
    rw [h_op]
    simp only [rowP] at hrow ⊢
    refine ⟨?_, fun hk => by cases hk⟩
    have hmul_not_add : ∀ c' ∈ ch, c'.addIdx ≠ n := fun c' hc' => by
      rw [← he]; exact no_add_at_mul hF.ok hc hc'
    rcases hrow.1 with (hb | hb) | (hm | hm)
    · exact Or.inl (tr mb hb (not_prod_operand hF hl (Or.inr rfl) hmul_not_add))
    · exact Or.inl (Or.inr hb)
    · -- the product was touched before its mul: by the consumed add, a backward row
      have hlt : ¬ c.mulIdx < c.addIdx := by
        intro hlt
        rcases prod_touched (hF.ok.ok c hc) h_op hm with h1 | h1 <;> omega
      have hlt' : c.addIdx < n := by
        rcases prod_touched (hF.ok.ok c hc) h_op hm with h1 | h1 <;> omega
      have hnp : ¬ isProd ch c.out :=
        not_prod_out hF h_add rfl (fun c' hc' he' => no_add_at_mul hF.ok hc' hc he'.symm)
      rcases add_before_mul hF h hc hlt with h1 | h1
      · rcases transfer hF h c.addIdx _ h1 hnp with h2 | h2
        · exact Or.inr (Or.inl (Tnew_mono h2 (by omega)))
        · exact Or.inr (Or.inr h2)
      · exact Or.inr (Or.inr h1)
    · exact absurd hm (hF.notIn m ⟨c, hc, ma, mb, _, _, h_op⟩)
  · -- an untouched row
    rw [hsame] at hap
    simp only [Option.some.injEq] at hap
    subst hap
    cases op with
    | alu k a b c' out io =>
      simp only [rowP] at hrow ⊢
      have hna : ∀ c ∈ ch, c.addIdx ≠ n := fun c hc => (hno c hc).1
      have hnm : ∀ c ∈ ch, c.mulIdx ≠ n := fun c hc => (hno c hc).2
      refine ⟨?_, fun hk => ?_⟩
      · rcases hrow.1 with (hb | hb) | (ho | ho)
        · exact Or.inl (tr b hb (not_prod_operand hF hl (Or.inr rfl) hna))
        · exact Or.inl (Or.inr hb)
        · exact Or.inr (tr out ho (not_prod_out hF hl rfl hnm))
        · exact Or.inr (Or.inr ho)
      · rcases hrow.2 hk with ha | ha
        · exact tr a ha (not_prod_operand hF hl (Or.inl rfl) hna)
        · exact Or.inr ha
    | _ => trivial

end surgery

/-! ### `scan_defs` against the touched set

`scan_defs` records a definition for the `out` of every row and for the `b` of a *backward* plain
`Add` / `Mul` row (`track_backwards_op`: `out` already defined or a private input). The role scan also
creates the `b` of a backward row of any other ALU kind; `fwdP` excludes those rows. Under it every
touched slot is private or has a definition (`Sim.defd`), so a consumed add that is backward in the sense of
the certificate is backward for `scan_defs`, its `b` gets `def_idx = add_idx`, and `try_fuse` rejects it
as addend ("addend must already be computed"). -/

/-- Rows other than plain `Add` / `Mul` are forward: their `b` is touched earlier or private. -/
def fwdP (P : List Nat) (T : Nat → Prop) : Op K → Prop
  | .alu k _ b c _ _ => (isAM k = true ∧ c = none) ∨ T b ∨ b ∈ P
  | _ => True

theorem isConst_spec {f : Fusion K} {w : Nat} (h : f.isConst w = true) :
    ∃ i v, f.defs.lookup w = some (i, .const v) := by
  unfold Fusion.isConst at h
  split at h
  · rename_i i v hl; exact ⟨i, v, hl⟩
  · cases h

theorem insertDef_defs' (f : Fusion K) (w idx : Nat) (d : OpDef K) :
    ((f.insertDef w idx d).defs = f.defs ∧ f.isConst w = true) ∨
    ((f.insertDef w idx d).defs = (w, (idx, d)) :: f.defs ∧ f.isConst w = false) := by
  unfold Fusion.insertDef
  dsimp only
  by_cases hc : f.isConst w = true
  · left
    have : Fusion.isConst { f with writers := bump f.writers w } w = true := hc
    rw [if_pos this]; exact ⟨rfl, hc⟩
  · right
    have : ¬ Fusion.isConst { f with writers := bump f.writers w } w = true := hc
    rw [if_neg this]; exact ⟨rfl, by simpa using hc⟩

theorem insertDef_inputs (f : Fusion K) (w idx : Nat) (d : OpDef K) :
    (f.insertDef w idx d).inputs = f.inputs := by
  unfold Fusion.insertDef; dsimp only; split <;> rfl

theorem trackBackwards_inputs (f : Fusion K) (idx out b : Nat) :
    (f.trackBackwards idx out b).inputs = f.inputs := by
  unfold Fusion.trackBackwards; split
  · rw [insertDef_inputs]
  · rfl

/-- The entries a step pushes in front of `defs`: all carry the step's position; a `Const` entry comes
from a `Const` row. -/
def Pushed (f f' : Fusion K) (idx : Nat) (isC : Nat → K → Prop) : Prop :=
  ∃ pushed : List (Nat × (Nat × OpDef K)), f'.defs = pushed ++ f.defs ∧ f'.inputs = f.inputs ∧
    ∀ x e, (x, e) ∈ pushed → e.1 = idx ∧ ∀ v, e.2 = .const v → isC x v

theorem Pushed.refl (f : Fusion K) (idx : Nat) (isC : Nat → K → Prop) : Pushed f f idx isC :=
  ⟨[], rfl, rfl, fun _ _ h => by cases h⟩

theorem Pushed.trans {f f' f'' : Fusion K} {idx : Nat} {isC : Nat → K → Prop}
    (h1 : Pushed f f' idx isC) (h2 : Pushed f' f'' idx isC) : Pushed f f'' idx isC := by
  obtain ⟨p1, d1, i1, a1⟩ := h1
  obtain ⟨p2, d2, i2, a2⟩ := h2
  refine ⟨p2 ++ p1, by rw [d2, d1, List.append_assoc], by rw [i2, i1], ?_⟩
  intro x e he
  rcases List.mem_append.mp he with he | he
  · exact a2 x e he
  · exact a1 x e he

theorem insertDef_pushed (f : Fusion K) (w idx : Nat) (d : OpDef K) (isC : Nat → K → Prop)
    (hd : ∀ v, d ≠ .const v) : Pushed f (f.insertDef w idx d) idx isC := by
  rcases insertDef_defs' f w idx d with ⟨h, _⟩ | ⟨h, _⟩
  · exact ⟨[], by rw [h]; rfl, insertDef_inputs _ _ _ _, fun _ _ h => by cases h⟩
  · refine ⟨[(w, (idx, d))], by rw [h]; rfl, insertDef_inputs _ _ _ _, ?_⟩
    intro x e he
    simp only [List.mem_singleton, Prod.mk.injEq] at he
    obtain ⟨rfl, rfl⟩ := he
    exact ⟨rfl, fun v hv => absurd hv (hd v)⟩

theorem trackBackwards_pushed (f : Fusion K) (idx out b : Nat) (isC : Nat → K → Prop) :
    Pushed f (f.trackBackwards idx out b) idx isC := by
  unfold Fusion.trackBackwards
  split
  · have := insertDef_pushed ({ f with backwards := (b, idx) :: f.backwards }) b idx .other isC
      (fun v h => by cases h)
    exact this
  · exact Pushed.refl _ _ _

theorem foldInsert_pushed (ws : List Nat) (idx : Nat) (isC : Nat → K → Prop) (f : Fusion K) :
    Pushed f (ws.foldl (fun f w => f.insertDef w idx .other) f) idx isC := by
  induction ws generalizing f with
  | nil => exact Pushed.refl _ _ _
  | cons w ws ih =>
    exact (insertDef_pushed f w idx .other isC (fun v h => by cases h)).trans (ih _)

theorem defStep_pushed (f : Fusion K) (op : Op K) (idx : Nat) :
    Pushed f (defStep f (op, idx)) idx (fun x v => op = .const x v) := by
  have ins : ∀ (g : Fusion K) (w : Nat) (d : OpDef K), (∀ v, d ≠ .const v) →
      Pushed g (g.insertDef w idx d) idx (fun x v => op = .const x v) :=
    fun g w d hd => insertDef_pushed g w idx d _ hd
  have no : ∀ v : K, OpDef.other ≠ .const v := fun v h => by cases h
  cases op with
  | const out v =>
    refine ⟨[(out, (idx, .const v))], rfl, rfl, ?_⟩
    intro x e he
    simp only [List.mem_singleton, Prod.mk.injEq] at he
    obtain ⟨rfl, rfl⟩ := he
    refine ⟨rfl, fun v' hv => ?_⟩
    cases hv; rfl
  | pub out pos => exact ins f out .other no
  | hint ins' outs kind => exact foldInsert_pushed outs idx _ f
  | npo ins' outs opId kind => exact foldInsert_pushed outs.flatten idx _ f
  | alu k a b c out io =>
    have viaTB : ∀ d : OpDef K, (∀ v, d ≠ .const v) →
        Pushed f ((f.trackBackwards idx out b).insertDef out idx d) idx (fun x v => Op.alu k a b c out io = .const x v) :=
      fun d hd => (trackBackwards_pushed f idx out b _).trans (ins _ out d hd)
    cases k with
    | add =>
      cases c with
      | none => exact viaTB .other no
      | some cv => exact ins f out .other no
    | mul =>
      cases c with
      | none => exact viaTB (.mul a b) (fun v h => by cases h)
      | some cv => exact ins f out .other no
    | boolCheck => exact ins f out .other no
    | mulAdd => exact ins f out .other no
    | horner => exact ins f out .other no

/-- `x` has a definition. -/
def hasDef (f : Fusion K) (x : Nat) : Prop := (f.defs.lookup x).isSome = true

theorem hasDef_pushed {f f' : Fusion K} {idx : Nat} {isC : Nat → K → Prop} (h : Pushed f f' idx isC)
    {x : Nat} (hx : hasDef f x) : hasDef f' x := by
  obtain ⟨p, hd, _, _⟩ := h
  unfold hasDef at *
  rw [hd, List.lookup_append]
  cases hp : List.lookup x p with
  | none => simpa using hx
  | some e => simp

theorem insertDef_has (f : Fusion K) (w idx : Nat) (d : OpDef K) : hasDef (f.insertDef w idx d) w := by
  unfold hasDef
  rcases insertDef_defs' f w idx d with ⟨h, hc⟩ | ⟨h, _⟩
  · obtain ⟨i, v, hl⟩ := isConst_spec hc
    rw [h, hl]; rfl
  · rw [h]; simp [List.lookup]

theorem defStep_out (f : Fusion K) (op : Op K) (idx : Nat) {x : Nat} (ho : outSlot op = some x) :
    hasDef (defStep f (op, idx)) x := by
  cases op with
  | const out v =>
    simp only [outSlot, Option.some.injEq] at ho; subst ho
    simp [hasDef, defStep, List.lookup]
  | pub out pos =>
    simp only [outSlot, Option.some.injEq] at ho; subst ho
    exact insertDef_has _ _ _ _
  | hint _ _ _ => cases ho
  | npo _ _ _ _ => cases ho
  | alu k a b c out io =>
    simp only [outSlot, Option.some.injEq] at ho; subst ho
    cases k <;> cases c <;> exact insertDef_has _ _ _ _

theorem trackBackwards_has (f : Fusion K) (idx out b : Nat) (h : f.isBackwards idx out = true) :
    hasDef (f.trackBackwards idx out b) b := by
  unfold Fusion.trackBackwards
  rw [if_pos h]
  exact insertDef_has _ _ _ _

/-- The `b` of a backward plain `Add` / `Mul` row gets a definition. -/
theorem defStep_b (f : Fusion K) (k : AluKind) (a b out : Nat) (io : Option Nat) (idx : Nat)
    (hk : isAM k = true) (h : f.isBackwards idx out = true) :
    hasDef (defStep f (.alu k a b none out io, idx)) b := by
  have h1 := trackBackwards_has f idx out b h
  cases k with
  | add => exact hasDef_pushed (insertDef_pushed _ out idx .other (fun _ _ => True) (fun v h => by cases h)) h1
  | mul => exact hasDef_pushed (insertDef_pushed _ out idx (.mul a b) (fun _ _ => True) (fun v h => by cases h)) h1
  | boolCheck => cases hk
  | mulAdd => cases hk
  | horner => cases hk

/-- The simulation invariant between the first `n` steps of `scan_defs` and the touched set. -/
structure Sim (P : List Nat) (l : List (Op K)) (n : Nat) (f : Fusion K) : Prop where
  inp : f.inputs = P
  lt : ∀ x e, (x, e) ∈ f.defs → e.1 < n
  cst : ∀ x i v, (x, (i, OpDef.const v)) ∈ f.defs → Told l n x
  defd : ∀ x, Told l n x → x ∈ P ∨ hasDef f x

theorem Sim.backwards {P : List Nat} {l : List (Op K)} {n : Nat} {f : Fusion K} (h : Sim P l n f)
    {out : Nat} (ho : Told l n out ∨ out ∈ P) : f.isBackwards n out = true := by
  unfold Fusion.isBackwards
  simp only [Bool.or_eq_true, List.contains_iff_mem]
  have hcase : out ∈ P ∨ hasDef f out := by
    rcases ho with ho | ho
    · exact h.defd out ho
    · exact Or.inl ho
  rcases hcase with hp | hd
  · left; rw [h.inp]; exact hp
  · right
    unfold hasDef at hd
    unfold Fusion.defIdx
    cases hl : f.defs.lookup out with
    | none => rw [hl] at hd; cases hd
    | some e =>
      simp only [Option.map_some, decide_eq_true_eq]
      exact h.lt out e (lookup_mem _ _ _ hl)

theorem Told_succ {l : List (Op K)} {n : Nat} {op : Op K} (hl : l[n]? = some op) {x : Nat}
    (h : Told l (n + 1) x) : Told l n x ∨ x ∈ touchH [] op := by
  obtain ⟨j, op', hj, h1, h2⟩ := h
  by_cases hjn : j = n
  · subst hjn; rw [hl] at h1; cases h1; exact Or.inr h2
  · exact Or.inl ⟨j, op', by omega, h1, h2⟩

theorem Sim.step {P : List Nat} {l : List (Op K)} {n : Nat} {f : Fusion K} (h : Sim P l n f) {op : Op K}
    (hl : l[n]? = some op) (hrow : rowP P (Told l n) op) (hfwd : fwdP P (Told l n) op) :
    Sim P l (n + 1) (defStep f (op, n)) := by
  have hp := defStep_pushed f op n
  obtain ⟨pushed, hd, hi, ha⟩ := hp
  refine ⟨by rw [hi, h.inp], ?_, ?_, ?_⟩
  · intro x e he
    rw [hd] at he
    rcases List.mem_append.mp he with he | he
    · rw [(ha x e he).1]; exact Nat.lt_succ_self _
    · exact Nat.lt_succ_of_lt (h.lt x e he)
  · intro x i v he
    rw [hd] at he
    rcases List.mem_append.mp he with he | he
    · have := (ha x _ he).2 v rfl
      exact ⟨n, op, Nat.lt_succ_self _, hl, by rw [this]; simp [touchH]⟩
    · exact Told_mono (h.cst x i v he) (Nat.le_succ _)
  · intro x hx
    have keep : ∀ {y}, hasDef f y → hasDef (defStep f (op, n)) y :=
      fun hy => hasDef_pushed (defStep_pushed f op n) hy
    have old : Told l n x ∨ x ∈ P → x ∈ P ∨ hasDef (defStep f (op, n)) x := by
      rintro (h1 | h1)
      · exact (h.defd x h1).imp id keep
      · exact Or.inl h1
    rcases Told_succ hl hx with h1 | h1
    · exact old (Or.inl h1)
    · rcases touch_cases h1 with ho | ⟨k, a, c, out, io, rfl⟩
      · exact Or.inr (defStep_out f op n ho)
      · simp only [rowP, fwdP] at hrow hfwd
        rcases hfwd with ⟨hk, rfl⟩ | hb
        · rcases hrow.1 with hb | ho
          · exact old hb
          · exact Or.inr (defStep_b f k a x out io n hk (h.backwards ho))
        · exact old hb

/-- `scan_defs` up to position `n`. -/
def scanTo (l : List (Op K)) (f0 : Fusion K) (n : Nat) : Fusion K := ((l.take n).zipIdx).foldl defStep f0

theorem scanTo_succ (l : List (Op K)) (f0 : Fusion K) (n : Nat) (hn : n < l.length) :
    scanTo l f0 (n + 1) = defStep (scanTo l f0 n) (l[n], n) := by
  unfold scanTo
  rw [List.take_succ_eq_append_getElem hn, List.zipIdx_append, List.foldl_append]
  simp [Nat.min_eq_left (Nat.le_of_lt hn)]

/-- The two certificates at every position (Prop form). -/
def Cert (P : List Nat) (l : List (Op K)) : Prop :=
  ∀ n op, l[n]? = some op → rowP P (Told l n) op ∧ fwdP P (Told l n) op

theorem sim_scanTo {P : List Nat} {l : List (Op K)} (hc : Cert P l) (f0 : Fusion K) (h0 : f0.inputs = P)
    (hd0 : f0.defs = []) : ∀ n, n ≤ l.length → Sim P l n (scanTo l f0 n) := by
  intro n
  induction n with
  | zero =>
    intro _
    refine ⟨h0, ?_, ?_, ?_⟩
    · intro x e he; simp [scanTo, hd0] at he
    · intro x i v he; simp [scanTo, hd0] at he
    · rintro x ⟨j, _, hj, _⟩; omega
  | succ n ih =>
    intro hn
    have hlt : n < l.length := hn
    rw [scanTo_succ l f0 n hlt]
    have hl : l[n]? = some l[n] := List.getElem?_eq_getElem hlt
    exact (ih (Nat.le_of_lt hlt)).step hl (hc n _ hl).1 (hc n _ hl).2

/-- `x` has a definition at a position `≥ j`. -/
def defGe (f : Fusion K) (x j : Nat) : Prop := ∃ e, f.defs.lookup x = some e ∧ j ≤ e.1

theorem defGe_step {f : Fusion K} {x j : Nat} (h : defGe f x j) (op : Op K) (idx : Nat) (hidx : j ≤ idx) :
    defGe (defStep f (op, idx)) x j := by
  obtain ⟨pushed, hd, _, ha⟩ := defStep_pushed f op idx
  obtain ⟨e, he, hje⟩ := h
  unfold defGe
  rw [hd, List.lookup_append]
  cases hp : List.lookup x pushed with
  | none => exact ⟨e, by simpa using he, hje⟩
  | some e' =>
    refine ⟨e', by simp, ?_⟩
    rw [(ha x e' (lookup_mem _ _ _ hp)).1]; exact hidx

theorem defGe_scanTo {l : List (Op K)} {f0 : Fusion K} {x j : Nat} :
    ∀ n, j < n → n ≤ l.length → defGe (scanTo l f0 (j + 1)) x j → defGe (scanTo l f0 n) x j := by
  intro n
  induction n with
  | zero => intro h; omega
  | succ n ih =>
    intro hj hn h
    by_cases he : j = n
    · subst he; exact h
    · have hlt : n < l.length := hn
      rw [scanTo_succ l f0 n hlt]
      exact defGe_step (ih (by omega) (Nat.le_of_lt hlt) h) _ _ (by omega)

/-! ### The model's pass satisfies `FuseFacts` on every certified list -/

/-- What `try_fuse` returns, with the two tests the certificate argument uses: the product slot is no
private input; the addend's last definition precedes the add. -/
theorem tryFuse_full (f : Fusion K) (mr ad out ai : Nat) (c : Cand K) (h : f.tryFuse mr ad out ai = some c) :
    ∃ mi ma mb, f.inputs.contains mr = false ∧ (∀ i, f.defIdx ad = some i → i < ai) ∧
      c = { addIdx := ai, mulIdx := mi, op := .alu .mulAdd ma mb (some ad) out (some mr),
            addend := ad, out := out } := by
  unfold Fusion.tryFuse at h
  split at h
  · next mi ma mb hl =>
    split_ifs at h with h1 h2 h3 h4 h5
    simp only [Option.some.injEq] at h
    simp only [Bool.or_eq_true, decide_eq_true_eq, not_or, ne_eq, Decidable.not_not] at h2
    refine ⟨mi, ma, mb, by simpa using h2.2, ?_, h.symm⟩
    intro i hi
    rw [hi] at h3
    simpa using h3
  · simp at h

theorem chosen_sub (ops : Array (Op K)) (inputs : List Nat) :
    ∀ c ∈ chosenFor ops inputs, c ∈ (Fusion.new ops inputs).candidates ops := by
  intro c hc
  rcases (chosen_fold_props _ []).1 c hc with h | h
  · simp at h
  · exact filterValid_sub _ _ _ c h

/-- A chosen candidate comes from `try_fuse` in one of the two orientations of its add. -/
theorem chosen_tryFuse (ops : Array (Op K)) (inputs : List Nat) (c : Cand K) (hc : c ∈ chosenFor ops inputs)
    {x y : Nat} {io : Option Nat} {out : Nat}
    (hrow : ops.toList[c.addIdx]? = some (.alu .add x y none out io)) :
    (Fusion.new ops inputs).tryFuse x y out c.addIdx = some c ∨
    (Fusion.new ops inputs).tryFuse y x out c.addIdx = some c := by
  obtain ⟨_, op, h1, h2⟩ := candidates_ok ops inputs c (chosen_sub ops inputs c hc)
  rw [hrow] at h1
  simp only [Option.some.injEq] at h1
  subst h1
  simp only [candOf] at h2
  split_ifs at h2
  split at h2
  · next c' ht =>
    simp only [Option.some.injEq] at h2; subst h2
    exact Or.inl ht
  · exact Or.inr h2

def scan0 (ops : Array (Op K)) (inputs : List Nat) : Fusion K :=
  { useCounts := scanUseCounts ops, defs := [], backwards := [], inputs := inputs, writers := [] }

theorem new_eq_scanTo (ops : Array (Op K)) (inputs : List Nat) :
    Fusion.new ops inputs = scanTo ops.toList (scan0 ops inputs) ops.toList.length := by
  unfold Fusion.new scanTo scan0
  rw [scanDefs_eq, List.take_length]

theorem new_inputs {P : List Nat} {ops : Array (Op K)} (hc : Cert P ops.toList) :
    (Fusion.new ops P).inputs = P := by
  rw [new_eq_scanTo]
  exact (sim_scanTo hc (scan0 ops P) rfl rfl _ (Nat.le_refl _)).inp

/-- (2c) **The product slot of a chosen candidate is no private input.** -/
theorem chosen_notIn {P : List Nat} {ops : Array (Op K)} (hc : Cert P ops.toList) :
    ∀ x, isProd (chosenFor ops P) x → x ∉ P := by
  rintro m ⟨c, hcc, ma, mb, ad, o, hop⟩ hin
  obtain ⟨_, _, _, x, y, ioA, _, _, _, h_add, _⟩ := ((chosenFor_ok ops P).ok c hcc).ex
  have hI := new_inputs hc
  rcases chosen_tryFuse ops P c hcc h_add with ht | ht <;>
    obtain ⟨mi, ma', mb', hni, _, hceq⟩ := tryFuse_full _ _ _ _ _ _ ht
  all_goals
    have hop' := congrArg Cand.op hceq
    simp only [] at hop'
    rw [hop'] at hop
    simp only [Op.alu.injEq, Option.some.injEq, true_and] at hop
    have hm := hop.2.2.2.2
    rw [hI, hm] at hni
    exact absurd hin (by simpa using hni)

/-- (3) **A consumed add does not create its addend**: its `b` operand is touched before it, private, or
the product. Otherwise the add is a backward row (`out` touched before it or private), `scan_defs` sees
that (`Sim.backwards`), `track_backwards_op` gives `b` the definition index `add_idx`, no later step lowers
it (`defGe_scanTo`), and `try_fuse` rejects `b` as addend. -/
theorem chosen_addB {P : List Nat} {ops : Array (Op K)} (hc : Cert P ops.toList) (c : Cand K)
    (hcc : c ∈ chosenFor ops P) (x y : Nat) (io : Option Nat)
    (hrow : ops.toList[c.addIdx]? = some (.alu .add x y none c.out io)) :
    Told ops.toList c.addIdx y ∨ y ∈ P ∨ isProd (chosenFor ops P) y := by
  rcases chosen_tryFuse ops P c hcc hrow with ht | ht
  · obtain ⟨mi, ma, mb, _, hchk, hceq⟩ := tryFuse_full _ _ _ _ _ _ ht
    have hr := (hc _ _ hrow).1
    simp only [rowP] at hr
    rcases hr.1 with hb | ho
    · rcases hb with hb | hb
      · exact Or.inl hb
      · exact Or.inr (Or.inl hb)
    · by_contra hny
      have hny' : ¬ Told ops.toList c.addIdx y := fun h => hny (Or.inl h)
      have hlt : c.addIdx < ops.toList.length := (List.getElem?_eq_some_iff.mp hrow).1
      have S := sim_scanTo hc (scan0 ops P) rfl rfl c.addIdx (Nat.le_of_lt hlt)
      have hbw := S.backwards ho
      -- after the add's step, `y` has definition index `addIdx`
      have hge : defGe (scanTo ops.toList (scan0 ops P) (c.addIdx + 1)) y c.addIdx := by
        rw [scanTo_succ _ _ _ hlt]
        have hget : ops.toList[c.addIdx] = .alu .add x y none c.out io := by
          have := List.getElem?_eq_getElem hlt
          rw [hrow] at this
          exact (Option.some.inj this).symm
        rw [hget]
        show defGe (((scanTo ops.toList (scan0 ops P) c.addIdx).trackBackwards c.addIdx c.out y).insertDef
          c.out c.addIdx .other) y c.addIdx
        generalize scanTo ops.toList (scan0 ops P) c.addIdx = f at S hbw
        have h1 : (f.trackBackwards c.addIdx c.out y).defs = (y, (c.addIdx, .other)) :: f.defs := by
          unfold Fusion.trackBackwards
          rw [if_pos hbw]
          rcases insertDef_defs' ({ f with backwards := (y, c.addIdx) :: f.backwards }) y c.addIdx .other with
            ⟨_, hcst⟩ | ⟨h, _⟩
          · obtain ⟨i, v, hl⟩ := isConst_spec hcst
            exact absurd (S.cst y i v (lookup_mem _ _ _ hl)) hny'
          · exact h
        unfold defGe
        rcases insertDef_defs' (f.trackBackwards c.addIdx c.out y) c.out c.addIdx .other with ⟨h, _⟩ | ⟨h, _⟩
        · rw [h, h1]; exact ⟨(c.addIdx, .other), by simp [List.lookup], Nat.le_refl _⟩
        · rw [h, h1]
          by_cases hyo : y = c.out
          · rw [← hyo]; exact ⟨(c.addIdx, .other), by simp [List.lookup], Nat.le_refl _⟩
          · have : (y == c.out) = false := by simpa using hyo
            exact ⟨(c.addIdx, .other), by simp [List.lookup, this], Nat.le_refl _⟩
      have hfin := defGe_scanTo (l := ops.toList) (f0 := scan0 ops P) ops.toList.length hlt (Nat.le_refl _) hge
      rw [← new_eq_scanTo] at hfin
      obtain ⟨e, he, hje⟩ := hfin
      have := hchk e.1 (by unfold Fusion.defIdx; rw [he]; rfl)
      omega
  · obtain ⟨mi, ma, mb, _, _, hceq⟩ := tryFuse_full _ _ _ _ _ _ ht
    refine Or.inr (Or.inr ⟨c, hcc, ma, mb, x, c.out, ?_⟩)
    rw [hceq]

/-- The model's pass satisfies `FuseFacts` on every list with the two certificates. -/
theorem chosen_facts {P : List Nat} {ops : Array (Op K)} (hc : Cert P ops.toList) :
    FuseFacts P ops.toList (chosenFor ops P) :=
  ⟨chosenFor_ok ops P, chosen_notIn hc, chosen_addB hc⟩

theorem fuse_eq_filterMap (ops : Array (Op K)) (inputs : List Nat) :
    (fuse ops inputs).toList = (ops.toList.zipIdx).filterMap (applyF (chosenFor ops inputs)) := by
  rw [fuse_eq_fst, fuseWithSites_eq]

/-! ### The forward certificate (decidable) and the list-level theorem -/

def rowF (P T : List Nat) : Op K → Bool
  | .alu k _ b c _ _ => (isAM k && c.isNone) || T.contains b || P.contains b
  | _ => true

/-- Every ALU row that is not a plain `Add` / `Mul` has its `b` operand touched earlier or private. -/
def fwdFrom (P : List Nat) : List Nat → List (Op K) → Bool
  | _, [] => true
  | T, op :: ops => rowF P T op && fwdFrom P (touchH [] op ++ T) ops

theorem fwdFrom_append (P : List Nat) (l1 l2 : List (Op K)) (T : List Nat) :
    fwdFrom P T (l1 ++ l2) = (fwdFrom P T l1 && fwdFrom P (accH [] T l1) l2) := by
  induction l1 generalizing T with
  | nil => simp [fwdFrom, accH]
  | cons op l1 ih =>
    simp only [List.cons_append, fwdFrom, ih, accH, List.foldl_cons, Bool.and_assoc]

theorem rowF_iff (P T : List Nat) (op : Op K) : rowF P T op = true ↔ fwdP P (· ∈ T) op := by
  cases op with
  | alu k a b c out io =>
    simp only [rowF, fwdP, Bool.or_eq_true, Bool.and_eq_true, List.contains_iff_mem, Option.isNone_iff_eq_none]
    tauto
  | const _ _ => simp [rowF, fwdP]
  | pub _ _ => simp [rowF, fwdP]
  | hint _ _ _ => simp [rowF, fwdP]
  | npo _ _ _ _ => simp [rowF, fwdP]

theorem fwd_rows (P : List Nat) (l : List (Op K)) (h : fwdFrom P [] l = true) (n : Nat) (op : Op K)
    (hn : l[n]? = some op) : rowF P (accH [] [] (l.take n)) op = true := by
  obtain ⟨hlt, heq⟩ := List.getElem?_eq_some_iff.mp hn
  have hl : l = l.take n ++ op :: l.drop (n + 1) := by
    rw [← heq, ← List.drop_eq_getElem_cons hlt, List.take_append_drop]
  rw [hl, fwdFrom_append] at h
  simp only [Bool.and_eq_true, fwdFrom] at h
  exact h.2.1

theorem cert_of (P : List Nat) (l : List (Op K)) (h : hduFrom P [] [] l = true)
    (hf : fwdFrom P [] l = true) : Cert P l := by
  intro n op hn
  refine ⟨hdu_rowP P l h n op hn, ?_⟩
  have := (rowF_iff P _ op).mp (fwd_rows P l hf n op hn)
  cases op with
  | alu k a b c out io =>
    simp only [fwdP, mem_accH_take] at this ⊢
    exact this
  | _ => trivial

/-- **C09 / `fuse_preserves_hdu` — total, list level.** For every op list and every set `P` of
private-input slots: if the list carries the certificate `hduFrom P []` and the forward certificate,
then the output of the fusion pass run with `inputs = P` carries `hduFrom P []`. -/
theorem fuse_preserves_hdu (P : List Nat) (ops : Array (Op K)) (h : hduFrom P [] [] ops.toList = true)
    (hf : fwdFrom P [] ops.toList = true) : hduFrom P [] [] (fuse ops P).toList = true := by
  rw [fuse_eq_filterMap]
  exact surgery_keeps_hdu (chosen_facts (cert_of P _ h hf)) h

/-- **C09 / `fuse_preserves_defuse`.** -/
theorem fuse_preserves_defuse (P : List Nat) (ops : Array (Op K)) (h : hduFrom P [] [] ops.toList = true)
    (hf : fwdFrom P [] ops.toList = true) : defUse P (fuse ops P).toList = true :=
  hdu_defUse P [] _ (by intro x hx; cases hx) _ [] [] (fun _ h => Or.inl h) (fuse_preserves_hdu P ops h hf)

/-- (1) **In a certified list the mul of a chosen candidate precedes its add, or the add is a backward
row** (named form of `add_before_mul` for the model's pass). -/
theorem chosen_mul_before_add (P : List Nat) (ops : Array (Op K)) (h : hduFrom P [] [] ops.toList = true)
    (hf : fwdFrom P [] ops.toList = true) (c : Cand K) (hc : c ∈ chosenFor ops P) :
    c.mulIdx < c.addIdx ∨ Told ops.toList c.addIdx c.out ∨ c.out ∈ P := by
  by_cases hlt : c.mulIdx < c.addIdx
  · exact Or.inl hlt
  · exact Or.inr (add_before_mul (chosen_facts (cert_of P _ h hf)) h hc hlt)

/-! ### `dedup` keeps the forward certificate -/

theorem rowF_map (rw : Rewrite) (P T T' : List Nat) (op : Op K)
    (hT : ∀ x ∈ T, resolve rw x ∈ T' ∨ resolve rw x ∈ P.map (resolve rw))
    (h : rowF P T op = true) : rowF (P.map (resolve rw)) T' (op.rewrite rw) = true := by
  cases op with
  | alu k a b c out io =>
    simp only [rowF, Bool.or_eq_true, Bool.and_eq_true, List.contains_iff_mem] at h
    simp only [P3R.Op.rewrite, rowF, Bool.or_eq_true, Bool.and_eq_true, List.contains_iff_mem]
    rcases h with (h | h) | h
    · left; left
      refine ⟨h.1, ?_⟩
      cases c <;> simp_all
    · rcases hT _ h with h' | h'
      · exact Or.inl (Or.inr h')
      · exact Or.inr h'
    · exact Or.inr (List.mem_map.mpr ⟨_, h, rfl⟩)
  | const out v => rfl
  | pub out v => rfl
  | hint ins outs k => rfl
  | npo ins outs id k => rfl

def ClaimF (P : List Nat) (s : DedupState K) : Prop :=
  ∀ rwF, Ext s.rw rwF → fwdFrom (P.map (resolve rwF)) [] (s.out.toList.map (Op.rewrite rwF)) = true

theorem step_cases (s : DedupState K) (op : Op K) (ht : Terminates s.rw) :
    Ext s.rw (s.step op).rw ∧
    ((s.step op).out = s.out ∨ ((s.step op).out = s.out.push (op.rewrite s.rw) ∧ (s.step op).rw = s.rw)) := by
  unfold DedupState.step
  cases hop : op.rewrite s.rw with
  | const out v => exact ⟨Ext.refl _, Or.inr ⟨rfl, rfl⟩⟩
  | pub out pos => exact ⟨Ext.refl _, Or.inr ⟨rfl, rfl⟩⟩
  | hint ins outs kd => exact ⟨Ext.refl _, Or.inr ⟨rfl, rfl⟩⟩
  | npo ins outs id kd => exact ⟨Ext.refl _, Or.inr ⟨rfl, rfl⟩⟩
  | alu k a b c out io =>
    obtain ⟨a0, b0, c0, out0, io0, rfl, rfl, rfl, rfl, rfl, rfl⟩ := rewrite_alu_inv hop
    simp only []
    split
    · rename_i cano hl
      split
      · rename_i hne
        exact ⟨Ext.step (Ext.refl _) (resolve_terminal ht out0) (resolve_terminal ht cano) hne, Or.inl rfl⟩
      · exact ⟨Ext.refl _, Or.inl rfl⟩
    · exact ⟨Ext.refl _, Or.inr ⟨rfl, rfl⟩⟩

theorem step_claimF (P : List Nat) (s : DedupState K) (Pfx : List (Op K)) (op : Op K)
    (ht : Terminates s.rw) (hc : ClaimH P [] s Pfx) (hf : ClaimF P s)
    (hrow : rowF P (accH [] [] Pfx) op = true) : ClaimF P (s.step op) := by
  obtain ⟨hext0, hcase⟩ := step_cases s op ht
  intro rwF hext
  have hext' : Ext s.rw rwF := hext0.trans hext
  rcases hcase with ho | ⟨ho, _⟩
  · rw [ho]; exact hf rwF hext'
  · obtain ⟨_, h2⟩ := hc rwF hext'
    have hl : (s.step op).out.toList.map (Op.rewrite rwF) =
        s.out.toList.map (Op.rewrite rwF) ++ [op.rewrite rwF] := by
      rw [ho, Array.toList_push, List.map_append, List.map_singleton, rewrite_comp ht hext']
    rw [hl, fwdFrom_append, hf rwF hext']
    simp only [Bool.true_and, fwdFrom, Bool.and_true]
    exact rowF_map rwF P _ _ op (by simpa using h2) hrow

theorem fold_claimF (P : List Nat) (ops : List (Op K)) :
    ∀ (s : DedupState K) (Pfx : List (Op K)), Terminates s.rw → SeenH s → ClaimH P [] s Pfx → ClaimF P s →
      hduFrom P [] (accH [] [] Pfx) ops = true → fwdFrom P (accH [] [] Pfx) ops = true →
      ClaimF P (ops.foldl DedupState.step s) := by
  induction ops with
  | nil => intro s Pfx _ _ _ hf _ _; exact hf
  | cons op ops ih =>
    intro s Pfx ht hs hc hf hh hw
    simp only [hduFrom, Bool.and_eq_true] at hh
    simp only [fwdFrom, Bool.and_eq_true] at hw
    obtain ⟨ht', hs', hc'⟩ := step_claimH P [] s Pfx op ht hs hc hh.1
    have hf' := step_claimF P s Pfx op ht hc hf hw.1
    have hacc : accH [] [] (Pfx ++ [op]) = touchH [] op ++ accH [] [] Pfx := by
      simp [accH, List.foldl_append]
    exact ih (s.step op) (Pfx ++ [op]) ht' hs' hc' hf' (by rw [hacc]; exact hh.2) (by rw [hacc]; exact hw.2)

/-- **C09 / de-duplication keeps the forward certificate — total, list level.** -/
theorem dedup_preserves_fwd (P : List Nat) (ops : Array (Op K)) (h : hduFrom P [] [] ops.toList = true)
    (hf : fwdFrom P [] ops.toList = true) :
    fwdFrom (P.map (resolve (dedup ops).2)) [] (dedup ops).1.toList = true := by
  unfold dedup
  simp only
  rw [← Array.foldl_toList]
  have hinit : ClaimH P [] ({ rw := [], seen := [], out := #[] } : DedupState K) [] := by
    intro rwF _
    refine ⟨rfl, ?_⟩
    intro x hx
    simp [accH] at hx
  have hseen : SeenH ({ rw := [], seen := [], out := #[] } : DedupState K) := by
    intro key cano hl; simp [List.lookup] at hl
  have hF0 : ClaimF P ({ rw := [], seen := [], out := #[] } : DedupState K) := by
    intro rwF _; rfl
  have hc := fold_claimF P ops.toList _ [] terminates_nil hseen hinit hF0 (by simpa [accH] using h)
    (by simpa [accH] using hf)
  have := hc _ (Ext.refl _)
  simpa [Array.toList_map] using this

/-! ### The lowering emits a list with the forward certificate -/

/-- An ALU row is a plain `Add` / `Mul`, or its `b` is in `T` or private. -/
def fCond (P T : List Nat) (op : Op K) : Prop :=
  ∀ k a b c out io, op = .alu k a b c out io → (isAM k = true ∧ c = none) ∨ b ∈ T ∨ b ∈ P

theorem fCond_alu {P T : List Nat} (k : AluKind) (a b : Nat) (c : Option Nat) (out : Nat)
    (io : Option Nat) (h : (isAM k = true ∧ c = none) ∨ b ∈ T ∨ b ∈ P) :
    fCond P T (.alu k a b c out io : Op K) := by
  intro k' a' b' c' out' io' heq
  cases heq
  exact h

theorem fCond_noAlu {P T : List Nat} {op : Op K} (h : isAluOp op = false) : fCond P T op := by
  intro k a b c out io heq
  subst heq
  simp [isAluOp] at h

theorem fwd_of_cond (P : List Nat) (l : List (Op K)) (T : List Nat) (hA : ∀ op ∈ l, fCond P T op) :
    fwdFrom P T l = true := by
  induction l generalizing T with
  | nil => rfl
  | cons op l ih =>
    simp only [fwdFrom, Bool.and_eq_true]
    refine ⟨?_, ih _ (fun o ho k a b c out io he => ?_)⟩
    · cases op with
      | alu k a b c out io =>
        rcases hA _ List.mem_cons_self k a b c out io rfl with h | h | h
        · simp [rowF, h.1, h.2]
        · simp [rowF, h]
        · simp [rowF, h]
      | _ => rfl
    · rcases hA o (List.mem_cons_of_mem _ ho) k a b c out io he with h | h | h
      · exact Or.inl h
      · exact Or.inr (Or.inl (List.mem_append.mpr (Or.inr h)))
      · exact Or.inr (Or.inr h)

section lowering
open P3R.C02T
variable [Neg K]

omit [Neg K] in
theorem fin1F {P T : List Nat} {s s1 s' : LState K} (ho : s1.ops = s.ops) (rows : List (Op K))
    (hs' : s'.ops.toList = s1.ops.toList ++ rows) (hrows : ∀ op ∈ rows, fCond P T op) :
    ∀ added, s'.ops.toList = s.ops.toList ++ added → ∀ op ∈ added, fCond P T op := by
  intro added hadd
  rw [hs', ho] at hadd
  have := List.append_cancel_left hadd
  subst this
  exact hrows

/-- One step of `emit_operations`: every appended ALU row that is not a plain `Add` / `Mul` has the slot
of the node's `bPos` operand in its `b` column. -/
theorem emit_shapeF {nodes : Array (Expr K)} (npOps : Array NpData) {s s' : LState K} {i : Nat}
    {e : Expr K} (P : List Nat)
    (hres : ∀ l wl, e.bPos nodes = some l → s.e2w.getD l none = some wl →
      wl ∈ accT [] s.ops.toList ∨ wl ∈ P)
    (h : s.emitNode nodes npOps i e = .ok s') :
    ∀ added, s'.ops.toList = s.ops.toList ++ added →
      ∀ op ∈ added, fCond P (accT [] s.ops.toList) op := by
  have same : ∀ {st : LState K}, st = s → ∀ added, st.ops.toList = s.ops.toList ++ added →
      ∀ op ∈ added, fCond P (accT [] s.ops.toList) op := by
    intro st hst added hadd op hop
    subst hst
    have : added = [] := by simpa using hadd
    subst this
    cases hop
  have one : ∀ {s1 : LState K} (r : Op K), s1.ops = s.ops → fCond P (accT [] s.ops.toList) r →
      ∀ (st : LState K), st.ops.toList = s1.ops.toList ++ [r] →
      ∀ added, st.ops.toList = s.ops.toList ++ added →
        ∀ op ∈ added, fCond P (accT [] s.ops.toList) op := by
    intro s1 r ho hr st hst
    refine fin1F ho [r] hst ?_
    intro op hop
    have : op = r := by simpa using hop
    subst this
    exact hr
  cases e with
  | const _ => simp only [LState.emitNode, Except.ok.injEq] at h; exact same h.symm
  | pub _ => simp only [LState.emitNode, Except.ok.injEq] at h; exact same h.symm
  | priv _ => simp only [LState.emitNode, Except.ok.injEq] at h; exact same h.symm
  | add l r =>
    simp only [LState.emitNode] at h
    cases hal : s.allocWitness i with
    | mk s1 out =>
      rw [hal] at h
      obtain ⟨he, ho, hp⟩ := alloc_fields' hal
      cases hl : s1.resolve l with
      | error _ => simp [hl] at h
      | ok a =>
        cases hr : s1.resolve r with
        | error _ => simp [hl, hr] at h
        | ok bw =>
          simp only [hl, hr, Except.ok.injEq] at h
          subst h
          exact one (Op.add a bw out) ho (fCond_alu _ _ _ _ _ _ (Or.inl ⟨rfl, rfl⟩)) _
            (by simp [LState.setW, LState.pushOp])
  | mul l r =>
    simp only [LState.emitNode] at h
    cases hal : s.allocWitness i with
    | mk s1 out =>
      rw [hal] at h
      obtain ⟨he, ho, hp⟩ := alloc_fields' hal
      cases hl : s1.resolve l with
      | error _ => simp [hl] at h
      | ok a =>
        cases hr : s1.resolve r with
        | error _ => simp [hl, hr] at h
        | ok bw =>
          simp only [hl, hr, Except.ok.injEq] at h
          subst h
          exact one (Op.mul a bw out) ho (fCond_alu _ _ _ _ _ _ (Or.inl ⟨rfl, rfl⟩)) _
            (by simp [LState.setW, LState.pushOp])
  | div l r =>
    simp only [LState.emitNode] at h
    cases hal : s.allocWitness i with
    | mk s1 q =>
      rw [hal] at h
      obtain ⟨he, ho, hp⟩ := alloc_fields' hal
      cases hl : s1.resolve l with
      | error _ => simp [hl] at h
      | ok a =>
        cases hr : s1.resolve r with
        | error _ => simp [hl, hr] at h
        | ok bw =>
          simp only [hl, hr, Except.ok.injEq] at h
          subst h
          exact one (Op.mul bw q a) ho (fCond_alu _ _ _ _ _ _ (Or.inl ⟨rfl, rfl⟩)) _
            (by simp [LState.setW, LState.pushOp])
  | mulAdd a b c =>
    simp only [LState.emitNode] at h
    cases hal : s.allocWitness i with
    | mk s1 out =>
      rw [hal] at h
      obtain ⟨he, ho, hp⟩ := alloc_fields' hal
      cases h1 : s1.resolve a with
      | error _ => simp [h1] at h
      | ok wa =>
        cases h2 : s1.resolve b with
        | error _ => simp [h1, h2] at h
        | ok wb =>
          cases h3 : s1.resolve c with
          | error _ => simp [h1, h2, h3] at h
          | ok wc =>
            simp only [h1, h2, h3, Except.ok.injEq] at h
            subst h
            have hb := hres b wb rfl (he ▸ resolve_ok.mp h2)
            exact one (Op.mulAdd wa wb wc out) ho (fCond_alu _ _ _ _ _ _ (Or.inr hb)) _
              (by simp [LState.setW, LState.pushOp])
  | horner acc al pz px =>
    simp only [LState.emitNode] at h
    cases hal : s.allocWitness i with
    | mk s1 out =>
      rw [hal] at h
      obtain ⟨he, ho, hp⟩ := alloc_fields' hal
      cases h1 : s1.resolve acc with
      | error _ => simp [h1] at h
      | ok w1 =>
        cases h2 : s1.resolve al with
        | error _ => simp [h1, h2] at h
        | ok w2 =>
          cases h3 : s1.resolve pz with
          | error _ => simp [h1, h2, h3] at h
          | ok w3 =>
            cases h4 : s1.resolve px with
            | error _ => simp [h1, h2, h3, h4] at h
            | ok w4 =>
              simp only [h1, h2, h3, h4, Except.ok.injEq] at h
              subst h
              have hb := hres al w2 rfl (he ▸ resolve_ok.mp h2)
              exact one (Op.horner w4 w2 w3 out w1) ho (fCond_alu _ _ _ _ _ _ (Or.inr hb)) _
                (by simp [LState.setW, LState.pushOp])
  | boolCheck v =>
    simp only [LState.emitNode] at h
    cases hal : s.allocWitness i with
    | mk s1 out =>
      rw [hal] at h
      obtain ⟨he, ho, hp⟩ := alloc_fields' hal
      cases h1 : s1.resolve v with
      | error _ => simp [h1] at h
      | ok vw =>
        cases h2 : s1.resolve 0 with
        | error _ => simp [h1, h2] at h
        | ok zw =>
          simp only [h1, h2, Except.ok.injEq] at h
          subst h
          have hb := hres 0 zw rfl (he ▸ resolve_ok.mp h2)
          exact one (.alu .boolCheck vw zw (some vw) out none) ho
            (fCond_alu _ _ _ _ _ _ (Or.inr hb)) _ (by simp [LState.setW, LState.pushOp])
  | sub l r =>
    simp only [LState.emitNode] at h
    cases hal : s.allocWitness i with
    | mk s1 res =>
      rw [hal] at h
      obtain ⟨he, ho, hp⟩ := alloc_fields' hal
      cases h1 : s1.resolve l with
      | error _ => simp [h1] at h
      | ok lw =>
        simp only [h1] at h
        split at h
        · rename_i x1 x2 c hnl hnr
          cases hal2 : s1.allocWitness nodes.size with
          | mk s2 nw =>
            rw [hal2] at h
            simp only [Except.ok.injEq] at h
            subst h
            obtain ⟨he2, ho2, hp2⟩ := alloc_fields' hal2
            have hap : (Expr.sub l r : Expr K).aPos nodes = some l := by
              simp only [Expr.aPos, hnl, hnr]
            refine fin1F (ho2.trans ho) [.const nw (-c), Op.add lw nw res]
              (by simp [LState.setW, LState.pushOp]) ?_
            intro op hop
            simp only [List.mem_cons, List.not_mem_nil, or_false] at hop
            rcases hop with rfl | rfl
            · exact fCond_noAlu rfl
            · exact fCond_alu _ _ _ _ _ _ (Or.inl ⟨rfl, rfl⟩)
        · rename_i hnot
          cases h2 : s1.resolve r with
          | error _ => simp [h2] at h
          | ok rw' =>
            simp only [h2, Except.ok.injEq] at h
            subst h
            have hap : (Expr.sub l r : Expr K).aPos nodes = some r := by
              simp only [Expr.aPos]
            exact one (Op.add rw' res lw) ho (fCond_alu _ _ _ _ _ _ (Or.inl ⟨rfl, rfl⟩)) _
              (by simp [LState.setW, LState.pushOp])
  | npCall op ins =>
    simp only [LState.emitNode] at h
    obtain ⟨_, added', ho', hna⟩ := emitNpCall_fields nodes npOps op h
    intro added hadd o hop
    rw [ho'] at hadd
    have := List.append_cancel_left hadd
    subst this
    exact fCond_noAlu (hna o hop)
  | npOut call idx =>
    simp only [LState.emitNode] at h
    split at h
    · rename_i op ins hcall
      split at h
      · cases h
      · rename_i s1 hs1
        obtain ⟨_, added', ho', hna⟩ := emitNpCall_fields nodes npOps op hs1
        have hops : s'.ops = s1.ops := by
          split at h
          · cases h; rfl
          · cases hal : s1.allocWitness i with
            | mk s2 w =>
              rw [hal] at h
              simp only [Except.ok.injEq] at h
              subst h
              exact (alloc_fields' hal).2.1
        intro added hadd o hop
        rw [hops, ho'] at hadd
        have := List.append_cancel_left hadd
        subst this
        exact fCond_noAlu (hna o hop)
    · cases h

/-- **C09 / the lowering emits a list with the forward certificate — total.** For every builder state
with `BState.Ok`, `privOk` and `hintsGuarded`, whenever the lowering succeeds, every ALU row of its op
list that is not a plain `Add` / `Mul` has its `b` operand touched earlier or private (`hintsGuarded`
guards exactly the `b` positions of `MulAdd`, `HornerAcc` and `BoolCheck` rows). -/
theorem lower_fwd (b : BState K) (hok : b.Ok) (hpo : privOk b = true) (hg : hintsGuarded b = true) :
    ∀ l, lower b = .ok l → fwdFrom l.privRows.toList [] l.ops.toList = true := by
  intro l h
  rw [lower_eq] at h
  have hc := hok.connectsOk
  have hcs : ∀ ab ∈ b.connects, ab.1 < b.nodes.size ∧ ab.2 < b.nodes.size ∧
      (proper b.nodes ab.1 = true ∨ proper b.nodes ab.2 = true) := by
    intro ab hab
    have := List.all_eq_true.mp hc ab hab
    simpa [and_assoc] using this
  obtain ⟨hCsz, hCmono, hCmem⟩ := inC_spec b.connects (Array.replicate (b.nodes.size + 1) false)
  simp only [Array.size_replicate] at hCsz hCmem
  obtain ⟨hDsu, hRsame, _⟩ := ofConnects_spec (N := b.nodes.size + 1) b.connects
    (fun ab hab => ⟨by have := (hcs ab hab).1; omega, by have := (hcs ab hab).2.1; omega⟩)
    (Array.range (b.nodes.size + 1)) (range_dsuInv _)
  have hRC : RCok (b.nodes.size + 1) (Dsu.ofConnects (b.nodes.size + 1) b.connects) (inCOf b) := by
    intro x hx
    have : x < b.nodes.size + 1 := by
      have := getD_true_lt _ x hx
      unfold inCOf at this
      rw [hCsz] at this; exact this
    exact hDsu.lt x this
  have h0 : PassInv b.nodes (b.nodes.size + 1) (Dsu.ofConnects (b.nodes.size + 1) b.connects)
      (inCOf b) 0 0 (lowerInit b) := by
    refine ⟨⟨rfl, rfl, by simp [lowerInit], by simp [lowerInit], ?_, ?_⟩, ?_, ?_⟩
    · intro x w _ hw
      simp only [lowerInit, getD_replicate] at hw
      cases hw
    · intro op hop
      simp [lowerInit] at hop
    · intro x w hw
      simp only [lowerInit, getD_replicate] at hw
      cases hw
    · intro x e _ hcase
      rcases hcase with h1 | ⟨_, h2⟩ <;> omega
  have next : ∀ p s, PassInv b.nodes (b.nodes.size + 1)
      (Dsu.ofConnects (b.nodes.size + 1) b.connects) (inCOf b) p b.nodes.size s →
      PassInv b.nodes (b.nodes.size + 1) (Dsu.ofConnects (b.nodes.size + 1) b.connects)
        (inCOf b) (p + 1) 0 s := by
    intro p s I
    refine ⟨I.good, fun x w hw => ?_, fun x e he hcase => ?_⟩
    · obtain ⟨e, he, hcase⟩ := I.only x w hw
      refine ⟨e, he, ?_⟩
      rcases hcase with h1 | ⟨h2, _⟩ | h3
      · exact Or.inl (by omega)
      · exact Or.inl (by omega)
      · exact Or.inr (Or.inr h3)
    · have hx : x < b.nodes.size := by
        by_contra hge
        rw [Array.getElem?_eq_none (by omega)] at he
        cases he
      apply I.claims x e he
      rcases hcase with h1 | ⟨_, h2⟩
      · by_cases hlt : cat e < p
        · exact Or.inl hlt
        · exact Or.inr ⟨by omega, hx⟩
      · omega
  have Q0 : Q b (lowerInit b) := by
    refine ⟨by simp [lowerInit], ?_⟩
    intro x pos w _ hw
    simp only [lowerInit, getD_replicate] at hw
    cases hw
  have A0 : ∀ op ∈ (lowerInit b).ops.toList, isAluOp op = false := by
    intro op hop
    simp [lowerInit] at hop
  simp only [bind, Except.bind, forNodes] at h
  split at h
  · cases h
  · rename_i s1 hs1
    have I1 := pass_fold b.nodes _ _ _ 0 fConst
      (by intro s i e hne; cases e <;> simp [cat] at hne <;> rfl) (step_const hRC) _ h0 _
      (Nat.le_refl _) s1 hs1
    have J1 := fold_inv b.nodes fConst (lowerInit b)
      (fun _ s => Q b s ∧ ∀ op ∈ s.ops.toList, isAluOp op = false) ⟨Q0, A0⟩
      (fun k s s' hk _ hI hf => fConst_Q (Array.getElem?_eq_getElem hk) hI.1 hI.2 hf)
      _ (Nat.le_refl _) s1 hs1
    split at h
    · cases h
    · rename_i s2 hs2
      have I2 := pass_fold b.nodes _ _ _ 1 fPub
        (by intro s i e hne; cases e <;> simp [cat] at hne <;> rfl) (step_pub hRC) _ (next _ _ I1) _
        (Nat.le_refl _) s2 hs2
      have J2 := fold_inv b.nodes fPub s1
        (fun _ s => Q b s ∧ ∀ op ∈ s.ops.toList, isAluOp op = false) J1
        (fun k s s' hk _ hI hf => fPub_Q (Array.getElem?_eq_getElem hk) hI.1 hI.2 hf)
        _ (Nat.le_refl _) s2 hs2
      split at h
      · cases h
      · rename_i s3 hs3
        have I3 := pass_fold b.nodes _ _ _ 2 fPriv
          (by intro s i e hne; cases e <;> simp [cat] at hne <;> rfl) (step_priv hRC) _
          (next _ _ I2) _ (Nat.le_refl _) s3 hs3
        have J3 := fold_inv b.nodes fPriv s2
          (fun _ s => Q b s ∧ ∀ op ∈ s.ops.toList, isAluOp op = false) J2
          (fun k s s' hk hpre hI hf => by
            have PI := pass_fold b.nodes _ _ _ 2 fPriv
              (by intro s i e hne; cases e <;> simp [cat] at hne <;> rfl) (step_priv hRC) _
              (next _ _ I2) k (Nat.le_of_lt hk) s hpre
            exact fPriv_Q hpo (Array.getElem?_eq_getElem hk)
              (by rw [PI.good.e2wSz]; omega) hI.1 hI.2 hf)
          _ (Nat.le_refl _) s3 hs3
        split at h
        · cases h
        · rename_i s4 hs4
          have hd0 : fwdFrom s3.privRows.toList [] s3.ops.toList = true :=
            fwd_of_cond _ _ _ (fun op hop => fCond_noAlu (J3.2 op hop))
          have J4 := fold_inv b.nodes (fun st i e => st.emitNode b.nodes b.npOps i e) s3
            (fun _ s => Q b s ∧ fwdFrom s.privRows.toList [] s.ops.toList = true)
            ⟨J3.1, hd0⟩
            (fun k s s' hk hpre hI hf => by
              have PI := pass_fold b.nodes _ _ _ 3 (fun st i e => st.emitNode b.nodes b.npOps i e)
                (by intro s i e hne; cases e <;> simp [cat] at hne <;> rfl) (step_emit hRC b.npOps) _
                (next _ _ I3) k (Nat.le_of_lt hk) s hpre
              have hke : b.nodes[k]? = some b.nodes[k] := Array.getElem?_eq_getElem hk
              obtain ⟨hp, ⟨added, ho, hs⟩, honly⟩ := emit_shape hRC b.npOps PI.good s.privRows.toList
                (fun l wl hb hl => guard_slot PI hI.1 (hintsGuarded_spec hg hk hb) hl) hf
              have hA := emit_shapeF b.npOps s.privRows.toList
                (fun l wl hb hl => guard_slot PI hI.1 (hintsGuarded_spec hg hk hb) hl) hf added ho
              refine ⟨⟨by rw [hp]; exact hI.1.sz, ?_⟩, ?_⟩
              · intro x pos w hx hw
                rw [hp]
                rcases honly x w hw with h1 | h2 | ⟨e', he', ho'⟩
                · exact hI.1.pr x pos w hx h1
                · subst h2
                  rw [hke] at hx
                  have hx' := Option.some.inj hx
                  rw [hx'] at hf
                  simp only [LState.emitNode, Except.ok.injEq] at hf
                  subst hf
                  exact hI.1.pr x pos w (hke.trans (congrArg some hx')) hw
                · rw [hx] at he'
                  cases he'
                  cases ho'
              · rw [hp, ho, fwdFrom_append, hI.2, accH_nil]
                exact fwd_of_cond _ _ _ hA)
            _ (Nat.le_refl _) s4 hs4
          split at h
          · cases h
          · simp only [Except.ok.injEq] at h
            obtain ⟨hbo, hbp⟩ := backfill_fields (List.range (b.nodes.size + 1)) s4
            subst h
            simp only []
            rw [hbo, hbp]
            exact J4.2

end lowering

/-! ### From the builder state to the compiled circuit: no per-program hypothesis left -/

section compile
variable [Neg K]

/-- The de-duplicated list of every guarded builder state carries both certificates. -/
theorem lower_dedup_certs (b : BState K) (hok : b.Ok) (hpo : privOk b = true)
    (hg : hintsGuarded b = true) (hag : operandsGuarded b = true) (l : Lowered K) (hl : lower b = .ok l) :
    hduFrom (l.privRows.toList.map (resolve (dedup l.ops).2)) [] [] (dedup l.ops).1.toList = true ∧
    fwdFrom (l.privRows.toList.map (resolve (dedup l.ops).2)) [] (dedup l.ops).1.toList = true := by
  have h1 := lower_hdu b hok hpo hg hag l hl
  have h2 := lower_fwd b hok hpo hg l hl
  refine ⟨?_, dedup_preserves_fwd _ _ h1 h2⟩
  have := dedup_preserves_hdu l.privRows.toList [] l.ops h1
  simpa using this

/-- **C09 / the optimised (de-duplicated and fused) list of every guarded builder state is
def-before-use certified.** -/
theorem lower_fuse_defuse (b : BState K) (hok : b.Ok) (hpo : privOk b = true)
    (hg : hintsGuarded b = true) (hag : operandsGuarded b = true) (l : Lowered K) (hl : lower b = .ok l) :
    defUse (l.privRows.toList.map (resolve (dedup l.ops).2))
      (fuse (dedup l.ops).1 (l.privRows.toList.map (resolve (dedup l.ops).2))).toList = true := by
  obtain ⟨h1, h2⟩ := lower_dedup_certs b hok hpo hg hag l hl
  exact fuse_preserves_defuse _ _ h1 h2

/-- **C09 / `fuseKeeps` holds for every guarded builder state** — the hypothesis of
`C09O.compiled_bus_balanced_of_fuseKeeps` is a theorem. -/
theorem fuseKeeps_total (b : BState K) (hok : b.Ok) (hpo : privOk b = true)
    (hg : hintsGuarded b = true) (hag : operandsGuarded b = true) (l : Lowered K) (hl : lower b = .ok l) :
    fuseKeeps l = true := by
  unfold fuseKeeps
  simp only [lower_fuse_defuse b hok hpo hg hag l hl, Bool.or_true]

variable [Zero K] [DecidableEq K]

/-- **C09 / `compile_defuse` — unconditional.** The compiled circuit of every builder state with
`BState.Ok`, `privOk`, `hintsGuarded`, `operandsGuarded` carries the def-before-use certificate. -/
theorem compile_defuse (b : BState K) (hok : b.Ok) (hpo : privOk b = true)
    (hg : hintsGuarded b = true) (hag : operandsGuarded b = true) (c : Circuit K)
    (hc : compile b = .ok c) : c.defUse = true :=
  compile_defuse_of_fuseKeeps b hok hpo hg hag c hc (fun l hl => fuseKeeps_total b hok hpo hg hag l hl)

/-- **C09 / `compiled_bus_balanced` — unconditional.** For every builder state with `BState.Ok`,
`privOk`, `hintsGuarded` and `operandsGuarded`: whenever `compile` succeeds and the preprocessed columns
are generated, the honest witness bus balances on every slot. No per-program hypothesis. -/
theorem compiled_bus_balanced (b : BState K) (hok : b.Ok) (hpo : privOk b = true)
    (hg : hintsGuarded b = true) (hag : operandsGuarded b = true) (c : Circuit K)
    (hc : compile b = .ok c) (p : Prep) (hp : genPrep c = some p) (s : Nat) : p.net s = 0 :=
  compiled_bus_balanced_of_fuseKeeps b hok hpo hg hag c hc
    (fun l hl => fuseKeeps_total b hok hpo hg hag l hl) p hp s

end compile

/-! ### `filter_valid`: the addend is available at the mul's position (evaluation order; not used by the bus argument) -/

/-- The test of one `filter_valid` round. -/
def availAt (f : Fusion K) (valid : List (Cand K)) (c : Cand K) : Bool :=
  let fusedPos : List (Nat × Nat) := (valid.map fun c => (c.out, c.mulIdx)).reverse
  let pos := match fusedPos.lookup c.addend with
    | some p => some p
    | none => f.defIdx c.addend
  match pos with
  | some p => decide (p < c.mulIdx)
  | none => true

theorem filterRound_eq (f : Fusion K) (valid : List (Cand K)) :
    f.filterRound valid = valid.filter (availAt f valid) := rfl

theorem filterValid_fix (f : Fusion K) : ∀ fuel (v : List (Cand K)), v.length < fuel →
    (f.filterRound (f.filterValid fuel v)).length = (f.filterValid fuel v).length := by
  intro fuel
  induction fuel with
  | zero => intro v h; omega
  | succ fuel ih =>
    intro v hv
    unfold Fusion.filterValid
    dsimp only
    split_ifs with hl
    · exact hl
    · apply ih
      have : (f.filterRound v).length ≤ v.length := by
        rw [filterRound_eq]; exact List.length_filter_le _ _
      omega

/-- **`filter_valid` reaches its fixpoint within the fuel `|candidates| + 1`**, and at the fixpoint the
addend of every surviving candidate is available at the mul's position: its effective position (the mul
position of the fused row that produces it, else its last definition) precedes `mul_idx`, or it has no
definition at all (a private input / never written). -/
theorem filterValid_addend_before_mul (f : Fusion K) (cands : List (Cand K)) :
    ∀ c ∈ f.filterValid (cands.length + 1) cands,
      availAt f (f.filterValid (cands.length + 1) cands) c = true := by
  have h := filterValid_fix f (cands.length + 1) cands (Nat.lt_succ_self _)
  rw [filterRound_eq] at h
  intro c hc
  by_contra hne
  have hlt : (List.filter (availAt f (f.filterValid (cands.length + 1) cands))
      (f.filterValid (cands.length + 1) cands)).length < (f.filterValid (cands.length + 1) cands).length := by
    apply List.length_filter_lt_length_iff_exists.mpr
    exact ⟨c, hc, hne⟩
  omega

end P3R.C09F
