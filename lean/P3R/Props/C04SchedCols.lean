/-
C04 — the index / multiplicity columns of the scheduled ALU table's interactions.

`scheduled_accepted_sat_bus` states its bus hypothesis on integer multiplicities (`eventMult`) and slot
numbers, and has the integer-level reading `hpk` of the scheduler's two tests as a hypothesis. Here the
K-valued columns of the committed preprocessed matrix are tied to them:

* `aluInteractions_prepRow` — what `aluInteractions` (model of `AluAir`'s lookups) declares on row `r` of
  the scheduled preprocessed matrix `prepRow`, lane by lane: the four tuples of lane `ℓ` are read from
  the 13 lane columns `entryCols` gives the entry at position `r·lanes + ℓ` (`laneInters`), the packed
  extra tuples from the extra columns of lane 0's entry (`extraInters`);
* `PrepBus` — the per-op hypothesis (what `common.rs` writes, read, not modelled): the index columns of op
  `j` are the images `natK slot`, the multiplicity columns (`mult_a·a_reader`, `mult_b`, `mult_a·c_reader`,
  `mult_out`) are the images in `K` of the integer multiplicities `eventMult`;
* `lane_op_image` — a single op in any lane: its four declared tuples are the images (`interK`) of the
  four integer-level interactions `opStep` (`a, b, c, out`; an absent `c` is the zero-multiplicity tuple
  with index 0), and `opStep_net`: those net what `entryBus` nets on every tuple;
* `lane_sep_zero` — a separator / padding lane declares only zero multiplicities;
* `lane_packed_image` — lane 0 of a packed row: first step's `a`, ONE `b` tuple whose multiplicity is the
  image of the SUM of the steps' integer `b` multiplicities, first step's `c`, LAST step's `out`
  = images of the first four entries of `packedInters`;
* `hpk_of_tested` — **`hpk` derived**: the scheduler's K-level tests (`C11.computeSchedule_tested`: equal
  `b_idx` columns, `mult_out = 0` columns) give the integer-level facts when slot indices are below the
  characteristic (`natK` injective on the `b` slots) and read counts are below it (a multiplicity whose
  image is 0 is 0); `natK_inj_below`, `intCast_zero_below` give both from `CharP K p` and bounds;
* `scheduled_accepted_sat_bus''` — the main theorem with neither `SchedWF` nor `hpk`.
-/
import P3R.Props.C04SchedWF
import Mathlib.Algebra.CharP.Basic
import Mathlib.Algebra.Order.Group.Unbundled.Int

set_option linter.unusedSectionVars false
set_option linter.unusedVariables false

namespace P3R.C04
open P3R P3R.C09 P3R.C11

section Struct
variable {K : Type} [Field K] [DecidableEq K]

/-- The four per-lane tuples `(idx :: cells, multiplicity)` read from 13 lane columns `cols`
(order of `aluInteractions`: `a, b, c, out`). -/
def laneInters (D : ℕ) (ml : List K) (lane : ℕ) (cols : List K) : List (List K × K) :=
  [ (vget cols 5 :: seg ml (lane * 4 * D) D, vget cols 0 * vget cols 11),
    (vget cols 6 :: seg ml (lane * 4 * D + D) D, vget cols 9),
    (vget cols 7 :: seg ml (lane * 4 * D + 2 * D) D, vget cols 0 * vget cols 12),
    (vget cols 8 :: seg ml (lane * 4 * D + 3 * D) D, vget cols 10) ]

/-- The packed-Horner extra tuples read from the extra preprocessed columns `ex`: per later step
`t = t0 + 1` its `a` and `c` lookups. -/
def extraInters (D lanes kmax : ℕ) (ml ex : List K) : List (List K × K) :=
  (List.range (kmax - 1)).flatMap fun t0 =>
    [ (vget ex (stepIdx (t0 + 1) kmax) :: seg ml (wAc D lanes kmax + 2 * t0 * D) D,
        vget ex (stepIdx (t0 + 1) kmax + 4)),
      (vget ex (stepIdx (t0 + 1) kmax + 1) :: seg ml (wAc D lanes kmax + 2 * t0 * D + D) D,
        vget ex (stepIdx (t0 + 1) kmax + 5)) ]

theorem flatMap_congr_mem {α β : Type} (l : List α) (f g : α → List β) (h : ∀ a ∈ l, f a = g a) :
    l.flatMap f = l.flatMap g := by
  induction l with
  | nil => rfl
  | cons a l ih =>
    rw [List.flatMap_cons, List.flatMap_cons, h a (List.mem_cons_self),
      ih (fun b hb => h b (List.mem_cons_of_mem _ hb))]

/-- **What the ALU table declares on a row of the scheduled matrix**, in terms of the schedule's
entries: lane `ℓ`'s tuples from `entryCols` of the entry at `r·lanes + ℓ`, the extra tuples from lane 0's
entry. -/
theorem aluInteractions_prepRow (preps : List (List K)) (D lanes kmax : ℕ) (hl : 0 < lanes)
    (sched : List SchedEntry) (ml : List K) (r : ℕ) :
    aluInteractions D lanes kmax ml (prepRow preps lanes kmax sched r) =
      ((List.range lanes).flatMap fun lane =>
        laneInters D ml lane (entryCols preps kmax lane (entryAt sched (r * lanes + lane))).1) ++
      extraInters D lanes kmax ml (entryCols preps kmax 0 (entryAt sched (r * lanes))).2 := by
  unfold aluInteractions
  dsimp only
  congr 1
  · apply flatMap_congr_mem
    intro lane hlane
    have hlt := List.mem_range.mp hlane
    have h := fun c hc => prepRow_lane preps lanes kmax sched r lane c hlt hc
    have h0 := h 0 (by unfold prepLaneWidth; omega)
    rw [Nat.add_zero] at h0
    unfold laneInters
    rw [h0, h 5 (by unfold prepLaneWidth; omega), h 6 (by unfold prepLaneWidth; omega),
      h 7 (by unfold prepLaneWidth; omega), h 8 (by unfold prepLaneWidth; omega),
      h 9 (by unfold prepLaneWidth; omega), h 10 (by unfold prepLaneWidth; omega),
      h 11 (by unfold prepLaneWidth; omega), h 12 (by unfold prepLaneWidth; omega)]
  · unfold extraInters
    apply flatMap_congr_mem
    intro t0 _
    have h := fun x => prepRow_extra preps lanes kmax sched r x hl
    rw [Nat.add_sub_cancel, Nat.add_assoc (lanes * prepLaneWidth), Nat.add_assoc (lanes * prepLaneWidth),
      Nat.add_assoc (lanes * prepLaneWidth), h, h, h, h]
    rfl

end Struct

section Image
variable {K L : Type} [Field K] [DecidableEq K] [CommRing L] [DecidableEq L]

theorem natK_eq_cast (n : ℕ) : (natK n : K) = (n : K) := by
  induction n with
  | zero => simp [natK]
  | succ n ih => simp [natK, ih]

/-- Image in `K` of an integer-level interaction: `(natK slot :: cells, (mult : K))`. -/
def interK (i : Inter (List K)) : List K × K := (natK i.slot :: i.val, (i.mult : K))

/-- **Per-op column encoding** (the 12→13 column conversion of `circuit-prover/src/common.rs`, read,
not modelled): index columns are `natK` of the op's slots (an absent `c`: index 0, no lookup), the
multiplicity columns are the images of the integer multiplicities `eventMult`. -/
def PrepBus (preps : List (List K)) (reads : List (ℕ × ℕ)) (ops : List (Op L)) (rl : ℕ → Roles4)
    (j : ℕ) : Prop :=
  vget (prepOf preps j) 5 = natK (opA ((aluOps ops).getD j dOp)) ∧
  vget (prepOf preps j) 6 = natK (opB ((aluOps ops).getD j dOp)) ∧
  vget (prepOf preps j) 8 = natK (opOut ((aluOps ops).getD j dOp)) ∧
  vget (prepOf preps j) 0 * vget (prepOf preps j) 11 =
    ((eventMult reads (opA ((aluOps ops).getD j dOp), (rl j).2.1) : ℤ) : K) ∧
  vget (prepOf preps j) 9 = ((eventMult reads (opB ((aluOps ops).getD j dOp), (rl j).2.2.2) : ℤ) : K) ∧
  vget (prepOf preps j) 10 = ((eventMult reads (opOut ((aluOps ops).getD j dOp), (rl j).1) : ℤ) : K) ∧
  (match opC ((aluOps ops).getD j dOp) with
   | some c => vget (prepOf preps j) 7 = natK c ∧
      vget (prepOf preps j) 0 * vget (prepOf preps j) 12 = ((eventMult reads (c, (rl j).2.2.1) : ℤ) : K)
   | none => vget (prepOf preps j) 7 = 0 ∧ vget (prepOf preps j) 0 * vget (prepOf preps j) 12 = 0)

/-- The four integer-level interactions of a single op with given cells (`a, b, c, out`; an absent `c`
is the zero-multiplicity tuple with index 0). -/
def opStep (reads : List (ℕ × ℕ)) (o : Op L) (r : Roles4) (vo va vc vb : List K) :
    StepInters (List K) :=
  { a := inter1 reads ⟨opA o, r.2.1, va⟩
    b := inter1 reads ⟨opB o, r.2.2.2, vb⟩
    c := match opC o with
      | some c => inter1 reads ⟨c, r.2.2.1, vc⟩
      | none => ⟨0, vc, 0⟩
    out := inter1 reads ⟨opOut o, r.1, vo⟩ }

/-- `opStep` nets what the op's operand cells net (`entryBus` of a single op). -/
theorem opStep_net (reads : List (ℕ × ℕ)) (o : Op L) (r : Roles4) (vo va vc vb : List K)
    (s : ℕ) (v : List K) :
    tupleNet (opStep reads o r vo va vc vb).all s v =
      tupleNet ((opCells o r vo va vc vb).map (inter1 reads)) s v := by
  unfold StepInters.all opStep opCells
  cases opC o with
  | none =>
    simp only [List.cons_append, List.nil_append, List.append_nil, List.map_cons, List.map_nil,
      tupleNet_cons_gen, show ∀ s (v : List K), tupleNet ([] : List (Inter (List K))) s v = 0 from
        fun _ _ => rfl]
    simp
    ring
  | some c =>
    simp only [List.cons_append, List.nil_append, List.map_cons, List.map_nil,
      tupleNet_cons_gen, show ∀ s (v : List K), tupleNet ([] : List (Inter (List K))) s v = 0 from
        fun _ _ => rfl]
    ring

variable (preps : List (List K)) (D lanes kmax : ℕ) (Mr : ℕ → List K)

theorem pos_div_mod (hl : 0 < lanes) (r lane : ℕ) (hlane : lane < lanes) :
    (r * lanes + lane) / lanes = r ∧ (r * lanes + lane) % lanes = lane := by
  constructor
  · rw [Nat.mul_comm, Nat.mul_add_div hl, Nat.div_eq_of_lt hlane, Nat.add_zero]
  · rw [Nat.mul_comm, Nat.mul_add_mod, Nat.mod_eq_of_lt hlane]

/-- **A single op in any lane**: the four tuples the table declares for the lane are the images of the
integer-level interactions of the op with the lane's cells. -/
theorem lane_op_image (hl : 0 < lanes) (reads : List (ℕ × ℕ)) (ops : List (Op L)) (rl : ℕ → Roles4)
    (r lane j : ℕ) (hlane : lane < lanes) (hpb : PrepBus preps reads ops rl j) :
    laneInters D (Mr r) lane (entryCols preps kmax lane (.op j)).1 =
      (opStep reads ((aluOps ops).getD j dOp) (rl j) (cO D lanes Mr (r * lanes + lane))
        (cA D lanes Mr (r * lanes + lane)) (cC D lanes Mr (r * lanes + lane))
        (cB D lanes Mr (r * lanes + lane))).all.map interK := by
  obtain ⟨hd, hm⟩ := pos_div_mod lanes hl r lane hlane
  obtain ⟨h5, h6, h8, hma, h9, h10, hc⟩ := hpb
  have hcol := fun c hc => entryCols_op preps kmax lane j c hc
  unfold laneInters StepInters.all opStep cO cA cB cC
  rw [hd, hm]
  rw [hcol 0 (by unfold prepLaneWidth; omega), hcol 5 (by unfold prepLaneWidth; omega),
    hcol 6 (by unfold prepLaneWidth; omega), hcol 7 (by unfold prepLaneWidth; omega),
    hcol 8 (by unfold prepLaneWidth; omega), hcol 9 (by unfold prepLaneWidth; omega),
    hcol 10 (by unfold prepLaneWidth; omega), hcol 11 (by unfold prepLaneWidth; omega),
    hcol 12 (by unfold prepLaneWidth; omega)]
  rw [h5, h6, h8, hma, h9, h10]
  cases hoc : opC ((aluOps ops).getD j dOp) with
  | none =>
    rw [hoc] at hc
    simp only at hc
    rw [hc.1, hc.2]
    simp [interK, inter1, natK]
  | some c =>
    rw [hoc] at hc
    simp only at hc
    rw [hc.1, hc.2]
    simp [interK, inter1]

/-- A separator / padding lane declares zero multiplicities only. -/
theorem lane_sep_zero (ml : List K) (lane : ℕ) :
    ∀ im ∈ laneInters D ml lane (entryCols preps kmax lane .sep).1, im.2 = 0 := by
  intro im him
  unfold laneInters at him
  simp only [entryCols_sep, List.mem_cons, List.not_mem_nil, or_false] at him
  rcases him with rfl | rfl | rfl | rfl <;> simp

end Image

/-! ## `hpk` from the scheduler's K-level tests -/
section Hpk
variable {K L : Type} [Field K] [DecidableEq K] [CommRing L] [DecidableEq L]

/-- Slot indices below the characteristic have distinct images. -/
theorem natK_inj_below (p : ℕ) [CharP K p] (a b : ℕ) (ha : a < p) (hb : b < p)
    (h : (natK a : K) = natK b) : a = b := by
  rw [natK_eq_cast, natK_eq_cast] at h
  exact CharP.natCast_injOn_Iio K p ha hb h

/-- A multiplicity of absolute value below the characteristic whose image is 0 is 0. -/
theorem intCast_zero_below (p : ℕ) [CharP K p] (z : ℤ) (hz : |z| < (p : ℤ)) (h : (z : K) = 0) :
    z = 0 :=
  Int.eq_zero_of_abs_lt_dvd ((CharP.intCast_eq_zero_iff K p z).mp h) hz

/-- **`hpk` derived.** Every packed entry of a schedule passed the scheduler's two K-level tests
(`C11.PackedTested`, proved of `computeSchedule` by `C11.computeSchedule_tested`): equal `b_idx` columns,
zero `mult_out` columns of all steps but the last. With the column encoding `PrepBus`, distinct `b` slots
having distinct images (`hinj`: slot indices below the characteristic) and non-zero `out` multiplicities
having non-zero images (`hfaith`: read counts below the characteristic), these are the integer-level
facts `hpk` of `scheduled_accepted_sat_bus`. -/
theorem hpk_of_tested (preps : List (List K)) (sched : List SchedEntry) (reads : List (ℕ × ℕ))
    (ops : List (Op L)) (rl : ℕ → Roles4)
    (ht : PackedTested preps sched)
    (hcover : (flatOps sched).Perm (List.range preps.length))
    (hpb : ∀ j, j < preps.length → PrepBus preps reads ops rl j)
    (hinj : ∀ i j, i < preps.length → j < preps.length →
      (natK (opB ((aluOps ops).getD i dOp)) : K) = natK (opB ((aluOps ops).getD j dOp)) →
      opB ((aluOps ops).getD i dOp) = opB ((aluOps ops).getD j dOp))
    (hfaith : ∀ j, j < preps.length →
      ((eventMult reads (opOut ((aluOps ops).getD j dOp), (rl j).1) : ℤ) : K) = 0 →
      eventMult reads (opOut ((aluOps ops).getD j dOp), (rl j).1) = 0) :
    ∀ p f k, p < sched.length → entryAt sched p = .packed f k →
      1 ≤ k ∧
      (∀ t, t < k → opB ((aluOps ops).getD (f + t) dOp) = opB ((aluOps ops).getD f dOp)) ∧
      (∀ t, t + 1 < k →
        eventMult reads (opOut ((aluOps ops).getD (f + t) dOp), (rl (f + t)).1) = 0) := by
  intro p f k hp he
  have hm : SchedEntry.packed f k ∈ sched := he ▸ entryAt_mem sched p hp
  obtain ⟨hk, hb, hs⟩ := ht f k hm
  have hin : ∀ t, t < k → f + t < preps.length := by
    intro t htk
    have : f + t ∈ flatOps sched :=
      List.mem_flatMap.mpr ⟨.packed f k, hm, by
        simp only [entryOps, List.mem_map, List.mem_range]; exact ⟨t, htk, rfl⟩⟩
    exact List.mem_range.mp (hcover.mem_iff.mp this)
  refine ⟨by omega, ?_, ?_⟩
  · intro t htk
    apply hinj _ _ (hin t htk) (by simpa using hin 0 (by omega))
    have := (List.all_eq_true.mp hb) t (List.mem_range.mpr htk)
    have h6 : vget (prepOf preps (f + t)) 6 = vget (prepOf preps f) 6 := by simpa using this
    rw [(hpb (f + t) (hin t htk)).2.1, (hpb f (by simpa using hin 0 (by omega))).2.1] at h6
    exact h6
  · intro t htk
    apply hfaith _ (hin t (by omega))
    have := (List.all_eq_true.mp hs) t (List.mem_range.mpr (by omega))
    have h10 : vget (prepOf preps (f + t)) 10 = 0 := by simpa using this
    rw [(hpb (f + t) (hin t (by omega))).2.2.2.2.2.1] at h10
    exact h10

variable (φ : K →+* L) (α : L) (D lanes kmax : ℕ) (kind : ExtKind K) (Mr : ℕ → List K)
  (preps : List (List K)) (sched : List SchedEntry) (H : ℕ)

/-- **C04 — the scheduled ALU table, `SchedWF` and `hpk` both derived.** As
`scheduled_accepted_sat_bus'`, with the integer-level reading `hpk` of the scheduler's tests replaced by
the column encoding `PrepBus` of every op and the two "below the characteristic" conditions. -/
theorem scheduled_accepted_sat_bus'' (hD : 0 < D) (hk : KindRoot φ D kind α) (hl : 0 < lanes)
    (pub : ℕ → L) (ops : List (Op L)) (rl : ℕ → Roles4) (reads : List (ℕ × ℕ))
    (hsched : computeSchedule preps lanes kmax = some sched)
    (hH : sched.length ≤ H * lanes)
    (hn : preps.length = (aluOps ops).length)
    (hsel : ∀ j k a b c out io, (aluOps ops)[j]? = some (.alu k a b c out io) → PrepSel preps j k)
    (hshape : ∀ k a b out io, Op.alu k a b none out io ∈ ops → k ≠ .mulAdd ∧ k ≠ .horner)
    (hw : WinOk D lanes kmax kind preps sched Mr H)
    (hchain : hornerChained ops = true)
    (hnoskip : ∀ j, (rl j).1 ≠ .skip ∧ (rl j).2.1 ≠ .skip ∧ (rl j).2.2.1 ≠ .skip ∧
      (rl j).2.2.2 ≠ .skip)
    (others : List (Cell (List K)))
    (hcre : ∀ s, nCreators ((others ++ schedCells D lanes kmax kind Mr sched ops rl).map evOf) s ≤ 1)
    (hpb : ∀ j, j < preps.length → PrepBus preps reads ops rl j)
    (hinj : ∀ i j, i < preps.length → j < preps.length →
      (natK (opB ((aluOps ops).getD i dOp)) : K) = natK (opB ((aluOps ops).getD j dOp)) →
      opB ((aluOps ops).getD i dOp) = opB ((aluOps ops).getD j dOp))
    (hfaith : ∀ j, j < preps.length →
      ((eventMult reads (opOut ((aluOps ops).getD j dOp), (rl j).1) : ℤ) : K) = 0 →
      eventMult reads (opOut ((aluOps ops).getD j dOp), (rl j).1) = 0)
    (hbal : ∀ s v, tupleNet (schedBus D lanes kmax kind Mr sched reads others ops rl) s v = 0)
    (hconstC : ∀ out v, Op.const out v ∈ ops →
      ∃ c ∈ others, c.slot = out ∧ c.role ≠ .skip ∧ ev φ α D c.val = v)
    (hpubC : ∀ out pos, Op.pub out pos ∈ ops →
      ∃ c ∈ others, c.slot = out ∧ c.role ≠ .skip ∧ ev φ α D c.val = pub pos) :
    ∃ cv : ℕ → List K,
      (∀ c ∈ others ++ schedCells D lanes kmax kind Mr sched ops rl, c.role ≠ .skip →
        c.val = cv c.slot) ∧
      Sat (fun s => ev φ α D (cv s)) pub ops :=
  scheduled_accepted_sat_bus' φ α D lanes kmax kind Mr preps sched H hD hk hl pub ops rl reads hsched hH
    hn hsel hshape hw hchain hnoskip others hcre
    (hpk_of_tested preps sched reads ops rl (computeSchedule_tested preps lanes kmax sched hsched)
      (computeSchedule_cover preps lanes kmax sched hsched) hpb hinj hfaith)
    hbal hconstC hpubC

end Hpk

/-! ## Lane 0 of a packed row -/
section PackedLane
variable {K L : Type} [Field K] [DecidableEq K] [CommRing L] [DecidableEq L]

/-- Lane columns of a packed row other than `out_idx`, `mult_b`, `mult_out`: the first step's. -/
theorem entryCols_packed_keep (preps : List (List K)) (kmax f k c : ℕ) (hc : c < prepLaneWidth)
    (h8 : c ≠ 8) (h9 : c ≠ 9) (h10 : c ≠ 10) :
    vget (entryCols preps kmax 0 (.packed f k)).1 c = vget (prepOf preps f) c := by
  simp only [entryCols, bne_self_eq_false, Bool.false_eq_true, if_false, setAt]
  rw [vget_set, vget_set, vget_set, if_neg (by omega), if_neg (by omega), if_neg (by omega),
    vget_take _ _ _ hc, vget_pad]

/-- `out_idx` / `mult_out` of a packed row: the LAST step's; `mult_b`: the sum of the steps'. -/
theorem entryCols_packed_last (preps : List (List K)) (kmax f k : ℕ) :
    vget (entryCols preps kmax 0 (.packed f k)).1 8 = vget (prepOf preps (f + k - 1)) 8 ∧
    vget (entryCols preps kmax 0 (.packed f k)).1 10 = vget (prepOf preps (f + k - 1)) 10 ∧
    vget (entryCols preps kmax 0 (.packed f k)).1 9 =
      (List.range k).foldl (fun acc t => acc + vget (prepOf preps (f + t)) 9) (0 : K) := by
  simp only [entryCols, bne_self_eq_false, Bool.false_eq_true, if_false, setAt]
  refine ⟨?_, ?_, ?_⟩
  · rw [vget_set, vget_set, vget_set, if_neg (by omega), if_neg (by omega),
      if_pos ⟨rfl, by simp [prepLaneWidth]⟩]
  · rw [vget_set, vget_set, if_neg (by omega), if_pos ⟨rfl, by simp [prepLaneWidth]⟩]
  · rw [vget_set, if_pos ⟨rfl, by simp [prepLaneWidth]⟩]

theorem foldl_cast_sum (g : ℕ → ℤ) (h : ℕ → K) (k : ℕ) (hg : ∀ t, t < k → h t = ((g t : ℤ) : K)) :
    (List.range k).foldl (fun acc t => acc + h t) (0 : K) =
      ((((List.range k).map g).sum : ℤ) : K) := by
  induction k with
  | zero => simp
  | succ k ih =>
    rw [List.range_succ, List.foldl_append, List.map_append, List.sum_append,
      ih (fun t ht => hg t (by omega))]
    simp only [List.foldl_cons, List.foldl_nil, List.map_cons, List.map_nil, List.sum_cons,
      List.sum_nil, add_zero, Int.cast_add]
    rw [hg k (by omega)]

variable (preps : List (List K)) (D lanes kmax : ℕ) (kind : ExtKind K) (Mr : ℕ → List K)

/-- **Lane 0 of a packed row**: the four tuples the table declares are the images of the first four
entries of `packedInters` — first step's `a`, ONE `b` tuple whose multiplicity is the image of the SUM of
the `k` integer `b` multiplicities, first step's `c`, LAST step's `out` (the defects F19 / F21 were
exactly a wrong `out` / `mult_b` here). -/
theorem lane_packed_image (hl : 0 < lanes) (reads : List (ℕ × ℕ)) (ops : List (Op L)) (rl : ℕ → Roles4)
    (r f k : ℕ) (hk : 1 ≤ k) (hpb : ∀ t, t < k → PrepBus preps reads ops rl (f + t))
    (hc : ∃ c, opC ((aluOps ops).getD f dOp) = some c) :
    laneInters D (Mr r) 0 (entryCols preps kmax 0 (.packed f k)).1 =
      ((packedInters (stepOf D lanes kmax kind Mr reads ops rl (r * lanes) f k) k).take 4).map
        interK := by
  obtain ⟨c, hc⟩ := hc
  obtain ⟨h8, h10, h9⟩ := entryCols_packed_last preps kmax f k
  have hkeep := fun c hc a b d => entryCols_packed_keep preps kmax f k c hc a b d
  have hp0 := hpb 0 hk
  rw [Nat.add_zero] at hp0
  obtain ⟨p5, p6, _, pma, _, _, pc⟩ := hp0
  rw [hc] at pc
  simp only at pc
  have hlast : f + k - 1 = f + (k - 1) := by omega
  obtain ⟨_, _, l8, _, _, l10, _⟩ := hpb (k - 1) (by omega)
  have hsum := foldl_cast_sum (K := K)
    (fun t => eventMult reads (opB ((aluOps ops).getD (f + t) dOp), (rl (f + t)).2.2.2))
    (fun t => vget (prepOf preps (f + t)) 9) k (fun t ht => (hpb t ht).2.2.2.2.1)
  unfold laneInters packedInters
  rw [h8, h9, h10, hsum, hlast, l8, l10,
    hkeep 0 (by unfold prepLaneWidth; omega) (by omega) (by omega) (by omega),
    hkeep 5 (by unfold prepLaneWidth; omega) (by omega) (by omega) (by omega),
    hkeep 6 (by unfold prepLaneWidth; omega) (by omega) (by omega) (by omega),
    hkeep 7 (by unfold prepLaneWidth; omega) (by omega) (by omega) (by omega),
    hkeep 11 (by unfold prepLaneWidth; omega) (by omega) (by omega) (by omega),
    hkeep 12 (by unfold prepLaneWidth; omega) (by omega) (by omega) (by omega),
    p5, p6, pma, pc.1, pc.2]
  have hk1 : k - 1 + 1 = k := by omega
  have hc' : opC ((aluOps ops)[f]?.getD dOp) = some c := by
    rw [← List.getD_eq_getElem?_getD]; exact hc
  simp [stepOf, interK, inter1, hc', pA, pC, Nat.mul_div_cancel _ hl, hk1]

end PackedLane

end P3R.C04
