//! C09, non-primitive ops: BUS AUDIT ORACLE on the real code.
//!
//! For a compiled circuit (any mix of primitive and non-primitive ops) the audit takes the REAL table AIRs
//! returned by `get_airs_and_degrees_with_prep` (primitive tables and the type-erased plug-in tables alike),
//! evaluates each AIR once with `p3_lookup::InteractionSymbolicBuilder` — the very evaluation from which the
//! prover and the verifier derive their lookups (`Lookups::from_air`) — and then evaluates the recorded
//! `WitnessChecks` interactions (first tuple field = D-scaled witness index, count = signed multiplicity) on
//! every row of the AIR's own `preprocessed_trace()`. (A type-erased `DynamicAirEntry` implements `Air` for four
//! fixed builders only, so a value-recording builder cannot be passed to it; the symbolic builder is one of the
//! four, and resolving its expressions row by row is the same computation.) Index and multiplicity expressions
//! that read a *main* column are reported as `audit-needs-main` (none exists today).
//!
//! From the multiset of (index, multiplicity) the audit computes, per witness slot: number of creator
//! interactions (multiplicity > 0), total sent multiplicity, total read multiplicity, and flags
//!   `two-creators`, `read-without-creator`, `multiplicity-mismatch`,
//! and — from the op list — `operand-off-bus:<kinds>`: an operand slot shared with another op that takes part in
//! no interaction of the op's own table row (NPO tables: row k = k-th op of the type, lanes = 1; ALU / Const /
//! Public: per table, because the ALU schedule permutes and packs rows).

use std::collections::{BTreeMap, BTreeSet, HashSet};
use std::io::Write;
use std::panic::{AssertUnwindSafe, catch_unwind};

use p3_air::symbolic::{AirLayout, BaseEntry, BaseLeaf, SymbolicExpression, SymbolicExpressionExt};
use p3_air::{Air, BaseAir};
use p3_batch_stark::{StarkGenericConfig, Val};
use p3_circuit::ops::{NonPrimitivePreprocessedMap, Op, Poseidon1Config, Poseidon2Config};
use p3_circuit::Circuit;
use p3_circuit_prover::ConstraintProfile;
use p3_circuit_prover::common::{CircuitTableAir, NpoAirBuilder};
use p3_field::{Algebra, Field, PrimeField64};
use p3_lookup::InteractionSymbolicBuilder;
use p3_matrix::Matrix;
use serde_json::{Value, json};

use crate::rng::Rng;

#[path = "c09n_gen.rs"]
pub mod pgen;

// ---------------------------------------------------------------------------------------------
// symbolic interactions -> per-row (index, multiplicity)

fn sym_uses_main<F: Field>(e: &SymbolicExpression<F>) -> bool {
    match e {
        SymbolicExpression::Leaf(BaseLeaf::Variable(v)) => !matches!(v.entry, BaseEntry::Preprocessed { .. }),
        SymbolicExpression::Leaf(_) => false,
        SymbolicExpression::Add { x, y, .. } | SymbolicExpression::Sub { x, y, .. } | SymbolicExpression::Mul { x, y, .. } => sym_uses_main(x) || sym_uses_main(y),
        SymbolicExpression::Neg { x, .. } => sym_uses_main(x),
    }
}

fn sym_eval<F: Field>(e: &SymbolicExpression<F>, pl: &[F], pn: &[F], first: bool, last: bool) -> F {
    match e {
        SymbolicExpression::Leaf(l) => match l {
            BaseLeaf::Variable(v) => match v.entry {
                BaseEntry::Preprocessed { offset: 0 } => pl[v.index],
                BaseEntry::Preprocessed { .. } => pn[v.index],
                _ => F::ZERO,
            },
            BaseLeaf::IsFirstRow => F::from_bool(first),
            BaseLeaf::IsLastRow => F::from_bool(last),
            BaseLeaf::IsTransition => F::from_bool(!last),
            BaseLeaf::Constant(c) => *c,
        },
        SymbolicExpression::Add { x, y, .. } => sym_eval(x, pl, pn, first, last) + sym_eval(y, pl, pn, first, last),
        SymbolicExpression::Sub { x, y, .. } => sym_eval(x, pl, pn, first, last) - sym_eval(y, pl, pn, first, last),
        SymbolicExpression::Mul { x, y, .. } => sym_eval(x, pl, pn, first, last) * sym_eval(y, pl, pn, first, last),
        SymbolicExpression::Neg { x, .. } => -sym_eval(x, pl, pn, first, last),
    }
}

#[derive(Clone, Debug)]
pub struct Inter {
    pub row: usize,
    pub k: usize,
    pub idx: u64,
    pub mult: i64,
}

#[derive(Clone, Debug, Default)]
pub struct TableBus {
    pub name: String,
    pub height: usize,
    pub per_row: usize,
    pub inters: Vec<Inter>,
    pub anomalies: Vec<String>,
}

pub fn table_bus<SC, const D: usize>(name: &str, air: &CircuitTableAir<SC, D>, degree: usize) -> TableBus
where
    SC: StarkGenericConfig,
    Val<SC>: PrimeField64,
    SymbolicExpressionExt<Val<SC>, SC::Challenge>: Algebra<SymbolicExpression<Val<SC>>> + Algebra<SC::Challenge>,
{
    let mut tb = TableBus { name: name.to_string(), ..Default::default() };
    let mut sb = InteractionSymbolicBuilder::<Val<SC>, SC::Challenge>::new(AirLayout::from_air(air));
    Air::eval(air, &mut sb);
    let wc: Vec<_> = sb.global_interactions().iter().filter(|i| i.bus_name == "WitnessChecks").collect();
    for i in sb.global_interactions() {
        if i.bus_name != "WitnessChecks" {
            tb.anomalies.push(format!("other-bus:{}", i.bus_name));
        }
    }
    tb.per_row = wc.len();
    let Some(prep) = air.preprocessed_trace() else {
        if !wc.is_empty() {
            tb.anomalies.push("no-preprocessed-trace".into());
        }
        return tb;
    };
    let h = prep.height();
    tb.height = h;
    if h != 1usize << degree {
        tb.anomalies.push(format!("height-{}-vs-degree-{}", h, degree));
    }
    for (k, it) in wc.iter().enumerate() {
        if it.fields.is_empty() || sym_uses_main(&it.fields[0]) || sym_uses_main(&it.count) {
            tb.anomalies.push(format!("audit-needs-main:interaction-{k}"));
        }
    }
    let p = <Val<SC> as PrimeField64>::ORDER_U64;
    let rows: Vec<Vec<Val<SC>>> = (0..h).map(|r| prep.row_slice(r).unwrap().to_vec()).collect();
    for r in 0..h {
        let (pl, pn) = (&rows[r], &rows[(r + 1) % h]);
        for (k, it) in wc.iter().enumerate() {
            if it.fields.is_empty() {
                continue;
            }
            let m = sym_eval(&it.count, pl, pn, r == 0, r == h - 1).as_canonical_u64();
            let idx = sym_eval(&it.fields[0], pl, pn, r == 0, r == h - 1).as_canonical_u64();
            let mult = if m > p / 2 { m as i64 - p as i64 } else { m as i64 };
            tb.inters.push(Inter { row: r, k, idx, mult });
        }
    }
    tb
}

/// Names of the dynamic tables, by repeating the (builder x op type) pairing loop of
/// `get_airs_and_degrees_with_prep` on the map it returned (same instance, same iteration order).
pub fn dynamic_names<SC, const D: usize>(nonprim: &NonPrimitivePreprocessedMap<Val<SC>>, builders: &[Box<dyn NpoAirBuilder<SC, D>>]) -> Vec<String>
where
    SC: StarkGenericConfig,
    SymbolicExpressionExt<Val<SC>, SC::Challenge>: Algebra<SymbolicExpression<Val<SC>>>,
{
    let mut names = vec![];
    for b in builders {
        for (op_type, prep) in nonprim.iter() {
            if b.try_build(op_type, prep, 1, 1, ConstraintProfile::Standard).is_some() {
                names.push(op_type.as_str().to_string());
                break;
            }
        }
    }
    names
}

pub fn all_buses<SC, const D: usize>(airs: &[(CircuitTableAir<SC, D>, usize)], dyn_names: &[String]) -> Vec<TableBus>
where
    SC: StarkGenericConfig,
    Val<SC>: PrimeField64,
    SymbolicExpressionExt<Val<SC>, SC::Challenge>: Algebra<SymbolicExpression<Val<SC>>> + Algebra<SC::Challenge>,
{
    let mut out = vec![];
    let mut di = 0;
    for (air, deg) in airs {
        let name = match air {
            CircuitTableAir::Const(_) => "const".to_string(),
            CircuitTableAir::Public(_) => "public".to_string(),
            CircuitTableAir::Alu(_) => "alu".to_string(),
            CircuitTableAir::Dynamic(_) => {
                di += 1;
                dyn_names.get(di - 1).cloned().unwrap_or_else(|| format!("dynamic-{}", di - 1))
            }
        };
        out.push(table_bus(&name, air, *deg));
    }
    out
}

// ---------------------------------------------------------------------------------------------
// operand occurrences read off the op list

#[derive(Clone, Debug)]
pub struct Occ {
    pub table: String,
    /// row of the table when the table keeps op order (NPO tables, lanes = 1); None: judged per table
    pub row: Option<usize>,
    pub kind: String,
    pub slot: u32,
    pub op: usize,
}

#[derive(Clone, Debug)]
pub struct PosShape {
    pub d: usize,
    pub width_ext: usize,
    pub rate_ext: usize,
    pub arity4: bool,
    pub compact: bool,
}

pub fn poseidon_shape(op_type: &str) -> Option<PosShape> {
    if let Some(s) = op_type.strip_prefix("poseidon2_perm/") {
        let c = Poseidon2Config::from_variant_name(s)?;
        return Some(PosShape { d: c.d(), width_ext: c.width_ext(), rate_ext: c.rate_ext(), arity4: c.is_arity4_shape(), compact: c.d() == 1 && c.width_ext() == 16 && c.rate_ext() == 8 });
    }
    if let Some(s) = op_type.strip_prefix("poseidon1_perm/") {
        let c = Poseidon1Config::from_variant_name(s)?;
        return Some(PosShape { d: c.d(), width_ext: c.width_ext(), rate_ext: c.rate_ext(), arity4: false, compact: c.d() == 1 && c.width_ext() == 16 && c.rate_ext() == 8 });
    }
    None
}

fn dbg_flag(dbg: &str, name: &str) -> bool {
    dbg.contains(&format!("{name}: true"))
}

/// (occurrences, structural flags that need no bus data, op-list text for the Lean driver)
pub fn occurrences<F: Field>(c: &Circuit<F>) -> (Vec<Occ>, Vec<Value>, Vec<String>) {
    let mut occ = vec![];
    let mut structural = vec![];
    let mut lines = vec![];
    let mut rows: BTreeMap<String, usize> = BTreeMap::new();
    let j = |v: &[p3_circuit::WitnessId]| v.iter().map(|w| w.0.to_string()).collect::<Vec<_>>().join(",");
    let jj = |v: &[Vec<p3_circuit::WitnessId>]| v.iter().map(|g| if g.is_empty() { "-".to_string() } else { j(g) }).collect::<Vec<_>>().join(" ");
    for (oi, op) in c.ops.iter().enumerate() {
        match op {
            Op::Const { out, .. } => {
                occ.push(Occ { table: "const".into(), row: None, kind: "const.out".into(), slot: out.0, op: oi });
                lines.push(format!("const {}", out.0));
            }
            Op::Public { out, .. } => {
                occ.push(Occ { table: "public".into(), row: None, kind: "public.out".into(), slot: out.0, op: oi });
                lines.push(format!("pub {}", out.0));
            }
            Op::Alu { a, b, c: cc, out, .. } => {
                for (k, w) in [("a", Some(a)), ("b", Some(b)), ("c", cc.as_ref()), ("out", Some(out))] {
                    if let Some(w) = w {
                        occ.push(Occ { table: "alu".into(), row: None, kind: format!("alu.{k}"), slot: w.0, op: oi });
                    }
                }
                lines.push(format!("alu {} {} {} {}", a.0, b.0, cc.map(|w| w.0.to_string()).unwrap_or("-".into()), out.0));
            }
            Op::Hint { inputs, outputs, .. } => {
                lines.push(format!("hint {} | {}", j(inputs), j(outputs)));
            }
            Op::NonPrimitiveOpWithExecutor { inputs, outputs, executor, .. } => {
                let ty = executor.op_type().as_str().to_string();
                let row = {
                    let r = rows.entry(ty.clone()).or_default();
                    *r += 1;
                    *r - 1
                };
                let dbg = format!("{executor:?}");
                if let Some(sh) = poseidon_shape(&ty) {
                    let (ns, mk) = (dbg_flag(&dbg, "new_start"), dbg_flag(&dbg, "merkle_path"));
                    let mode = if !mk { "sponge".to_string() } else if sh.arity4 { "merkle4".to_string() } else { "merkle2".to_string() };
                    let sum_wired = inputs.get(sh.width_ext).map(|g| !g.is_empty()).unwrap_or(false);
                    for (i, g) in inputs.iter().enumerate() {
                        let kind = if i < sh.width_ext {
                            "in"
                        } else if i == sh.width_ext {
                            "sum"
                        } else if i == sh.width_ext + 1 {
                            if sum_wired { "bit.sum-wired" } else { "bit" }
                        } else {
                            "bit2"
                        };
                        for w in g {
                            occ.push(Occ { table: ty.clone(), row: Some(row), kind: format!("poseidon.{mode}.{kind}"), slot: w.0, op: oi });
                        }
                    }
                    for (i, g) in outputs.iter().enumerate() {
                        let kind = if i < sh.rate_ext { "out" } else { "capout" };
                        for w in g {
                            occ.push(Occ { table: ty.clone(), row: Some(row), kind: format!("poseidon.{mode}.{kind}"), slot: w.0, op: oi });
                        }
                    }
                    // F-C11-P1: a reset sponge row's unfed limb is neither chained, nor constrained, nor on the bus
                    if ns && !mk {
                        let n = if sh.compact { sh.rate_ext } else { sh.width_ext };
                        let unfed: Vec<usize> = (0..n.min(inputs.len())).filter(|i| inputs[*i].is_empty()).collect();
                        if !unfed.is_empty() {
                            structural.push(json!({"class": format!("operand-off-bus:poseidon.sponge.new-start-unfed-limb:{}", if sh.compact { "compact-d1" } else { "generic" }),
                                "op": oi, "table": ty, "row": row, "limbs": unfed}));
                        }
                    }
                    lines.push(format!("npo pos {} {} {} {} {} {} {} | {} | {}", ty.replace(' ', "_"), if mk { 1 } else { 0 }, if sh.arity4 { 1 } else { 0 }, if sh.compact { 1 } else { 0 }, sh.width_ext, sh.rate_ext, if ns { 1 } else { 0 }, jj(inputs), jj(outputs)));
                } else if ty == "recompose" || ty == "recompose/coeff" {
                    let t = if ty == "recompose" { "recompose" } else { "recompose-coeff" };
                    for w in inputs.first().map(|g| g.as_slice()).unwrap_or(&[]) {
                        occ.push(Occ { table: ty.clone(), row: Some(row), kind: format!("{t}.coeff"), slot: w.0, op: oi });
                    }
                    for g in outputs {
                        for w in g {
                            occ.push(Occ { table: ty.clone(), row: Some(row), kind: format!("{t}.out"), slot: w.0, op: oi });
                        }
                    }
                    lines.push(format!("npo {} | {} | {}", if ty == "recompose" { "rec" } else { "recc" }, jj(inputs), jj(outputs)));
                } else {
                    for g in inputs {
                        for w in g {
                            occ.push(Occ { table: ty.clone(), row: Some(row), kind: format!("npo[{ty}].in"), slot: w.0, op: oi });
                        }
                    }
                    for g in outputs {
                        for w in g {
                            occ.push(Occ { table: ty.clone(), row: Some(row), kind: format!("npo[{ty}].out"), slot: w.0, op: oi });
                        }
                    }
                    lines.push(format!("npo other | {} | {}", jj(inputs), jj(outputs)));
                }
            }
        }
    }
    (occ, structural, lines)
}

// ---------------------------------------------------------------------------------------------
// the audit proper

#[derive(Clone, Debug, Default, PartialEq)]
pub struct SlotStat {
    pub creators: u32,
    pub sent: i64,
    pub reads: i64,
    pub reader_inters: u32,
}

pub struct Audit {
    pub slots: Vec<SlotStat>,
    pub flags: Vec<Value>,
    pub anomalies: Vec<String>,
    pub n_inters: usize,
    pub n_nonzero: usize,
    pub tables: Vec<String>,
}

/// kinds that by construction register no read and push no (non-zero) interaction
fn by_design_off(kind: &str) -> bool {
    kind == "recompose.coeff" || kind == "recompose-coeff.coeff" || kind.ends_with(".capout") || kind.contains(".merkle2.in") || kind.contains(".merkle2.bit") || kind.contains(".skip")
}

/// `alu12`: the 12-value ALU rows of the real `generate_preprocessed_columns` (op order), `ext_reads` its read
/// counts; both are used only to *name* the ALU position behind a table-level deficit, never to detect one.
pub fn audit<F: Field>(c: &Circuit<F>, d: usize, buses: &[TableBus], hint_outs: &HashSet<u32>, alu12: &[u64], ext_reads: &[u32]) -> Audit {
    let (occ, structural, _) = occurrences(c);
    let wc = c.witness_count as usize;
    let mut slots = vec![SlotStat::default(); wc];
    let mut anomalies: Vec<String> = vec![];
    let mut flags: Vec<Value> = structural;
    let (mut n_inters, mut n_nonzero) = (0, 0);
    // units of participation: per (table,row) for NPO tables, per table otherwise
    let mut units: BTreeMap<(String, Option<usize>, u32), i64> = BTreeMap::new();
    let row_keyed: BTreeSet<String> = occ.iter().filter(|o| o.row.is_some()).map(|o| o.table.clone()).collect();
    for tb in buses {
        for a in &tb.anomalies {
            anomalies.push(format!("{}:{}", tb.name, a));
        }
        for it in &tb.inters {
            n_inters += 1;
            if it.mult == 0 {
                continue;
            }
            n_nonzero += 1;
            if it.idx % d as u64 != 0 {
                anomalies.push(format!("{}:index-not-multiple-of-D:row{}:{}", tb.name, it.row, it.idx));
                continue;
            }
            let s = (it.idx / d as u64) as usize;
            if s >= wc {
                anomalies.push(format!("{}:slot-out-of-range:row{}:{}", tb.name, it.row, s));
                continue;
            }
            let st = &mut slots[s];
            if it.mult > 0 {
                st.creators += 1;
                st.sent += it.mult;
            } else {
                st.reads += -it.mult;
                st.reader_inters += 1;
            }
            let key = (tb.name.clone(), if row_keyed.contains(&tb.name) { Some(it.row) } else { None }, s as u32);
            *units.entry(key).or_default() += if it.mult > 0 { 1 } else { -it.mult };
        }
    }
    let mut expect: BTreeMap<(String, Option<usize>, u32), Vec<&Occ>> = BTreeMap::new();
    let mut total_occ: BTreeMap<u32, usize> = BTreeMap::new();
    for o in &occ {
        expect.entry((o.table.clone(), o.row, o.slot)).or_default().push(o);
        *total_occ.entry(o.slot).or_default() += 1;
    }
    // a table must not touch slots its op (row-exact tables) / its ops (ALU, Const, Public) do not name
    for (k, u) in &units {
        if !expect.contains_key(k) {
            flags.push(json!({"class": "interaction-on-foreign-slot", "table": k.0, "row": k.1, "slot": k.2, "units": u}));
        }
    }
    let privs: HashSet<u32> = c.private_input_rows.iter().map(|w| w.0).collect();
    // slots sharing an ALU row with a non-exposed NPO output (the row's roles are decided as if that slot were free)
    let cap_slots: HashSet<u32> = occ.iter().filter(|o| o.kind.ends_with(".capout")).map(|o| o.slot).collect();
    let cap_ops: HashSet<usize> = occ.iter().filter(|o| o.table == "alu" && cap_slots.contains(&o.slot)).map(|o| o.op).collect();
    let mut cap_adjacent: HashSet<u32> = occ.iter().filter(|o| o.table == "alu" && cap_ops.contains(&o.op)).map(|o| o.slot).collect();
    // ... and, transitively, the operands of ALU rows whose `out` is such a slot (a row solving for `b` whose given
    // `out` was never defined is treated as a forward row: `b` becomes a reader without creator, and so on)
    loop {
        let ops: HashSet<usize> = occ.iter().filter(|o| o.kind == "alu.out" && cap_adjacent.contains(&o.slot)).map(|o| o.op).collect();
        let more: Vec<u32> = occ.iter().filter(|o| o.table == "alu" && ops.contains(&o.op) && !cap_adjacent.contains(&o.slot)).map(|o| o.slot).collect();
        if more.is_empty() {
            break;
        }
        cap_adjacent.extend(more);
    }
    // where a slot without a (single) creator comes from, by priority: one suffix, closed set of classes
    let origin = |s: u32, base: &str| -> Option<&'static str> {
        // the scan never gives a slot two creators (Lean: C09.one_creator_npo): a second creator is a send that
        // bypasses the scan, i.e. a recompose/coeff coefficient tuple
        if base == "two-creators" && hint_outs.contains(&s) && occ.iter().any(|o| o.slot == s && o.kind == "recompose-coeff.coeff") {
            return Some("hint-out:recompose-coeff");
        }
        let mut per_table: BTreeMap<&str, usize> = BTreeMap::new();
        for o in occ.iter().filter(|o| o.slot == s && o.row.is_some() && o.kind.ends_with(".out")) {
            *per_table.entry(o.table.as_str()).or_default() += 1;
        }
        if per_table.values().any(|n| *n >= 2) {
            return Some("duplicate-npo-output-same-table");
        }
        if occ.iter().any(|o| o.slot == s && o.kind.ends_with(".capout")) {
            return Some("npo-capacity-output");
        }
        if hint_outs.contains(&s) {
            if occ.iter().any(|o| o.slot == s && o.kind == "recompose-coeff.coeff") {
                return Some("hint-out:recompose-coeff");
            }
            return Some("hint-out");
        }
        if occ.iter().any(|o| o.slot == s && (o.kind == "recompose.coeff" || o.kind == "recompose-coeff.coeff")) {
            return Some("recompose-coefficient");
        }
        if cap_adjacent.contains(&s) {
            return Some("npo-capacity-output");
        }
        if privs.contains(&s) {
            return Some("private");
        }
        None
    };
    for s in 0..wc {
        let st = &slots[s];
        let base = if st.creators >= 2 {
            "two-creators"
        } else if st.reads > 0 && st.creators == 0 {
            "read-without-creator"
        } else if st.creators == 1 && st.sent != st.reads {
            "multiplicity-mismatch"
        } else {
            continue;
        };
        let class = match origin(s as u32, base) {
            Some(o) => format!("{base}:{o}"),
            None => base.to_string(),
        };
        let kinds: BTreeSet<String> = occ.iter().filter(|x| x.slot == s as u32).map(|x| x.kind.clone()).collect();
        flags.push(json!({"class": class, "slot": s, "creators": st.creators, "sent": st.sent, "reads": st.reads, "operand_kinds": kinds}));
    }
    // ALU positions per slot, from the 12-value rows: (kind, state) with state skip / silent (creator, nobody reads)
    let mut alu_pos: BTreeMap<u32, Vec<String>> = BTreeMap::new();
    for r in alu12.chunks_exact(12) {
        let slot = |i: usize| (r[i] / d as u64) as u32;
        let rd = |s: u32| ext_reads.get(s as usize).copied().unwrap_or(0);
        let kind_has_c = r[2] == 1 || r[3] == 1;
        if r[8] == 0 {
            alu_pos.entry(slot(4)).or_default().push("alu.a.skip".into());
        } else if r[8] == 2 && rd(slot(4)) == 0 {
            alu_pos.entry(slot(4)).or_default().push("alu.a.silent".into());
        }
        if kind_has_c {
            if r[10] == 0 {
                alu_pos.entry(slot(6)).or_default().push("alu.c.skip".into());
            } else if r[10] == 2 && rd(slot(6)) == 0 {
                alu_pos.entry(slot(6)).or_default().push("alu.c.silent".into());
            }
        }
        if r[9] == 1 && rd(slot(5)) == 0 {
            alu_pos.entry(slot(5)).or_default().push("alu.b.silent".into());
        }
        if r[11] == 1 && rd(slot(7)) == 0 {
            alu_pos.entry(slot(7)).or_default().push("alu.out.silent".into());
        }
    }
    // operands off the bus: fewer units than operand occurrences, on a slot that another operand shares
    let mut off: BTreeMap<u32, BTreeSet<String>> = BTreeMap::new();
    for (k, os) in &expect {
        let have = units.get(k).copied().unwrap_or(0);
        let want = os.len() as i64;
        if have >= want || total_occ[&k.2] < 2 {
            continue;
        }
        let e = off.entry(k.2).or_default();
        if k.1.is_some() {
            // kinds that never contribute units are named first; the others only if the units do not even cover them
            let want_on = os.iter().filter(|o| !by_design_off(&o.kind)).count() as i64;
            for o in os {
                if by_design_off(&o.kind) || have < want_on {
                    e.insert(o.kind.clone());
                }
            }
        } else if k.0 == "alu" {
            match alu_pos.get(&k.2) {
                Some(v) => e.extend(v.iter().cloned()),
                None => {
                    e.insert("alu.unattributed".into());
                }
            }
        } else {
            e.insert(format!("{}.silent", os[0].kind));
        }
    }
    for (s, kinds) in off {
        let st = &slots[s as usize];
        let has_cap = cap_slots.contains(&s) || cap_adjacent.contains(&s);
        let mut culprits: Vec<String> = kinds.iter().filter(|k| by_design_off(k)).cloned().collect();
        if culprits.is_empty() {
            // nothing is off the bus by construction: creators nobody reads (multiplicity 0 by design) sharing a slot
            let rest: Vec<String> = kinds.iter().filter(|k| !(st.reads == 0 && k.ends_with(".out"))).cloned().collect();
            culprits = vec![format!("silent:{}", if rest.is_empty() { kinds.iter().cloned().collect::<Vec<_>>().join("+") } else { rest.join("+") })];
        }
        for k in culprits {
            let k = if k.contains(".skip") && has_cap { format!("{k}:npo-capacity-output") } else { k };
            flags.push(json!({"class": format!("operand-off-bus:{k}"), "slot": s, "creators": st.creators, "sent": st.sent, "reads": st.reads, "off_bus_kinds": kinds}));
        }
    }
    Audit { slots, flags, anomalies, n_inters, n_nonzero, tables: buses.iter().map(|b| format!("{}:{}x{}", b.name, b.height, b.per_row)).collect() }
}

// ---------------------------------------------------------------------------------------------
// driver

fn fnv(s: &str) -> u64 {
    let mut h = 0xcbf29ce484222325u64;
    for b in s.bytes() {
        h = (h ^ b as u64).wrapping_mul(0x100000001b3);
    }
    h
}

pub fn main(args: &crate::Args) {
    let seed = args.u64("seed", 1);
    let nprog = args.u64("programs", 300) as usize;
    let nprove = args.u64("prove", 12) as usize;
    let max_calls = args.u64("max-calls", 24) as usize;
    let out = args.str("out", "/tmp/p3r");
    std::fs::create_dir_all(&out).unwrap();
    let mut cases = std::io::BufWriter::new(std::fs::File::create(format!("{out}/busaudit.cases")).unwrap());
    let mut implo = std::io::BufWriter::new(std::fs::File::create(format!("{out}/busaudit.impl")).unwrap());
    let mut rng = Rng::new(seed ^ 0xc09b05);
    let mut hist: BTreeMap<String, u64> = BTreeMap::new();
    let mut violations: Vec<Value> = vec![];
    let mut samples: Vec<Value> = vec![];
    let mut distinct = HashSet::new();
    let mut todo: Vec<(pgen::Prog, String)> = vec![];
    if let Some(dir) = args.opt("corpus") {
        let mut files: Vec<_> = std::fs::read_dir(&dir).map(|d| d.filter_map(|e| e.ok()).map(|e| e.path()).collect()).unwrap_or_default();
        files.sort();
        for f in files {
            let Ok(txt) = std::fs::read_to_string(&f) else { continue };
            let Ok(v) = serde_json::from_str::<Value>(&txt) else { continue };
            let v = if v.get("npo_program").is_some() { v } else { v["replay"].clone() };
            if let Some(p) = pgen::Prog::from_json(&v) {
                todo.push((p, format!("corpus:{}", f.file_name().unwrap().to_string_lossy())));
            }
        }
    }
    for p in pgen::fixed_programs() {
        todo.push((p.0, format!("fixed:{}", p.1)));
    }
    for i in 0..nprog {
        let mut r = rng.fork();
        let p = pgen::generate(&mut r, max_calls, i);
        todo.push((p, format!("gen:{seed}:{i}")));
    }
    let mut proved = 0usize;
    let mut programs = 0usize;
    let mut class_counts: BTreeMap<String, u64> = BTreeMap::new();
    let mut prove_notes: Vec<Value> = vec![];
    for (prog, id) in todo {
        programs += 1;
        let text = prog.text();
        distinct.insert(fnv(&text));
        let replay = prog.to_json(&id);
        let want_prove = prog.provable && (proved < nprove || id.starts_with("fixed:") || id.starts_with("corpus:"));
        let res = catch_unwind(AssertUnwindSafe(|| pgen::run_case(&prog, want_prove)));
        let r = match res {
            Ok(r) => r,
            Err(p) => {
                *hist.entry("panic".into()).or_default() += 1;
                let m = p.downcast_ref::<String>().cloned().or_else(|| p.downcast_ref::<&str>().map(|s| s.to_string())).unwrap_or_default();
                violations.push(json!({"property":"C09","kind":"bus-audit-panic","class":"panic:bus-audit","detail":m.chars().take(300).collect::<String>(),"replay":replay}));
                continue;
            }
        };
        *hist.entry(format!("cfg.{}", prog.cfg)).or_default() += 1;
        *hist.entry(format!("outcome.{}", r.outcome)).or_default() += 1;
        if r.audit.is_none() && (id.starts_with("fixed:") || id.starts_with("corpus:")) {
            violations.push(json!({"property":"C09","kind":"bus-audit-setup","class":format!("pinned-program-not-audited:{}", r.outcome),"replay":replay}));
        }
        for (k, v) in &r.hist {
            *hist.entry(k.clone()).or_default() += v;
        }
        if r.audit.is_none() {
            continue;
        }
        writeln!(cases, "circ {} {} {}", id, r.d, r.witness_count).unwrap();
        writeln!(implo, "circ {} {} {}", id, r.d, r.witness_count).unwrap();
        for l in &r.op_lines {
            writeln!(cases, "{l}").unwrap();
        }
        writeln!(cases, "end").unwrap();
        for l in &r.impl_lines {
            writeln!(implo, "{l}").unwrap();
        }
        let Some(a) = r.audit else { continue };
        for an in &a.anomalies {
            *hist.entry(format!("anomaly.{}", an.split(':').skip(1).next().unwrap_or(an))).or_default() += 1;
            violations.push(json!({"property":"C09","kind":"bus-audit-anomaly","class":format!("audit-anomaly:{}", an.split(':').skip(1).next().unwrap_or(an)),"detail":an,"replay":replay}));
        }
        let mut seen = BTreeSet::new();
        for f in &a.flags {
            let class = f["class"].as_str().unwrap_or("?").to_string();
            *hist.entry(format!("flag.{class}")).or_default() += 1;
            if !seen.insert(class.clone()) {
                continue;
            }
            let n = class_counts.entry(class.clone()).or_default();
            *n += 1;
            if *n <= 3 {
                violations.push(json!({"property":"C09","kind":"bus-audit","class":class,"detail":f,"count_note":"first 3 circuits per class keep their replay","replay":replay}));
            }
        }
        if let Some(pv) = &r.prove {
            proved += 1;
            *hist.entry(format!("prove.{}", pv.split(':').next().unwrap_or(pv))).or_default() += 1;
            if pv != "accepted" && prove_notes.len() < 12 {
                prove_notes.push(json!({"id": id, "result": pv}));
            }
            // second opinion: a circuit the audit calls balanced must prove and verify; an unbalanced one must not
            let unbalanced = a.flags.iter().any(|f| {
                let c = f["class"].as_str().unwrap_or("");
                c.starts_with("two-creators") || c.starts_with("read-without-creator") || c.starts_with("multiplicity-mismatch")
            });
            if pv == "accepted" && unbalanced {
                violations.push(json!({"property":"C09","kind":"audit-vs-prover","class":"audit-disagrees-with-prover:unbalanced-but-proved","replay":replay}));
            }
            if pv != "accepted" && !pv.starts_with("run-") && !unbalanced {
                violations.push(json!({"property":"C09","kind":"audit-vs-prover","class":format!("audit-disagrees-with-prover:balanced-but-{}", pv.split(':').next().unwrap_or(pv)),"detail":pv,"replay":replay}));
            }
        }
        if samples.len() < 3 && a.n_nonzero > 20 {
            samples.push(json!({"program": prog.lines, "cfg": prog.cfg, "tables": a.tables, "interactions": a.n_inters, "nonzero": a.n_nonzero,
                "flags": a.flags.iter().map(|f| f["class"].clone()).collect::<Vec<_>>()}));
        }
    }
    cases.flush().unwrap();
    implo.flush().unwrap();
    let report = json!({"programs": programs, "distinct_programs": distinct.len(), "proved": proved, "hist": hist, "class_counts": class_counts,
        "violations": violations, "samples": samples, "seed": seed, "prove_notes": prove_notes});
    std::fs::write(format!("{out}/busaudit.report.json"), serde_json::to_string_pretty(&report).unwrap()).unwrap();
    println!("busaudit: programs={} proved={} violations={}", programs, proved, violations.len());
}
